import NakenVerif.Safe.Amiga
import NakenVerif.Safe.ProofsCFile
/-
C17 — read_amiga (as fixed) terminates on every byte string: no loop outlives its fuel `f.size + 2`.
Measure: the distance of the stream from the end of the file (every round reads a byte or stops).
-/
namespace NakenVerif.Safe.Amiga
open NakenVerif.Safe

theorem readInt32_readsSome (f : Bytes) (p : FPos) : ReadsSome f p (readInt32 f p).2 :=
  getInt32_readsSome true f p

/-- the flag is clear after `read_int32` only if it was clear before and all four bytes were there -/
theorem readInt32_not_eof {f : Bytes} {p : FPos} (h : (readInt32 f p).2.eof = false) :
    (readInt32 f p).2.pos = p.pos + 4 ∧ p.pos + 4 ≤ f.size := by
  unfold readInt32 at h ⊢
  rw [getInt32_pos] at h ⊢
  have h4 := getc_not_eof h
  have h3 := getc_not_eof h4.1
  have h2 := getc_not_eof h3.1
  have h1 := getc_not_eof h2.1
  omega

theorem readInt32_eof_at_end (f : Bytes) (p : FPos) (h : f.size ≤ p.pos) : (readInt32 f p).2.eof = true := by
  unfold readInt32
  rw [getInt32_pos]
  exact getc_eof_sticky _ _ (getc_eof_sticky _ _ (getc_eof_sticky _ _ (getc_eof_at_end f p h)))

theorem nameLoop_ok (f : Bytes) : ∀ (fuel left : Nat) (p : FPos), f.size - p.pos < fuel →
    ∃ q, nameLoop f fuel left p = .ok q ∧ Reads f p q := by
  intro fuel
  induction fuel with
  | zero => intro left p h; omega
  | succ fuel ih =>
    intro left p h
    unfold nameLoop
    split
    · exact ⟨p, rfl, Reads.refl f p⟩
    · have hr := getc_readsSome f p
      generalize hg : getc f p = cp at hr
      obtain ⟨c, p1⟩ := cp
      simp only
      cases c with
      | none => exact ⟨p1, rfl, hr.reads⟩
      | some b =>
        have hs := getc_some (f := f) (p := p) (b := b) (by rw [hg])
        rw [hg] at hs
        simp only at hs
        obtain ⟨q, hq, hrq⟩ := ih (left - 1) p1 (by omega)
        exact ⟨q, hq, hr.reads.trans hrq⟩

theorem tableLoop_ok (f : Bytes) : ∀ (fuel left : Nat) (p : FPos),
    (f.size - p.pos) + (if p.eof then 0 else 1) < fuel →
    ∃ q, tableLoop f fuel left p = .ok q ∧ Reads f p q := by
  intro fuel
  induction fuel with
  | zero => intro left p h; omega
  | succ fuel ih =>
    intro left p h
    unfold tableLoop
    split
    · exact ⟨p, rfl, Reads.refl f p⟩
    · split
      · exact ⟨p, rfl, Reads.refl f p⟩
      · rename_i he
        have hr := readInt32_readsSome f p
        have hm : (f.size - (readInt32 f p).2.pos) + (if (readInt32 f p).2.eof then 0 else 1) < fuel := by
          simp only [he, Bool.false_eq_true, ↓reduceIte] at h
          by_cases hp : p.pos < f.size
          · have := hr.2 hp
            split <;> omega
          · have := readInt32_eof_at_end f p (by omega)
            rw [this]
            have := hr.1.1
            simp only [↓reduceIte]
            omega
        obtain ⟨q, hq, hrq⟩ := ih (left - 1) _ hm
        exact ⟨q, hq, hr.reads.trans hrq⟩

theorem readHunkHeader_ok (f : Bytes) (p : FPos) :
    ∃ t q, readHunkHeader f p = .ok (t, q) ∧ Reads f p q := by
  unfold readHunkHeader
  have h1 := readInt32_readsSome f p
  generalize readInt32 f p = r1 at h1
  obtain ⟨nl, p1⟩ := r1
  simp only at h1 ⊢
  obtain ⟨p2, hp2, hr2⟩ := nameLoop_ok f (f.size + 2) ((nl * 4#32).toNat) p1 (by omega)
  rw [hp2]
  simp only
  have h3 := readInt32_readsSome f p2
  generalize readInt32 f p2 = r3 at h3
  obtain ⟨tl, p3⟩ := r3
  have h4 := readInt32_readsSome f p3
  generalize readInt32 f p3 = r4 at h4
  obtain ⟨_, p4⟩ := r4
  have h5 := readInt32_readsSome f p4
  generalize readInt32 f p4 = r5 at h5
  obtain ⟨_, p5⟩ := r5
  simp only at h3 h4 h5 ⊢
  obtain ⟨p6, hp6, hr6⟩ := tableLoop_ok f (f.size + 2) tl.toNat p5 (by split <;> omega)
  rw [hp6]
  exact ⟨_, _, rfl, ((((h1.reads.trans hr2).trans h3.reads).trans h4.reads).trans h5.reads).trans hr6⟩

theorem codeLoop_ok (f : Bytes) : ∀ (fuel n length : Nat) (p : FPos) (m : Mem), f.size - p.pos < fuel →
    ∃ m', codeLoop f fuel n length p m = .ok m' := by
  intro fuel
  induction fuel with
  | zero => intro n length p m h; omega
  | succ fuel ih =>
    intro n length p m h
    unfold codeLoop
    split
    · generalize hg : getc f p = cp
      obtain ⟨c, p1⟩ := cp
      simp only
      cases c with
      | none => exact ⟨m, rfl⟩
      | some b =>
        have hs := getc_some (f := f) (p := p) (b := b) (by rw [hg])
        rw [hg] at hs
        simp only at hs
        exact ih _ _ _ _ (by omega)
    · exact ⟨m, rfl⟩

theorem hunkLoop_ok (f : Bytes) : ∀ (fuel : Nat) (p : FPos) (t : Nat) (len : BitVec 32) (m : Mem),
    f.size - p.pos + 1 < fuel → ∃ r, hunkLoop f fuel p t len m = .ok r := by
  intro fuel
  induction fuel with
  | zero => intro p t len m h; omega
  | succ fuel ih =>
    intro p t len m h
    unfold hunkLoop
    have hne := @readInt32_not_eof f p
    generalize readInt32 f p = r1 at hne
    obtain ⟨ht, p1⟩ := r1
    simp only at hne ⊢
    split
    · exact ⟨_, rfl⟩
    · rename_i he
      have hpos := hne (by simpa using he)
      -- the stream after the table look-up is back at `p1.pos`
      have hback : (if t ≠ 0 then restore p1 p1.pos else p1).pos = p1.pos := by
        split <;> rfl
      generalize hp2 : (if t ≠ 0 then restore p1 p1.pos else p1) = p2 at hback
      generalize (if t ≠ 0 then (readInt32 f (restore p1 t)).1 else len) = len2
      split
      · obtain ⟨t', q, hq, hrq⟩ := readHunkHeader_ok f p2
        rw [hq]
        exact ih _ _ _ _ (by have := hrq.1; omega)
      · split
        · generalize readInt32 f p2 = r2
          obtain ⟨l2, p3⟩ := r2
          simp only
          obtain ⟨m1, hm1⟩ := codeLoop_ok f (f.size + 2) 0 ((l2 * 4#32).toNat) p3 m (by omega)
          rw [hm1]
          exact ⟨_, rfl⟩
        · split
          · exact ⟨_, rfl⟩
          · exact ih _ _ _ _ (by simp only; omega)

/-- `read_amiga` loads or rejects every byte string; the hunk loop makes at most `f.size + 2` rounds -/
theorem read_total (f : Bytes) : ∃ r, read f = .ok r := by
  unfold read
  generalize readInt32 f {} = r0
  obtain ⟨magic, p0⟩ := r0
  simp only
  split
  · exact ⟨_, rfl⟩
  · exact hunkLoop_ok f _ _ _ _ _ (by simp)

end NakenVerif.Safe.Amiga
