import NakenVerif.Safe.CFile
/-
C17 — transcription of /repo/fileio/read_elf.cpp (as fixed: the section copy loop stops at `EOF`, the symbol
loop stops at the last complete symbol of the file) over an arbitrary byte string.

Every count, size and offset of the file is used as the code uses it, unchecked: `e_shoff`, `e_shentsize`,
`e_shnum`, `e_shstrndx` (the last three are the `int` a possibly short `get_int16` returns), `sh_name`,
`sh_offset`, `sh_size`, `st_name`.  Arrays: `e_ident[16]` (filled by one `fread` of 16, indexed by constants),
`name[256]` (128 before proposed fix C03-14; filled by `get_string_at_offset(name, sizeof(name), ...)`, capacity and length parameter `nameCap`).
Loops: the two section table walks make `max 0 e_shnum <= 65535` rounds each (structural); the copy loop and
the symbol loop are given fuel `f.size + 2` and the theorem is that it never runs out.
`e_machine` only selects the CPU (`file_read` is called with `allow_unknown_cpu == 0`, so no value is an error).
-/
namespace NakenVerif.Safe.Elf
open NakenVerif.Safe

structure Shdr where
  name : BitVec 32
  type : BitVec 32
  flags : BitVec 64
  addr : BitVec 64
  offset : BitVec 64
  size : BitVec 64

def readShdr (is32 be : Bool) (f : Bytes) (p : FPos) : Shdr × FPos :=
  let (nm, p) := getInt32 be f p
  let (ty, p) := getInt32 be f p
  if is32 then
    let (fl, p) := getInt32 be f p
    let (ad, p) := getInt32 be f p
    let (of, p) := getInt32 be f p
    let (sz, p) := getInt32 be f p
    ({ name := nm, type := ty, flags := u64 fl, addr := u64 ad, offset := u64 of, size := u64 sz }, p)
  else
    let (fl, p) := getInt64 be f p
    let (ad, p) := getInt64 be f p
    let (of, p) := getInt64 be f p
    let (sz, p) := getInt64 be f p
    ({ name := nm, type := ty, flags := fl, addr := ad, offset := of, size := sz }, p)

structure Hdr where
  is32 : Bool
  be : Bool
  shoff : BitVec 64
  shentsize : BitVec 32
  shnum : BitVec 32
  shstrndx : BitVec 32

/-- `e_shoff + (n * e_shentsize)`: `int * int` (wraps), converted to `uint64_t` -/
def secOffset (h : Hdr) (n : Nat) : BitVec 64 := h.shoff + s64 (BitVec.ofNat 32 n * h.shentsize)

def strtabName : List UInt8 := ".strtab".toUTF8.toList
def dataName : List UInt8 := ".data".toUTF8.toList
def vectorsName : List UInt8 := ".vectors".toUTF8.toList

/-- first walk: `strtab_offset` = `sh_offset` of the first `SHT_STRTAB` section named `.strtab` (else 0) -/
def findStrtab (maxOff : Nat) (f : Bytes) (nameCap : Nat) (h : Hdr) (stroffset : BitVec 64) :
    Nat → Nat → FPos → Except Fault (BitVec 64 × FPos)
  | 0, _, p => .ok (0#64, p)
  | k + 1, n, p =>
    let p := seekSet maxOff p (secOffset h n)
    let (sh, p) := readShdr h.is32 h.be f p
    if sh.type = 3#32 then
      match getStringAtOffset maxOff f nameCap nameCap p (stroffset + u64 sh.name) with
      | .error e => .error e
      | .ok name =>
        if name = strtabName then .ok (sh.offset, p)
        else findStrtab maxOff f nameCap h stroffset k (n + 1) p
    else findStrtab maxOff f nameCap h stroffset k (n + 1) p

/-- `for (i = 0; i < sh_size; i++) { ch = get_int8(); if (ch == EOF) break; write8(sh_addr + i, ch); }`
(`i` is a `uint32_t`); returns the memory -/
def copyLoop (f : Bytes) (addr size : BitVec 64) : Nat → BitVec 32 → FPos → Mem → Except Fault Mem
  | 0, _, _, _ => .error .outOfFuel
  | fuel + 1, i, p, m =>
    if u64 i < size then
      let (c, p1) := getc f p
      match c with
      | none => .ok m
      | some b => copyLoop f addr size fuel (i + 1#32) p1 (m.write8 (addr + u64 i).toNat b)
    else .ok m

structure Sym where
  name : BitVec 32
  value : BitVec 64
  info : UInt8

def byteOf (c : Option UInt8) : UInt8 := match c with | some b => b | none => 0xff

def readSym (is32 be : Bool) (f : Bytes) (p : FPos) : Sym × FPos :=
  if is32 then
    let (nm, p) := getInt32 be f p
    let (va, p) := getInt32 be f p
    let (_, p) := getInt32 be f p
    let (inf, p) := getc f p
    let (_, p) := getc f p
    let (_, p) := getInt16 be f p
    ({ name := nm, value := u64 va, info := byteOf inf }, p)
  else
    let (nm, p) := getInt32 be f p
    let (inf, p) := getc f p
    let (_, p) := getc f p
    let (_, p) := getInt16 be f p
    let (va, p) := getInt64 be f p
    let (_, p) := getInt64 be f p
    ({ name := nm, value := va, info := byteOf inf }, p)

/-- the symbol table loop (`i` a `uint32_t` stepping by `sym_size`, compared with the 64 bit `sh_size`) -/
def symLoop (maxOff : Nat) (f : Bytes) (nameCap : Nat) (is32 be : Bool) (strtab size : BitVec 64) :
    Nat → BitVec 32 → FPos → List (List UInt8 × Nat) → Except Fault (List (List UInt8 × Nat))
  | 0, _, _, _ => .error .outOfFuel
  | fuel + 1, i, p, syms =>
    let symSize : Nat := if is32 then 16 else 24
    if u64 i < size then
      if p.pos + symSize > f.size then .ok syms
      else
        let (s, p1) := readSym is32 be f p
        match getStringAtOffset maxOff f nameCap nameCap p1 (strtab + u64 s.name) with
        | .error e => .error e
        | .ok name =>
          let syms1 := if s.info ≠ 0 ∧ s.info ≠ 3 ∧ s.info ≠ 4 then (name, s.value.toNat % 4294967296) :: syms else syms
          symLoop maxOff f nameCap is32 be strtab size fuel (i + BitVec.ofNat 32 symSize) p1 syms1
    else .ok syms

structure St where
  start : BitVec 32 := 0xffffffff#32
  stop : BitVec 32 := 0xffffffff#32
  mem : Mem := {}
  syms : List (List UInt8 × Nat) := []

/-- second walk -/
def sectionLoop (maxOff : Nat) (f : Bytes) (nameCap : Nat) (h : Hdr) (stroffset strtab : BitVec 64) :
    Nat → Nat → FPos → St → Except Fault St
  | 0, _, _, st => .ok st
  | k + 1, n, p, st =>
    let p := seekSet maxOff p (secOffset h n)
    let (sh, p) := readShdr h.is32 h.be f p
    match getStringAtOffset maxOff f nameCap nameCap p (stroffset + u64 sh.name) with
    | .error e => .error e
    | .ok name =>
      let isText := sh.flags &&& 4#64 ≠ 0#64
      if isText ∨ name.take 5 = dataName ∨ name = vectorsName then
        let st1 : St :=
          if isText then
            let start := if st.start = 0xffffffff#32 then sh.addr.truncate 32
                         else if u64 st.start > sh.addr then sh.addr.truncate 32 else st.start
            let stop := if st.stop = 0xffffffff#32 then (sh.addr + sh.size - 1#64).truncate 32
                        else if u64 st.stop < sh.addr + sh.size then (sh.addr + sh.size - 1#64).truncate 32 else st.stop
            { st with start := start, stop := stop }
          else st
        let marker := p.pos
        match copyLoop f sh.addr sh.size (f.size + 2) 0#32 (seekSet maxOff p sh.offset) st1.mem with
        | .error e => .error e
        | .ok m => sectionLoop maxOff f nameCap h stroffset strtab k (n + 1) (restore p marker) { st1 with mem := m }
      else if sh.type = 2#32 then
        let marker := p.pos
        match symLoop maxOff f nameCap h.is32 h.be strtab sh.size (f.size + 2) 0#32 (seekSet maxOff p sh.offset) st.syms with
        | .error e => .error e
        | .ok syms => sectionLoop maxOff f nameCap h stroffset strtab k (n + 1) (restore p marker) { st with syms := syms }
      else sectionLoop maxOff f nameCap h stroffset strtab k (n + 1) p st

/-- rounds of `for (n = 0; n < e_shnum; n++)` with `int n, e_shnum` -/
def roundsOf (shnum : BitVec 32) : Nat := shnum.toInt.toNat

/-- `read_elf`; `maxOff` = largest offset `fseek` accepts on the file system holding the file -/
def read (maxOff : Nat) (f : Bytes) (nameCap : Nat := 256) : Except Fault Loaded :=
  let (ident, p) := fread f {} 16
  let id (i : Nat) : UInt8 := ident.getD i 0      -- `memset(e_ident, 0, 16)` before the read
  if id 0 ≠ 0x7f ∨ id 1 ≠ 69 ∨ id 2 ≠ 76 ∨ id 3 ≠ 70 then .ok { ret := -2, mem := {} }
  else
    let is32 := id 4 ≠ 2
    if id 5 ≠ 1 ∧ id 5 ≠ 2 then .ok { ret := -1, mem := {} }
    else
      let be := id 5 = 2
      let (_, p) := getInt16 be f p       -- e_type
      let (_, p) := getInt16 be f p       -- e_machine
      let (_, p) := getInt32 be f p       -- e_version
      let (shoff, p) : BitVec 64 × FPos :=
        if is32 then
          let (_, p) := getInt32 be f p
          let (_, p) := getInt32 be f p
          let (v, p) := getInt32 be f p
          (u64 v, p)
        else
          let (_, p) := getInt64 be f p
          let (_, p) := getInt64 be f p
          getInt64 be f p
      let (_, p) := getInt32 be f p       -- e_flags
      let (_, p) := getInt16 be f p       -- e_ehsize
      let (_, p) := getInt16 be f p       -- e_phentsize
      let (_, p) := getInt16 be f p       -- e_phnum
      let (shentsize, p) := getInt16 be f p
      let (shnum, p) := getInt16 be f p
      let (shstrndx, p) := getInt16 be f p
      let h : Hdr := { is32 := is32, be := be, shoff := shoff, shentsize := shentsize, shnum := shnum, shstrndx := shstrndx }
      -- `file.set(e_shoff + (e_shstrndx * e_shentsize) + 16 | 24); stroffset = get_int32 | get_int64`
      let p := seekSet maxOff p (shoff + s64 (shstrndx * shentsize) + (if is32 then 16#64 else 24#64))
      let (stroffset, p) : BitVec 64 × FPos :=
        if is32 then let (v, p) := getInt32 be f p; (u64 v, p) else getInt64 be f p
      match findStrtab maxOff f nameCap h stroffset (roundsOf shnum) 0 p with
      | .error e => .error e
      | .ok (strtab, p) =>
        match sectionLoop maxOff f nameCap h stroffset strtab (roundsOf shnum) 0 p {} with
        | .error e => .error e
        | .ok st =>
          .ok { ret := 0, mem := { st.mem with low := st.start.toNat, high := st.stop.toNat }, syms := st.syms }

end NakenVerif.Safe.Elf
