import NakenVerif.Safe.CFile
/-
C17 — the command layer of naken_util (/repo/core/UtilContext.cpp as fixed) on arbitrary argument strings.

A `const char *` into the NUL terminated string `s` is an offset `i`: `i < s.size` reads `s[i]`, `i = s.size`
reads the terminating NUL, `i > s.size` is `Fault.strOffset`; a null pointer is `none` and dereferencing it is
`Fault.nullDeref`.  Loops that walk a string get fuel `s.size + 1`, range loops get fuel from the range; the
theorems say the fuel never runs out and no fault is reachable.  `uint32_t` values are naturals `< 2^32`,
the `int n` of `get_hex` wraps to 32 bits.  (`s` holds no NUL byte: it is a C string.)
-/
namespace NakenVerif.Safe.Cmd
open NakenVerif.Safe

def M32 : Nat := 4294967296

/-- `token[i]` -/
def charAt (s : Bytes) (i : Nat) : Except Fault UInt8 :=
  if h : i < s.size then .ok s[i] else if i = s.size then .ok 0 else .error .strOffset

/-- `while (*token == ' ' && *token != 0) { token++; }` -/
def skipSpaces (s : Bytes) : Nat → Nat → Except Fault Nat
  | 0, _ => .error .outOfFuel
  | fuel + 1, i =>
    match charAt s i with
    | .error e => .error e
    | .ok c => if c = 32 then skipSpaces s fuel (i + 1) else .ok i

def hexDigit? (c : UInt8) : Option Nat :=
  if 48 ≤ c ∧ c ≤ 57 then some (c.toNat - 48)
  else if 97 ≤ c ∧ c ≤ 102 then some (c.toNat - 87)
  else if 65 ≤ c ∧ c ≤ 70 then some (c.toNat - 55)
  else none

/-- the digit loop of `get_hex`: `(offset of the first character not consumed, n)` or `none` = illegal -/
def hexLoop (s : Bytes) : Nat → Nat → Nat → Except Fault (Option (Nat × Nat))
  | 0, _, _ => .error .outOfFuel
  | fuel + 1, i, n =>
    match charAt s i with
    | .error e => .error e
    | .ok c =>
      if c = 0 ∨ c = 32 ∨ c = 45 ∨ c = 104 then .ok (some (i, n))
      else
        match hexDigit? c with
        | some d => hexLoop s fuel (i + 1) ((n * 16 + d) % M32)
        | none => .ok none

/-- `get_hex(token, num)`: `none` = `nullptr` (Illegal number); else the returned pointer and `*num`.
`needDigit` = the check of the fix (a number without digits is illegal). -/
def getHex (needDigit : Bool) (s : Bytes) (token : Nat) : Except Fault (Option (Nat × Nat)) :=
  match hexLoop s (s.size + 1) token 0 with
  | .error e => .error e
  | .ok none => .ok none
  | .ok (some (i, n)) =>
    if needDigit ∧ i = token then .ok none
    else
      match charAt s i with
      | .error e => .error e
      | .ok c => .ok (some (if c ≠ 45 ∧ c ≠ 0 then i + 1 else i, n))

/-- the decimal loop of `get_num` -/
def decLoop (s : Bytes) : Nat → Nat → Nat → Except Fault (Option (Nat × Nat))
  | 0, _, _ => .error .outOfFuel
  | fuel + 1, i, n =>
    match charAt s i with
    | .error e => .error e
    | .ok c =>
      if c = 0 ∨ c = 45 then .ok (some (i, n))
      else if 48 ≤ c ∧ c ≤ 57 then decLoop s fuel (i + 1) ((n * 10 + (c.toNat - 48)) % M32)
      else if c = 32 then .ok (some (i, n))
      else .ok none

/-- `while (*token != ' ' && *token != 0) { token++; }` -/
def skipWord (s : Bytes) : Nat → Nat → Except Fault Nat
  | 0, _ => .error .outOfFuel
  | fuel + 1, i =>
    match charAt s i with
    | .error e => .error e
    | .ok c => if c ≠ 32 ∧ c ≠ 0 then skipWord s fuel (i + 1) else .ok i

/-- `get_num(token, num)`: `none` = `nullptr` -/
def getNum (needDigit : Bool) (s : Bytes) (token : Nat) : Except Fault (Option (Nat × Nat)) :=
  match skipSpaces s (s.size + 1) token with
  | .error e => .error e
  | .ok t =>
    match charAt s t with
    | .error e => .error e
    | .ok c0 =>
      if c0 = 0 then .ok none
      else
        match charAt s (t + 1) with
        | .error e => .error e
        | .ok c1 =>
          if c0 = 48 ∧ c1 = 120 then getHex needDigit s (t + 2)
          else
            -- `while (token[s] != 0 && token[s] != ' ') s++;  token[s-1] == 'h'` (s > 0 here): the last
            -- character of this number
            match skipWord s (s.size + 1) t with
            | .error e => .error e
            | .ok w =>
              match charAt s (w - 1) with
              | .error e => .error e
              | .ok last =>
                if last = 104 then getHex needDigit s t
                else
                  let neg := c0 = 45
                  match decLoop s (s.size + 1) (if neg then t + 1 else t) 0 with
                  | .error e => .error e
                  | .ok none => .ok none
                  | .ok (some (i, n)) => .ok (some (i, if neg then (M32 - n) % M32 else n))

/-- `get_address(token, address)`: `(returned pointer or none, *address)`.  `lookup` is `symbols.lookup` on the
first word (up to the next blank); a symbol's address is multiplied by `bytes_per_address` like a number. -/
def getAddress (needDigit : Bool) (lookup : List UInt8 → Option Nat) (bpa : Nat) (s : Bytes) (token : Nat) :
    Except Fault (Option Nat × Nat) :=
  match skipSpaces s (s.size + 1) token with
  | .error e => .error e
  | .ok t =>
    match skipWord s (s.size + 1) t with
    | .error e => .error e
    | .ok w =>
      match lookup ((s.toList.drop t).take (w - t)) with
      | some a => .ok (some w, (a * bpa) % M32)
      | none =>
        match getNum needDigit s t with
        | .error e => .error e
        | .ok none => .ok (none, 0)
        | .ok (some (i, n)) => .ok (some i, (n * bpa) % M32)

/-! ### `write` / `write16` / `write32` -/

/-- the `while (true)` loop: `(count, writes newest first as (address, value))`; `step` = 1, 2, 4 -/
def writeLoop (needDigit : Bool) (s : Bytes) (step : Nat) : Nat → Nat → Nat → Nat → List (Nat × Nat) →
    Except Fault (Nat × List (Nat × Nat))
  | 0, _, _, _, _ => .error .outOfFuel
  | fuel + 1, token, address, count, acc =>
    match skipSpaces s (s.size + 1) token with
    | .error e => .error e
    | .ok t =>
      match getNum needDigit s t with
      | .error e => .error e
      | .ok none => .ok (count, acc)
      | .ok (some (i, n)) => writeLoop needDigit s step fuel i ((address + step) % M32) (count + 1) ((address, n) :: acc)

inductive WriteResult where
  | badAddress
  | notAligned
  | wrote (count : Nat) (first : Nat) (writes : List (Nat × Nat))
  deriving Repr

/-- `UtilContext::write8/16/32(token)`; `mask` = the alignment mask tested on the address (0 for `write`) -/
def write (needDigit : Bool) (lookup : List UInt8 → Option Nat) (bpa mask step : Nat) (s : Bytes) : Except Fault WriteResult :=
  match getAddress needDigit lookup bpa s 0 with
  | .error e => .error e
  | .ok (none, _) => .ok .badAddress
  | .ok (some t, address) =>
    if address &&& mask ≠ 0 then .ok .notAligned
    else
      match writeLoop needDigit s step (s.size + 1) t address 0 [] with
      | .error e => .error e
      | .ok (count, acc) => .ok (.wrote count address acc)

/-! ### `get_token` / `get_range` -/

/-- `get_token(value, source)`: `none` = `nullptr`; else the token and the returned pointer -/
def tokenLoop (s : Bytes) : Nat → Nat → List UInt8 → Except Fault (Nat × List UInt8)
  | 0, _, _ => .error .outOfFuel
  | fuel + 1, i, acc =>
    match charAt s i with
    | .error e => .error e
    | .ok c =>
      if c ≠ 32 ∧ c ≠ 0 then
        if c = 45 ∧ acc ≠ [] then .ok (i, acc)
        else if c = 45 then .ok (i + 1, acc ++ [c])     -- `value.char_at(-1) == '-'` after the append
        else tokenLoop s fuel (i + 1) (acc ++ [c])
      else .ok (i, acc)

def getToken (s : Bytes) (source : Nat) : Except Fault (Option (Nat × List UInt8)) :=
  match skipSpaces s (s.size + 1) source with
  | .error e => .error e
  | .ok t =>
    match tokenLoop s (s.size + 1) t [] with
    | .error e => .error e
    | .ok (i, v) => if v = [] then .ok none else .ok (some (i, v))

def dash : List UInt8 := [45]

/-- the first token of `get_range`: an address unless it is "-".  `none` = return -1; else `*start` and the token
that follows (`some` "-" again when the first token was the dash). -/
def rangeFirst (needDigit : Bool) (lookup : List UInt8 → Option Nat) (bpa : Nat) (s : Bytes) (t1 : Nat) (d1 : List UInt8) :
    Except Fault (Option (Nat × Option (Nat × List UInt8))) :=
  if d1 = dash then .ok (some (0, some (t1, d1)))
  else
    match getAddress needDigit lookup bpa d1.toArray 0 with
    | .error e => .error e
    | .ok (none, _) => .ok none
    | .ok (some _, a) =>
      match getToken s t1 with
      | .error e => .error e
      | .ok tok => .ok (some (a, tok))

/-- `get_range(text, &start, &end)`: `(return value, start, end)`; `high` = `memory.high_address`.
`get_address` is called on the token (a string of its own). -/
def getRange (needDigit : Bool) (lookup : List UInt8 → Option Nat) (bpa high : Nat) (s : Bytes) : Except Fault (Int × Nat × Nat) :=
  match getToken s 0 with
  | .error e => .error e
  | .ok none => .ok (-1, 0, 0)
  | .ok (some (t1, d1)) =>
    match rangeFirst needDigit lookup bpa s t1 d1 with
    | .error e => .error e
    | .ok none => .ok (-1, 0, 0)       -- note: `*start` may have been written; the caller ignores it on -1
    | .ok (some (start, none)) => .ok (0, start, start)
    | .ok (some (start, some (t2, d2))) =>
      if d2 ≠ dash then .ok (-1, start, 0)
      else
        match getToken s t2 with
        | .error e => .error e
        | .ok none => .ok (0, start, high)
        | .ok (some (t3, d3)) =>
          match getAddress needDigit lookup bpa d3.toArray 0 with
          | .error e => .error e
          | .ok (none, _) => .ok (-1, start, 0)
          | .ok (some _, e) =>
            match getToken s t3 with
            | .error er => .error er
            | .ok none => .ok (0, start, e)
            | .ok (some _) => .ok (-1, start, e)

/-! ### `print` / `print16` / `print32` loops

```
if (start >= end) { end = start + 128; }
while (start < end) {
  if ((ptr & mask) == 0) { chars[ptr] = 0; ...; ptr = 0; }
  ... chars[ptr++] = ...;  (print16/32: twice)
  [print16/32, fix:] if (end - start <= step) break;
  start += step;
}
chars[ptr] = 0;
```
`chars` has capacity `cap` = 20.  The result is the number of items printed and the addresses that start a line. -/

structure PrintOut where
  items : Nat := 0
  labels : List Nat := []     -- newest first
  ptr : Nat := 0

/-- `perItem` = characters stored per item (1 for print8, 2 for print16/32), `wrapMask` = `0x0f` / `0x07`,
`guard` = the wrap-around test of the fix (print16/32) -/
def printLoop (cap step perItem wrapMask : Nat) (guard : Bool) : Nat → Nat → Nat → PrintOut → Except Fault PrintOut
  | 0, _, _, _ => .error .outOfFuel
  | fuel + 1, start, stop, o =>
    if start < stop then
      -- `if ((ptr & mask) == 0) { chars[ptr] = 0; ...; ptr = 0; printf("0x%04x:", ...); }`
      let atLine := o.ptr &&& wrapMask = 0
      if atLine ∧ ¬ o.ptr < cap then .error .index
      else
        let ptr0 := if atLine then 0 else o.ptr
        let labels := if atLine then start :: o.labels else o.labels
        -- `chars[ptr++] = ...` (perItem times)
        if ¬ ptr0 + perItem ≤ cap then .error .index
        else
          let o1 : PrintOut := { items := o.items + 1, labels := labels, ptr := ptr0 + perItem }
          if guard ∧ stop - start ≤ step then .ok o1
          else printLoop cap step perItem wrapMask guard fuel ((start + step) % M32) stop o1
    else .ok o

/-- `print8/16/32` after `get_range` succeeded; `alignMask` as tested on `start` (0 for print8).  The end is
inclusive: `end = (end / bpa) * bpa + (bpa - 1); if (end != 0xffffffff) end++;` -/
def print (cap step perItem wrapMask alignMask bpa : Nat) (guard : Bool) (start stop : Nat) : Except Fault (Option PrintOut) :=
  let stop := if start ≥ stop then (start + 128) % M32
              else
                let e := ((stop / bpa) * bpa + (bpa - 1)) % M32
                if e ≠ 4294967295 then e + 1 else e
  if start &&& alignMask ≠ 0 then .ok none
  else
    match printLoop cap step perItem wrapMask guard ((stop - start) + 1) start stop {} with
    | .error e => .error e
    | .ok o => if o.ptr < cap then .ok (some o) else .error .index      -- `chars[ptr] = 0;`

/-! ### `UtilContext::disasm(start, end)`: the page walk

`n` visits `start` and then every page boundary up to `end`; `inUse` = `memory.in_use`.  The result is the
`(curr_start, curr_end)` pairs handed to `get_page_address_min/max` and `disasm_range`.  `guard` = the
wrap-around test of the fix. -/
def walkLoop (inUse : Nat → Bool) (pageSize : Nat) (guard : Bool) : Nat → Nat → Nat → Nat → Nat → Bool → List (Nat × Nat) →
    Except Fault (List (Nat × Nat))
  | 0, _, _, _, _, _, _ => .error .outOfFuel
  | fuel + 1, n, stop, currStart, currEnd, valid, acc =>
    if n ≤ stop then
      let dataSize := pageSize - n % pageSize
      let (currStart, currEnd, valid, acc) :=
        if inUse n then
          ((if valid then currStart else n - n % pageSize), n - n % pageSize + (pageSize - 1), true, acc)
        else if valid then (currStart, currEnd, false, (currStart, currEnd) :: acc)
        else (currStart, currEnd, false, acc)
      if guard ∧ n + dataSize ≥ M32 then .ok (if valid then (currStart, currEnd) :: acc else acc)
      else walkLoop inUse pageSize guard fuel ((n + dataSize) % M32) stop currStart currEnd valid acc
    else .ok (if valid then (currStart, currEnd) :: acc else acc)

/-- `disasm(start, end)` (byte addresses: `memory.low_address` / `high_address`) -/
def walk (inUse : Nat → Bool) (pageSize : Nat) (guard : Bool) (start stop : Nat) : Except Fault (List (Nat × Nat)) :=
  walkLoop inUse pageSize guard (M32 / pageSize + 2) start stop start (start - start % pageSize + (pageSize - 1)) true []

/-! ### `is_command_valid` over the command table (`command_names[]`, re-emitted by the translator) -/

structure CommandInfo where
  name : String
  hasArg : Bool
  isOptional : Bool
  deriving Repr, DecidableEq

inductive Valid where
  | ok | noArgAllowed | argRequired | unknown
  deriving Repr, DecidableEq

def isCommandValid (table : List CommandInfo) (command : String) (hasArg : Bool) : Valid :=
  match table.find? (fun c => c.name == command) with
  | some c =>
    if ¬ c.hasArg then (if hasArg then .noArgAllowed else .ok)
    else if ¬ c.isOptional ∧ ¬ hasArg then .argRequired else .ok
  | none => if command == "" then .ok else .unknown

end NakenVerif.Safe.Cmd
