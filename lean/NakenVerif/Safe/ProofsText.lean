import NakenVerif.FileIO.ReadImpl
import NakenVerif.FileIO.WdcImpl
/-
C17 — the fuel of the C03 reader models (read_hex, read_srec, read_wdc) can never run out: every round of the
record loop consumes at least one character, so any two amounts of fuel above the file length give the same
result.  `readHex` / `readSrec` / `WdcImpl.read` (which use `length + 1`) are therefore total functions of the
file whose record loop makes at most `length + 1` rounds; the inner loops are structurally recursive on a
count that is at most 510 (`get_hex(in, byte_count << 1)`), 255 (data bytes) resp. on the rest of the file.
-/
namespace NakenVerif.FileIO.ReadImpl

theorem getHex_length : ∀ (n : Nat) (acc : Int) (s : List Char), (getHex n acc s).2.length ≤ s.length := by
  intro n
  induction n with
  | zero => intro acc s; simp [getHex]
  | succ n ih =>
    intro acc s
    cases s with
    | nil => simp [getHex]
    | cons c s =>
      simp only [getHex]
      split
      · rename_i v _; have := ih (wrapS (acc * 16 + v)) s; simp only [List.length_cons]; omega
      · simp

theorem skipLine_length : ∀ (s : List Char), (skipLine s).length ≤ s.length := by
  intro s
  induction s with
  | nil => simp [skipLine]
  | cons c s ih => simp only [skipLine]; split <;> simp <;> omega

theorem dataLoop_length (store : Bool) : ∀ (n : Nat) (a ck : Int) (s : List Char) (acc : List (Nat × Byte)),
    (dataLoop store n a ck s acc).2.2.1.length ≤ s.length := by
  intro n
  induction n with
  | zero => intro a ck s acc; simp [dataLoop]
  | succ n ih =>
    intro a ck s acc
    simp only [dataLoop]
    exact Nat.le_trans (ih _ _ _ _) (getHex_length 2 0 s)

theorem readHexLoop_fuel : ∀ (f1 f2 : Nat) (s : List Char) (st : HexState),
    s.length < f1 → s.length < f2 → readHexLoop f1 s st = readHexLoop f2 s st := by
  intro f1
  induction f1 with
  | zero => intro f2 s st h1; omega
  | succ f1 ih =>
    intro f2 s st h1 h2
    cases f2 with
    | zero => omega
    | succ f2 =>
      cases s with
      | nil => simp [readHexLoop]
      | cons c s =>
        unfold readHexLoop
        split
        · apply ih <;> (split <;> first | (simp only [List.length_cons] at h1 h2; omega) | (have := skipLine_length s; simp only [List.length_cons] at h1 h2; omega))
        · simp only []
          have l1 := getHex_length 2 0 s
          generalize getHex 2 0 s = r1 at l1 ⊢
          obtain ⟨bc, s1⟩ := r1
          have l2 := getHex_length 4 0 s1
          generalize getHex 4 0 s1 = r2 at l2 ⊢
          obtain ⟨ad, s2⟩ := r2
          have l3 := getHex_length 2 0 s2
          generalize getHex 2 0 s2 = r3 at l3 ⊢
          obtain ⟨rt, s3⟩ := r3
          simp only [] at l1 l2 l3 ⊢
          simp only [List.length_cons] at h1 h2
          have key : ∀ (st1 : HexState) (ck1 : Int) (s4 : List Char), s4.length ≤ s3.length →
              (if (getHex 2 0 s4).1 ≠ (255 - ck1 % 256 + 1) % 256 then
                  finish { segment := st1.segment, start := st1.start, stop := st1.stop, startAddress := -4, acc := st1.acc }
                else readHexLoop f1 (skipLine (getHex 2 0 s4).2) st1) =
              (if (getHex 2 0 s4).1 ≠ (255 - ck1 % 256 + 1) % 256 then
                  finish { segment := st1.segment, start := st1.start, stop := st1.stop, startAddress := -4, acc := st1.acc }
                else readHexLoop f2 (skipLine (getHex 2 0 s4).2) st1) := by
            intro st1 ck1 s4 hs4
            split
            · rfl
            · have l5 := getHex_length 2 0 s4
              have l6 := skipLine_length (getHex 2 0 s4).2
              apply ih <;> omega
          by_cases hr0 : rt = 0
          · simp only [hr0, ↓reduceIte]
            exact key _ _ _ (dataLoop_length _ _ _ _ _ _)
          · simp only [hr0, ↓reduceIte]
            by_cases hr1 : rt = 1
            · simp only [hr1, ↓reduceIte]
              exact key _ _ _ (getHex_length _ _ _)
            · simp only [hr1, ↓reduceIte]
              by_cases hr2 : rt = 2
              · simp only [hr2, ↓reduceIte]
                exact key _ _ _ (getHex_length _ _ _)
              · simp only [hr2, ↓reduceIte]
                by_cases hr4 : rt = 4
                · simp only [hr4, ↓reduceIte]
                  exact key _ _ _ (getHex_length _ _ _)
                · simp only [hr4, ↓reduceIte]
                  exact key _ _ _ (dataLoop_length _ _ _ _ _ _)

theorem readSrecLoop_fuel : ∀ (f1 f2 : Nat) (s : List Char) (st : HexState),
    s.length < f1 → s.length < f2 → readSrecLoop f1 s st = readSrecLoop f2 s st := by
  intro f1
  induction f1 with
  | zero => intro f2 s st h1; omega
  | succ f1 ih =>
    intro f2 s st h1 h2
    cases f2 with
    | zero => omega
    | succ f2 =>
      cases s with
      | nil => simp [readSrecLoop]
      | cons c s =>
        unfold readSrecLoop
        simp only [List.length_cons] at h1 h2
        split
        · have := skipLine_length s
          apply ih <;> omega
        · cases s with
          | nil => rfl
          | cons t s0 =>
            simp only [List.length_cons] at h1 h2
            simp (maxSteps := 4000000) only []
            have key : ∀ (P : Prop) [Decidable P] (R : Loaded) (X : List Char) (ST : HexState), X.length < f1 → X.length < f2 →
                (if P then R else readSrecLoop f1 X ST) = (if P then R else readSrecLoop f2 X ST) := by
              intro P _ R X ST g1 g2; rw [ih f2 X ST g1 g2]
            generalize (if '0' ≤ t ∧ t ≤ '9' then t.toNat - 48 else 10) = rt
            by_cases hA : rt = 0 ∨ rt > 3
            · rw [if_pos hA, if_pos hA]
              have := skipLine_length s0
              apply ih <;> omega
            · rw [if_neg hA, if_neg hA]
              generalize hT : (if rt = 1 then _ else _ : Int × Int × List Char × Int) = T
              have hT2 : T.2.2.1.length ≤ (getHex 2 0 s0).2.length := by
                rw [← hT]
                by_cases c1 : rt = 1
                · rw [if_pos c1]; exact getHex_length _ _ _
                · rw [if_neg c1]
                  by_cases c2 : rt = 2
                  · rw [if_pos c2]; exact getHex_length _ _ _
                  · rw [if_neg c2]; exact getHex_length _ _ _
              have hx : ∀ n a ck acc, (skipLine (getHex 2 0 (dataLoop true n a ck T.2.2.1 acc).2.2.1).2).length ≤ s0.length :=
                fun n a ck acc => Nat.le_trans (skipLine_length _) (Nat.le_trans (getHex_length _ _ _)
                  (Nat.le_trans (dataLoop_length _ _ _ _ _ _) (Nat.le_trans hT2 (getHex_length 2 0 s0))))
              apply key
              · exact Nat.lt_of_le_of_lt (hx _ _ _ _) (by omega)
              · exact Nat.lt_of_le_of_lt (hx _ _ _ _) (by omega)

/-- `read_hex`: more fuel than `length + 1` never changes anything -/
theorem readHex_fuel (file : List Char) (fuel : Nat) (h : file.length < fuel) :
    readHexLoop fuel file {} = readHex file :=
  readHexLoop_fuel fuel (file.length + 1) file {} h (Nat.lt_succ_self _)

/-- `read_srec`: more fuel than `length + 1` never changes anything -/
theorem readSrec_fuel (file : List Char) (fuel : Nat) (h : file.length < fuel) :
    readSrecLoop fuel file {} = readSrec file :=
  readSrecLoop_fuel fuel (file.length + 1) file {} h (Nat.lt_succ_self _)

end NakenVerif.FileIO.ReadImpl

namespace NakenVerif.FileIO.WdcImpl

theorem readInt24_length (s : List Byte) : (readInt24 s).2.length ≤ s.length := by
  unfold readInt24
  split <;> simp <;> omega

theorem readInt24_progress (s : List Byte) (h : s ≠ []) : (readInt24 s).2.length < s.length := by
  unfold readInt24
  split <;> simp at h ⊢ <;> omega

theorem dataLoop_length : ∀ (n a : Nat) (s : List Byte) (h : Nat) (acc : List (Nat × Byte)),
    (dataLoop n a s h acc).2.1.length ≤ s.length := by
  intro n
  induction n with
  | zero => intro a s h acc; simp [dataLoop]
  | succ n ih =>
    intro a s h acc
    cases s with
    | nil => simp [dataLoop]
    | cons b s => 
      simp only [dataLoop]
      have := ih ((a + 1) % 4294967296) s (if a > h then a else h) ((a, b) :: acc)
      simp only [List.length_cons]; omega

theorem readLoop_fuel : ∀ (f1 f2 : Nat) (s : List Byte) (lo hi : Nat) (acc : List (Nat × Byte)),
    s.length < f1 → s.length < f2 → readLoop f1 s lo hi acc = readLoop f2 s lo hi acc := by
  intro f1
  induction f1 with
  | zero => intro f2 s lo hi acc h1; omega
  | succ f1 ih =>
    intro f2 s lo hi acc h1 h2
    cases f2 with
    | zero => omega
    | succ f2 =>
      unfold readLoop
      simp only []
      split
      · rfl
      · rename_i hlen
        have hs : s ≠ [] := by
          intro h; subst h; simp [readInt24] at hlen
        have p1 := readInt24_progress s hs
        have p2 := readInt24_length (readInt24 s).2
        apply ih
        · exact Nat.lt_of_le_of_lt (dataLoop_length _ _ _ _ _) (by omega)
        · exact Nat.lt_of_le_of_lt (dataLoop_length _ _ _ _ _) (by omega)

end NakenVerif.FileIO.WdcImpl
