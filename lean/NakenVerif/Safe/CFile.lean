/-
C17 — the pieces of the C library and of /repo/fileio/FileIo.cpp the object file readers are built on,
as total functions over an arbitrary byte string.

* a `FILE*` opened on a regular file whose content is `f : Bytes` is a position and the end-of-file flag
  (`FPos`); `getc` returns `none` (C: `EOF` = -1) at or past the end and does not move;
* `fseek(SEEK_SET, off)` with a negative `long` or an offset above `maxOff` (the file system's limit, measured
  by the harness: 2^44 - 4096 on ext4, 2^63 - 1 on tmpfs) fails and leaves the position where it is;
  seeking past the end of the file succeeds (reads then give `EOF`);
* C `int` / `uint32_t` values are `BitVec 32`, `uint64_t` / `long` are `BitVec 64`; `EOF` inside the shift-and-or
  of `FileIo::get_int*` is all ones, exactly as the compiled code computes it;
* every C array is a capacity and an index: an index outside the capacity is `Fault.index`, a loop whose
  fuel (an explicit function of the file length) runs out is `Fault.outOfFuel`.  "The reader is safe and
  terminates" is therefore the theorem "the model never returns a fault".
Core Lean only (the driver links this file).
-/
namespace NakenVerif.Safe

abbrev Bytes := Array UInt8

inductive Fault where
  /-- array index outside the array's capacity -/
  | index
  /-- a `const char *` moved past the terminating NUL of its string -/
  | strOffset
  /-- dereference of a null pointer -/
  | nullDeref
  /-- a loop ran longer than its bound (linear in the input length) -/
  | outOfFuel
  deriving DecidableEq, Repr, Inhabited

def Fault.name : Fault → String
  | .index => "index" | .strOffset => "str-offset" | .nullDeref => "null" | .outOfFuel => "fuel"

/-- the fault of an outcome, if it is one (decidable whatever the result type is) -/
def faultOf {α : Type} (r : Except Fault α) : Option Fault :=
  match r with
  | .error e => some e
  | .ok _ => none

/-! ### `Memory` as the readers see it: the `write8` calls in order plus `low_address` / `high_address` -/

structure Mem where
  /-- `write8(address, data)` calls, newest first; addresses are `uint32_t` -/
  writes : List (Nat × UInt8) := []
  /-- `Memory()` starts with `low_address = 0xffffffff`, `high_address = 0` -/
  low : Nat := 0xffffffff
  high : Nat := 0
  deriving Repr, Inhabited

/-- `Memory::write8(uint32_t address, uint8_t data)` (the argument is truncated to 32 bits by the call) -/
def Mem.write8 (m : Mem) (address : Nat) (b : UInt8) : Mem :=
  let a := address % 4294967296
  { writes := (a, b) :: m.writes,
    low := if m.low > a then a else m.low,
    high := if m.high < a then a else m.high }

/-- what `file_read()` leaves behind -/
structure Loaded where
  /-- return value of the reader (`file_read` maps `>= 0` to "loaded", `< 0` to "rejected") -/
  ret : Int
  mem : Mem
  /-- `symbols->append(name, value)` calls, newest first (names as bytes) -/
  syms : List (List UInt8 × Nat) := []
  deriving Repr, Inhabited

def Loaded.accepted (r : Loaded) : Bool := r.ret ≥ 0

/-! ### `FILE*` -/

structure FPos where
  pos : Nat := 0
  eof : Bool := false
  deriving Repr, Inhabited, DecidableEq

/-- `getc(in)`: `none` is `EOF` -/
@[inline] def getc (f : Bytes) (p : FPos) : Option UInt8 × FPos :=
  if h : p.pos < f.size then (some f[p.pos], { p with pos := p.pos + 1 })
  else (none, { p with eof := true })

/-- the `int` that `getc` returns, as the 32 bit pattern -/
@[inline] def cint (c : Option UInt8) : BitVec 32 :=
  match c with
  | some b => BitVec.ofNat 32 b.toNat
  | none => BitVec.allOnes 32

/-- `(uint64_t)getc(in)` -/
@[inline] def cint64 (c : Option UInt8) : BitVec 64 :=
  match c with
  | some b => BitVec.ofNat 64 b.toNat
  | none => BitVec.allOnes 64

/-- `fseek(fp, off, SEEK_SET)` with `off` a `long` -/
def seekSet (maxOff : Nat) (p : FPos) (off : BitVec 64) : FPos :=
  if off.msb ∨ off.toNat > maxOff then p else { pos := off.toNat, eof := false }

/-- `fseek(fp, marker, SEEK_SET)` where `marker` came from `ftell` on the same stream: always succeeds
(every position the stream ever has is at most `max f.size maxOff`; see `seekSet_le`) -/
@[inline] def restore (_p : FPos) (marker : Nat) : FPos := { pos := marker, eof := false }

/-- `fread(buf, 1, n, fp)`: the bytes read (its length is the return value) -/
def fread (f : Bytes) (p : FPos) (n : Nat) : List UInt8 × FPos :=
  let avail := f.size - p.pos
  let k := if n ≤ avail then n else avail
  ((f.extract p.pos (p.pos + k)).toList, { pos := p.pos + k, eof := p.eof || decide (k < n) })

/-! ### `FileIo::get_int*` (little / big endian), values as the C expressions compute them -/

def getInt16 (be : Bool) (f : Bytes) (p : FPos) : BitVec 32 × FPos :=
  let (c0, p) := getc f p
  let (c1, p) := getc f p
  if be then ((cint c0 <<< 8) ||| cint c1, p) else (cint c0 ||| (cint c1 <<< 8), p)

def getInt32 (be : Bool) (f : Bytes) (p : FPos) : BitVec 32 × FPos :=
  let (c0, p) := getc f p
  let (c1, p) := getc f p
  let (c2, p) := getc f p
  let (c3, p) := getc f p
  if be then ((cint c0 <<< 24) ||| (cint c1 <<< 16) ||| (cint c2 <<< 8) ||| cint c3, p)
  else (cint c0 ||| (cint c1 <<< 8) ||| (cint c2 <<< 16) ||| (cint c3 <<< 24), p)

/-- `get_int64_be` accumulates in a `uint32_t i` (sic): only the low 32 bits survive -/
def getInt64 (be : Bool) (f : Bytes) (p : FPos) : BitVec 64 × FPos :=
  let (c0, p) := getc f p
  let (c1, p) := getc f p
  let (c2, p) := getc f p
  let (c3, p) := getc f p
  let (c4, p) := getc f p
  let (c5, p) := getc f p
  let (c6, p) := getc f p
  let (c7, p) := getc f p
  if be then
    let v := (cint64 c0 <<< 56) ||| (cint64 c1 <<< 48) ||| (cint64 c2 <<< 40) ||| (cint64 c3 <<< 32) |||
             (cint64 c4 <<< 24) ||| (cint64 c5 <<< 16) ||| (cint64 c6 <<< 8) ||| cint64 c7
    ((v.truncate 32).zeroExtend 64, p)
  else
    (cint64 c0 ||| (cint64 c1 <<< 8) ||| (cint64 c2 <<< 16) ||| (cint64 c3 <<< 24) |||
     (cint64 c4 <<< 32) ||| (cint64 c5 <<< 40) ||| (cint64 c6 <<< 48) ||| (cint64 c7 <<< 56), p)

/-- `uint32_t` widened to `uint64_t` -/
@[inline] def u64 (v : BitVec 32) : BitVec 64 := v.zeroExtend 64
/-- `int` widened to `uint64_t` / `long` (sign extension) -/
@[inline] def s64 (v : BitVec 32) : BitVec 64 := v.signExtend 64

/-! ### `FileIo::get_string_at_offset(char *data, int length, uint64_t offset)`

```
long marker = ftell(fp);  int ptr = 0;
fseek(fp, offset, SEEK_SET);
while (true) { int ch = getc(fp); if (ch == 0) break; data[ptr++] = ch; if (ptr == length - 1) break; }
data[ptr] = 0;
fseek(fp, marker, SEEK_SET);
```
`data` has capacity `cap`; at `EOF` the byte stored is `(char)-1 = 0xff`.  The C string that results is the
stored bytes up to the first NUL (there is none before `ptr`, 0 ends the loop). -/
def charOf (c : Option UInt8) : UInt8 := match c with | some b => b | none => 0xff

def getStringLoop (f : Bytes) (cap len : Nat) : Nat → FPos → List UInt8 → Except Fault (List UInt8)
  | 0, _, _ => .error .outOfFuel
  | fuel + 1, p, acc =>
    let (c, p1) := getc f p
    let ch : UInt8 := charOf c
    if c = some 0 then
      if acc.length < cap then .ok acc.reverse else .error .index
    else if acc.length < cap then
      let acc1 := ch :: acc
      if acc1.length + 1 = len then
        if acc1.length < cap then .ok acc1.reverse else .error .index
      else getStringLoop f cap len fuel p1 acc1
    else .error .index

/-- the loop runs at most `cap` times before an index fault, so `cap + 1` rounds of fuel are exact -/
def getStringAtOffset (maxOff : Nat) (f : Bytes) (cap len : Nat) (p : FPos) (offset : BitVec 64) :
    Except Fault (List UInt8) :=
  getStringLoop f cap len (cap + 1) (seekSet maxOff p offset) []

end NakenVerif.Safe
