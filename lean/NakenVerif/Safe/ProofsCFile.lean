import NakenVerif.Safe.CFile
/-
C17 — facts about the stream primitives: reading never moves backwards, never moves past the end of the
file, moves at least one byte when not at the end; `get_string_at_offset` stays inside its buffer.
-/
namespace NakenVerif.Safe

/-- `q` is reached from `p` by reads only -/
def Reads (f : Bytes) (p q : FPos) : Prop := p.pos ≤ q.pos ∧ q.pos ≤ max p.pos f.size

/-- ... by at least one read -/
def ReadsSome (f : Bytes) (p q : FPos) : Prop := Reads f p q ∧ (p.pos < f.size → p.pos < q.pos)

theorem Reads.refl (f : Bytes) (p : FPos) : Reads f p p := by
  unfold Reads; omega

theorem Reads.trans {f : Bytes} {p q r : FPos} (h1 : Reads f p q) (h2 : Reads f q r) : Reads f p r := by
  unfold Reads at *; omega

theorem ReadsSome.reads {f : Bytes} {p q : FPos} (h : ReadsSome f p q) : Reads f p q := h.1

theorem ReadsSome.trans {f : Bytes} {p q r : FPos} (h1 : ReadsSome f p q) (h2 : Reads f q r) : ReadsSome f p r := by
  unfold ReadsSome Reads at *; omega

theorem Reads.transSome {f : Bytes} {p q r : FPos} (h1 : Reads f p q) (h2 : ReadsSome f q r) : ReadsSome f p r := by
  unfold ReadsSome Reads at *; omega

theorem getc_readsSome (f : Bytes) (p : FPos) : ReadsSome f p (getc f p).2 := by
  unfold getc ReadsSome Reads
  split <;> simp only [] <;> omega

theorem getc_none {f : Bytes} {p : FPos} (h : (getc f p).1 = none) : f.size ≤ p.pos := by
  unfold getc at h
  split at h
  · simp at h
  · omega

theorem getc_some {f : Bytes} {p : FPos} {b : UInt8} (h : (getc f p).1 = some b) :
    p.pos < f.size ∧ (getc f p).2.pos = p.pos + 1 := by
  unfold getc at h ⊢
  split
  · rename_i hlt; exact ⟨hlt, rfl⟩
  · rename_i hlt; rw [dif_neg hlt] at h; simp at h

theorem getc_eof_sticky (f : Bytes) (p : FPos) (h : p.eof = true) : (getc f p).2.eof = true := by
  unfold getc; split <;> simp [h]

theorem getc_eof_at_end (f : Bytes) (p : FPos) (h : f.size ≤ p.pos) : (getc f p).2.eof = true := by
  unfold getc; split
  · omega
  · simp

/-- if the flag is clear after a `getc`, it was clear before and a byte was read -/
theorem getc_not_eof {f : Bytes} {p : FPos} (h : (getc f p).2.eof = false) :
    p.eof = false ∧ p.pos < f.size ∧ (getc f p).2.pos = p.pos + 1 := by
  unfold getc at h ⊢
  split
  · rename_i hlt
    rw [dif_pos hlt] at h
    exact ⟨h, hlt, rfl⟩
  · rename_i hlt
    rw [dif_neg hlt] at h
    simp at h

theorem getInt16_readsSome (be : Bool) (f : Bytes) (p : FPos) : ReadsSome f p (getInt16 be f p).2 := by
  have h1 := getc_readsSome f p
  have h2 := getc_readsSome f (getc f p).2
  have : (getInt16 be f p).2 = (getc f (getc f p).2).2 := by
    cases be <;> rfl
  rw [this]; exact h1.trans h2.reads

theorem getInt32_pos (be : Bool) (f : Bytes) (p : FPos) :
    (getInt32 be f p).2 = (getc f (getc f (getc f (getc f p).2).2).2).2 := by
  cases be <;> rfl

theorem getInt32_readsSome (be : Bool) (f : Bytes) (p : FPos) : ReadsSome f p (getInt32 be f p).2 := by
  rw [getInt32_pos]
  exact (((getc_readsSome f p).trans (getc_readsSome f _).reads).trans (getc_readsSome f _).reads).trans (getc_readsSome f _).reads

theorem getInt64_pos (be : Bool) (f : Bytes) (p : FPos) :
    (getInt64 be f p).2 = (getc f (getc f (getc f (getc f (getc f (getc f (getc f (getc f p).2).2).2).2).2).2).2).2 := by
  cases be <;> rfl

theorem getInt64_readsSome (be : Bool) (f : Bytes) (p : FPos) : ReadsSome f p (getInt64 be f p).2 := by
  rw [getInt64_pos]
  exact (((((((getc_readsSome f p).trans (getc_readsSome f _).reads).trans (getc_readsSome f _).reads).trans
    (getc_readsSome f _).reads).trans (getc_readsSome f _).reads).trans (getc_readsSome f _).reads).trans
    (getc_readsSome f _).reads).trans (getc_readsSome f _).reads

theorem fread_reads (f : Bytes) (p : FPos) (n : Nat) : Reads f p (fread f p n).2 := by
  unfold fread Reads; simp only; split <;> omega

theorem fread_length (f : Bytes) (p : FPos) (n : Nat) : (fread f p n).1.length ≤ n := by
  unfold fread; simp only [Array.length_toList, Array.size_extract]; split <;> omega

/-- a complete `fread` of `n > 0` bytes moved the stream -/
theorem fread_full {f : Bytes} {p : FPos} {n : Nat} (h : (fread f p n).1.length = n) (hn : 0 < n) :
    p.pos < (fread f p n).2.pos := by
  unfold fread at h ⊢
  simp only [Array.length_toList, Array.size_extract] at h
  simp only
  split at h <;> split <;> omega

/-! ### `get_string_at_offset` never leaves its buffer -/

theorem getStringLoop_ok (f : Bytes) (cap len : Nat) (hcap : len ≤ cap) :
    ∀ (fuel : Nat) (p : FPos) (acc : List UInt8), acc.length + 1 < len → len - 1 - acc.length ≤ fuel →
      ∃ s, getStringLoop f cap len fuel p acc = .ok s ∧ s.length < len := by
  intro fuel
  induction fuel with
  | zero => intro p acc h1 h2; omega
  | succ fuel ih =>
    intro p acc h1 h2
    unfold getStringLoop
    simp only
    split
    · rw [if_pos (by omega)]
      exact ⟨_, rfl, by simp; omega⟩
    · rw [if_pos (by omega)]
      split
      · rename_i h3
        rw [if_pos (by simp at h3 ⊢; omega)]
        exact ⟨_, rfl, by simp at h3 ⊢; omega⟩
      · rename_i h3
        apply ih
        · simp at h3 ⊢; omega
        · simp; omega

/-- `get_string_at_offset(name, sizeof(name), offset)` with a buffer of at least two bytes: no index fault,
no fuel fault, and the string is shorter than the buffer — whatever the file and the offset are -/
theorem getStringAtOffset_ok (maxOff : Nat) (f : Bytes) (cap : Nat) (hcap : 2 ≤ cap) (p : FPos) (off : BitVec 64) :
    ∃ s, getStringAtOffset maxOff f cap cap p off = .ok s ∧ s.length < cap := by
  unfold getStringAtOffset
  exact getStringLoop_ok f cap cap (Nat.le_refl _) (cap + 1) _ [] (by simp; omega) (by simp; omega)

end NakenVerif.Safe
