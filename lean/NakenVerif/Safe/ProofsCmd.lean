import NakenVerif.Safe.Cmd
/-
C17 — the string functions of the command layer stay inside their string and make progress:
for every string `s` and every offset `token <= s.size` no `charAt` is taken past the terminating NUL, every
returned pointer is again `<= s.size`, and `get_num` (with the fix) returns a pointer strictly behind the one
it was given, so the `while (true)` loops of `write*` end.
-/
namespace NakenVerif.Safe.Cmd
open NakenVerif.Safe

theorem charAt_ok (s : Bytes) (i : Nat) (h : i ≤ s.size) : ∃ c, charAt s i = .ok c := by
  unfold charAt
  split
  · exact ⟨_, rfl⟩
  · rw [if_pos (by omega)]; exact ⟨_, rfl⟩

/-- a non-NUL character lies strictly inside the string -/
theorem charAt_nonzero {s : Bytes} {i : Nat} {c : UInt8} (h : charAt s i = .ok c) (hc : c ≠ 0) : i < s.size := by
  unfold charAt at h
  split at h
  · assumption
  · split at h
    · simp only [Except.ok.injEq] at h; exact absurd h.symm hc
    · simp at h

theorem skipSpaces_ok (s : Bytes) : ∀ (fuel i : Nat), i ≤ s.size → s.size - i < fuel →
    ∃ j, skipSpaces s fuel i = .ok j ∧ i ≤ j ∧ j ≤ s.size ∧ (∀ c, charAt s j = .ok c → c ≠ 32) := by
  intro fuel
  induction fuel with
  | zero => intro i _ h; omega
  | succ fuel ih =>
    intro i hi hf
    unfold skipSpaces
    obtain ⟨c, hc⟩ := charAt_ok s i hi
    rw [hc]
    simp only
    split
    · rename_i h32
      have : i < s.size := charAt_nonzero hc (by rw [h32]; decide)
      obtain ⟨j, hj, h1, h2, h3⟩ := ih (i + 1) (by omega) (by omega)
      exact ⟨j, hj, by omega, h2, h3⟩
    · rename_i h32
      exact ⟨i, rfl, Nat.le_refl _, hi, by intro c' hc'; rw [hc] at hc'; cases hc'; exact h32⟩

theorem skipWord_ok (s : Bytes) : ∀ (fuel i : Nat), i ≤ s.size → s.size - i < fuel →
    ∃ j, skipWord s fuel i = .ok j ∧ i ≤ j ∧ j ≤ s.size := by
  intro fuel
  induction fuel with
  | zero => intro i _ h; omega
  | succ fuel ih =>
    intro i hi hf
    unfold skipWord
    obtain ⟨c, hc⟩ := charAt_ok s i hi
    rw [hc]
    simp only
    split
    · rename_i hne
      have : i < s.size := charAt_nonzero hc hne.2
      obtain ⟨j, hj, h1, h2⟩ := ih (i + 1) (by omega) (by omega)
      exact ⟨j, hj, by omega, h2⟩
    · exact ⟨i, rfl, Nat.le_refl _, hi⟩

theorem hexLoop_ok (s : Bytes) : ∀ (fuel i n : Nat), i ≤ s.size → s.size - i < fuel →
    ∃ r, hexLoop s fuel i n = .ok r ∧ ∀ j m, r = some (j, m) → i ≤ j ∧ j ≤ s.size := by
  intro fuel
  induction fuel with
  | zero => intro i n _ h; omega
  | succ fuel ih =>
    intro i n hi hf
    unfold hexLoop
    obtain ⟨c, hc⟩ := charAt_ok s i hi
    rw [hc]
    simp only
    split
    · exact ⟨_, rfl, by intro j m h; cases h; exact ⟨Nat.le_refl _, hi⟩⟩
    · rename_i hterm
      split
      · have : i < s.size := charAt_nonzero hc (by intro h0; exact hterm (Or.inl h0))
        obtain ⟨r, hr, hb⟩ := ih (i + 1) _ (by omega) (by omega)
        exact ⟨r, hr, by intro j m h; have := hb j m h; omega⟩
      · exact ⟨none, rfl, by intro j m h; cases h⟩

/-- `get_hex`: in bounds; with the fix the returned pointer is behind `token` -/
theorem getHex_ok (needDigit : Bool) (s : Bytes) (token : Nat) (ht : token ≤ s.size) :
    ∃ r, getHex needDigit s token = .ok r ∧
      ∀ j m, r = some (j, m) → token ≤ j ∧ j ≤ s.size ∧ (needDigit = true → token < j) := by
  unfold getHex
  obtain ⟨r, hr, hb⟩ := hexLoop_ok s (s.size + 1) token 0 ht (by omega)
  rw [hr]
  cases r with
  | none => exact ⟨none, rfl, by intro j m h; cases h⟩
  | some p =>
    obtain ⟨i, n⟩ := p
    have hb' := hb i n rfl
    simp only
    split
    · exact ⟨none, rfl, by intro j m h; cases h⟩
    · rename_i hnd
      obtain ⟨c, hc⟩ := charAt_ok s i hb'.2
      rw [hc]
      simp only
      refine ⟨_, rfl, ?_⟩
      intro j m h
      simp only [Option.some.injEq, Prod.mk.injEq] at h
      obtain ⟨hj, _⟩ := h
      have hprog : needDigit = true → token < i := by
        intro hd
        have : ¬ i = token := by intro he; exact hnd ⟨hd, he⟩
        omega
      by_cases hcc : c ≠ 45 ∧ c ≠ 0
      · rw [if_pos hcc] at hj
        have : i < s.size := charAt_nonzero hc hcc.2
        exact ⟨by omega, by omega, fun hd => by have := hprog hd; omega⟩
      · rw [if_neg hcc] at hj
        exact ⟨by omega, by omega, fun hd => by have := hprog hd; omega⟩

theorem decLoop_ok (s : Bytes) : ∀ (fuel i n : Nat), i ≤ s.size → s.size - i < fuel →
    ∃ r, decLoop s fuel i n = .ok r ∧ ∀ j m, r = some (j, m) → i ≤ j ∧ j ≤ s.size ∧
      ((∀ c, charAt s i = .ok c → c ≠ 0 ∧ c ≠ 45 ∧ c ≠ 32) → i < j) := by
  intro fuel
  induction fuel with
  | zero => intro i n _ h; omega
  | succ fuel ih =>
    intro i n hi hf
    unfold decLoop
    obtain ⟨c, hc⟩ := charAt_ok s i hi
    rw [hc]
    simp only
    split
    · rename_i h0
      exact ⟨_, rfl, by
        intro j m h; cases h
        exact ⟨Nat.le_refl _, hi, fun hh => by have := hh c rfl; rcases h0 with h0 | h0 <;> simp_all⟩⟩
    · rename_i hterm
      split
      · have : i < s.size := charAt_nonzero hc (by intro h0; exact hterm (Or.inl h0))
        obtain ⟨r, hr, hb⟩ := ih (i + 1) _ (by omega) (by omega)
        exact ⟨r, hr, by intro j m h; have := hb j m h; exact ⟨by omega, this.2.1, fun _ => by omega⟩⟩
      · split
        · rename_i h32
          exact ⟨_, rfl, by
            intro j m h; cases h
            exact ⟨Nat.le_refl _, hi, fun hh => by have := hh c rfl; simp_all⟩⟩
        · exact ⟨none, rfl, by intro j m h; cases h⟩

/-- `get_num` (as fixed): in bounds, and a returned pointer is strictly behind `token` -/
theorem getNum_ok (s : Bytes) (token : Nat) (ht : token ≤ s.size) :
    ∃ r, getNum true s token = .ok r ∧ ∀ j m, r = some (j, m) → token < j ∧ j ≤ s.size := by
  unfold getNum
  obtain ⟨t, hsk, h1, h2, h3⟩ := skipSpaces_ok s (s.size + 1) token ht (by omega)
  rw [hsk]
  simp only
  obtain ⟨c0, hc0⟩ := charAt_ok s t h2
  rw [hc0]
  simp only
  split
  · exact ⟨none, rfl, by intro j m h; cases h⟩
  · rename_i hnz
    have htlt : t < s.size := charAt_nonzero hc0 hnz
    obtain ⟨c1, hc1⟩ := charAt_ok s (t + 1) (by omega)
    rw [hc1]
    simp only
    split
    · rename_i h0x
      have : t + 1 < s.size := charAt_nonzero hc1 (by rw [h0x.2]; decide)
      obtain ⟨r, hr, hb⟩ := getHex_ok true s (t + 2) (by omega)
      exact ⟨r, hr, by intro j m h; have := hb j m h; omega⟩
    · obtain ⟨w, hw, hw1, hw2⟩ := skipWord_ok s (s.size + 1) t h2 (by omega)
      rw [hw]
      simp only
      obtain ⟨last, hl⟩ := charAt_ok s (w - 1) (by omega)
      rw [hl]
      simp only
      split
      · obtain ⟨r, hr, hb⟩ := getHex_ok true s t h2
        exact ⟨r, hr, by intro j m h; have := hb j m h; have := this.2.2 rfl; omega⟩
      · by_cases hneg : c0 = 45
        · simp only [hneg, ↓reduceIte]
          obtain ⟨r, hr, hb⟩ := decLoop_ok s (s.size + 1) (t + 1) 0 (by omega) (by omega)
          rw [hr]
          cases r with
          | none => exact ⟨none, rfl, by intro j m h; cases h⟩
          | some p =>
            obtain ⟨i, n⟩ := p
            have := hb i n rfl
            exact ⟨_, rfl, by intro j m h; simp only [Option.some.injEq, Prod.mk.injEq] at h; omega⟩
        · simp only [hneg, ↓reduceIte]
          obtain ⟨r, hr, hb⟩ := decLoop_ok s (s.size + 1) t 0 h2 (by omega)
          rw [hr]
          cases r with
          | none => exact ⟨none, rfl, by intro j m h; cases h⟩
          | some p =>
            obtain ⟨i, n⟩ := p
            have hbi := hb i n rfl
            have hprog : t < i := hbi.2.2 (by
              intro c hc; rw [hc0] at hc; cases hc
              exact ⟨hnz, hneg, h3 c0 hc0⟩)
            exact ⟨_, rfl, by intro j m h; simp only [Option.some.injEq, Prod.mk.injEq] at h; omega⟩

/-- `get_address`: in bounds -/
theorem getAddress_ok (lookup : List UInt8 → Option Nat) (bpa : Nat) (s : Bytes) (token : Nat) (ht : token ≤ s.size) :
    ∃ r, getAddress true lookup bpa s token = .ok r ∧ ∀ j, r.1 = some j → token ≤ j ∧ j ≤ s.size := by
  unfold getAddress
  obtain ⟨t, hsk, h1, h2, _⟩ := skipSpaces_ok s (s.size + 1) token ht (by omega)
  rw [hsk]
  simp only
  obtain ⟨w, hw, h4, h5⟩ := skipWord_ok s (s.size + 1) t h2 (by omega)
  rw [hw]
  simp only
  split
  · exact ⟨_, rfl, by intro j h; simp only [Option.some.injEq] at h; omega⟩
  · obtain ⟨r, hr, hb⟩ := getNum_ok s t h2
    rw [hr]
    cases r with
    | none => exact ⟨_, rfl, by intro j h; simp at h⟩
    | some p =>
      obtain ⟨i, n⟩ := p
      have := hb i n rfl
      exact ⟨_, rfl, by intro j h; simp only [Option.some.injEq] at h; omega⟩

/-- the `while (true)` loop of `write*` ends: every `get_num` that returns a pointer moved it forward -/
theorem writeLoop_ok (s : Bytes) (step : Nat) : ∀ (fuel token address count : Nat) (acc : List (Nat × Nat)),
    token ≤ s.size → s.size - token < fuel → ∃ r, writeLoop true s step fuel token address count acc = .ok r := by
  intro fuel
  induction fuel with
  | zero => intro token _ _ _ _ h; omega
  | succ fuel ih =>
    intro token address count acc ht hf
    unfold writeLoop
    obtain ⟨t, hsk, h1, h2, _⟩ := skipSpaces_ok s (s.size + 1) token ht (by omega)
    rw [hsk]
    simp only
    obtain ⟨r, hr, hb⟩ := getNum_ok s t h2
    rw [hr]
    cases r with
    | none => exact ⟨_, rfl⟩
    | some p =>
      obtain ⟨i, n⟩ := p
      have := hb i n rfl
      exact ih i _ _ _ (by omega) (by omega)

/-- `write` / `write16` / `write32` on every argument string: no fault, the loop ends -/
theorem write_total (lookup : List UInt8 → Option Nat) (bpa mask step : Nat) (s : Bytes) :
    ∃ r, write true lookup bpa mask step s = .ok r := by
  unfold write
  obtain ⟨r, hr, hb⟩ := getAddress_ok lookup bpa s 0 (Nat.zero_le _)
  rw [hr]
  obtain ⟨o, a⟩ := r
  cases o with
  | none => exact ⟨_, rfl⟩
  | some t =>
    simp only
    split
    · exact ⟨_, rfl⟩
    · have := hb t rfl
      obtain ⟨w, hw⟩ := writeLoop_ok s step (s.size + 1) t a 0 [] this.2 (by omega)
      rw [hw]
      exact ⟨_, rfl⟩

theorem tokenLoop_ok (s : Bytes) : ∀ (fuel i : Nat) (acc : List UInt8), i ≤ s.size → s.size - i < fuel →
    ∃ j v, tokenLoop s fuel i acc = .ok (j, v) ∧ i ≤ j ∧ j ≤ s.size := by
  intro fuel
  induction fuel with
  | zero => intro i _ _ h; omega
  | succ fuel ih =>
    intro i acc hi hf
    unfold tokenLoop
    obtain ⟨c, hc⟩ := charAt_ok s i hi
    rw [hc]
    simp only
    split
    · rename_i hne
      have : i < s.size := charAt_nonzero hc hne.2
      split
      · exact ⟨_, _, rfl, Nat.le_refl _, hi⟩
      · split
        · exact ⟨_, _, rfl, by omega, by omega⟩
        · obtain ⟨j, v, hj, h1, h2⟩ := ih (i + 1) (acc ++ [c]) (by omega) (by omega)
          exact ⟨j, v, hj, by omega, h2⟩
    · exact ⟨_, _, rfl, Nat.le_refl _, hi⟩

theorem getToken_ok (s : Bytes) (source : Nat) (hs : source ≤ s.size) :
    ∃ r, getToken s source = .ok r ∧ ∀ j v, r = some (j, v) → source ≤ j ∧ j ≤ s.size := by
  unfold getToken
  obtain ⟨t, hsk, h1, h2, _⟩ := skipSpaces_ok s (s.size + 1) source hs (by omega)
  rw [hsk]
  simp only
  obtain ⟨j, v, hj, h3, h4⟩ := tokenLoop_ok s (s.size + 1) t [] h2 (by omega)
  rw [hj]
  simp only
  split
  · exact ⟨none, rfl, by intro j v h; cases h⟩
  · exact ⟨_, rfl, by intro j' v' h; simp only [Option.some.injEq, Prod.mk.injEq] at h; omega⟩

/-- `get_range` on every argument string: no fault -/
theorem getRange_total (lookup : List UInt8 → Option Nat) (bpa high : Nat) (s : Bytes) :
    ∃ r, getRange true lookup bpa high s = .ok r := by
  unfold getRange
  obtain ⟨r1, h1, b1⟩ := getToken_ok s 0 (Nat.zero_le _)
  rw [h1]
  cases r1 with
  | none => exact ⟨_, rfl⟩
  | some p1 =>
    obtain ⟨t1, d1⟩ := p1
    have ht1 := (b1 t1 d1 rfl).2
    simp only
    have hfirst : ∃ fr, rangeFirst true lookup bpa s t1 d1 = .ok fr ∧
        ∀ a t2 d2, fr = some (a, some (t2, d2)) → t2 ≤ s.size := by
      unfold rangeFirst
      split
      · exact ⟨_, rfl, by intro a t2 d2 h; simp only [Option.some.injEq, Prod.mk.injEq] at h; omega⟩
      · obtain ⟨ra, hra, _⟩ := getAddress_ok lookup bpa d1.toArray 0 (Nat.zero_le _)
        rw [hra]
        obtain ⟨o, a⟩ := ra
        cases o with
        | none => exact ⟨_, rfl, by intro a t2 d2 h; cases h⟩
        | some j =>
          simp only
          obtain ⟨r2, h2, b2⟩ := getToken_ok s t1 ht1
          rw [h2]
          exact ⟨_, rfl, by
            intro a' t2 d2 h
            simp only [Option.some.injEq, Prod.mk.injEq] at h
            exact (b2 t2 d2 h.2).2⟩
    obtain ⟨fr, hfr, hb⟩ := hfirst
    rw [hfr]
    cases fr with
    | none => exact ⟨_, rfl⟩
    | some q =>
      obtain ⟨start, tok⟩ := q
      cases tok with
      | none => exact ⟨_, rfl⟩
      | some p2 =>
        obtain ⟨t2, d2⟩ := p2
        have ht2 := hb start t2 d2 rfl
        simp only
        split
        · exact ⟨_, rfl⟩
        · obtain ⟨r3, h3, b3⟩ := getToken_ok s t2 ht2
          rw [h3]
          cases r3 with
          | none => exact ⟨_, rfl⟩
          | some p3 =>
            obtain ⟨t3, d3⟩ := p3
            have ht3 := (b3 t3 d3 rfl).2
            simp only
            obtain ⟨ra, hra, _⟩ := getAddress_ok lookup bpa d3.toArray 0 (Nat.zero_le _)
            rw [hra]
            obtain ⟨o, e⟩ := ra
            cases o with
            | none => exact ⟨_, rfl⟩
            | some j =>
              simp only
              obtain ⟨r4, h4, _⟩ := getToken_ok s t3 ht3
              rw [h4]
              cases r4 with
              | none => exact ⟨_, rfl⟩
              | some _ => exact ⟨_, rfl⟩

end NakenVerif.Safe.Cmd
