import NakenVerif.Safe.CFile
/-
C17 — transcription of /repo/fileio/read_uf2.cpp (as fixed: a block whose byte count exceeds the 476 byte
data area is rejected) over an arbitrary byte string.

```
const int length = file.get_file_length();
for (int ptr = 0; ptr < length; ptr += 512) {
  read_block(uf2_block, file);       // 8 x get_int32 (LE), get_bytes(data, 476), get_int32
  if (magic_0 != 0x0a324655 || magic_1 != 0x9e5d5157 || magic_2 != 0x0ab16f30) { ...; break; }
  int address = uf2_block.address;
  if ((uf2_block.flags & 0x0001) == 1) { continue; }
  if (uf2_block.byte_count > sizeof(uf2_block.data)) { ...; return -1; }
  for (uint32_t n = 0; n < uf2_block.byte_count; n++) { memory->write8(address++, uf2_block.data[n]); }
}
return 0;
```
`uf2_block.data` is the only array: capacity `dataCap` = 476 (`sizeof`, re-emitted by the translator), index `n`.
-/
namespace NakenVerif.Safe.Uf2
open NakenVerif.Safe

/-- `Uf2Block.data`: `get_bytes` overwrites the first `got.length` bytes, the rest keeps the previous block's -/
def refill (old : List UInt8) (got : List UInt8) : List UInt8 := got ++ old.drop got.length

/-- `uf2_block.data[n]` with the capacity check -/
def dataAt (dataCap : Nat) (data : List UInt8) (n : Nat) : Except Fault UInt8 :=
  if n < dataCap then .ok (data.getD n 0) else .error .index

/-- `for (n = 0; n < byte_count; n++) memory->write8(address++, data[n]);`  (structural in the remaining count;
`checked = false` is the code before the fix, used by the counterexample theorem only) -/
def copyLoop (dataCap : Nat) (data : List UInt8) : Nat → Nat → Nat → Mem → Except Fault Mem
  | 0, _, _, m => .ok m
  | k + 1, n, address, m =>
    match dataAt dataCap data n with
    | .error e => .error e
    | .ok b => copyLoop dataCap data k (n + 1) ((address + 1) % 4294967296) (m.write8 address b)

structure Block where
  magic0 : BitVec 32
  magic1 : BitVec 32
  flags : BitVec 32
  address : BitVec 32
  byteCount : BitVec 32
  data : List UInt8
  magic2 : BitVec 32

def readBlock (f : Bytes) (dataCap : Nat) (old : List UInt8) (p : FPos) : Block × FPos :=
  let (m0, p) := getInt32 false f p
  let (m1, p) := getInt32 false f p
  let (fl, p) := getInt32 false f p
  let (ad, p) := getInt32 false f p
  let (bc, p) := getInt32 false f p
  let (_, p) := getInt32 false f p
  let (_, p) := getInt32 false f p
  let (_, p) := getInt32 false f p
  let (got, p) := fread f p dataCap
  let (m2, p) := getInt32 false f p
  ({ magic0 := m0, magic1 := m1, flags := fl, address := ad, byteCount := bc, data := refill old got, magic2 := m2 }, p)

/-- the block loop, structural in the number of 512-byte steps left; `check` = the byte count test of the fix -/
def blockLoop (check : Bool) (f : Bytes) (dataCap : Nat) : Nat → FPos → List UInt8 → Mem → Except Fault Loaded
  | 0, _, _, m => .ok { ret := 0, mem := m }
  | k + 1, p, old, m =>
    let (b, p1) := readBlock f dataCap old p
    if b.magic0 ≠ 0x0a324655#32 ∨ b.magic1 ≠ 0x9e5d5157#32 ∨ b.magic2 ≠ 0x0ab16f30#32 then
      .ok { ret := 0, mem := m }
    else if b.flags &&& 1#32 = 1#32 then blockLoop check f dataCap k p1 b.data m
    else if check ∧ b.byteCount.toNat > dataCap then .ok { ret := -1, mem := m }
    else
      match copyLoop dataCap b.data b.byteCount.toNat 0 b.address.toNat m with
      | .error e => .error e
      | .ok m1 => blockLoop check f dataCap k p1 b.data m1

/-- number of rounds of `for (ptr = 0; ptr < length; ptr += 512)` -/
def rounds (f : Bytes) : Nat := (f.size + 511) / 512

/-- `read_uf2` (file of fewer than 2^31 bytes: `length` is an `int`) -/
def read (f : Bytes) (dataCap : Nat := 476) : Except Fault Loaded :=
  blockLoop true f dataCap (rounds f) {} (List.replicate dataCap 0) {}

/-- the reader as it was before the fix -/
def readUnchecked (f : Bytes) (dataCap : Nat := 476) : Except Fault Loaded :=
  blockLoop false f dataCap (rounds f) {} (List.replicate dataCap 0) {}

end NakenVerif.Safe.Uf2
