import NakenVerif.Safe.CFile
/-
C17 — transcription of /repo/fileio/read_macho.cpp (as fixed: every loop stops where the file ends, the
short-read results of `macho_read_segment_load` / `macho_read_section` are honoured) over an arbitrary byte string.

Counts and sizes used unchecked, as in the code: `load_command_count`, `load_command.size`, `section_count`,
`section.size`, `section.offset`, `symbol_count`, `symbol_table_offset`, `string_table_offset`, `string_index`.
Arrays: `name[16]`, `section_name[16]`, `segment_name[16]` (one `fread` of 16 each), `name[128]`
(`get_string_at_offset`, capacity `nameCap`).  Loops: load commands, sections, text bytes, symbols — each
with fuel `f.size + 2`; the theorem is that it never runs out (every round starts below the end of the file
and reads at least one byte).
-/
namespace NakenVerif.Safe.Macho
open NakenVerif.Safe

structure St where
  start : BitVec 32 := 0xffffffff#32
  stop : BitVec 32 := 0xffffffff#32
  mem : Mem := {}
  syms : List (List UInt8 × Nat) := []

def textName : List UInt8 := "__text".toUTF8.toList ++ [0]

/-- `for (t = 0; t < size; t++) { ch = get_int8(); if (ch == EOF) break; write8(address + t, ch); }` -/
def textLoop (f : Bytes) (addr size : BitVec 64) : Nat → BitVec 32 → FPos → Mem → Except Fault Mem
  | 0, _, _, _ => .error .outOfFuel
  | fuel + 1, t, p, m =>
    if u64 t < size then
      let (c, p1) := getc f p
      match c with
      | none => .ok m
      | some b => textLoop f addr size fuel (t + 1#32) p1 (m.write8 (addr + u64 t).toNat b)
    else .ok m

structure Section where
  sectionName : List UInt8
  address : BitVec 64
  size : BitVec 64
  offset : BitVec 32

/-- `macho_read_section`: `none` = it returned -1 (a name could not be read completely) -/
def readSection (be : Bool) (bits64 : Bool) (f : Bytes) (p : FPos) : Option Section × FPos :=
  let (sn, p) := fread f p 16
  if sn.length ≠ 16 then (none, p)
  else
    let (gn, p) := fread f p 16
    if gn.length ≠ 16 then (none, p)
    else
      let (address, size, p) : BitVec 64 × BitVec 64 × FPos :=
        if bits64 then
          let (a, p) := getInt64 be f p
          let (s, p) := getInt64 be f p
          (a, s, p)
        else
          let (a, p) := getInt32 be f p
          let (s, p) := getInt32 be f p
          (u64 a, u64 s, p)
      let (offset, p) := getInt32 be f p
      let (_, p) := getInt32 be f p
      let (_, p) := getInt32 be f p
      let (_, p) := getInt32 be f p
      let (_, p) := getInt32 be f p
      let (_, p) := getInt32 be f p
      let (_, p) := getInt32 be f p
      let (_, p) := getInt32 be f p
      (some { sectionName := sn, address := address, size := size, offset := offset }, p)

/-- `for (n = 0; n < section_count; n++)`; `left` = rounds the `for` still allows -/
def sectionLoop (maxOff : Nat) (f : Bytes) (be bits64 : Bool) : Nat → Nat → FPos → St → Except Fault (FPos × St)
  | 0, _, _, _ => .error .outOfFuel
  | fuel + 1, left, p, st =>
    if left = 0 then .ok (p, st)
    else if p.pos ≥ f.size then .ok (p, st)
    else
      match readSection be bits64 f p with
      | (none, p1) => .ok (p1, st)
      | (some s, p1) =>
        if s.sectionName.take 7 = textName then
          let marker := p1.pos
          match textLoop f s.address s.size (f.size + 2) 0#32 (seekSet maxOff p1 (u64 s.offset)) st.mem with
          | .error e => .error e
          | .ok m =>
            sectionLoop maxOff f be bits64 fuel (left - 1) (restore p1 marker)
              { st with mem := m, start := s.address.truncate 32, stop := (s.address + s.size - 1#64).truncate 32 }
        else sectionLoop maxOff f be bits64 fuel (left - 1) p1 st

/-- `macho_read_segment_load`: `none` = -1; otherwise `section_count` -/
def readSegmentLoad (be bits64 : Bool) (f : Bytes) (p : FPos) : Option (BitVec 32) × FPos :=
  let (nm, p) := fread f p 16
  if nm.length ≠ 16 then (none, p)
  else
    let p : FPos :=
      if bits64 then
        let (_, p) := getInt64 be f p
        let (_, p) := getInt64 be f p
        let (_, p) := getInt64 be f p
        let (_, p) := getInt64 be f p
        p
      else
        let (_, p) := getInt32 be f p
        let (_, p) := getInt32 be f p
        let (_, p) := getInt32 be f p
        let (_, p) := getInt32 be f p
        p
    let (_, p) := getInt32 be f p
    let (_, p) := getInt32 be f p
    let (count, p) := getInt32 be f p
    let (_, p) := getInt32 be f p
    (some count, p)

structure Symbol where
  stringIndex : BitVec 32
  type : UInt8
  value : BitVec 64

def byteOf (c : Option UInt8) : UInt8 := match c with | some b => b | none => 0xff

def readSymbol (be bits64 : Bool) (f : Bytes) (p : FPos) : Symbol × FPos :=
  let (si, p) := getInt32 be f p
  let (ty, p) := getc f p
  let (_, p) := getc f p
  let (_, p) := getInt16 be f p
  if bits64 then
    let (v, p) := getInt64 be f p
    ({ stringIndex := si, type := byteOf ty, value := v }, p)
  else
    let (v, p) := getInt32 be f p
    ({ stringIndex := si, type := byteOf ty, value := u64 v }, p)

/-- `for (n = 0; n < symbol_count; n++)` -/
def symbolLoop (maxOff : Nat) (f : Bytes) (nameCap : Nat) (be bits64 : Bool) (strtab : BitVec 32) :
    Nat → Nat → FPos → List (List UInt8 × Nat) → Except Fault (List (List UInt8 × Nat))
  | 0, _, _, _ => .error .outOfFuel
  | fuel + 1, left, p, syms =>
    if left = 0 then .ok syms
    else if p.pos ≥ f.size then .ok syms
    else
      let (s, p1) := readSymbol be bits64 f p
      if s.type &&& 1 = 1 then
        match getStringAtOffset maxOff f nameCap nameCap p1 (u64 (strtab + s.stringIndex)) with
        | .error e => .error e
        | .ok name => symbolLoop maxOff f nameCap be bits64 strtab fuel (left - 1) p1 ((name, s.value.toNat % 4294967296) :: syms)
      else symbolLoop maxOff f nameCap be bits64 strtab fuel (left - 1) p1 syms

/-- `for (i = 0; i < load_command_count; i++)` -/
def commandLoop (maxOff : Nat) (f : Bytes) (nameCap : Nat) (be bits64 : Bool) : Nat → Nat → FPos → St → Except Fault St
  | 0, _, _, _ => .error .outOfFuel
  | fuel + 1, left, p, st =>
    if left = 0 then .ok st
    else if p.pos ≥ f.size then .ok st
    else
      let (type, p) := getInt32 be f p
      let (size, p) := getInt32 be f p
      if type = 1#32 ∨ type = 0x19#32 then
        match readSegmentLoad be bits64 f p with
        | (none, p1) => commandLoop maxOff f nameCap be bits64 fuel (left - 1) p1 st
        | (some count, p1) =>
          match sectionLoop maxOff f be bits64 (f.size + 2) count.toNat p1 st with
          | .error e => .error e
          | .ok (p2, st1) => commandLoop maxOff f nameCap be bits64 fuel (left - 1) p2 st1
      else if type = 2#32 then
        let (symoff, p) := getInt32 be f p
        let (nsyms, p) := getInt32 be f p
        let (stroff, p) := getInt32 be f p
        let (_, p) := getInt32 be f p
        let marker := p.pos
        match symbolLoop maxOff f nameCap be bits64 stroff (f.size + 2) nsyms.toNat (seekSet maxOff p (u64 symoff)) st.syms with
        | .error e => .error e
        | .ok syms => commandLoop maxOff f nameCap be bits64 fuel (left - 1) (restore p marker) { st with syms := syms }
      else
        -- `file.skip(size - 8)`: `uint32_t` arithmetic, then `fseek(fp, (long)..., SEEK_CUR)`
        commandLoop maxOff f nameCap be bits64 fuel (left - 1) { pos := p.pos + (size - 8#32).toNat, eof := false } st

/-- the load command loop and the two assignments after it -/
def runCommands (maxOff : Nat) (f : Bytes) (nameCap : Nat) (be bits64 : Bool) (ncmds : Nat) (p : FPos) : Except Fault Loaded :=
  match commandLoop maxOff f nameCap be bits64 (f.size + 2) ncmds p {} with
  | .error e => .error e
  | .ok st => .ok { ret := 0, mem := { st.mem with low := st.start.toNat, high := st.stop.toNat }, syms := st.syms }

/-- `read_macho` -/
def read (maxOff : Nat) (f : Bytes) (nameCap : Nat := 128) : Except Fault Loaded :=
  let (magicLe, p) := getInt32 false f {}
  let swapped := magicLe = 0xcefaedfe#32 ∨ magicLe = 0xcffaedfe#32
  let (magic, p) : BitVec 32 × FPos := if swapped then getInt32 true f {} else (magicLe, p)
  let be : Bool := swapped
  if magic ≠ 0xfeedface#32 ∧ magic ≠ 0xfeedfacf#32 then .ok { ret := -1, mem := {} }
  else
    let (cpuType, p) := getInt32 be f p
    let (_, p) := getInt32 be f p
    let (_, p) := getInt32 be f p
    let (ncmds, p) := getInt32 be f p
    let (_, p) := getInt32 be f p
    let (_, p) := getInt32 be f p
    let p := if magic = 0xfeedfacf#32 then (getInt32 be f p).2 else p
    let bits64 : Bool := cpuType &&& 0x01000000#32 = 0x01000000#32
    let cpuType := if bits64 then cpuType ^^^ 0x01000000#32 else cpuType
    -- `case 0x00000012: *cpu_type = CPU_TYPE_POWERPC; file.set_endian(FileIo::FILE_ENDIAN_BIG);`
    let be : Bool := be || cpuType = 0x12#32
    runCommands maxOff f nameCap be bits64 ncmds.toNat p

end NakenVerif.Safe.Macho
