import NakenVerif.Safe.CFile
/-
C17 — transcription of /repo/fileio/read_ti_txt.cpp over an arbitrary byte string.

The two nested `while (1)` loops read one character per round; the model is one function that is
structurally recursive in the remaining characters (so it makes exactly `length + 1` rounds: the last one
sees `EOF`).  State of the inner loop: `isAddr` (`type == TYPE_ADDRESS`), `value` (`uint32_t`), `len`.
`TYPE_EOF` (`q`, or `EOF` with `len == 0`) and `TYPE_ERROR` (any other character) leave both loops; the token
in progress is dropped.  There is no array in this reader.
-/
namespace NakenVerif.Safe.TiTxt
open NakenVerif.Safe

structure St where
  address : Nat := 0
  start : Nat := 0xffffffff
  stop : Nat := 0
  mem : Mem := {}

def digit? (c : UInt8) : Option Nat :=
  if 48 ≤ c ∧ c ≤ 57 then some (c.toNat - 48)
  else if 65 ≤ c ∧ c ≤ 70 then some (c.toNat - 55)
  else if 97 ≤ c ∧ c ≤ 102 then some (c.toNat - 87)
  else none

/-- the `if (type == TYPE_ADDRESS) ... else if (type == TYPE_VALUE) ...` after the inner loop -/
def apply (isAddr : Bool) (value : Nat) (st : St) : St :=
  if isAddr then { st with address := value }
  else
    { address := (st.address + 1) % 4294967296,
      start := if st.address < st.start then st.address else st.start,
      stop := if st.address > st.stop then st.address else st.stop,
      mem := st.mem.write8 st.address (UInt8.ofNat value) }

def loop : List UInt8 → Bool → Nat → Nat → St → St
  | [], isAddr, value, len, st => if len = 0 then st else apply isAddr value st
  | c :: s, isAddr, value, len, st =>
    if c = 13 then loop s isAddr value len st
    else if c = 10 ∨ c = 32 then
      if len = 0 then loop s isAddr value len st
      else loop s false 0 0 (apply isAddr value st)
    else if c = 64 then loop s true value len st
    else if c = 113 then st
    else
      match digit? c with
      | some d => loop s isAddr ((value * 16 + d) % 4294967296) (len + 1) st
      | none => st

/-- `read_ti_txt`: always returns 0 -/
def read (f : Bytes) : Except Fault Loaded :=
  let st := loop f.toList false 0 0 {}
  .ok { ret := 0, mem := { st.mem with low := st.start, high := st.stop } }

end NakenVerif.Safe.TiTxt
