import NakenVerif.Safe.Cmd
/-
C17 — the range loops of the command layer end for every (start, end), also next to 2^32, and `chars[20]`
of print / print16 / print32 is never indexed outside its capacity.
-/
namespace NakenVerif.Safe.Cmd
open NakenVerif.Safe

/-- invariant of `ptr`: a multiple of the characters stored per item, at most one full line `W` -/
def PtrInv (W perItem ptr : Nat) : Prop := ptr ≤ W ∧ ptr % perItem = 0

theorem printLoop_ok (cap step perItem wrapMask W : Nat) (guard : Bool)
    (hW : W < cap) (hpi : 0 < perItem) (hpW : perItem ≤ W) (hstep0 : 0 < step) (hg : guard = true ∨ step = 1)
    (hline : ∀ ptr, ptr ≤ W → ptr % perItem = 0 → (ptr &&& wrapMask = 0 ∨ ptr + perItem ≤ W)) :
    ∀ (fuel start stop : Nat) (o : PrintOut), stop < M32 → PtrInv W perItem o.ptr → stop - start < fuel →
      ∃ r, printLoop cap step perItem wrapMask guard fuel start stop o = .ok r ∧ PtrInv W perItem r.ptr := by
  intro fuel
  induction fuel with
  | zero => intro start stop o _ _ h; omega
  | succ fuel ih =>
    intro start stop o hstop hinv hf
    unfold printLoop
    by_cases hlt : start < stop
    · rw [if_pos hlt]
      simp only []
      have hptr := hinv.1
      by_cases hat : o.ptr &&& wrapMask = 0
      · -- a new line: `chars[ptr] = 0; ptr = 0;`
        rw [if_neg (by intro h; exact h.2 (by omega))]
        simp only [hat, ↓reduceIte]
        rw [if_neg (by omega)]
        have hnew : PtrInv W perItem (0 + perItem) := ⟨by omega, by simp⟩
        by_cases hbrk : guard = true ∧ stop - start ≤ step
        · rw [if_pos hbrk]; exact ⟨_, rfl, hnew⟩
        · rw [if_neg hbrk]
          have hnext : (start + step) % M32 = start + step := by
            apply Nat.mod_eq_of_lt
            rcases hg with hg | hg
            · have : ¬ stop - start ≤ step := fun h => hbrk ⟨hg, h⟩
              unfold M32 at *; omega
            · unfold M32 at *; omega
          rw [hnext]
          exact ih _ _ _ hstop hnew (by omega)
      · rw [if_neg (by intro h; exact hat h.1)]
        simp only [hat, ↓reduceIte]
        have hroom : o.ptr + perItem ≤ W := by
          rcases hline o.ptr hinv.1 hinv.2 with h | h
          · exact absurd h hat
          · exact h
        rw [if_neg (by omega)]
        have hnew : PtrInv W perItem (o.ptr + perItem) := ⟨hroom, by rw [Nat.add_mod_right]; exact hinv.2⟩
        by_cases hbrk : guard = true ∧ stop - start ≤ step
        · rw [if_pos hbrk]; exact ⟨_, rfl, hnew⟩
        · rw [if_neg hbrk]
          have hnext : (start + step) % M32 = start + step := by
            apply Nat.mod_eq_of_lt
            rcases hg with hg | hg
            · have : ¬ stop - start ≤ step := fun h => hbrk ⟨hg, h⟩
              unfold M32 at *; omega
            · unfold M32 at *; omega
          rw [hnext]
          exact ih _ _ _ hstop hnew (by omega)
    · rw [if_neg hlt]; exact ⟨o, rfl, hinv⟩

theorem print_total (cap step perItem wrapMask alignMask bpa W : Nat) (guard : Bool)
    (hW : W < cap) (hpi : 0 < perItem) (hpW : perItem ≤ W) (hstep0 : 0 < step) (hg : guard = true ∨ step = 1)
    (hline : ∀ ptr, ptr ≤ W → ptr % perItem = 0 → (ptr &&& wrapMask = 0 ∨ ptr + perItem ≤ W))
    (start stop : Nat) :
    ∃ r, print cap step perItem wrapMask alignMask bpa guard start stop = .ok r := by
  unfold print
  simp only []
  split
  · exact ⟨_, rfl⟩
  · generalize hs : (if start ≥ stop then (start + 128) % M32
      else if ((stop / bpa) * bpa + (bpa - 1)) % M32 ≠ 4294967295 then ((stop / bpa) * bpa + (bpa - 1)) % M32 + 1
      else ((stop / bpa) * bpa + (bpa - 1)) % M32) = stop'
    have hs' : stop' < M32 := by
      rw [← hs]; split
      · exact Nat.mod_lt _ (by unfold M32; omega)
      · have : ((stop / bpa) * bpa + (bpa - 1)) % M32 < M32 := Nat.mod_lt _ (by unfold M32; omega)
        unfold M32 at *
        split <;> omega
    obtain ⟨o, ho, hinv⟩ := printLoop_ok cap step perItem wrapMask W guard hW hpi hpW hstep0 hg hline
      (stop' - start + 1) start stop' {} hs' ⟨Nat.zero_le _, Nat.zero_mod _⟩ (by omega)
    rw [ho]
    simp only []
    rw [if_pos (by have := hinv.1; omega)]
    exact ⟨_, rfl⟩

theorem line8 : ∀ ptr, ptr ≤ 16 → ptr % 1 = 0 → (ptr &&& 15 = 0 ∨ ptr + 1 ≤ 16) := by decide
theorem line16 : ∀ ptr, ptr ≤ 16 → ptr % 2 = 0 → (ptr &&& 15 = 0 ∨ ptr + 2 ≤ 16) := by decide
theorem line32 : ∀ ptr, ptr ≤ 8 → ptr % 2 = 0 → (ptr &&& 7 = 0 ∨ ptr + 2 ≤ 8) := by decide

/-- `print <range>`: `chars[20]` in bounds, the loop ends, for every `(start, end)` -/
theorem print8_total (bpa start stop : Nat) : ∃ r, print 20 1 1 15 0 bpa false start stop = .ok r :=
  print_total 20 1 1 15 0 bpa 16 false (by omega) (by omega) (by omega) (by omega) (Or.inr rfl) line8 start stop

/-- `print16 <range>` (with the wrap-around test of the fix) -/
theorem print16_total (alignMask bpa start stop : Nat) : ∃ r, print 20 2 2 15 alignMask bpa true start stop = .ok r :=
  print_total 20 2 2 15 alignMask bpa 16 true (by omega) (by omega) (by omega) (by omega) (Or.inl rfl) line16 start stop

/-- `print32 <range>` (with the wrap-around test of the fix) -/
theorem print32_total (alignMask bpa start stop : Nat) : ∃ r, print 20 4 2 7 alignMask bpa true start stop = .ok r :=
  print_total 20 4 2 7 alignMask bpa 8 true (by omega) (by omega) (by omega) (by omega) (Or.inl rfl) line32 start stop

/-! ### the page walk of `disasm(start, end)` -/

theorem walkLoop_ok (inUse : Nat → Bool) : ∀ (fuel n stop cs ce : Nat) (v : Bool) (acc : List (Nat × Nat)),
    n < 4294967296 → 65536 - n / 65536 < fuel → ∃ r, walkLoop inUse 65536 true fuel n stop cs ce v acc = .ok r := by
  intro fuel
  induction fuel with
  | zero => intro n stop cs ce v acc _ h; omega
  | succ fuel ih =>
    intro n stop cs ce v acc hn hf
    unfold walkLoop M32
    by_cases hle : n ≤ stop
    · rw [if_pos hle]
      simp only []
      by_cases hbrk : True ∧ n + (65536 - n % 65536) ≥ 4294967296
      · rw [if_pos hbrk]; exact ⟨_, rfl⟩
      · rw [if_neg hbrk]
        have hlt : n + (65536 - n % 65536) < 4294967296 := by
          have : ¬ n + (65536 - n % 65536) ≥ 4294967296 := fun h => hbrk ⟨trivial, h⟩
          omega
        rw [Nat.mod_eq_of_lt hlt]
        apply ih _ _ _ _ _ _ hlt
        have hdiv : (n + (65536 - n % 65536)) / 65536 = n / 65536 + 1 := by omega
        rw [hdiv]
        omega
    · rw [if_neg hle]; exact ⟨_, rfl⟩

/-- the page walk (with the fix) ends for every `(start, end)`, also in the page at `0xffff0000` -/
theorem walk_total (inUse : Nat → Bool) (start stop : Nat) (h : start < M32) :
    ∃ r, walk inUse 65536 true start stop = .ok r := by
  unfold walk
  unfold M32 at *
  exact walkLoop_ok inUse _ _ _ _ _ _ _ h (by omega)

end NakenVerif.Safe.Cmd
