/-
  The "data sections" dump shows exactly the bytes marked DL_DATA between low_address and high_address:
  each at the address a reader computes from the line's header and the column, each once, in address order.
-/
import NakenVerif.Listing.Impl

namespace NakenVerif.Listing
open NakenVerif.Memory

theorem colCells_append (base : Nat) : ∀ (xs ys : List (Option Byte)) (k : Nat),
    colCells base k (xs ++ ys) = colCells base k xs ++ colCells base (k + xs.length) ys := by
  intro xs
  induction xs with
  | nil => intro ys k; simp [colCells]
  | cons x xs ih =>
    intro ys k
    cases x with
    | none =>
      simp only [List.cons_append, colCells, ih, List.length_cons]
      congr 2; omega
    | some b =>
      simp only [List.cons_append, colCells, ih, List.length_cons, List.cons.injEq, true_and]
      congr 2; omega

theorem colCells_blanks (base : Nat) : ∀ (n k : Nat), colCells base k (List.replicate n none) = [] := by
  intro n
  induction n with
  | zero => intro k; rfl
  | succ n ih => intro k; simp [List.replicate_succ, colCells, ih]

/-- everything the dump state holds, oldest first -/
def DumpSt.lines (s : DumpSt) : List DLine := s.flush.done.reverse

theorem flush_done_none (s : DumpSt) (h : s.cur = none) : s.flush.done = s.done := by
  unfold DumpSt.flush; rw [h]

theorem flush_done_some (s : DumpSt) (l : DLine) (h : s.cur = some l) : s.flush.done = l :: s.done := by
  unfold DumpSt.flush; rw [h]

theorem lines_mk_none (d : List DLine) (c : Nat) : ({ done := d, cur := none, ch := c } : DumpSt).lines = d.reverse := by
  unfold DumpSt.lines; rw [flush_done_none _ rfl]

theorem lines_mk_some (d : List DLine) (l : DLine) (c : Nat) :
    ({ done := d, cur := some l, ch := c } : DumpSt).lines = d.reverse ++ [l] := by
  unfold DumpSt.lines; rw [flush_done_some _ l rfl]; simp

/-- what the loop maintains: a line is open exactly when `ch ≠ 0` (or it is full and waits to be ended), and its
next column is the byte at the loop counter -/
structure DumpInv (bpa : Nat) (s : DumpSt) (i : Nat) : Prop where
  chlt : s.ch < 16
  open_ : s.ch ≠ 0 → ∃ l, s.cur = some l ∧ l.cols.length = s.ch ∧ l.unit * bpa + s.ch = i

/-- the cell the loop body adds -/
def dataCell (m : Memory) (i : Nat) : Option (Nat × Byte) :=
  if readDebug m (BitVec.ofNat 32 i) = dlData then some (i, read8 m (BitVec.ofNat 32 i)) else none

/-- pushing a byte onto an open line whose next column is address `i` -/
theorem push_spec (bpa : Nat) (d : List DLine) (l : DLine) (c i : Nat) (b : Byte) (hc : c < 16)
    (hlen : l.cols.length = c) (haddr : l.unit * bpa + c = i) :
    DumpInv bpa (({ done := d, cur := some l, ch := c } : DumpSt).push b) (i + 1) ∧
    dumpCells bpa (({ done := d, cur := some l, ch := c } : DumpSt).push b).lines =
      dumpCells bpa (({ done := d, cur := some l, ch := c } : DumpSt)).lines ++ [(i, b)] := by
  unfold DumpSt.push
  simp only
  refine ⟨⟨?_, ?_⟩, ?_⟩
  · show (if c + 1 = 16 then 0 else c + 1) < 16
    split <;> omega
  · intro hne
    have hne' : ¬ (c + 1 = 16) := by intro h; simp [h] at hne
    refine ⟨_, rfl, ?_, ?_⟩
    · simp [hne', hlen]
    · simp only [hne', if_false]; omega
  · rw [lines_mk_some, lines_mk_some]
    simp only [dumpCells, List.flatMap_append, List.flatMap_cons, List.flatMap_nil, List.append_nil, List.append_assoc]
    congr 1
    simp only [dlineCells, colCells_append, colCells, Nat.zero_add, hlen, haddr]

theorem dumpStep_spec (m : Memory) (bpa : Nat) (hb : 0 < bpa) (hb16 : bpa ≤ 16) (s : DumpSt) (i : Nat)
    (inv : DumpInv bpa s i) :
    DumpInv bpa (dumpStep m bpa s i) (i + 1) ∧
    dumpCells bpa (dumpStep m bpa s i).lines = dumpCells bpa s.lines ++ (dataCell m i).toList := by
  unfold dumpStep dataCell
  by_cases hd : readDebug m (BitVec.ofNat 32 i) = dlData
  · simp only [hd, if_true, Option.toList]
    by_cases hc : s.ch = 0
    · -- a new line is opened
      simp only [hc, if_true]
      have hmod : i % bpa < bpa := Nat.mod_lt _ hb
      have hk : blanks i bpa = i % bpa := by unfold blanks; omega
      have hdiv : i / bpa * bpa + i % bpa = i := by
        have := Nat.div_add_mod i bpa
        rw [Nat.mul_comm] at this; exact this
      unfold DumpSt.newLine
      have := push_spec bpa s.flush.done { unit := i / bpa, cols := List.replicate (blanks i bpa) none } (blanks i bpa) i
        (read8 m (BitVec.ofNat 32 i)) (by omega) (by simp) (by simp only [hk]; exact hdiv)
      refine ⟨this.1, ?_⟩
      rw [this.2, lines_mk_some]
      simp only [dumpCells, List.flatMap_append, List.flatMap_cons, List.flatMap_nil, List.append_nil]
      have e : dlineCells bpa { unit := i / bpa, cols := List.replicate (blanks i bpa) none } = [] := by
        simp [dlineCells, colCells_blanks]
      rw [e]
      simp [DumpSt.lines]
    · -- the open line gets one more column
      obtain ⟨l, hcur, hlen, haddr⟩ := inv.open_ hc
      simp only [hc, if_false]
      have hs : s = { done := s.done, cur := some l, ch := s.ch } := by
        cases s; simp only at hcur; subst hcur; rfl
      rw [hs]
      exact push_spec bpa s.done l s.ch i _ inv.chlt hlen haddr
  · simp only [hd, if_false, Option.toList, List.append_nil]
    refine ⟨⟨by simp, fun h => absurd rfl h⟩, ?_⟩
    rw [lines_mk_none]; rfl

theorem dump_fold (m : Memory) (bpa : Nat) (hb : 0 < bpa) (hb16 : bpa ≤ 16) :
    ∀ (n low : Nat) (s : DumpSt), DumpInv bpa s low →
      dumpCells bpa (((List.range n).map (low + ·)).foldl (dumpStep m bpa) s).lines =
        dumpCells bpa s.lines ++ ((List.range n).map (low + ·)).filterMap (dataCell m) := by
  intro n
  induction n with
  | zero => intro low s _; simp
  | succ n ih =>
    intro low s inv
    have hr : (List.range (n + 1)).map (low + ·) = low :: (List.range n).map (low + 1 + ·) := by
      rw [List.range_succ_eq_map]
      simp only [List.map_cons, List.map_map, Nat.add_zero, List.cons.injEq, true_and]
      apply List.map_congr_left
      intro a _; simp only [Function.comp]; omega
    rw [hr]
    simp only [List.foldl_cons, List.filterMap_cons]
    obtain ⟨inv', hc⟩ := dumpStep_spec m bpa hb hb16 s low inv
    rw [ih (low + 1) _ inv', hc]
    cases h : dataCell m low <;> simp [Option.toList, List.append_assoc]

/-- **the dump is exact.**  For every memory and every bytes-per-address between 1 and 16: the cells a reader takes
from the dump (column `k` of the line headed `u` = byte at `u * bpa + k`) are, in order, exactly the addresses
`low_address … high_address` whose marker is DL_DATA, each with the byte the memory holds there. -/
theorem dump_exact (m : Memory) (bpa : Nat) (hb : 0 < bpa) (hb16 : bpa ≤ 16) :
    dumpCells bpa (dump m bpa) =
      (dumpRange m.lowAddress.toNat m.highAddress.toNat).filterMap (dataCell m) := by
  have := dump_fold m bpa hb hb16 (m.highAddress.toNat + 1 - m.lowAddress.toNat) m.lowAddress.toNat
    { done := [], cur := none, ch := 0 } ⟨by simp, fun h => absurd rfl h⟩
  unfold dump dumpRange
  rw [lines_mk_none] at this
  simpa [DumpSt.lines, dumpCells] using this

end NakenVerif.Listing
