/-
  The invariant holds after every statement sequence of the second pass (under the hypotheses that the theorems of
  Props/C18 name: no address written twice, no wrap-around, every call shows exactly its code bytes).
-/
import NakenVerif.Listing.ProofsRep

namespace NakenVerif.Listing
open NakenVerif.Memory
open NakenVerif.Core.Directives

variable {m0 : Memory}

/-- the ghost lists only grow -/
structure LSt.Le (a b : LSt) : Prop where
  writes : ∃ w, b.writes = a.writes ++ w
  calls : ∃ c, b.calls = a.calls ++ c
  nowrap : b.nowrap = true → a.nowrap = true

theorem LSt.Le.refl (a : LSt) : a.Le a := ⟨⟨[], by simp⟩, ⟨[], by simp⟩, id⟩

theorem LSt.Le.trans {a b c : LSt} (h1 : a.Le b) (h2 : b.Le c) : a.Le c := by
  obtain ⟨w1, e1⟩ := h1.writes
  obtain ⟨w2, e2⟩ := h2.writes
  obtain ⟨c1, f1⟩ := h1.calls
  obtain ⟨c2, f2⟩ := h2.calls
  exact ⟨⟨w1 ++ w2, by rw [e2, e1, List.append_assoc]⟩, ⟨c1 ++ c2, by rw [f2, f1, List.append_assoc]⟩,
    fun h => h1.nowrap (h2.nowrap h)⟩

theorem execSimple_le (cfg : Cfg) (ls ls' : LSt) (s : Simple) (h : execSimple cfg ls s = .ok ls') : ls.Le ls' := by
  cases s with
  | dir d =>
    simp only [execSimple] at h
    split at h
    · cases h
    · injection h with h; subst h
      exact ⟨⟨_, rfl⟩, ⟨[], by simp⟩, fun h => by simp only [Bool.and_eq_true] at h; exact h.1⟩
  | instr line listed es =>
    simp only [execSimple] at h
    injection h with h; subst h
    refine ⟨⟨_, rfl⟩, ?_, fun h => by simp only [Bool.and_eq_true] at h; exact h.1⟩
    simp only
    split
    · exact ⟨_, rfl⟩
    · exact ⟨[], by simp⟩

theorem execSimples_le (cfg : Cfg) : ∀ (ss : List Simple) (ls ls' : LSt), execSimples cfg ls ss = .ok ls' → ls.Le ls' := by
  intro ss
  induction ss with
  | nil => intro ls ls' h; simp only [execSimples] at h; injection h with h; subst h; exact LSt.Le.refl _
  | cons s ss ih =>
    intro ls ls' h
    simp only [execSimples] at h
    split at h
    · rename_i ls1 h1
      exact (execSimple_le cfg ls ls1 s h1).trans (ih ls1 ls' h)
    · cases h

theorem execStmt_le (cfg : Cfg) (ls ls' : LSt) (s : Stmt) (h : execStmt cfg ls s = .ok ls') : ls.Le ls' := by
  cases s with
  | simple s => exact execSimple_le cfg ls ls' s h
  | rep line listed count body =>
    simp only [execStmt] at h
    split at h
    · cases h
    · split at h
      · cases h
      · rename_i ls1 h1
        injection h with h; subst h
        refine (execSimples_le cfg body ls ls1 h1).trans ⟨⟨_, rfl⟩, ?_, fun h => by simp only [Bool.and_eq_true] at h; exact h.1⟩
        simp only
        split
        · exact ⟨_, rfl⟩
        · exact ⟨[], by simp⟩

theorem execStmts_le (cfg : Cfg) : ∀ (ss : List Stmt) (ls ls' : LSt), execStmts cfg ls ss = .ok ls' → ls.Le ls' := by
  intro ss
  induction ss with
  | nil => intro ls ls' h; simp only [execStmts] at h; injection h with h; subst h; exact LSt.Le.refl _
  | cons s ss ih =>
    intro ls ls' h
    simp only [execStmts] at h
    split at h
    · rename_i ls1 h1
      exact (execStmt_le cfg ls ls1 s h1).trans (ih ls1 ls' h)
    · cases h

/-- the hypotheses about the final state hold for every earlier state -/
theorem LSt.Le.pull {a b : LSt} (h : a.Le b) (hnd : b.writes.Nodup) (hnw : b.nowrap = true) (hex : ∀ c ∈ b.calls, c.Exact) :
    a.writes.Nodup ∧ a.nowrap = true ∧ ∀ c ∈ a.calls, c.Exact := by
  obtain ⟨w, e⟩ := h.writes
  obtain ⟨c, f⟩ := h.calls
  refine ⟨?_, h.nowrap hnw, ?_⟩
  · rw [e] at hnd; exact (List.nodup_append.mp hnd).1
  · intro x hx; exact hex x (by rw [f]; exact List.mem_append_left _ hx)

/-- source lines are positive, so a line number is never the marker DL_DATA -/
def Simple.LineOk : Simple → Prop
  | .dir _ => True
  | .instr line _ _ => line ≠ dlData

def Stmt.LineOk : Stmt → Prop
  | .simple s => s.LineOk
  | .rep line _ _ body => line ≠ dlData ∧ ∀ s ∈ body, s.LineOk

theorem execSimple_inv (cfg : Cfg) (hlist : cfg.listing = true) (hf : ∀ m, cfg.fmt.SoundOn m) (ls ls' : LSt) (s : Simple)
    (h : execSimple cfg ls s = .ok ls') (hl : s.LineOk)
    (hnd : ls'.writes.Nodup) (hnw : ls'.nowrap = true) (hex : ∀ c ∈ ls'.calls, c.Exact) (inv : Inv m0 ls) : Inv m0 ls' := by
  cases s with
  | dir d => exact exec_dir_inv cfg ls ls' d h hnd inv
  | instr line listed es => exact exec_instr_inv cfg hlist hf ls ls' line listed es h hl hnd hnw hex inv

theorem execSimples_inv (cfg : Cfg) (hlist : cfg.listing = true) (hf : ∀ m, cfg.fmt.SoundOn m) :
    ∀ (ss : List Simple) (ls ls' : LSt), execSimples cfg ls ss = .ok ls' → (∀ s ∈ ss, s.LineOk) →
      ls'.writes.Nodup → ls'.nowrap = true → (∀ c ∈ ls'.calls, c.Exact) → Inv m0 ls → Inv m0 ls' := by
  intro ss
  induction ss with
  | nil => intro ls ls' h _ _ _ _ inv; simp only [execSimples] at h; injection h with h; subst h; exact inv
  | cons s ss ih =>
    intro ls ls' h hl hnd hnw hex inv
    simp only [execSimples] at h
    split at h
    · rename_i ls1 h1
      obtain ⟨p1, p2, p3⟩ := (execSimples_le cfg ss ls1 ls' h).pull hnd hnw hex
      have inv1 := execSimple_inv cfg hlist hf ls ls1 s h1 (hl s List.mem_cons_self) p1 p2 p3 inv
      exact ih ls1 ls' h (fun x hx => hl x (List.mem_cons_of_mem _ hx)) hnd hnw hex inv1
    · cases h

theorem exec_rep_inv (cfg : Cfg) (hlist : cfg.listing = true) (hf : ∀ m, cfg.fmt.SoundOn m) (ls ls' : LSt)
    (line : BitVec 32) (listed : Bool) (count : Nat) (body : List Simple)
    (h : execStmt cfg ls (.rep line listed count body) = .ok ls') (hl : (Stmt.rep line listed count body).LineOk)
    (hnd : ls'.writes.Nodup) (hnw : ls'.nowrap = true) (hex : ∀ c ∈ ls'.calls, c.Exact) (inv : Inv m0 ls) : Inv m0 ls' := by
  simp only [execStmt] at h
  split at h
  · cases h
  · split at h
    · cases h
    · rename_i ls1 h1
      injection h with h
      -- the body
      have le1 : ls1.Le ls' := by
        subst h
        refine ⟨⟨_, rfl⟩, ?_, fun h => by simp only [Bool.and_eq_true] at h; exact h.1⟩
        simp only
        split
        · exact ⟨_, rfl⟩
        · exact ⟨[], by simp⟩
      obtain ⟨p1, p2, p3⟩ := le1.pull hnd hnw hex
      have inv1 := execSimples_inv cfg hlist hf body ls ls1 h1 hl.2 p1 p2 p3 inv
      have hp1 := inv1.pass2
      -- the copies
      obtain ⟨a2, pp2, w2⟩ := copyAll_spec cfg line ls.st.address ls1.st.address count ls1.st hp1
      have hcw : copyWrites cfg ls1.st.pass ls1.st.address (spanLen ls.st.address ls1.st.address) count =
          addrRange ls1.st.address (spanLen ls.st.address ls1.st.address * (count - 1)) := by
        unfold copyWrites; rw [if_neg (by rw [hp1]; simp)]
      simp only [hcw, hlist, true_and] at h
      subst h
      simp only [Bool.and_eq_true, decide_eq_true_eq] at hnw
      have hlt := hnw.2
      generalize hN : spanLen ls.st.address ls1.st.address * (count - 1) = N at *
      generalize hm2 : (copyAll cfg line ls.st.address ls1.st.address count ls1.st) = st2 at *
      have hstop2 : st2.address.toNat = ls1.st.address.toNat + N := by
        rw [a2, toNat_add_ofNat _ _ hlt]
      have hsub : st2.address.toNat - ls1.st.address.toNat = N := by omega
      simp only at hex
      refine inv_block ls1 _ (addrRange ls1.st.address N) (codeIn st2.memory ls1.st.address N)
        (if listed then repRuns cfg st2.memory (st2.address.toNat - ls1.st.address.toNat) ls1.st.address st2.address else [])
        listed inv1 pp2 (w2.mono fun _ _ => trivial) rfl hnd ?_ rfl ?_ ?_ ?_ ?_ ?_ ?_
      · cases listed <;> simp
      · intro x hx; exact (List.mem_filter.mp hx).1
      · exact (addrRange_nodup N _ (by omega)).filter _
      · intro x hx hm
        exact List.mem_filter.mpr ⟨hx, by simpa using hm⟩
      · intro x hx
        simpa using (List.mem_filter.mp hx).2
      · cases listed
        · simp [shownAddrs]
        · simp only [if_true]
          rw [shownAddrs_of_exact _ (fun c hc => hex c (by simp only [if_true]; exact List.mem_append_right _ hc))]
          rw [repRuns_spans cfg st2.memory st2.address _ ls1.st.address (Nat.le_refl _) (by omega), hsub]
      · intro c hc
        cases listed
        · cases hc
        · simp only [if_true] at hc
          exact repRuns_true cfg hf _ _ _ _ c hc

theorem execStmt_inv (cfg : Cfg) (hlist : cfg.listing = true) (hf : ∀ m, cfg.fmt.SoundOn m) (ls ls' : LSt) (s : Stmt)
    (h : execStmt cfg ls s = .ok ls') (hl : s.LineOk)
    (hnd : ls'.writes.Nodup) (hnw : ls'.nowrap = true) (hex : ∀ c ∈ ls'.calls, c.Exact) (inv : Inv m0 ls) : Inv m0 ls' := by
  cases s with
  | simple s => exact execSimple_inv cfg hlist hf ls ls' s h hl hnd hnw hex inv
  | rep line listed count body => exact exec_rep_inv cfg hlist hf ls ls' line listed count body h hl hnd hnw hex inv

theorem execStmts_inv (cfg : Cfg) (hlist : cfg.listing = true) (hf : ∀ m, cfg.fmt.SoundOn m) :
    ∀ (ss : List Stmt) (ls ls' : LSt), execStmts cfg ls ss = .ok ls' → (∀ s ∈ ss, s.LineOk) →
      ls'.writes.Nodup → ls'.nowrap = true → (∀ c ∈ ls'.calls, c.Exact) → Inv m0 ls → Inv m0 ls' := by
  intro ss
  induction ss with
  | nil => intro ls ls' h _ _ _ _ inv; simp only [execStmts] at h; injection h with h; subst h; exact inv
  | cons s ss ih =>
    intro ls ls' h hl hnd hnw hex inv
    simp only [execStmts] at h
    split at h
    · rename_i ls1 h1
      obtain ⟨p1, p2, p3⟩ := (execStmts_le cfg ss ls1 ls' h).pull hnd hnw hex
      have inv1 := execStmt_inv cfg hlist hf ls ls1 s h1 (hl s List.mem_cons_self) p1 p2 p3 inv
      exact ih ls1 ls' h (fun x hx => hl x (List.mem_cons_of_mem _ hx)) hnd hnw hex inv1
    · cases h

/-- the state the second pass starts from satisfies the invariant, whatever the first pass left in memory -/
theorem inv_start (st : St) (hp : st.pass = 2) :
    Inv st.memory { st, calls := [], writes := [], quiet := [], nowrap := true } := by
  refine ⟨hp, ?_, ?_, ?_, ?_, ?_, Or.inl rfl, Or.inl rfl⟩
  · intro c h; cases h
  · intro a h; simp [shownAddrs] at h
  · intro a h; simp [shownAddrs] at h
  · intro a h; cases h
  · intro a h; cases h

end NakenVerif.Listing
