/-
  `.repeat`: what the copy loop writes, and that the listing of the copies (one `list_output` call per run of
  bytes that are not marked as data) covers exactly the copied code bytes, each once, in order.
-/
import NakenVerif.Listing.ProofsRun

namespace NakenVerif.Listing
open NakenVerif.Memory
open NakenVerif.Core.Directives

/-! ### the copy loop -/

/-- a fold whose every step is one `memory_write_inc` with a marker satisfying `P` -/
theorem foldl_writeMark_spec {α : Type} (P : BitVec 32 → Prop) (f : St → α → St)
    (hf : ∀ st x, ∃ b mk, P mk ∧ f st x = writeMark st b mk) : ∀ (xs : List α) (st : St),
    (xs.foldl f st).address = st.address + BitVec.ofNat 32 xs.length ∧ (xs.foldl f st).pass = st.pass ∧
    Wrote st.memory (xs.foldl f st).memory (addrRange st.address xs.length) P := by
  intro xs
  induction xs with
  | nil => intro st; exact ⟨by simp, rfl, Wrote.refl _ _⟩
  | cons x xs ih =>
    intro st
    obtain ⟨b, mk, hp, e⟩ := hf st x
    obtain ⟨f1, _, f3, _, f5⟩ := writeMark_fields st b mk
    obtain ⟨i1, i3, i5⟩ := ih (f st x)
    simp only [List.foldl_cons, List.length_cons]
    rw [e] at i1 i3 i5 ⊢
    refine ⟨?_, by rw [i3, f3], ?_⟩
    · rw [i1, f1, BitVec.add_assoc, one_add_ofNat]
    · have w1 : Wrote st.memory (writeMark st b mk).memory [st.address] P := by
        rw [f5]; exact wrote_write _ _ _ _ P hp
      rw [f1] at i5
      exact Wrote.append w1 i5

/-- a fold of such folds (every inner fold over `n` elements) -/
theorem foldl_blocks_spec (P : BitVec 32 → Prop) (g : St → St) (n : Nat)
    (hg : ∀ st, (g st).address = st.address + BitVec.ofNat 32 n ∧ (g st).pass = st.pass ∧
      Wrote st.memory (g st).memory (addrRange st.address n) P) : ∀ (k : Nat) (st : St),
    ((List.range k).foldl (fun st _ => g st) st).address = st.address + BitVec.ofNat 32 (n * k) ∧
    ((List.range k).foldl (fun st _ => g st) st).pass = st.pass ∧
    Wrote st.memory ((List.range k).foldl (fun st _ => g st) st).memory (addrRange st.address (n * k)) P := by
  intro k
  induction k with
  | zero => intro st; exact ⟨by simp, rfl, by rw [Nat.mul_zero]; exact Wrote.refl _ _⟩
  | succ k ih =>
    intro st
    rw [List.range_succ, List.foldl_append]
    simp only [List.foldl_cons, List.foldl_nil]
    obtain ⟨i1, i2, i3⟩ := ih st
    obtain ⟨g1, g2, g3⟩ := hg ((List.range k).foldl (fun st _ => g st) st)
    refine ⟨?_, by rw [g2, i2], ?_⟩
    · rw [g1, i1, BitVec.add_assoc, ofNat_add_ofNat, Nat.mul_succ]
    · rw [i1] at g3
      have : n * (k + 1) = n * k + n := Nat.mul_succ n k
      rw [this, addrRange_append]
      exact Wrote.append i3 g3

theorem copyByte_pass2 (cfg : Cfg) (line : BitVec 32) (_hp2 : ∀ st : St, st.pass = 2 → True) (st : St) (r : BitVec 32)
    (hp : st.pass = 2) :
    ∃ b mk, (mk = dlData ∨ mk = line) ∧ copyByte cfg line st r = writeMark st b mk := by
  unfold copyByte
  simp only
  split
  · exact ⟨read8 st.memory r, dlData, Or.inl rfl, rfl⟩
  · refine ⟨read8 st.memory r, line, Or.inr rfl, ?_⟩
    rw [emitCode_pass2 cfg line st _ hp]; rfl

/-- the copies of a `.repeat` block in the second pass: `n * (count - 1)` bytes from the location counter on, each
marked as data or with the source line -/
theorem copyAll_spec (cfg : Cfg) (line : BitVec 32) (start stop : BitVec 32) (count : Nat) (st : St) (hp : st.pass = 2) :
    let n := spanLen start stop
    (copyAll cfg line start stop count st).address = st.address + BitVec.ofNat 32 (n * (count - 1)) ∧
    (copyAll cfg line start stop count st).pass = 2 ∧
    Wrote st.memory (copyAll cfg line start stop count st).memory (addrRange st.address (n * (count - 1)))
      (fun v => v = dlData ∨ v = line) := by
  intro n
  -- every step keeps pass = 2, so the statement is proved for the pass-guarded step function
  let f : St → BitVec 32 → St := fun st r => if st.pass = 2 then copyByte cfg line st r else writeMark st 0 dlData
  have hf : ∀ st x, ∃ b mk, (mk = dlData ∨ mk = line) ∧ f st x = writeMark st b mk := by
    intro st x
    by_cases h : st.pass = 2
    · obtain ⟨b, mk, h1, h2⟩ := copyByte_pass2 cfg line (fun _ _ => trivial) st x h
      exact ⟨b, mk, h1, by simp only [f, h, if_true]; exact h2⟩
    · exact ⟨0, dlData, Or.inl rfl, by simp only [f, h, if_false]⟩
  have same : ∀ (xs : List (BitVec 32)) (st : St), st.pass = 2 → xs.foldl (copyByte cfg line) st = xs.foldl f st := by
    intro xs
    induction xs with
    | nil => intro st _; rfl
    | cons x xs ih =>
      intro st h
      simp only [List.foldl_cons]
      have e : f st x = copyByte cfg line st x := by simp only [f, h, if_true]
      rw [e]
      apply ih
      obtain ⟨b, mk, _, e2⟩ := copyByte_pass2 cfg line (fun _ _ => trivial) st x h
      rw [e2, (writeMark_fields st b mk).2.2.1]; exact h
  let g : St → St := fun st => (addrRange start n).foldl f st
  have hg : ∀ st, (g st).address = st.address + BitVec.ofNat 32 n ∧ (g st).pass = st.pass ∧
      Wrote st.memory (g st).memory (addrRange st.address n) (fun v => v = dlData ∨ v = line) := by
    intro st
    have := foldl_writeMark_spec (fun v => v = dlData ∨ v = line) f hf (addrRange start n) st
    simpa [g] using this
  have sameAll : ∀ (k : Nat) (st : St), st.pass = 2 →
      (List.range k).foldl (fun st _ => copyOnce cfg line start stop st) st = (List.range k).foldl (fun st _ => g st) st := by
    intro k
    induction k with
    | zero => intro st _; rfl
    | succ k ih =>
      intro st h
      rw [List.range_succ, List.foldl_append, List.foldl_append, ih st h]
      simp only [List.foldl_cons, List.foldl_nil]
      have hp' := (foldl_blocks_spec _ g n hg k st).2.1
      exact same _ _ (by rw [hp']; exact h)
  have := foldl_blocks_spec _ g n hg (count - 1) st
  unfold copyAll
  rw [sameAll _ _ hp]
  exact ⟨this.1, by rw [this.2.1]; exact hp, this.2.2⟩

/-! ### the runs of the copies -/

theorem toNat_succ_of_lt (b limit : BitVec 32) (h : b < limit) : (b + 1).toNat = b.toNat + 1 := by
  have h1 : b.toNat < limit.toNat := by rwa [BitVec.lt_def] at h
  have := limit.isLt
  exact toNat_add_one b (by omega)

theorem scanRun_spec (m : Memory) (limit : BitVec 32) : ∀ (fuel : Nat) (b : BitVec 32),
    limit.toNat - b.toNat ≤ fuel → b.toNat ≤ limit.toNat →
    let e := scanRun m fuel b limit
    b.toNat ≤ e.toNat ∧ e.toNat ≤ limit.toNat ∧
    (∀ x ∈ addrRange b (e.toNat - b.toNat), readDebug m x ≠ dlData) ∧
    (e.toNat = limit.toNat ∨ readDebug m e = dlData) := by
  intro fuel
  induction fuel with
  | zero =>
    intro b h1 h2
    simp only [scanRun]
    refine ⟨Nat.le_refl _, h2, ?_, Or.inl (by omega)⟩
    intro x hx; simp [addrRange] at hx
  | succ fuel ih =>
    intro b h1 h2
    simp only [scanRun]
    by_cases hc : b < limit ∧ readDebug m b ≠ dlData
    · rw [if_pos hc]
      have hs := toNat_succ_of_lt b limit hc.1
      have hlt : b.toNat < limit.toNat := by have := hc.1; rwa [BitVec.lt_def] at this
      obtain ⟨i1, i2, i3, i4⟩ := ih (b + 1) (by rw [hs]; omega) (by rw [hs]; omega)
      rw [hs] at i1 i3
      refine ⟨by omega, i2, ?_, i4⟩
      intro x hx
      have : (scanRun m fuel (b + 1) limit).toNat - b.toNat = (scanRun m fuel (b + 1) limit).toNat - (b.toNat + 1) + 1 := by omega
      rw [this] at hx
      have e1 : addrRange b ((scanRun m fuel (b + 1) limit).toNat - (b.toNat + 1) + 1) =
          b :: addrRange (b + 1) ((scanRun m fuel (b + 1) limit).toNat - (b.toNat + 1)) := rfl
      rw [e1] at hx
      cases hx with
      | head => exact hc.2
      | tail _ hx => exact i3 x hx
    · rw [if_neg hc]
      refine ⟨Nat.le_refl _, h2, by intro x hx; simp [addrRange] at hx, ?_⟩
      by_cases hl : b < limit
      · right
        have : ¬ readDebug m b ≠ dlData := fun h => hc ⟨hl, h⟩
        exact Classical.not_not.mp this
      · left
        rw [BitVec.lt_def] at hl; omega

/-- the addresses of a range that are not marked as data -/
def codeIn (m : Memory) (a : BitVec 32) (n : Nat) : List (BitVec 32) :=
  (addrRange a n).filter fun x => decide (readDebug m x ≠ dlData)

/-- the code addresses each call is meant to show -/
def callSpans (calls : List Call) : List (BitVec 32) :=
  calls.flatMap fun c => addrRange c.first (c.stop.toNat - c.first.toNat)

/-- **the runs partition the copied code.**  The calls made for the copies are, in order, the maximal runs of
addresses between `a` and `limit` that are not marked as data: together they span exactly those addresses. -/
theorem repRuns_spans (cfg : Cfg) (m : Memory) (limit : BitVec 32) : ∀ (fuel : Nat) (a : BitVec 32),
    limit.toNat - a.toNat ≤ fuel → a.toNat ≤ limit.toNat →
    callSpans (repRuns cfg m fuel a limit) = codeIn m a (limit.toNat - a.toNat) := by
  intro fuel
  induction fuel using Nat.strongRecOn with
  | _ fuel ih =>
    intro a h1 h2
    cases fuel with
    | zero =>
      have : limit.toNat - a.toNat = 0 := by omega
      simp [repRuns, callSpans, codeIn, this, addrRange]
    | succ fuel =>
      simp only [repRuns]
      by_cases hlt : a < limit
      · have hltn : a.toNat < limit.toNat := by rwa [BitVec.lt_def] at hlt
        have hs := toNat_succ_of_lt a limit hlt
        simp only [hlt, if_true]
        have hsplit : limit.toNat - a.toNat = (limit.toNat - (a.toNat + 1)) + 1 := by omega
        by_cases hd : readDebug m a = dlData
        · simp only [hd, if_true]
          rw [ih fuel (Nat.lt_succ_self _) (a + 1) (by rw [hs]; omega) (by rw [hs]; omega), hs, hsplit]
          simp [codeIn, addrRange, hd]
        · simp only [hd, if_false]
          obtain ⟨s1, s2, s3, s4⟩ := scanRun_spec m limit (limit.toNat - a.toNat) a (Nat.le_refl _) (by omega)
          generalize hb : scanRun m (limit.toNat - a.toNat) a limit = b at s1 s2 s3 s4
          -- the run is not empty: its first address is not data
          have hgt : a.toNat < b.toNat := by
            rcases s4 with h | h
            · omega
            · rcases Nat.lt_or_ge a.toNat b.toNat with h' | h'
              · exact h'
              · have : b = a := by apply BitVec.eq_of_toNat_eq; omega
                rw [this] at h; exact absurd h hd
          simp only [callSpans, List.flatMap_cons, mkCall]
          have ihb := ih fuel (Nat.lt_succ_self _) b (by omega) s2
          unfold callSpans at ihb
          rw [ihb]
          have hab : a + BitVec.ofNat 32 (b.toNat - a.toNat) = b := by
            apply BitVec.eq_of_toNat_eq
            rw [toNat_add_ofNat _ _ (by have := b.isLt; omega)]; omega
          have : limit.toNat - a.toNat = (b.toNat - a.toNat) + (limit.toNat - b.toNat) := by omega
          rw [this]
          unfold codeIn
          rw [addrRange_append, List.filter_append, hab]
          congr 1
          apply (List.filter_eq_self.mpr ?_).symm
          intro x hx
          simpa using s3 x hx
      · have : limit.toNat - a.toNat = 0 := by rw [BitVec.lt_def] at hlt; omega
        simp [hlt, callSpans, codeIn, this, addrRange]

/-- every call made for the copies starts where its code starts -/
theorem repRuns_first (cfg : Cfg) (m : Memory) (limit : BitVec 32) : ∀ (fuel : Nat) (a : BitVec 32),
    ∀ c ∈ repRuns cfg m fuel a limit, c.first = c.start := by
  intro fuel
  induction fuel using Nat.strongRecOn with
  | _ fuel ih =>
    intro a c hc
    cases fuel with
    | zero => simp [repRuns] at hc
    | succ fuel =>
      simp only [repRuns] at hc
      split at hc
      · split at hc
        · exact ih fuel (Nat.lt_succ_self _) _ c hc
        · cases hc with
          | head => rfl
          | tail _ hc => exact ih fuel (Nat.lt_succ_self _) _ c hc
      · cases hc

theorem repRuns_true (cfg : Cfg) (hf : ∀ m, cfg.fmt.SoundOn m) (m : Memory) (limit : BitVec 32) :
    ∀ (fuel : Nat) (a : BitVec 32), ∀ c ∈ repRuns cfg m fuel a limit, c.TrueOn m := by
  intro fuel
  induction fuel using Nat.strongRecOn with
  | _ fuel ih =>
    intro a c hc
    cases fuel with
    | zero => simp [repRuns] at hc
    | succ fuel =>
      simp only [repRuns] at hc
      split at hc
      · split at hc
        · exact ih fuel (Nat.lt_succ_self _) _ c hc
        · cases hc with
          | head => exact mkCall_true cfg hf _ _ _ _
          | tail _ hc => exact ih fuel (Nat.lt_succ_self _) _ c hc
      · cases hc

/-- when every call shows exactly its span, the shown addresses are the spans -/
theorem shownAddrs_of_exact (calls : List Call) (h : ∀ c ∈ calls, c.Exact) : shownAddrs calls = callSpans calls := by
  induction calls with
  | nil => rfl
  | cons c cs ih =>
    simp only [shownAddrs, callSpans, List.flatMap_cons] at ih ⊢
    rw [ih (fun c' hc' => h c' (List.mem_cons_of_mem _ hc'))]
    have := h c List.mem_cons_self
    unfold Call.Exact at this
    rw [this]

end NakenVerif.Listing
