/-
Implementation model of the listing (-l):

  core/AsmContext.cpp     assemble(): `list_output(this, start_address, address)` after every instruction (pass 2)
  core/add_bin.cpp        the marks an instruction leaves: source line / DL_NO_CG; asm/msp430.cpp: the pad byte (DL_DATA)
  core/directives.cpp     parse_repeat: body once, the copy loop (data copied as data, everything else as code),
                          listing of the copies one run of code bytes at a time
  disasm/*.cpp            the formatter loop `while (start < end) { count = disasm(...); print; start += count; }`,
                          list_output_msp430 (pad skip, word + continuation lines), list_output_riscv (16/32-bit lines)
  main/naken_asm.cpp      the "data sections" dump, output_hex_text
  core/Symbols.cpp        Symbols::print;  core/AsmContext.cpp print_info: low/high summary

Data and location directives are the existing model `Core.Directives.step`; memory is `Memory`.
An instruction is given by what `parse_instruction` emits (`Emit`); how operands become bytes is C01/C06.
Addresses are `uint32_t` (`BitVec 32`) and wrap as in C; loops carry fuel.
-/
import NakenVerif.Core.DirectivesImpl
import NakenVerif.Msp430.SimDisLen
import NakenVerif.Riscv.Disasm

namespace NakenVerif.Listing
open NakenVerif.Memory
open NakenVerif.Core.Directives (St Directive Err Item Operand)

/-- `DL_NO_CG` as a C `int` -/
def dlNoCg : BitVec 32 := BitVec.ofInt 32 Generated.dlNoCg

/-! ### what a listing shows -/

/-- a byte shown at an address (what a reader takes from an address column and a hexadecimal column) -/
structure Cell where
  addr : BitVec 32
  val : Byte
  deriving DecidableEq, Repr

/-- one listed instruction: the line with the disassembly plus its continuation lines -/
structure ILine where
  addr : BitVec 32
  /-- return value of the CPU's `disasm_<cpu>`: bytes consumed -/
  len : Nat
  /-- the bytes the hexadecimal columns show, as a reader maps them to addresses -/
  cells : List Cell
  /-- the printed words (for the line-by-line comparison with the real listing) -/
  words : List Nat := []
  text : Option String := none
  cycles : Int := 0
  deriving Repr

/-- a `list_output_<cpu>` -/
structure Formatter where
  /-- where the loop starts: `if ((start & 1) != 0 && read_debug(start) == DL_DATA) start++` for MSP430, `start` otherwise -/
  adjust : Memory → BitVec 32 → BitVec 32
  /-- return value of the single-instruction disassembler at an address -/
  len : Memory → BitVec 32 → Nat
  /-- the line(s) printed for the instruction at an address -/
  render : Memory → BitVec 32 → ILine

/-- the addresses `a, a+1, …` (`n` of them), wrapping like `uint32_t` -/
def addrRange (a : BitVec 32) : Nat → List (BitVec 32)
  | 0 => []
  | n + 1 => a :: addrRange (a + 1) n

/-- the bytes of memory at `a … a+n-1` as cells -/
def bytesOf (m : Memory) (a : BitVec 32) (n : Nat) : List Cell :=
  (addrRange a n).map fun x => ⟨x, read8 m x⟩

/-- `while (start < end) { count = disasm(start); print line; start += count; }` -/
def listLoop (f : Formatter) (m : Memory) : Nat → BitVec 32 → BitVec 32 → List ILine
  | 0, _, _ => []
  | fuel + 1, start, stop =>
    if start < stop then
      f.render m start :: listLoop f m fuel (start + BitVec.ofNat 32 (f.len m start)) stop
    else []

/-- one call `list_output(asm_context, start, end)`; every iteration advances by at least one byte for a decoder with
`len ≥ 1`, so `end - start` iterations suffice unless an address wraps -/
def listOutput (f : Formatter) (m : Memory) (start stop : BitVec 32) : List ILine :=
  let s := f.adjust m start
  listLoop f m (stop.toNat - s.toNat) s stop

/-! ### formatters -/

/-- the common shape: one line per instruction, `count` byte columns read with `read8` -/
def bytesFormatter (len : Memory → BitVec 32 → Nat) : Formatter where
  adjust := fun _ s => s
  len := len
  render := fun m a => { addr := a, len := len m a, cells := bytesOf m a (len m a),
                         words := (bytesOf m a (len m a)).map (·.val.toNat) }

/-- `num = memory_read(start) | memory_read(start + 1) << 8` -/
def wordLE (m : Memory) (a : BitVec 32) : BitVec 16 :=
  (read8 m a).zeroExtend 16 ||| ((read8 m (a + 1)).zeroExtend 16 <<< 8)

/-- what a reader makes of `0xADDR: 0xWORD` on an MSP430 listing: low byte at ADDR, high byte at ADDR + 1 -/
def cellsOfWord16LE (a : BitVec 32) (w : BitVec 16) : List Cell :=
  [⟨a, w.setWidth 8⟩, ⟨a + 1, (w >>> 8).setWidth 8⟩]

/-- the words of one MSP430 instruction: the line of the instruction and `count / 2 - 1` continuation lines -/
def msp430Words (m : Memory) (a : BitVec 32) : Nat → List (BitVec 32 × BitVec 16)
  | 0 => []
  | k + 1 => (a, wordLE m a) :: msp430Words m (a + 2) k

/-- `disasm_msp430` reads the opcode words with `memory->read16` -/
def msp430Count (m : Memory) (a : BitVec 32) : Nat :=
  Msp430.Sim.disLen (read16 m a) (read16 m (a + 2))

/-- words printed for one instruction: `count -= 2; start += 2; while (count > 0) { print; count -= 2; start += 2; }`
prints the first word and one more for every further started pair of bytes -/
def msp430WordCount (count : Nat) : Nat := max 1 ((count + 1) / 2)

/-- how far `list_output_msp430` advances per instruction (equal to `count`: `msp430_advance_is_count`) -/
def msp430Len (m : Memory) (a : BitVec 32) : Nat := 2 * msp430WordCount (msp430Count m a)

/-- `list_output_msp430` (16-bit core) -/
def msp430 : Formatter where
  adjust := fun m s => if s &&& 1 ≠ 0 ∧ readDebug m s = dlData then s + 1 else s
  len := msp430Len
  render := fun m a =>
    let ws := msp430Words m a (msp430WordCount (msp430Count m a))
    { addr := a, len := msp430Len m a, cells := ws.flatMap fun p => cellsOfWord16LE p.1 p.2,
      words := ws.map (·.2.toNat), cycles := Msp430.Sim.disCycles (read16 m a) (read16 m (a + 2)) }

/-- a reader's bytes of a printed word, least significant byte first -/
def cellsOfValueLE (a : BitVec 32) (v : BitVec 32) : Nat → List Cell
  | 0 => []
  | n + 1 => ⟨a, v.setWidth 8⟩ :: cellsOfValueLE (a + 1) (v >>> 8) n

/-- the bytes of a printed 16- or 32-bit word in the byte order in force (`.big_endian` / `.little_endian` are part
of the source the listing echoes) -/
def cellsOfValue (big : Bool) (a : BitVec 32) (v : BitVec 32) (n : Nat) : List Cell :=
  if big then
    (List.zip (addrRange a n) ((cellsOfValueLE a v n).map (·.val)).reverse).map fun p => ⟨p.1, p.2⟩
  else cellsOfValueLE a v n

def riscvLen (m : Memory) (a : BitVec 32) : Nat := Riscv.Disasm.len (read32 m a)

/-- `list_output_riscv`: `0x%08x: 0x%04x` (read16) for a compressed instruction, `0x%08x: 0x%08x` (read32) otherwise -/
def riscv : Formatter where
  adjust := fun _ s => s
  len := riscvLen
  render := fun m a =>
    let w := read32 m a
    if riscvLen m a = 2 then
      { addr := a, len := 2, cells := cellsOfValue m.bigEndian a ((read16 m a).zeroExtend 32) 2, words := [(read16 m a).toNat],
        text := none }
    else
      { addr := a, len := riscvLen m a, cells := cellsOfValue m.bigEndian a w 4, words := [w.toNat],
        text := (Riscv.Disasm.disasm a w).2 }

/-! ### statements -/

/-- what `parse_instruction` does to memory and the location counter:
`address += skip` without writing (AVR8 alignment), then `memory_write_inc(b, DL_DATA)` for the pad bytes (the MSP430
pad in front of an instruction at an odd address), then the code bytes through `add_bin8/16/32` — a code byte either
carries the source line in pass 2 (`true`) or is marked `DL_NO_CG` -/
structure Emits where
  skip : Nat := 0
  pad : List Byte := []
  code : List (Byte × Bool)
  deriving Repr

inductive Simple where
  /-- a data / location directive or a label: `Core.Directives.step` -/
  | dir (d : Directive)
  /-- an instruction on source line `line`; `listed` is false inside an `.include` file (include_parse clears
  `write_list_file` while the file is assembled) -/
  | instr (line : BitVec 32) (listed : Bool) (es : Emits)
  deriving Repr

inductive Stmt where
  | simple (s : Simple)
  /-- `.repeat count` … `.endr` on source line `line` (the line of `.endr`: `tokens.line` when the copies are made) -/
  | rep (line : BitVec 32) (listed : Bool) (count : Nat) (body : List Simple)
  deriving Repr

/-- `list_output(this, start, stop)` and what it printed; `first` is where the code bytes of the range begin
(ghost: used by the theorems only) -/
structure Call where
  start : BitVec 32
  stop : BitVec 32
  first : BitVec 32
  lines : List ILine
  deriving Repr

structure Cfg where
  fmt : Formatter
  /-- `cpu_list[].pass_1_write_disable` -/
  p1wd : Bool
  /-- `write_list_file` -/
  listing : Bool

structure LSt where
  st : St
  /-- the `list_output` calls so far, oldest first -/
  calls : List Call
  /-- ghost: the addresses written so far in this pass, oldest first -/
  writes : List (BitVec 32)
  /-- ghost: the addresses written by statements that are not listed (code and pad bytes inside include files) -/
  quiet : List (BitVec 32)
  /-- ghost: no block written so far wrapped around 2^32, and no instruction or .repeat block ended exactly at 2^32
  (then the location counter is 0 and `list_output(start, 0)` lists nothing) -/
  nowrap : Bool

/-- number of bytes a data directive places -/
def itemLen (asciiz : Bool) : Item → Nat
  | .num _ => 1
  | .str raw =>
    match Core.Directives.lexQuoted raw with
    | some tok => (Core.Directives.dbString tok).length + (if asciiz then 1 else 0)
    | none => 0

def dataLen (st : St) : Directive → Nat
  | .db z items => (items.map (itemLen z)).sum
  | .dc16 os => 2 * os.length
  | .dc32 os => 4 * os.length
  | .dc64 os => 8 * os.length
  | .dataFill _ n => match Core.Directives.evalInt st n with | some c => c.toNat | none => 0
  | .binfile c => c.length
  | _ => 0

/-- `memory_write_inc(b, mark)` -/
def writeMark (st : St) (b : Byte) (mark : BitVec 32) : St :=
  match st with
  | { address, bpa, pass, memory, symbols } =>
    { address := address + 1, bpa, pass, memory := write memory address b mark, symbols }

/-- `add_bin8(asm_context, b, flags)` (one byte of `add_bin16/32` alike) -/
def emitCode (cfg : Cfg) (line : BitVec 32) (st : St) (c : Byte × Bool) : St :=
  if st.pass = 1 ∧ cfg.p1wd then { st with address := st.address + 1 }
  else writeMark st c.1 (if st.pass = 2 ∧ c.2 then line else dlNoCg)

def emitAll (cfg : Cfg) (line : BitVec 32) (st : St) (es : Emits) : St :=
  let st1 : St := { st with address := st.address + BitVec.ofNat 32 es.skip }
  let st2 := es.pad.foldl (fun st b => writeMark st b dlData) st1
  es.code.foldl (emitCode cfg line) st2

def mkCall (cfg : Cfg) (m : Memory) (start stop first : BitVec 32) : Call :=
  { start, stop, first, lines := listOutput cfg.fmt m start stop }

def execSimple (cfg : Cfg) (ls : LSt) : Simple → Except Err LSt
  | .dir d =>
    match Core.Directives.step ls.st d with
    | .error e => .error e
    | .ok st' =>
      let n := dataLen ls.st d
      .ok { ls with st := st', writes := ls.writes ++ addrRange ls.st.address n,
                    nowrap := ls.nowrap && decide (ls.st.address.toNat + n ≤ 4294967296) }
  | .instr line listed es =>
    let start := ls.st.address
    let st' := emitAll cfg line ls.st es
    let base := start + BitVec.ofNat 32 es.skip
    let first := base + BitVec.ofNat 32 es.pad.length
    let wd : Bool := decide (ls.st.pass = 1) && cfg.p1wd
    let written := if wd then addrRange base es.pad.length else addrRange base (es.pad.length + es.code.length)
    -- `if (list != nullptr && write_list_file == true) { list_output(this, start_address, address); }`
    let calls := if cfg.listing ∧ listed then ls.calls ++ [mkCall cfg st'.memory start st'.address first] else ls.calls
    .ok { st := st', calls, writes := ls.writes ++ written,
          quiet := if listed then ls.quiet else ls.quiet ++ written,
          nowrap := ls.nowrap && decide (start.toNat + es.skip + es.pad.length + es.code.length < 4294967296) }

def execSimples (cfg : Cfg) (ls : LSt) : List Simple → Except Err LSt
  | [] => .ok ls
  | s :: ss => match execSimple cfg ls s with
    | .ok ls' => execSimples cfg ls' ss
    | .error e => .error e

/-! ### `.repeat` -/

/-- one iteration of `for (r = address_start; r < address_end; r++)` -/
def copyByte (cfg : Cfg) (line : BitVec 32) (st : St) (r : BitVec 32) : St :=
  let d := read8 st.memory r
  if readDebug st.memory r = dlData then writeMark st d dlData
  else emitCode cfg line st (d, true)           -- add_bin8(asm_context, data, IS_OPCODE)

/-- `r` runs from `address_start` while `r < address_end` -/
def spanLen (start stop : BitVec 32) : Nat := if start < stop then stop.toNat - start.toNat else 0

def copyOnce (cfg : Cfg) (line : BitVec 32) (start stop : BitVec 32) (st : St) : St :=
  (addrRange start (spanLen start stop)).foldl (copyByte cfg line) st

/-- `for (n = 0; n < count - 1; n++)` -/
def copyAll (cfg : Cfg) (line : BitVec 32) (start stop : BitVec 32) (count : Nat) (st : St) : St :=
  (List.range (count - 1)).foldl (fun st _ => copyOnce cfg line start stop st) st

/-- `while (b < limit && read_debug(b) != DL_DATA) b++` -/
def scanRun (m : Memory) : Nat → BitVec 32 → BitVec 32 → BitVec 32
  | 0, b, _ => b
  | fuel + 1, b, limit => if b < limit ∧ readDebug m b ≠ dlData then scanRun m fuel (b + 1) limit else b

/-- the listing of the copies: `while (a < address) { if data: a++; else { b = end of the run; list_output(a, b); a = b; } }` -/
def repRuns (cfg : Cfg) (m : Memory) : Nat → BitVec 32 → BitVec 32 → List Call
  | 0, _, _ => []
  | fuel + 1, a, limit =>
    if a < limit then
      if readDebug m a = dlData then repRuns cfg m fuel (a + 1) limit
      else
        let b := scanRun m (limit.toNat - a.toNat) a limit
        mkCall cfg m a b a :: repRuns cfg m fuel b limit
    else []

/-- ghost: the addresses the copies write -/
def copyWrites (cfg : Cfg) (pass : Nat) (stop : BitVec 32) (n count : Nat) : List (BitVec 32) :=
  if pass = 1 ∧ cfg.p1wd then
    -- only the copies of data bytes are written in such a first pass; the theorems are about the second pass
    []
  else addrRange stop (n * (count - 1))

def execStmt (cfg : Cfg) (ls : LSt) : Stmt → Except Err LSt
  | .simple s => execSimple cfg ls s
  | .rep line listed count body =>
    if count = 0 then .error .error               -- `count <= 0`: print_error_unexp
    else
      let start := ls.st.address
      match execSimples cfg ls body with
      | .error e => .error e
      | .ok ls1 =>
        let stop := ls1.st.address
        let st2 := copyAll cfg line start stop count ls1.st
        let n := spanLen start stop
        let calls := if cfg.listing ∧ listed then ls1.calls ++ repRuns cfg st2.memory (st2.address.toNat - stop.toNat) stop st2.address
                     else ls1.calls
        .ok { st := st2, calls, writes := ls1.writes ++ copyWrites cfg ls1.st.pass stop n count,
              quiet := if listed then ls1.quiet else ls1.quiet ++ copyWrites cfg ls1.st.pass stop n count,
              nowrap := ls1.nowrap && decide (stop.toNat + n * (count - 1) < 4294967296) }

def execStmts (cfg : Cfg) (ls : LSt) : List Stmt → Except Err LSt
  | [] => .ok ls
  | s :: ss => match execStmt cfg ls s with
    | .ok ls' => execStmts cfg ls' ss
    | .error e => .error e

/-! ### the "data sections" dump -/

structure DLine where
  /-- `i / bytes_per_address` printed in front of the line -/
  unit : Nat
  /-- the 16 (or fewer) columns in use: `none` = three blanks -/
  cols : List (Option Byte)
  deriving Repr, DecidableEq

structure DumpSt where
  /-- finished lines, newest first -/
  done : List DLine
  /-- the line being filled (`ptr` = its number of columns) -/
  cur : Option DLine
  ch : Nat
  deriving Repr

/-- `output_hex_text`: ends the current line (`if (ptr == 0) return;`) -/
def DumpSt.flush (s : DumpSt) : DumpSt :=
  match s.cur with
  | none => s
  | some l => { s with done := l :: s.done, cur := none }

/-- `for (k = 0; k < i % bpa && k < 15; k++) { 3 blanks; str[ptr++] = ' '; ch++; }` -/
def blanks (i bpa : Nat) : Nat := min (i % bpa) 15

/-- a new line is started: `output_hex_text` for a full line, `"\n%04x:"`, the blank columns -/
def DumpSt.newLine (s : DumpSt) (i bpa : Nat) : DumpSt :=
  { done := s.flush.done, cur := some { unit := i / bpa, cols := List.replicate (blanks i bpa) none }, ch := blanks i bpa }

/-- `fprintf(" %02x", data); str[ptr++] = …; ch++; if (ch == 16) ch = 0;` -/
def DumpSt.push (s : DumpSt) (b : Byte) : DumpSt :=
  { done := s.done
    cur := match s.cur with
      | some l => some { l with cols := l.cols ++ [some b] }
      | none => none                                 -- unreachable: a line is open whenever a byte is pushed
    ch := if s.ch + 1 = 16 then 0 else s.ch + 1 }

/-- body of `for (i = low_address; i <= high_address; i++)` -/
def dumpStep (m : Memory) (bpa : Nat) (s : DumpSt) (i : Nat) : DumpSt :=
  let a := BitVec.ofNat 32 i
  if readDebug m a = dlData then
    (if s.ch = 0 then s.newLine i bpa else s).push (read8 m a)
  else
    { done := s.flush.done, cur := none, ch := 0 }

/-- the addresses `low, low+1, …, high` (none when `low > high`: an empty image has low = 0xffffffff, high = 0) -/
def dumpRange (low high : Nat) : List Nat := (List.range (high + 1 - low)).map (low + ·)

/-- the dump of `main()`.  (After the fix the loop counter is 64 bits wide, so `i <= high_address` fails after
`high_address` for every image.) -/
def dump (m : Memory) (bpa : Nat) : List DLine :=
  let s := (dumpRange m.lowAddress.toNat m.highAddress.toNat).foldl (dumpStep m bpa) { done := [], cur := none, ch := 0 }
  s.flush.done.reverse

/-- the bytes of the columns `k, k+1, …` of a line whose column 0 is the byte at address `base` -/
def colCells (base : Nat) : Nat → List (Option Byte) → List (Nat × Byte)
  | _, [] => []
  | k, none :: cs => colCells base (k + 1) cs
  | k, some b :: cs => (base + k, b) :: colCells base (k + 1) cs

/-- what a reader takes from a dump line: column `k` of the line headed `unit` is the byte at `unit * bpa + k` -/
def dlineCells (bpa : Nat) (l : DLine) : List (Nat × Byte) := colCells (l.unit * bpa) 0 l.cols

def dumpCells (bpa : Nat) (ls : List DLine) : List (Nat × Byte) := ls.flatMap (dlineCells bpa)

/-- the text column: `if (data >= ' ' && data < 127) str[ptr++] = data; else '.'`, blanks for the blank columns -/
def dlineText (l : DLine) : List Nat :=
  l.cols.map fun c => match c with
    | none => 32
    | some b => if 32 ≤ b.toNat ∧ b.toNat < 127 then b.toNat else 46

/-! ### symbols and summary -/

/-- `low_address / bytes_per_address`, `high_address / bytes_per_address` of print_info -/
def summary (m : Memory) (bpa : Nat) : Nat × Nat := (m.lowAddress.toNat / bpa, m.highAddress.toNat / bpa)

/-! ### whole runs -/

structure Listing where
  calls : List Call
  dump : List DLine
  symbols : List (String × BitVec 32)
  low : Nat
  high : Nat

/-- the second pass from the state the first pass left, then the dump and the summary -/
def pass2 (cfg : Cfg) (st : St) (prog : List Stmt) : Except Err (LSt × Listing) :=
  match execStmts { cfg with listing := true } { st, calls := [], writes := [], quiet := [], nowrap := true } prog with
  | .error e => .error e
  | .ok ls =>
    let bpa := ls.st.bpa.toNat
    .ok (ls, { calls := ls.calls, dump := dump ls.st.memory bpa, symbols := ls.st.symbols,
               low := (summary ls.st.memory bpa).1, high := (summary ls.st.memory bpa).2 })

/-- `main()`: pass 1 (no listing), `pass = 2; init();`, pass 2 with `write_list_file` -/
def run (cfg : Cfg) (dcfg : Core.Directives.Cfg) (prog : List Stmt) : Except Err (LSt × Listing) :=
  match execStmts { cfg with listing := false } { st := St.init dcfg, calls := [], writes := [], quiet := [], nowrap := true } prog with
  | .error e => .error e
  | .ok ls1 =>
    pass2 cfg { ls1.st with pass := 2, address := 0, bpa := dcfg.bpa,
                            memory := { ls1.st.memory with bigEndian := dcfg.bigEndian } } prog

end NakenVerif.Listing
