/-
  What one statement does to the memory, in the form the listing theorems need: "bytes were written at exactly these
  addresses, with such markers, and nothing else changed" (`Wrote`), for the data / location directives of
  `Core.Directives.step`, for the bytes an instruction emits and for single writes.
-/
import NakenVerif.Listing.ProofsWalk
import NakenVerif.Core.DirectivesProofs

namespace NakenVerif.Listing
open NakenVerif.Memory
open NakenVerif.Core.Directives

/-- `m'` is `m` after bytes were stored at the addresses `W` (each with a marker satisfying `P`) and nowhere else -/
structure Wrote (m m' : Memory) (W : List (BitVec 32)) (P : BitVec 32 → Prop) : Prop where
  frame8 : ∀ x, x ∉ W → read8 m' x = read8 m x
  frameD : ∀ x, x ∉ W → readDebug m' x = readDebug m x
  marks : ∀ x ∈ W, P (readDebug m' x)
  low : m'.lowAddress ≤ m.lowAddress
  high : m.highAddress ≤ m'.highAddress
  inside : ∀ x ∈ W, m'.lowAddress ≤ x ∧ x ≤ m'.highAddress
  lowAtt : m'.lowAddress = m.lowAddress ∨ m'.lowAddress ∈ W
  highAtt : m'.highAddress = m.highAddress ∨ m'.highAddress ∈ W

theorem Wrote.refl (m : Memory) (P : BitVec 32 → Prop) : Wrote m m [] P := by
  refine ⟨fun _ _ => rfl, fun _ _ => rfl, ?_, BitVec.le_refl _, BitVec.le_refl _, ?_, Or.inl rfl, Or.inl rfl⟩ <;>
    (intro x h; cases h)

/-- a change of the byte-order flag only -/
theorem Wrote.endian (m : Memory) (b : Bool) (P : BitVec 32 → Prop) : Wrote m { m with bigEndian := b } [] P := by
  refine ⟨fun _ _ => rfl, fun _ _ => rfl, ?_, BitVec.le_refl _, BitVec.le_refl _, ?_, Or.inl rfl, Or.inl rfl⟩ <;>
    (intro x h; cases h)

theorem writeBytes_append (st : St) (xs ys : List Byte) :
    writeBytes st (xs ++ ys) = writeBytes (writeBytes st xs) ys := by
  simp [writeBytes, List.foldl_append]

theorem Wrote.append {m m' m'' : Memory} {W W' : List (BitVec 32)} {P : BitVec 32 → Prop}
    (h1 : Wrote m m' W P) (h2 : Wrote m' m'' W' P) : Wrote m m'' (W ++ W') P := by
  refine ⟨?_, ?_, ?_, ?_, ?_, ?_, ?_, ?_⟩
  · intro x hx
    simp only [List.mem_append, not_or] at hx
    rw [h2.frame8 x hx.2, h1.frame8 x hx.1]
  · intro x hx
    simp only [List.mem_append, not_or] at hx
    rw [h2.frameD x hx.2, h1.frameD x hx.1]
  · intro x hx
    by_cases h : x ∈ W'
    · exact h2.marks x h
    · rw [h2.frameD x h]
      rcases List.mem_append.mp hx with h' | h'
      · exact h1.marks x h'
      · exact absurd h' h
  · exact BitVec.le_trans h2.low h1.low
  · exact BitVec.le_trans h1.high h2.high
  · intro x hx
    rcases List.mem_append.mp hx with h' | h'
    · obtain ⟨a, b⟩ := h1.inside x h'
      exact ⟨BitVec.le_trans h2.low a, BitVec.le_trans b h2.high⟩
    · exact h2.inside x h'
  · rcases h2.lowAtt with e | e
    · rcases h1.lowAtt with e1 | e1
      · exact Or.inl (by rw [e, e1])
      · exact Or.inr (List.mem_append_left _ (by rw [e]; exact e1))
    · exact Or.inr (List.mem_append_right _ e)
  · rcases h2.highAtt with e | e
    · rcases h1.highAtt with e1 | e1
      · exact Or.inl (by rw [e, e1])
      · exact Or.inr (List.mem_append_left _ (by rw [e]; exact e1))
    · exact Or.inr (List.mem_append_right _ e)

theorem Wrote.mono {m m' : Memory} {W : List (BitVec 32)} {P Q : BitVec 32 → Prop} (h : Wrote m m' W P)
    (hpq : ∀ v, P v → Q v) : Wrote m m' W Q :=
  ⟨h.frame8, h.frameD, fun x hx => hpq _ (h.marks x hx), h.low, h.high, h.inside, h.lowAtt, h.highAtt⟩

/-- `Memory::write(address, data, line)` -/
theorem wrote_write (m : Memory) (a : BitVec 32) (d : Byte) (mk : BitVec 32) (P : BitVec 32 → Prop) (hp : P mk) :
    Wrote m (write m a d mk) [a] P := by
  refine ⟨?_, ?_, ?_, ?_, ?_, ?_, ?_, ?_⟩
  · intro x hx
    rw [read8_write, if_neg (by simpa using hx)]
  · intro x hx
    rw [readDebug_write, if_neg (by simpa using hx)]
  · intro x hx
    have : x = a := by simpa using hx
    rw [readDebug_write, if_pos this]; exact hp
  · rw [write_low]; split
    · rename_i h; exact BitVec.le_of_lt h
    · exact BitVec.le_refl _
  · rw [write_high]; split
    · rename_i h; exact BitVec.le_of_lt h
    · exact BitVec.le_refl _
  · intro x hx
    have : x = a := by simpa using hx
    subst this
    rw [write_low, write_high]
    constructor
    · split
      · exact BitVec.le_refl _
      · rename_i h; exact BitVec.not_lt.mp h
    · split
      · exact BitVec.le_refl _
      · rename_i h; exact BitVec.not_lt.mp h
  · rw [write_low]; split
    · exact Or.inr (by simp)
    · exact Or.inl rfl
  · rw [write_high]; split
    · exact Or.inr (by simp)
    · exact Or.inl rfl

/-! ### blocks of `memory_write_inc` -/

/-- a run of `memory_write_inc(byte, marker)` -/
def writeCells (st : St) (cells : List (Byte × BitVec 32)) : St := cells.foldl (fun st c => writeMark st c.1 c.2) st

theorem writeMark_fields (st : St) (b : Byte) (mk : BitVec 32) :
    (writeMark st b mk).address = st.address + 1 ∧ (writeMark st b mk).bpa = st.bpa ∧ (writeMark st b mk).pass = st.pass ∧
    (writeMark st b mk).symbols = st.symbols ∧ (writeMark st b mk).memory = write st.memory st.address b mk := by
  cases st; exact ⟨rfl, rfl, rfl, rfl, rfl⟩

theorem writeInc_eq_writeMark (st : St) (b : Byte) : writeInc st b = writeMark st b dlData := by
  cases st; rfl

theorem writeCells_spec (P : BitVec 32 → Prop) : ∀ (cells : List (Byte × BitVec 32)) (st : St), (∀ c ∈ cells, P c.2) →
    (writeCells st cells).address = st.address + BitVec.ofNat 32 cells.length ∧
    (writeCells st cells).bpa = st.bpa ∧ (writeCells st cells).pass = st.pass ∧ (writeCells st cells).symbols = st.symbols ∧
    Wrote st.memory (writeCells st cells).memory (addrRange st.address cells.length) P := by
  intro cells
  induction cells with
  | nil =>
    intro st _
    refine ⟨by simp [writeCells], rfl, rfl, rfl, ?_⟩
    exact Wrote.refl _ _
  | cons c cs ih =>
    intro st hp
    obtain ⟨f1, f2, f3, f4, f5⟩ := writeMark_fields st c.1 c.2
    obtain ⟨i1, i2, i3, i4, i5⟩ := ih (writeMark st c.1 c.2) (fun x hx => hp x (List.mem_cons_of_mem _ hx))
    have e : writeCells st (c :: cs) = writeCells (writeMark st c.1 c.2) cs := rfl
    rw [e]
    refine ⟨?_, by rw [i2, f2], by rw [i3, f3], by rw [i4, f4], ?_⟩
    · rw [i1, f1, BitVec.add_assoc, one_add_ofNat]; rfl
    · have w1 : Wrote st.memory (writeMark st c.1 c.2).memory [st.address] P := by
        rw [f5]; exact wrote_write _ _ _ _ P (hp c List.mem_cons_self)
      rw [f1] at i5
      exact Wrote.append w1 i5

theorem writeBytes_eq_writeCells (bs : List Byte) : ∀ st : St, writeBytes st bs = writeCells st (bs.map fun b => (b, dlData)) := by
  induction bs with
  | nil => intro st; rfl
  | cons b bs ih =>
    intro st
    show writeBytes (writeInc st b) bs = writeCells (writeMark st b dlData) (bs.map fun b => (b, dlData))
    rw [writeInc_eq_writeMark, ih]

/-- what `writeBytes` (a data directive's bytes) does -/
theorem writeBytes_wrote (st : St) (bs : List Byte) :
    (writeBytes st bs).address = st.address + BitVec.ofNat 32 bs.length ∧ (writeBytes st bs).bpa = st.bpa ∧
    (writeBytes st bs).pass = st.pass ∧ (writeBytes st bs).symbols = st.symbols ∧
    Wrote st.memory (writeBytes st bs).memory (addrRange st.address bs.length) (· = dlData) := by
  rw [writeBytes_eq_writeCells]
  have := writeCells_spec (· = dlData) (bs.map fun b => (b, dlData)) st (by
    intro c hc; obtain ⟨b, _, rfl⟩ := List.mem_map.mp hc; rfl)
  simpa using this

/-! ### the directives -/

theorem foldItems_bytes {α : Type} (f : St → α → Except Err St) (k : α → Nat)
    (hf : ∀ st x st1, f st x = .ok st1 → ∃ bs, st1 = writeBytes st bs ∧ bs.length = k x) :
    ∀ (xs : List α) (st st' : St), foldItems f st xs = .ok st' → ∃ bs, st' = writeBytes st bs ∧ bs.length = (xs.map k).sum := by
  intro xs
  induction xs with
  | nil =>
    intro st st' h
    simp only [foldItems] at h
    injection h with h
    exact ⟨[], by rw [← h]; rfl, rfl⟩
  | cons x xs ih =>
    intro st st' h
    simp only [foldItems] at h
    split at h
    · rename_i st1 h1
      obtain ⟨b1, e1, l1⟩ := hf st x st1 h1
      obtain ⟨b2, e2, l2⟩ := ih st1 st' h
      refine ⟨b1 ++ b2, ?_, ?_⟩
      · rw [e2, e1, writeBytes_append]
      · simp [l1, l2]
    · cases h

theorem dbItem_bytes (z : Bool) (st : St) (x : Item) (st1 : St) (h : dbItem z st x = .ok st1) :
    ∃ bs, st1 = writeBytes st bs ∧ bs.length = itemLen z x := by
  cases x with
  | num o =>
    simp only [dbItem, dbNum] at h
    split at h
    · cases h
    · split at h
      · cases h
      · injection h with h
        exact ⟨[_], by rw [← h]; rfl, rfl⟩
  | str raw =>
    simp only [dbItem] at h
    split at h
    · cases h
    · rename_i tok htok
      split at h
      · cases h
      · injection h with h
        cases z
        · refine ⟨dbString tok, by rw [← h]; rfl, ?_⟩
          simp [itemLen, htok]
        · refine ⟨dbString tok ++ [0], ?_, ?_⟩
          · rw [← h, writeBytes_append]; rfl
          · simp [itemLen, htok]

theorem bytes16_length (big : Bool) (v : BitVec 16) : (bytes16 big v).length = 2 := by
  unfold bytes16; split <;> rfl
theorem bytes32_length (big : Bool) (v : BitVec 32) : (bytes32 big v).length = 4 := by
  unfold bytes32; split <;> rfl
theorem bytes64_length (big : Bool) (v : BitVec 64) : (bytes64 big v).length = 8 := by
  unfold bytes64; split <;> rfl

theorem dc16Item_bytes (st : St) (o : Operand) (st1 : St) (h : dc16Item st o = .ok st1) :
    ∃ bs, st1 = writeBytes st bs ∧ bs.length = 2 := by
  simp only [dc16Item] at h
  split at h
  · cases h
  · split at h
    · cases h
    · injection h with h
      exact ⟨_, h.symm, bytes16_length _ _⟩

theorem dc32Item_bytes (st : St) (o : Operand) (st1 : St) (h : dc32Item st o = .ok st1) :
    ∃ bs, st1 = writeBytes st bs ∧ bs.length = 4 := by
  simp only [dc32Item] at h
  split at h
  · cases h
  · injection h with h
    exact ⟨_, h.symm, bytes32_length _ _⟩

theorem dc64Item_bytes (st : St) (o : Operand) (st1 : St) (h : dc64Item st o = .ok st1) :
    ∃ bs, st1 = writeBytes st bs ∧ bs.length = 8 := by
  simp only [dc64Item] at h
  split at h
  · cases h
  · injection h with h
    exact ⟨_, h.symm, bytes64_length _ _⟩

theorem sum_map_const {α : Type} (xs : List α) (c : Nat) : (xs.map fun _ => c).sum = c * xs.length := by
  induction xs with
  | nil => simp
  | cons x xs ih => simp only [List.map_cons, List.sum_cons, ih, List.length_cons]; rw [Nat.mul_succ]; omega

/-- a successful directive either places `dataLen` bytes (all marked DL_DATA) from the location counter on, or leaves
the memory cells alone -/
theorem step_effect (st st' : St) (d : Directive) (h : step st d = .ok st') :
    Wrote st.memory st'.memory (addrRange st.address (dataLen st d)) (· = dlData) ∧ st'.pass = st.pass := by
  have viaBytes : ∀ bs : List Byte, st' = writeBytes st bs → bs.length = dataLen st d →
      Wrote st.memory st'.memory (addrRange st.address (dataLen st d)) (· = dlData) ∧ st'.pass = st.pass := by
    intro bs e l
    obtain ⟨_, _, p, _, w⟩ := writeBytes_wrote st bs
    rw [e, ← l]; exact ⟨w, p⟩
  cases d with
  | org o =>
    simp only [step] at h
    split at h
    · cases h
    · injection h with h; subst h; exact ⟨Wrote.refl _ _, rfl⟩
  | db z items =>
    simp only [step] at h
    obtain ⟨bs, e, l⟩ := foldItems_bytes (dbItem z) (itemLen z) (dbItem_bytes z) items st st' h
    exact viaBytes bs e l
  | dc16 os =>
    simp only [step] at h
    obtain ⟨bs, e, l⟩ := foldItems_bytes dc16Item (fun _ => 2) dc16Item_bytes os st st' h
    exact viaBytes bs e (by rw [l, sum_map_const]; rfl)
  | dc32 os =>
    simp only [step] at h
    obtain ⟨bs, e, l⟩ := foldItems_bytes dc32Item (fun _ => 4) dc32Item_bytes os st st' h
    exact viaBytes bs e (by rw [l, sum_map_const]; rfl)
  | dc64 os =>
    simp only [step] at h
    obtain ⟨bs, e, l⟩ := foldItems_bytes dc64Item (fun _ => 8) dc64Item_bytes os st st' h
    exact viaBytes bs e (by rw [l, sum_map_const]; rfl)
  | resb o =>
    simp only [step] at h
    split at h
    · cases h
    · injection h with h; subst h; exact ⟨Wrote.refl _ _, rfl⟩
  | resw o =>
    simp only [step] at h
    split at h
    · cases h
    · injection h with h; subst h; exact ⟨Wrote.refl _ _, rfl⟩
  | alignBits o =>
    simp only [step] at h
    split at h
    · cases h
    · split at h
      · cases h
      · unfold parseAlign at h
        split at h
        · cases h
        · split at h
          · cases h
          · split at h
            · injection h with h; subst h; exact ⟨Wrote.refl _ _, rfl⟩
            · cases h
  | alignBytes o =>
    simp only [step] at h
    split at h
    · cases h
    · unfold parseAlign at h
      split at h
      · cases h
      · split at h
        · cases h
        · split at h
          · injection h with h; subst h; exact ⟨Wrote.refl _ _, rfl⟩
          · cases h
  | dataFill vo no =>
    simp only [step] at h
    split at h
    · cases h
    · split at h
      · cases h
      · split at h
        · cases h
        · rename_i count hcount
          split at h
          · cases h
          · injection h with h
            exact viaBytes _ h.symm (by simp [dataLen, hcount])
  | binfile content =>
    simp only [step] at h
    injection h with h
    exact viaBytes content h.symm rfl
  | bigEndian =>
    simp only [step] at h
    injection h with h; subst h; exact ⟨Wrote.endian _ _ _, rfl⟩
  | littleEndian =>
    simp only [step] at h
    injection h with h; subst h; exact ⟨Wrote.endian _ _ _, rfl⟩
  | label name =>
    simp only [step, defineLabel] at h
    split at h
    · injection h with h; subst h; exact ⟨Wrote.refl _ _, rfl⟩
    · split at h
      · cases h
      · injection h with h; subst h; exact ⟨Wrote.refl _ _, rfl⟩

end NakenVerif.Listing
