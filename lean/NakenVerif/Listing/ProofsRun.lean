/-
  The run-level invariant: while the statements of the second pass are executed, every cell on an instruction line
  equals the memory, lies at an address written in this pass and marked as code, and every code byte written by a
  listed statement is on exactly one line.
-/
import NakenVerif.Listing.ProofsDir

namespace NakenVerif.Listing
open NakenVerif.Memory
open NakenVerif.Core.Directives

/-- all addresses shown on instruction lines, in print order -/
def shownAddrs (calls : List Call) : List (BitVec 32) := calls.flatMap fun c => cellAddrs c.lines

/-- the lines of a call show exactly the code bytes of its range: `first … stop-1`, each once, in order
(conclusion of the walk lemma when the decoder's lengths add up to the length of the code) -/
def Call.Exact (c : Call) : Prop := cellAddrs c.lines = addrRange c.first (c.stop.toNat - c.first.toNat)

/-- every byte shown by the call is the byte of the memory -/
def Call.TrueOn (c : Call) (m : Memory) : Prop := ∀ l ∈ c.lines, ∀ x ∈ l.cells, read8 m x.addr = x.val

structure Inv (m0 : Memory) (ls : LSt) : Prop where
  pass2 : ls.st.pass = 2
  cellsTrue : ∀ c ∈ ls.calls, c.TrueOn ls.st.memory
  shownWritten : ∀ a ∈ shownAddrs ls.calls, a ∈ ls.writes
  shownCode : ∀ a ∈ shownAddrs ls.calls, readDebug ls.st.memory a ≠ dlData
  codeOnce : ∀ a ∈ ls.writes, readDebug ls.st.memory a ≠ dlData → a ∉ ls.quiet → (shownAddrs ls.calls).count a = 1
  bounds : ∀ a ∈ ls.writes, ls.st.memory.lowAddress ≤ a ∧ a ≤ ls.st.memory.highAddress
  /-- low/high are those of the memory the pass started with (`m0`) or addresses written in the pass -/
  lowAtt : ls.st.memory.lowAddress = m0.lowAddress ∨ ls.st.memory.lowAddress ∈ ls.writes
  highAtt : ls.st.memory.highAddress = m0.highAddress ∨ ls.st.memory.highAddress ∈ ls.writes

variable {m0 : Memory}

theorem shownAddrs_append (c1 c2 : List Call) : shownAddrs (c1 ++ c2) = shownAddrs c1 ++ shownAddrs c2 := by
  simp [shownAddrs]

theorem mem_shown_of_cell {calls : List Call} {c : Call} {l : ILine} {x : Cell} (hc : c ∈ calls) (hl : l ∈ c.lines)
    (hx : x ∈ l.cells) : x.addr ∈ shownAddrs calls := by
  simp only [shownAddrs, cellAddrs, List.mem_flatMap, List.mem_map]
  exact ⟨c, hc, l, hl, x, hx, rfl⟩

/-- **one block of writes followed by its listing calls.**  `W` are the addresses the statement writes (not written
before in this pass), `C` those of them that are marked as code afterwards; the new calls show exactly `C` when the
statement is listed and nothing otherwise (then its addresses are recorded as `quiet`). -/
theorem inv_block (ls ls' : LSt) (W C : List (BitVec 32)) (newCalls : List Call) (listed : Bool)
    (inv : Inv m0 ls)
    (hp : ls'.st.pass = 2)
    (hw : Wrote ls.st.memory ls'.st.memory W (fun _ => True))
    (hwr : ls'.writes = ls.writes ++ W) (hnd : ls'.writes.Nodup)
    (hcalls : ls'.calls = ls.calls ++ newCalls)
    (hq : ls'.quiet = if listed then ls.quiet else ls.quiet ++ W)
    (hCW : ∀ x ∈ C, x ∈ W) (hCnd : C.Nodup)
    (hmark : ∀ x ∈ W, readDebug ls'.st.memory x ≠ dlData → x ∈ C)
    (hcode : ∀ x ∈ C, readDebug ls'.st.memory x ≠ dlData)
    (hshown : shownAddrs newCalls = if listed then C else [])
    (htrue : ∀ c ∈ newCalls, c.TrueOn ls'.st.memory) : Inv m0 ls' := by
  have hdisj : ∀ a, a ∈ ls.writes → a ∉ W := by
    intro a ha hw'
    rw [hwr] at hnd
    exact (List.nodup_append.mp hnd).2.2 a ha a hw' rfl
  have hnew : ∀ a, a ∈ shownAddrs newCalls → a ∈ C := by
    intro a ha; rw [hshown] at ha; cases listed <;> simp_all
  refine ⟨hp, ?_, ?_, ?_, ?_, ?_, ?_, ?_⟩
  · intro c hc l hl x hx
    rw [hcalls] at hc
    rcases List.mem_append.mp hc with h | h
    · have hin := inv.shownWritten _ (mem_shown_of_cell h hl hx)
      rw [hw.frame8 _ (hdisj _ hin)]
      exact inv.cellsTrue c h l hl x hx
    · exact htrue c h l hl x hx
  · intro a ha
    rw [hcalls, shownAddrs_append] at ha
    rw [hwr]
    rcases List.mem_append.mp ha with h | h
    · exact List.mem_append_left _ (inv.shownWritten a h)
    · exact List.mem_append_right _ (hCW a (hnew a h))
  · intro a ha
    rw [hcalls, shownAddrs_append] at ha
    rcases List.mem_append.mp ha with h | h
    · rw [hw.frameD _ (hdisj _ (inv.shownWritten a h))]
      exact inv.shownCode a h
    · exact hcode a (hnew a h)
  · intro a ha hm hnq
    rw [hcalls, shownAddrs_append, List.count_append]
    rw [hwr] at ha
    rcases List.mem_append.mp ha with h | h
    · have hnW := hdisj a h
      rw [hw.frameD a hnW] at hm
      have hq' : a ∉ ls.quiet := by
        intro hq1; apply hnq; rw [hq]; cases listed
        · exact List.mem_append_left _ hq1
        · exact hq1
      have h1 := inv.codeOnce a h hm hq'
      have h0 : (shownAddrs newCalls).count a = 0 := by
        apply List.count_eq_zero.mpr
        intro hin; exact hnW (hCW a (hnew a hin))
      omega
    · have hold : (shownAddrs ls.calls).count a = 0 := by
        apply List.count_eq_zero.mpr
        intro hin
        exact hdisj a (inv.shownWritten a hin) h
      have hC := hmark a h hm
      cases listed
      · exfalso; apply hnq; rw [hq]; exact List.mem_append_right _ h
      · simp only [if_true] at hshown
        rw [hshown, hold, List.Nodup.count hCnd, if_pos hC]
  · intro a ha
    rw [hwr] at ha
    rcases List.mem_append.mp ha with h | h
    · obtain ⟨b1, b2⟩ := inv.bounds a h
      exact ⟨BitVec.le_trans hw.low b1, BitVec.le_trans b2 hw.high⟩
    · exact hw.inside a h
  · rw [hwr]
    rcases hw.lowAtt with e | e
    · rcases inv.lowAtt with e1 | e1
      · exact Or.inl (by rw [e, e1])
      · exact Or.inr (List.mem_append_left _ (by rw [e]; exact e1))
    · exact Or.inr (List.mem_append_right _ e)
  · rw [hwr]
    rcases hw.highAtt with e | e
    · rcases inv.highAtt with e1 | e1
      · exact Or.inl (by rw [e, e1])
      · exact Or.inr (List.mem_append_left _ (by rw [e]; exact e1))
    · exact Or.inr (List.mem_append_right _ e)

/-! ### calls made by a sound formatter are true on the memory they were made on -/

theorem bytesOf_true (m : Memory) (a : BitVec 32) (n : Nat) : ∀ x ∈ bytesOf m a n, read8 m x.addr = x.val := by
  intro x hx
  simp only [bytesOf, List.mem_map] at hx
  obtain ⟨y, _, rfl⟩ := hx
  rfl

theorem mkCall_true (cfg : Cfg) (hf : ∀ m, cfg.fmt.SoundOn m) (m : Memory) (start stop first : BitVec 32) :
    (mkCall cfg m start stop first).TrueOn m := by
  intro l hl x hx
  have := (listLoop_tiles cfg.fmt m (hf m) stop _ _).2 l hl
  rw [this.2] at hx
  exact bytesOf_true m _ _ x hx

/-! ### a data / location directive -/

theorem exec_dir_inv (cfg : Cfg) (ls ls' : LSt) (d : Directive) (h : execSimple cfg ls (.dir d) = .ok ls')
    (hnd : ls'.writes.Nodup) (inv : Inv m0 ls) : Inv m0 ls' := by
  simp only [execSimple] at h
  split at h
  · cases h
  · rename_i st' hs
    injection h with h
    subst h
    obtain ⟨w, p⟩ := step_effect ls.st st' d hs
    refine inv_block ls _ (addrRange ls.st.address (dataLen ls.st d)) [] [] true inv (by rw [p]; exact inv.pass2)
      (w.mono fun _ _ => trivial) rfl hnd (by simp) rfl (by intro x hx; cases hx) List.nodup_nil ?_
      (by intro x hx; cases hx) (by simp [shownAddrs]) (by intro c hc; cases hc)
    intro x hx hm
    exact absurd (w.marks x hx) hm

/-! ### an instruction -/

theorem dlNoCg_ne_dlData : dlNoCg ≠ dlData := by decide

/-- the marker a code byte gets in pass 2 -/
def codeMark (line : BitVec 32) (c : Byte × Bool) : BitVec 32 := if c.2 then line else dlNoCg

theorem emitCode_pass2 (cfg : Cfg) (line : BitVec 32) (st : St) (c : Byte × Bool) (hp : st.pass = 2) :
    emitCode cfg line st c = writeMark st c.1 (codeMark line c) := by
  unfold emitCode codeMark
  rw [if_neg (by rw [hp]; simp)]
  simp [hp]

theorem foldl_emitCode_pass2 (cfg : Cfg) (line : BitVec 32) : ∀ (cs : List (Byte × Bool)) (st : St), st.pass = 2 →
    cs.foldl (emitCode cfg line) st = writeCells st (cs.map fun c => (c.1, codeMark line c)) := by
  intro cs
  induction cs with
  | nil => intro st _; rfl
  | cons c cs ih =>
    intro st hp
    simp only [List.foldl_cons, List.map_cons]
    rw [emitCode_pass2 cfg line st c hp, ih _ (by rw [(writeMark_fields st c.1 _).2.2.1]; exact hp)]
    rfl

theorem foldl_pad (pad : List Byte) : ∀ st : St,
    pad.foldl (fun st b => writeMark st b dlData) st = writeCells st (pad.map fun b => (b, dlData)) := by
  induction pad with
  | nil => intro st; rfl
  | cons b bs ih => intro st; simp only [List.foldl_cons, List.map_cons]; rw [ih]; rfl

theorem ofNat_add_ofNat (a b : Nat) : BitVec.ofNat 32 a + BitVec.ofNat 32 b = BitVec.ofNat 32 (a + b) := by
  apply BitVec.eq_of_toNat_eq
  simp only [BitVec.toNat_add, BitVec.toNat_ofNat]
  omega

theorem toNat_add_ofNat (a : BitVec 32) (n : Nat) (h : a.toNat + n < 4294967296) :
    (a + BitVec.ofNat 32 n).toNat = a.toNat + n := by
  simp only [BitVec.toNat_add, BitVec.toNat_ofNat]
  rw [Nat.mod_eq_of_lt (by omega : n < 2 ^ 32), Nat.mod_eq_of_lt (by omega)]

/-- two ranges that follow each other without wrapping are disjoint -/
theorem addrRange_disjoint (a : BitVec 32) (m n : Nat) (h : a.toNat + m + n ≤ 4294967296) (x : BitVec 32)
    (h1 : x ∈ addrRange a m) (h2 : x ∈ addrRange (a + BitVec.ofNat 32 m) n) : False := by
  have nd := addrRange_nodup (m + n) a (by omega)
  rw [addrRange_append] at nd
  exact (List.nodup_append.mp nd).2.2 x h1 x h2 rfl

/-- what an instruction does in the second pass -/
theorem emitAll_spec (cfg : Cfg) (line : BitVec 32) (st : St) (es : Emits) (hp : st.pass = 2) (hl : line ≠ dlData)
    (hw : st.address.toNat + es.skip + es.pad.length + es.code.length ≤ 4294967296) :
    let base := st.address + BitVec.ofNat 32 es.skip
    let first := base + BitVec.ofNat 32 es.pad.length
    let st' := emitAll cfg line st es
    st'.pass = 2 ∧ st'.address = first + BitVec.ofNat 32 es.code.length ∧
    Wrote st.memory st'.memory (addrRange base (es.pad.length + es.code.length)) (fun _ => True) ∧
    (∀ x ∈ addrRange base es.pad.length, readDebug st'.memory x = dlData) ∧
    (∀ x ∈ addrRange first es.code.length, readDebug st'.memory x ≠ dlData) := by
  intro base first st'
  let st1 : St := { st with address := st.address + BitVec.ofNat 32 es.skip }
  have e : st' = writeCells (writeCells st1 (es.pad.map fun b => (b, dlData))) (es.code.map fun c => (c.1, codeMark line c)) := by
    show emitAll cfg line st es = _
    unfold emitAll
    simp only
    rw [foldl_pad, foldl_emitCode_pass2]
    rw [(writeCells_spec (fun _ => True) _ st1 (fun _ _ => trivial)).2.2.1]
    exact hp
  obtain ⟨a1, _, p1, _, w1⟩ := writeCells_spec (· = dlData) (es.pad.map fun b => (b, dlData)) st1 (by
    intro c hc; obtain ⟨b, _, rfl⟩ := List.mem_map.mp hc; rfl)
  have hcm : ∀ c ∈ es.code.map (fun c => (c.1, codeMark line c)), c.2 ≠ dlData := by
    intro c hc
    obtain ⟨b, _, rfl⟩ := List.mem_map.mp hc
    simp only [codeMark]
    split
    · exact hl
    · exact dlNoCg_ne_dlData
  obtain ⟨a2, _, p2, _, w2⟩ := writeCells_spec (· ≠ dlData) (es.code.map fun c => (c.1, codeMark line c))
    (writeCells st1 (es.pad.map fun b => (b, dlData))) hcm
  simp only [List.length_map] at a1 a2 w1 w2
  have hst1 : st1.address = base := rfl
  rw [hst1] at a1 w1
  rw [a1] at a2 w2
  refine ⟨by rw [e, p2, p1]; exact hp, by rw [e, a2], ?_, ?_, ?_⟩
  · rw [e, addrRange_append]
    exact Wrote.append (w1.mono fun _ _ => trivial) (w2.mono fun _ _ => trivial)
  · intro x hx
    rw [e, w2.frameD x ?_]
    · exact w1.marks x hx
    · intro hx2
      have hpos : 0 < es.pad.length := by
        cases hpl : es.pad.length with
        | zero => rw [hpl] at hx; cases hx
        | succ k => omega
      have hb : base.toNat = st.address.toNat + es.skip := toNat_add_ofNat _ _ (by omega)
      exact addrRange_disjoint base es.pad.length es.code.length (by omega) x hx hx2
  · intro x hx
    rw [e]
    exact w2.marks x hx

theorem mem_addrRange_right (a : BitVec 32) (m n : Nat) (x : BitVec 32) (h : x ∈ addrRange (a + BitVec.ofNat 32 m) n) :
    x ∈ addrRange a (m + n) := by
  rw [addrRange_append]; exact List.mem_append_right _ h

theorem exec_instr_inv (cfg : Cfg) (hlist : cfg.listing = true) (hf : ∀ m, cfg.fmt.SoundOn m) (ls ls' : LSt)
    (line : BitVec 32) (listed : Bool) (es : Emits)
    (h : execSimple cfg ls (.instr line listed es) = .ok ls') (hl : line ≠ dlData)
    (hnd : ls'.writes.Nodup) (hnw : ls'.nowrap = true) (hex : ∀ c ∈ ls'.calls, c.Exact) (inv : Inv m0 ls) : Inv m0 ls' := by
  simp only [execSimple] at h
  injection h with h
  have hp := inv.pass2
  have hwd : (decide (ls.st.pass = 1) && cfg.p1wd) = false := by rw [hp]; simp
  simp only [hwd, Bool.false_eq_true, if_false, hlist, true_and] at h
  subst h
  simp only [Bool.and_eq_true, decide_eq_true_eq] at hnw
  have hlt := hnw.2
  obtain ⟨p2, a2, w, mpad, mcode⟩ := emitAll_spec cfg line ls.st es hp hl (by omega)
  simp only at p2 a2 w mpad mcode hex
  have hbase : (ls.st.address + BitVec.ofNat 32 es.skip).toNat = ls.st.address.toNat + es.skip :=
    toNat_add_ofNat _ _ (by omega)
  have hfirst : (ls.st.address + BitVec.ofNat 32 es.skip + BitVec.ofNat 32 es.pad.length).toNat =
      ls.st.address.toNat + es.skip + es.pad.length := by
    rw [toNat_add_ofNat _ _ (by omega), hbase]
  have hstop : (emitAll cfg line ls.st es).address.toNat = ls.st.address.toNat + es.skip + es.pad.length + es.code.length := by
    rw [a2, toNat_add_ofNat _ _ (by omega), hfirst]
  refine inv_block ls _ (addrRange (ls.st.address + BitVec.ofNat 32 es.skip) (es.pad.length + es.code.length))
    (addrRange (ls.st.address + BitVec.ofNat 32 es.skip + BitVec.ofNat 32 es.pad.length) es.code.length)
    (if listed then [mkCall cfg (emitAll cfg line ls.st es).memory ls.st.address (emitAll cfg line ls.st es).address
      (ls.st.address + BitVec.ofNat 32 es.skip + BitVec.ofNat 32 es.pad.length)] else []) listed inv p2 w rfl hnd ?_ rfl
    (fun x hx => mem_addrRange_right _ _ _ x hx) (addrRange_nodup _ _ (by omega)) ?_ mcode ?_ ?_
  · cases listed <;> simp
  · intro x hx hm
    rw [addrRange_append] at hx
    rcases List.mem_append.mp hx with h1 | h1
    · exact absurd (mpad x h1) hm
    · exact h1
  · cases listed
    · simp [shownAddrs]
    · simp only [if_true, shownAddrs, List.flatMap_cons, List.flatMap_nil, List.append_nil]
      have := hex (mkCall cfg (emitAll cfg line ls.st es).memory ls.st.address (emitAll cfg line ls.st es).address
        (ls.st.address + BitVec.ofNat 32 es.skip + BitVec.ofNat 32 es.pad.length)) (by simp)
      unfold Call.Exact at this
      rw [this]
      simp only [mkCall]
      rw [hstop, hfirst]
      congr 1; omega
  · intro c hc
    cases listed
    · cases hc
    · simp only [if_true, List.mem_singleton] at hc
      subst hc
      exact mkCall_true cfg hf _ _ _ _

end NakenVerif.Listing
