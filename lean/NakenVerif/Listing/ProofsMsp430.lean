/-
  `disasm_msp430` returns an even length of at least 2 for every pair of words (every row type of the regenerated
  table is one the length model knows), so `list_output_msp430` advances by exactly that length, and a one-word
  instruction does not depend on the word behind it.
-/
import NakenVerif.Listing.ProofsWalk

namespace NakenVerif.Listing
open NakenVerif.Msp430.Sim NakenVerif.Generated.Msp430Dis

/-- every row of the regenerated table that `disasm_msp430` looks at (not an MSP430X extension-word row) has one of
the 21 operand types the length model knows -/
theorem table_types_known : ∀ r ∈ table, r.version ≠ VERSION_MSP430X_EXT → r.type ≤ 20 := by decide +kernel

theorem findRow_type (op : BitVec 16) (r : Row) (h : findRow op = some r) : r.type ≤ 20 := by
  unfold findRow at h
  have hm := List.mem_of_find?_eq_some h
  have hp := List.find?_some h
  simp only [decide_eq_true_eq] at hp
  exact table_types_known r hm hp.1

theorem srcCount_cases (reg : BitVec 4) (as : BitVec 2) : srcCount reg as = 0 ∨ srcCount reg as = 2 := by
  unfold srcCount
  split
  · split <;> simp
  · split
    · split <;> simp
    · split
      · simp
      · split <;> simp

theorem dstCount_cases (reg : BitVec 4) (ad : Bool) : dstCount reg ad = 0 ∨ dstCount reg ad = 2 := by
  unfold dstCount; split <;> simp

theorem rowCount_even (r : Row) (op : BitVec 16) (h : r.type ≤ 20) : rowCount r op % 2 = 0 ∧ 2 ≤ rowCount r op := by
  have hs := srcCount_cases (op.extractLsb' 0 4) (op.extractLsb' 4 2)
  have hs8 := srcCount_cases (op.extractLsb' 8 4) (op.extractLsb' 4 2)
  have hd := dstCount_cases (op.extractLsb' 0 4) (decide (op.extractLsb' 7 1 = 1))
  have ht : r.type = 0 ∨ r.type = 1 ∨ r.type = 2 ∨ r.type = 3 ∨ r.type = 4 ∨ r.type = 5 ∨ r.type = 6 ∨ r.type = 7 ∨
      r.type = 8 ∨ r.type = 9 ∨ r.type = 10 ∨ r.type = 11 ∨ r.type = 12 ∨ r.type = 13 ∨ r.type = 14 ∨ r.type = 15 ∨
      r.type = 16 ∨ r.type = 17 ∨ r.type = 18 ∨ r.type = 19 ∨ r.type = 20 := by omega
  unfold rowCount
  simp only [OP_NONE, OP_ONE_OPERAND, OP_ONE_OPERAND_W, OP_ONE_OPERAND_X, OP_JUMP, OP_TWO_OPERAND, OP_MOVA_AT_REG_REG,
    OP_MOVA_AT_REG_PLUS_REG, OP_MOVA_ABS20_REG, OP_MOVA_INDEXED_REG, OP_SHIFT20, OP_MOVA_REG_ABS, OP_MOVA_REG_INDEXED,
    OP_IMMEDIATE_REG, OP_REG_REG, OP_CALLA_SOURCE, OP_CALLA_ABS20, OP_CALLA_INDIRECT_PC, OP_CALLA_IMMEDIATE, OP_PUSH, OP_POP]
  rcases hs with e0 | e0 <;> rcases hs8 with e1 | e1 <;> rcases hd with e2 | e2 <;>
  rcases ht with h | h | h | h | h | h | h | h | h | h | h | h | h | h | h | h | h | h | h | h | h <;>
    simp only [h, e0, e1, e2] <;> (try simp) <;> (try split) <;> omega

/-- the return value of `disasm_msp430` is even and at least 2 -/
theorem disLen_even (w0 w1 : BitVec 16) : disLen w0 w1 % 2 = 0 ∧ 2 ≤ disLen w0 w1 := by
  unfold disLen
  split
  · simp
  · simp only
    split
    · split <;> omega
    · rename_i r hr
      have := rowCount_even r (if w0 &&& 0xf830 = 0x1800 then w1 else w0) (findRow_type _ r hr)
      split <;> (rename_i hpre; simp only [hpre, if_true, if_false] at this ⊢; omega)

/-- **msp430_advance_is_count.**  `count -= 2; start += 2; while (count > 0) { …; count -= 2; start += 2; }` advances
by exactly the length `disasm_msp430` returned. -/
theorem msp430_advance_is_count (m : Memory.Memory) (a : BitVec 32) : msp430Len m a = msp430Count m a := by
  unfold msp430Len msp430WordCount
  have := disLen_even (Memory.read16 m a) (Memory.read16 m (a + 2))
  unfold msp430Count
  omega

/-- **msp430_len_local.**  A one-word instruction is decoded from its own word: when `disasm_msp430` returns 2, it
returns 2 whatever the following word is. -/
theorem msp430_len_local (w0 w1 w1' : BitVec 16) (h : disLen w0 w1 = 2) : disLen w0 w1' = 2 := by
  unfold disLen at h ⊢
  by_cases h0 : w0 = 0x0110
  · simp [h0]
  · simp only [h0, if_false] at h ⊢
    by_cases hp : w0 &&& 0xf830 = 0x1800
    · exfalso
      simp only [hp, if_true] at h
      split at h
      · omega
      · rename_i r hr
        have := rowCount_even r w1 (findRow_type _ r hr)
        omega
    · simpa only [hp, if_false] using h

end NakenVerif.Listing
