/-
  The formatter loop: the lines of one `list_output` call tile a range of addresses, every line shows exactly the
  `len` bytes the decoder consumed at its address, and the address column is the walk of Common/Walk.lean.
-/
import NakenVerif.Listing.Impl
import NakenVerif.Common.Walk
import Std.Tactic.BVDecide

namespace NakenVerif.Listing
open NakenVerif.Memory

/-! ### address ranges -/

theorem one_add_ofNat (m : Nat) : (1 : BitVec 32) + BitVec.ofNat 32 m = BitVec.ofNat 32 (m + 1) := by
  apply BitVec.eq_of_toNat_eq
  have h1 : (1 : BitVec 32).toNat = 1 := rfl
  simp only [BitVec.toNat_add, BitVec.toNat_ofNat, h1]
  omega

theorem toNat_add_one (a : BitVec 32) (h : a.toNat + 1 < 4294967296) : (a + 1).toNat = a.toNat + 1 := by
  have h1 : (1 : BitVec 32).toNat = 1 := rfl
  rw [BitVec.toNat_add, h1, Nat.mod_eq_of_lt (by omega)]

@[simp] theorem addrRange_length (a : BitVec 32) (n : Nat) : (addrRange a n).length = n := by
  induction n generalizing a with
  | zero => rfl
  | succ n ih => simp [addrRange, ih]

theorem addrRange_append (a : BitVec 32) (m n : Nat) :
    addrRange a (m + n) = addrRange a m ++ addrRange (a + BitVec.ofNat 32 m) n := by
  induction m generalizing a with
  | zero => simp [addrRange]
  | succ m ih =>
    have : m + 1 + n = (m + n) + 1 := by omega
    rw [this]
    simp only [addrRange, List.cons_append, ih, List.cons.injEq, true_and]
    congr 2
    rw [BitVec.add_assoc, one_add_ofNat]

theorem mem_addrRange (a : BitVec 32) (n : Nat) (x : BitVec 32) :
    x ∈ addrRange a n ↔ ∃ i, i < n ∧ x = a + BitVec.ofNat 32 i := by
  induction n generalizing a with
  | zero => simp [addrRange]
  | succ n ih =>
    simp only [addrRange, List.mem_cons, ih]
    constructor
    · rintro (h | ⟨i, hi, h⟩)
      · exact ⟨0, by omega, by simp [h]⟩
      · refine ⟨i + 1, by omega, ?_⟩
        rw [h, BitVec.add_assoc, one_add_ofNat]
    · rintro ⟨i, hi, h⟩
      cases i with
      | zero => left; simp [h]
      | succ i =>
        right
        refine ⟨i, by omega, ?_⟩
        rw [h, BitVec.add_assoc, one_add_ofNat]

/-- without wrap-around the range is the interval of natural numbers -/
theorem mem_addrRange_nat (a : BitVec 32) (n : Nat) (h : a.toNat + n ≤ 4294967296) (x : BitVec 32) :
    x ∈ addrRange a n ↔ a.toNat ≤ x.toNat ∧ x.toNat < a.toNat + n := by
  rw [mem_addrRange]
  constructor
  · rintro ⟨i, hi, rfl⟩
    simp only [BitVec.toNat_add, BitVec.toNat_ofNat]
    have := a.isLt
    rw [Nat.mod_eq_of_lt (by omega : i < 2 ^ 32), Nat.mod_eq_of_lt (by omega)]
    omega
  · rintro ⟨h1, h2⟩
    refine ⟨x.toNat - a.toNat, by omega, ?_⟩
    apply BitVec.eq_of_toNat_eq
    simp only [BitVec.toNat_add, BitVec.toNat_ofNat]
    have := x.isLt
    rw [Nat.mod_eq_of_lt (by omega : x.toNat - a.toNat < 2 ^ 32), Nat.mod_eq_of_lt (by omega)]
    omega

theorem addrRange_nodup : ∀ (n : Nat) (a : BitVec 32), a.toNat + n ≤ 4294967296 → (addrRange a n).Nodup := by
  intro n
  induction n with
  | zero => intro a _; exact List.nodup_nil
  | succ n ih =>
    intro a h
    simp only [addrRange]
    cases n with
    | zero => simp [addrRange]
    | succ k =>
      have hlt : a.toNat + 1 < 4294967296 := by omega
      have e : (a + 1).toNat = a.toNat + 1 := toNat_add_one a hlt
      refine List.nodup_cons.mpr ⟨?_, ih (a + 1) (by omega)⟩
      intro hm
      have := (mem_addrRange_nat (a + 1) (k + 1) (by omega) a).mp hm
      omega

/-! ### formatters that show what they consumed -/

/-- the cell addresses of the lines, in print order -/
def cellAddrs (ls : List ILine) : List (BitVec 32) := ls.flatMap fun l => l.cells.map (·.addr)

/-- a formatter is *sound on a memory* when the line it prints for the instruction at `a` carries that address, the
decoder's length, and in its hexadecimal columns exactly the `len` bytes of memory from `a` on -/
def Formatter.SoundOn (f : Formatter) (m : Memory) : Prop :=
  ∀ a, (f.render m a).addr = a ∧ (f.render m a).len = f.len m a ∧ (f.render m a).cells = bytesOf m a (f.len m a)

theorem bytesOf_addrs (m : Memory) (a : BitVec 32) (n : Nat) : (bytesOf m a n).map (·.addr) = addrRange a n := by
  have : ((fun (x : Cell) => x.addr) ∘ fun x => ({ addr := x, val := read8 m x } : Cell)) = id := rfl
  simp only [bytesOf, List.map_map, this, List.map_id]

theorem bytesFormatter_sound (len : Memory → BitVec 32 → Nat) (m : Memory) : (bytesFormatter len).SoundOn m :=
  fun _ => ⟨rfl, rfl, rfl⟩

theorem wordLE_cells (m : Memory) (a : BitVec 32) :
    cellsOfWord16LE a (wordLE m a) = [⟨a, read8 m a⟩, ⟨a + 1, read8 m (a + 1)⟩] := by
  unfold cellsOfWord16LE wordLE
  generalize read8 m a = b0
  generalize read8 m (a + 1) = b1
  have h0 : (BitVec.zeroExtend 16 b0 ||| BitVec.zeroExtend 16 b1 <<< 8).setWidth 8 = b0 := by bv_decide
  have h1 : ((BitVec.zeroExtend 16 b0 ||| BitVec.zeroExtend 16 b1 <<< 8) >>> 8).setWidth 8 = b1 := by bv_decide
  rw [h0, h1]

theorem msp430Words_cells (m : Memory) : ∀ (k : Nat) (a : BitVec 32),
    (msp430Words m a k).flatMap (fun p => cellsOfWord16LE p.1 p.2) = bytesOf m a (2 * k) := by
  intro k
  induction k with
  | zero => intro a; rfl
  | succ k ih =>
    intro a
    have : 2 * (k + 1) = (2 * k + 1) + 1 := by omega
    simp only [msp430Words, List.flatMap_cons, ih, wordLE_cells, bytesOf, this, addrRange, List.map_cons,
      List.cons_append, List.nil_append, List.cons.injEq, true_and]
    have e : a + 1 + 1 = a + 2 := by
      rw [BitVec.add_assoc]; rfl
    rw [e]

/-- **MSP430 lines show what they consumed**, in either byte order of the memory: the words are assembled from
single bytes (`memory_read(start) | memory_read(start + 1) << 8`) and read back low byte first. -/
theorem msp430_sound (m : Memory) : msp430.SoundOn m := by
  intro a
  refine ⟨rfl, rfl, ?_⟩
  show (msp430Words m a _).flatMap _ = _
  rw [msp430Words_cells]; rfl

theorem cellsOfValue_four (big : Bool) (a : BitVec 32) (b0 b1 b2 b3 : Byte) :
    cellsOfValue big a
      (if !big then b0.zeroExtend 32 ||| (b1.zeroExtend 32 <<< 8) ||| (b2.zeroExtend 32 <<< 16) ||| (b3.zeroExtend 32 <<< 24)
       else (b0.zeroExtend 32 <<< 24) ||| (b1.zeroExtend 32 <<< 16) ||| (b2.zeroExtend 32 <<< 8) ||| b3.zeroExtend 32) 4 =
    [⟨a, b0⟩, ⟨a + 1, b1⟩, ⟨a + 1 + 1, b2⟩, ⟨a + 1 + 1 + 1, b3⟩] := by
  cases big
  · simp only [cellsOfValue, Bool.false_eq_true, if_false, Bool.not_false, if_true, cellsOfValueLE]
    generalize hw : (b0.zeroExtend 32 ||| (b1.zeroExtend 32 <<< 8) ||| (b2.zeroExtend 32 <<< 16) |||
        (b3.zeroExtend 32 <<< 24)) = w
    have h0 : w.setWidth 8 = b0 := by subst hw; bv_decide
    have h1 : (w >>> 8).setWidth 8 = b1 := by subst hw; bv_decide
    have h2 : (w >>> 8 >>> 8).setWidth 8 = b2 := by subst hw; bv_decide
    have h3 : (w >>> 8 >>> 8 >>> 8).setWidth 8 = b3 := by subst hw; bv_decide
    rw [h0, h1, h2, h3]
  · simp only [cellsOfValue, if_true, Bool.not_true, Bool.false_eq_true, if_false, cellsOfValueLE, addrRange, List.map_cons,
      List.map_nil, List.reverse_cons, List.reverse_nil, List.nil_append, List.cons_append, List.zip_cons_cons,
      List.zip_nil_right]
    generalize hw : ((b0.zeroExtend 32 <<< 24) ||| (b1.zeroExtend 32 <<< 16) ||| (b2.zeroExtend 32 <<< 8) |||
        b3.zeroExtend 32) = w
    have h0 : w.setWidth 8 = b3 := by subst hw; bv_decide
    have h1 : (w >>> 8).setWidth 8 = b2 := by subst hw; bv_decide
    have h2 : (w >>> 8 >>> 8).setWidth 8 = b1 := by subst hw; bv_decide
    have h3 : (w >>> 8 >>> 8 >>> 8).setWidth 8 = b0 := by subst hw; bv_decide
    rw [h0, h1, h2, h3]

theorem cellsOfValue_two (big : Bool) (a : BitVec 32) (b0 b1 : Byte) :
    cellsOfValue big a
      ((if !big then b0.zeroExtend 16 ||| (b1.zeroExtend 16 <<< 8) else (b0.zeroExtend 16 <<< 8) ||| b1.zeroExtend 16).zeroExtend 32) 2 =
    [⟨a, b0⟩, ⟨a + 1, b1⟩] := by
  cases big
  · simp only [cellsOfValue, Bool.false_eq_true, if_false, Bool.not_false, if_true, cellsOfValueLE]
    generalize hw : ((b0.zeroExtend 16 ||| (b1.zeroExtend 16 <<< 8)).zeroExtend 32 : BitVec 32) = w
    have h0 : w.setWidth 8 = b0 := by subst hw; bv_decide
    have h1 : (w >>> 8).setWidth 8 = b1 := by subst hw; bv_decide
    rw [h0, h1]
  · simp only [cellsOfValue, if_true, Bool.not_true, Bool.false_eq_true, if_false, cellsOfValueLE, addrRange, List.map_cons,
      List.map_nil, List.reverse_cons, List.reverse_nil, List.nil_append, List.cons_append, List.zip_cons_cons,
      List.zip_nil_right]
    generalize hw : (((b0.zeroExtend 16 <<< 8) ||| b1.zeroExtend 16).zeroExtend 32 : BitVec 32) = w
    have h0 : w.setWidth 8 = b1 := by subst hw; bv_decide
    have h1 : (w >>> 8).setWidth 8 = b0 := by subst hw; bv_decide
    rw [h0, h1]

/-- **RISC-V lines show what they consumed**: the printed value is `read16` / `read32` of the memory, read back in
the byte order in force. -/
theorem riscv_sound (m : Memory) : riscv.SoundOn m := by
  intro a
  have e2 : a + 1 + 1 = a + 2 := by rw [BitVec.add_assoc]; rfl
  have e3 : a + 2 + 1 = a + 3 := by rw [BitVec.add_assoc]; rfl
  by_cases h2 : riscvLen m a = 2
  · refine ⟨?_, ?_, ?_⟩
    · simp only [riscv, h2, if_true]
    · simp only [riscv, h2, if_true]
    · simp only [riscv, h2, if_true]
      unfold read16
      rw [cellsOfValue_two]
      rfl
  · have h4 : riscvLen m a = 4 := by
      unfold riscvLen Riscv.Disasm.len at h2 ⊢
      split at h2 <;> simp_all
    refine ⟨?_, ?_, ?_⟩
    · simp only [riscv, h2, if_false]
    · simp only [riscv, h2, if_false]
    · simp only [riscv, h2, if_false]
      rw [h4]
      unfold read32
      rw [cellsOfValue_four]
      simp only [bytesOf, addrRange, List.map_cons, List.map_nil, e2, e3]

/-! ### the loop -/

/-- the lines of the loop carry consecutive addresses, each shows exactly its `len` bytes, and together they show
the addresses from `s` on without gap or overlap (in `uint32_t` arithmetic, so also across a wrap) -/
theorem listLoop_tiles (f : Formatter) (m : Memory) (hs : f.SoundOn m) (stop : BitVec 32) :
    ∀ (fuel : Nat) (s : BitVec 32),
      cellAddrs (listLoop f m fuel s stop) = addrRange s ((listLoop f m fuel s stop).map (·.len)).sum ∧
      (∀ l ∈ listLoop f m fuel s stop, l.len = f.len m l.addr ∧ l.cells = bytesOf m l.addr l.len) := by
  intro fuel
  induction fuel with
  | zero => intro s; simp [listLoop, cellAddrs, addrRange]
  | succ fuel ih =>
    intro s
    unfold listLoop
    by_cases h : s < stop
    · simp only [h, if_true]
      obtain ⟨h1, h2, h3⟩ := hs s
      obtain ⟨ih1, ih2⟩ := ih (s + BitVec.ofNat 32 (f.len m s))
      constructor
      · simp only [cellAddrs, List.flatMap_cons, List.map_cons, List.sum_cons] at ih1 ⊢
        rw [ih1, h3, bytesOf_addrs, h2, addrRange_append]
      · intro l hl
        cases hl with
        | head => rw [h1]; exact ⟨h2, by rw [h3, h2]⟩
        | tail _ hl => exact ih2 l hl
    · simp [h, cellAddrs, addrRange]

/-- the address column: every line starts where the previous one ended -/
theorem listLoop_consecutive (f : Formatter) (m : Memory) (hs : f.SoundOn m) (stop : BitVec 32) :
    ∀ (fuel : Nat) (s : BitVec 32) (i : Nat) (hi : i < (listLoop f m fuel s stop).length),
      ((listLoop f m fuel s stop)[i]).addr =
        s + BitVec.ofNat 32 (((listLoop f m fuel s stop).take i).map (·.len)).sum := by
  intro fuel
  induction fuel with
  | zero => intro s i hi; simp [listLoop] at hi
  | succ fuel ih =>
    intro s i hi
    unfold listLoop at hi ⊢
    by_cases h : s < stop
    · simp only [h, if_true] at hi ⊢
      cases i with
      | zero => simp [(hs s).1]
      | succ i =>
        have := ih (s + BitVec.ofNat 32 (f.len m s)) i (by simpa using hi)
        simp only [List.getElem_cons_succ, List.take_succ_cons, List.map_cons, List.sum_cons]
        rw [this, (hs s).2.1, BitVec.add_assoc]
        congr 1
        apply BitVec.eq_of_toNat_eq
        simp only [BitVec.toNat_add, BitVec.toNat_ofNat]
        omega
    · simp [h] at hi

/-- **the walk lemma for the listing loop.**  For a decoder whose lengths are at least one byte, a range that does
not reach the top of the address space and enough fuel, the address column of `while (start < end)` is the walk of
Common/Walk.lean over `start … end-1` (whose tiling theorem `Walk.walk_tiles` then applies). -/
theorem listLoop_is_walk (f : Formatter) (m : Memory) (hs : f.SoundOn m) (L : Nat)
    (hlen : ∀ a, 1 ≤ f.len m a ∧ f.len m a ≤ L) (stop : BitVec 32) (hL : stop.toNat + L ≤ 4294967296) (hstop : 0 < stop.toNat) :
    ∀ (fuel : Nat) (s : BitVec 32), stop.toNat - s.toNat ≤ fuel → s.toNat < stop.toNat + L →
      (listLoop f m fuel s stop).map (·.addr.toNat) =
        Walk.walk (fun a => f.len m (BitVec.ofNat 32 a)) s.toNat (stop.toNat - 1) := by
  intro fuel
  induction fuel with
  | zero =>
    intro s h1 _
    rw [Walk.walk_empty _ _ _ (by omega)]
    simp [listLoop]
  | succ fuel ih =>
    intro s h1 h2
    unfold listLoop
    by_cases h : s < stop
    · have hlt : s.toNat < stop.toNat := by rwa [BitVec.lt_def] at h
      obtain ⟨l1, l2⟩ := hlen s
      have hadd : (s + BitVec.ofNat 32 (f.len m s)).toNat = s.toNat + f.len m s := by
        simp only [BitVec.toNat_add, BitVec.toNat_ofNat]
        rw [Nat.mod_eq_of_lt (by omega : f.len m s < 2 ^ 32), Nat.mod_eq_of_lt (by omega)]
      simp only [h, if_true, List.map_cons, (hs s).1]
      rw [ih _ (by rw [hadd]; omega) (by rw [hadd]; omega), hadd]
      conv => rhs; rw [Walk.walk]
      have hof : BitVec.ofNat 32 s.toNat = s := by simp
      simp only [show s.toNat ≤ stop.toNat - 1 by omega, if_true, hof, show 0 < f.len m s from l1]
    · have hge : stop.toNat ≤ s.toNat := by rw [BitVec.lt_def] at h; omega
      simp only [h, if_false, List.map_nil]
      rw [Walk.walk_empty _ _ _ (by omega)]

end NakenVerif.Listing
