/-
  `Symbols::find` against the specification: the two-phase walk over the pools is
  `Spec.resolve` on the abstract table.
-/
import NakenVerif.Symbols.Proofs

namespace NakenVerif.Symbols

/-- abstraction of one entry -/
def toDef (e : Entry) : Spec.Def :=
  { name := e.name, scope := e.scope, value := e.address, writable := e.rw, exported := e.exp }

/-- layer (b): the abstract table -/
def absDefs (s : Symbols) : Spec.Table := (abs s).map toDef

/-- the scope a reference is made in -/
def vis (s : Symbols) : Option Nat := if s.inScope then some s.currentScope else none

theorem scanPools_none (pred : Entry → Bool) :
    ∀ (ps : List Pool), (∀ p ∈ ps, PoolWF p) →
      (scanPools pred ps = none ↔ (ps.flatMap (·.cells)).find? pred = none)
  | [], _ => by simp [scanPools]
  | p :: ps, h => by
      have hp : PoolWF p := h p (by simp)
      have hps : ∀ q ∈ ps, PoolWF q := fun q hq => h q (by simp [hq])
      have ih := scanPools_none pred ps hps
      simp only [scanPools, List.flatMap_cons, List.find?_append]
      cases hc : scanCells p.ptr pred p.cells 0 with
      | some j =>
          have hne : p.cells.find? pred ≠ none := by
            intro hn
            have := (scanPool_none pred p hp).2 hn
            rw [hc] at this; cases this
          cases hf : p.cells.find? pred with
          | none => exact absurd hf hne
          | some e => simp
      | none =>
          have hn := (scanPool_none pred p hp).1 hc
          simp only [hn, Option.none_or, Option.map_eq_none_iff]
          exact ih

/-- a successful walk returns a reference to the first match -/
theorem scanPools_some (pred : Entry → Bool) (ps : List Pool) (h : ∀ p ∈ ps, PoolWF p) (r : Ref)
    (hr : scanPools pred ps = some r) :
    ∃ e, getRef ps r = some e ∧ (ps.flatMap (·.cells)).find? pred = some e := by
  have h1 := scanPools_find pred ps h
  rw [hr] at h1
  simp only [Option.bind_some] at h1
  cases hf : (ps.flatMap (·.cells)).find? pred with
  | none =>
      have := (scanPools_none pred ps h).2 hf
      rw [hr] at this; cases this
  | some e => exact ⟨e, by rw [h1, hf], rfl⟩

/-- list-level reading of Symbols::find -/
def lfind (l : List Entry) (inScope : Bool) (cs : Nat) (name : String) : Option Entry :=
  match (if inScope then l.find? (localPred cs name) else none) with
  | some e => some e
  | none => l.find? (globalPred name)

theorem find_eq_lfind (s : Symbols) (hwf : WF s) (name : String) :
    find s name = lfind (abs s) s.inScope s.currentScope name := by
  unfold find findRef lfind
  by_cases hin : s.inScope
  · simp only [hin, if_true]
    cases hl : scanPools (localPred s.currentScope name) s.pools with
    | some r =>
        obtain ⟨e, h1, h2⟩ := scanPools_some _ s.pools hwf r hl
        simp only [getEntry_eq, h1]
        show some e = match (abs s).find? _ with | some e => some e | none => _
        unfold abs; rw [h2]
    | none =>
        have hn := (scanPools_none _ s.pools hwf).1 hl
        show (match scanPools (globalPred name) s.pools with | some r => getEntry s r | none => none) =
          match (abs s).find? _ with | some e => some e | none => (abs s).find? _
        unfold abs; rw [hn]
        simp only
        cases hg : scanPools (globalPred name) s.pools with
        | some r =>
            obtain ⟨e, h1, h2⟩ := scanPools_some _ s.pools hwf r hg
            simp only [getEntry_eq, h1]; rw [h2]
        | none =>
            have := (scanPools_none _ s.pools hwf).1 hg
            simp only; rw [this]
  · have hin' : s.inScope = false := by simpa using hin
    simp only [hin', if_false, Bool.false_eq_true]
    cases hg : scanPools (globalPred name) s.pools with
    | some r =>
        obtain ⟨e, h1, h2⟩ := scanPools_some _ s.pools hwf r hg
        simp only [getEntry_eq, h1]; unfold abs; rw [h2]
    | none =>
        have := (scanPools_none _ s.pools hwf).1 hg
        unfold abs; rw [this]

theorem key_toDef_local (cs : Nat) (name : String) :
    (Spec.key name cs ∘ toDef) = localPred cs name := by
  funext e
  simp only [Function.comp, Spec.key, toDef, localPred]
  rw [BEq.comm (a := e.scope)]

theorem key_toDef_global (name : String) :
    (Spec.key name 0 ∘ toDef) = globalPred name := by
  funext e
  simp [Function.comp, Spec.key, toDef, globalPred]

theorem localPred_zero (name : String) : localPred 0 name = globalPred name := by
  funext e
  unfold localPred globalPred
  cases h : e.scope <;> simp

theorem lfind_resolve (l : List Entry) (inScope : Bool) (cs : Nat) (name : String) :
    (lfind l inScope cs name).map toDef =
      Spec.resolve (l.map toDef) (if inScope then some cs else none) name := by
  unfold lfind Spec.resolve
  cases inScope with
  | false => simp [List.find?_map, key_toDef_global]
  | true =>
      simp only [if_true, List.find?_map, key_toDef_local, localPred_zero]
      cases l.find? (localPred cs name) <;> simp

end NakenVerif.Symbols
