/-
  Specification of symbol resolution, written from the property text (C11) and
  docs/directives.md ("Labels defined within a scope will only be valid in that scope and may
  be reused in other parts of the program"):

  a symbol table is a finite collection of definitions, each made in a scope (0 = global);
  a reference made while scope `c` is open resolves to the definition of that name in `c` if
  there is one, otherwise to the global one; where the definition stands in the collection
  (before or after other definitions) is irrelevant; a scope holds at most one definition of
  a name.
-/
namespace NakenVerif.Symbols.Spec

/-- one definition -/
structure Def where
  name : String
  scope : Nat          -- 0 = global
  value : Nat
  writable : Bool      -- created by .set
  exported : Bool
  deriving DecidableEq, Repr

abbrev Table := List Def

def key (name : String) (scope : Nat) (d : Def) : Bool := d.scope == scope && d.name == name

/-- "the definition inside the current .scope/.func block if there is one, otherwise the global
    one".  `cur = none`: no scope is open. -/
def resolve (t : Table) (cur : Option Nat) (name : String) : Option Def :=
  match cur with
  | some c =>
      match t.find? (key name c) with
      | some d => some d
      | none => t.find? (key name 0)
  | none => t.find? (key name 0)

/-- at most one definition per (name, scope) -/
def Unique (t : Table) : Prop :=
  ∀ d₁ ∈ t, ∀ d₂ ∈ t, d₁.name = d₂.name → d₁.scope = d₂.scope → d₁ = d₂

/-- order-free reading of `resolve`: membership -/
def Resolves (t : Table) (cur : Option Nat) (name : String) (d : Def) : Prop :=
  d ∈ t ∧ d.name = name ∧
    ((∃ c, cur = some c ∧ d.scope = c) ∨
     (d.scope = 0 ∧ ∀ c, cur = some c → ∀ d' ∈ t, ¬ (d'.name = name ∧ d'.scope = c)))

end NakenVerif.Symbols.Spec
