/-
  List-level reading of the operations: what `modifyEntry` through a reference returned by
  `Symbols::find` does to `abs`, and the keys `(name, scope)` of the table.
-/
import NakenVerif.Symbols.ProofsScope

namespace NakenVerif.Symbols

/-- apply `f` to the first element that satisfies `p` -/
def modifyFirst (p : Entry → Bool) (f : Entry → Entry) : List Entry → List Entry
  | [] => []
  | x :: xs => if p x then f x :: xs else x :: modifyFirst p f xs

theorem modifyFirst_append_none (p : Entry → Bool) (f : Entry → Entry) :
    ∀ (a b : List Entry), a.find? p = none → modifyFirst p f (a ++ b) = a ++ modifyFirst p f b
  | [], b, _ => rfl
  | x :: a, b, h => by
      have hx : p x = false := by
        cases hp : p x with
        | false => rfl
        | true => simp [List.find?_cons, hp] at h
      have ha : a.find? p = none := by simpa [List.find?_cons, hx] using h
      simp [modifyFirst, hx, modifyFirst_append_none p f a b ha]

theorem modifyFirst_append_some (p : Entry → Bool) (f : Entry → Entry) :
    ∀ (a b : List Entry), (a.find? p).isSome → modifyFirst p f (a ++ b) = modifyFirst p f a ++ b
  | [], b, h => by simp at h
  | x :: a, b, h => by
      cases hp : p x with
      | true => simp [modifyFirst, hp]
      | false =>
          have ha : (a.find? p).isSome := by simpa [List.find?_cons, hp] using h
          simp [modifyFirst, hp, modifyFirst_append_some p f a b ha]

/-- at `l1 ++ e :: l2` with no match before `e` and `e` matching -/
theorem modifyFirst_middle (p : Entry → Bool) (f : Entry → Entry) (l1 l2 : List Entry) (e : Entry)
    (h1 : l1.find? p = none) (he : p e = true) :
    modifyFirst p f (l1 ++ e :: l2) = l1 ++ f e :: l2 := by
  rw [modifyFirst_append_none p f l1 _ h1]; simp [modifyFirst, he]

theorem scanCells_modify_abs (pred : Entry → Bool) (f : Entry → Entry) :
    ∀ (es : List Entry) (off j : Nat),
      scanCells (off + sumStride es) pred es off = some j → modifyCell f es j = modifyFirst pred f es
  | [], _, _, h => by simp [scanCells] at h
  | e :: es, off, j, h => by
      have hp := stride_pos e
      have hlt : off < off + sumStride (e :: es) := by simp [sumStride]; omega
      have e1 : off + sumStride (e :: es) = off + stride e + sumStride es := by simp [sumStride]; omega
      simp only [scanCells, hlt, if_true] at h
      cases hpe : pred e with
      | true =>
          simp only [hpe, if_true] at h
          injection h with h; subst h
          simp [modifyCell, modifyFirst, hpe]
      | false =>
          simp only [hpe, Bool.false_eq_true, if_false] at h
          rw [e1] at h
          cases hs : scanCells (off + stride e + sumStride es) pred es (off + stride e) with
          | none => rw [hs] at h; simp at h
          | some j' =>
              rw [hs] at h; simp at h; subst h
              simp [modifyCell, modifyFirst, hpe, scanCells_modify_abs pred f es (off + stride e) j' hs]

theorem scanPools_modify_abs (pred : Entry → Bool) (f : Entry → Entry) :
    ∀ (ps : List Pool), (∀ p ∈ ps, PoolWF p) → ∀ r, scanPools pred ps = some r →
      (modifyPool f ps r.1 r.2).flatMap (·.cells) = modifyFirst pred f (ps.flatMap (·.cells))
  | [], _, r, h => by simp [scanPools] at h
  | p :: ps, hw, r, h => by
      have hp : PoolWF p := hw p (by simp)
      have hps : ∀ q ∈ ps, PoolWF q := fun q hq => hw q (by simp [hq])
      simp only [scanPools] at h
      cases hc : scanCells p.ptr pred p.cells 0 with
      | some j =>
          rw [hc] at h; injection h with h; subst h
          have hsome : (p.cells.find? pred).isSome := by
            cases hf : p.cells.find? pred with
            | some _ => rfl
            | none =>
                have := (scanPool_none pred p hp).2 hf
                rw [hc] at this; cases this
          have hcell : modifyCell f p.cells j = modifyFirst pred f p.cells := by
            apply scanCells_modify_abs pred f p.cells 0 j
            have := hp.ptr_eq
            simpa [← this] using hc
          simp only [modifyPool, List.flatMap_cons, hcell]
          rw [modifyFirst_append_some pred f _ _ hsome]
      | none =>
          rw [hc] at h
          cases hr : scanPools pred ps with
          | none => rw [hr] at h; simp at h
          | some r' =>
              rw [hr] at h; simp at h; subst h
              have hn := (scanPool_none pred p hp).1 hc
              simp only [modifyPool, List.flatMap_cons]
              rw [scanPools_modify_abs pred f ps hps r' hr, modifyFirst_append_none pred f _ _ hn]

/-- the predicate whose first match `Symbols::find` returns -/
def lpred (l : List Entry) (inScope : Bool) (cs : Nat) (name : String) : Entry → Bool :=
  if inScope && (l.find? (localPred cs name)).isSome then localPred cs name else globalPred name

theorem lfind_eq_find_lpred (l : List Entry) (inScope : Bool) (cs : Nat) (name : String) :
    lfind l inScope cs name = l.find? (lpred l inScope cs name) := by
  unfold lfind lpred
  cases inScope with
  | false => simp
  | true =>
      cases h : l.find? (localPred cs name) with
      | none => simp
      | some e => simp [h]

/-- effect on `abs` of a write through the pointer `find` returned -/
theorem findRef_modify_abs (s : Symbols) (hwf : WF s) (name : String) (r : Ref) (f : Entry → Entry)
    (h : findRef s name = some r) :
    abs (modifyEntry s r f) = modifyFirst (lpred (abs s) s.inScope s.currentScope name) f (abs s) := by
  unfold findRef at h
  unfold abs modifyEntry lpred
  simp only
  cases hin : s.inScope with
  | false =>
      simp only [hin, Bool.false_eq_true, if_false, Bool.false_and] at h ⊢
      exact scanPools_modify_abs _ f s.pools hwf r h
  | true =>
      simp only [hin, if_true, Bool.true_and] at h ⊢
      cases hl : scanPools (localPred s.currentScope name) s.pools with
      | some r' =>
          rw [hl] at h; simp only at h; injection h with h; subst h
          obtain ⟨e, _, h2⟩ := scanPools_some _ s.pools hwf r' hl
          rw [h2]; simp only [Option.isSome_some, if_true]
          exact scanPools_modify_abs _ f s.pools hwf r' hl
      | none =>
          rw [hl] at h; simp only at h
          have hn := (scanPools_none _ s.pools hwf).1 hl
          rw [hn]; simp only [Option.isSome_none, Bool.false_eq_true, if_false]
          exact scanPools_modify_abs _ f s.pools hwf r h

/-- `find` as a function of `abs`: reference and entry -/
theorem findRef_some_lfind (s : Symbols) (hwf : WF s) (name : String) (r : Ref)
    (h : findRef s name = some r) :
    ∃ e, getEntry s r = some e ∧ lfind (abs s) s.inScope s.currentScope name = some e := by
  have hf := find_eq_lfind s hwf name
  unfold find at hf
  rw [h] at hf
  simp only at hf
  -- getEntry is some: the walk returned a cell that exists
  have hex : ∃ e, getRef s.pools r = some e := by
    unfold findRef at h
    cases hin : s.inScope with
    | false =>
        simp only [hin, Bool.false_eq_true, if_false] at h
        obtain ⟨e, h1, _⟩ := scanPools_some _ s.pools hwf r h
        exact ⟨e, h1⟩
    | true =>
        simp only [hin, if_true] at h
        cases hl : scanPools (localPred s.currentScope name) s.pools with
        | some r' =>
            rw [hl] at h; simp only at h; injection h with h; subst h
            obtain ⟨e, h1, _⟩ := scanPools_some _ s.pools hwf r' hl
            exact ⟨e, h1⟩
        | none =>
            rw [hl] at h; simp only at h
            obtain ⟨e, h1, _⟩ := scanPools_some _ s.pools hwf r h
            exact ⟨e, h1⟩
  obtain ⟨e, h1⟩ := hex
  exact ⟨e, by rw [getEntry_eq]; exact h1, by rw [← hf, getEntry_eq, h1]⟩

theorem findRef_none_lfind (s : Symbols) (hwf : WF s) (name : String) (h : findRef s name = none) :
    lfind (abs s) s.inScope s.currentScope name = none := by
  have hf := find_eq_lfind s hwf name
  unfold find at hf
  rw [h] at hf
  exact hf.symm

/-! ### keys -/

def keyOf (e : Entry) : String × Nat := (e.name, e.scope)

/-- at most one entry per (name, scope), positionally -/
def KeysNodup (l : List Entry) : Prop := (l.map keyOf).Nodup

theorem modifyFirst_keys (p : Entry → Bool) (f : Entry → Entry) (hf : ∀ e, keyOf (f e) = keyOf e) :
    ∀ l, (modifyFirst p f l).map keyOf = l.map keyOf
  | [] => rfl
  | x :: xs => by
      cases hp : p x <;> simp [modifyFirst, hp, hf, modifyFirst_keys p f hf xs]

theorem local_none_iff (l : List Entry) (c : Nat) (n : String) :
    l.find? (localPred c n) = none ↔ (n, c) ∉ l.map keyOf := by
  constructor
  · intro h hm
    obtain ⟨e, he, hk⟩ := List.mem_map.1 hm
    have := List.find?_eq_none.1 h e he
    simp only [keyOf, Prod.mk.injEq] at hk
    simp [localPred, hk.1, hk.2] at this
  · intro h
    apply List.find?_eq_none.2
    intro e he hp
    simp only [localPred, Bool.and_eq_true, beq_iff_eq] at hp
    exact h (List.mem_map.2 ⟨e, he, by simp [keyOf, hp.1, hp.2]⟩)

theorem global_none_iff (l : List Entry) (n : String) :
    l.find? (globalPred n) = none ↔ (n, 0) ∉ l.map keyOf := by
  rw [← localPred_zero]; exact local_none_iff l 0 n

theorem keysNodup_insert (l1 l2 : List Entry) (e : Entry) (h : KeysNodup (l1 ++ l2))
    (hfresh : keyOf e ∉ (l1 ++ l2).map keyOf) : KeysNodup (l1 ++ e :: l2) := by
  unfold KeysNodup at *
  have hp : ((l1 ++ e :: l2).map keyOf).Perm (keyOf e :: (l1 ++ l2).map keyOf) := by
    simp only [List.map_append, List.map_cons]
    exact List.perm_middle
  rw [hp.nodup_iff, List.nodup_cons]
  exact ⟨hfresh, h⟩

end NakenVerif.Symbols
