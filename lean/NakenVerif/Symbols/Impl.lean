/-
  Implementation model of core/Symbols.cpp + core/MemoryPool.cpp, as the code is now.

  Layer (a) — the pool layer.  A `Symbols` object owns a chain of pools of
  `SYMBOLS_HEAP_SIZE` bytes.  A pool is represented by its `ptr` field and by the
  entries laid out consecutively from offset 0 (`cells`); the byte offset of an
  entry is the sum of the strides `entry->len + sizeof(Entry)` of the entries
  before it.  Every loop of the C++ that walks a pool
  (`while (ptr < memory_pool->ptr) { entry = buffer + ptr; … ptr += entry->len + sizeof(Entry); }`)
  is modelled with the running offset and the real loop bound, and the iterator —
  whose offset survives between calls — re-reads its entry from the offset
  (`entryAt`); reading at an offset that is not the start of an entry is `fault`.

  Field widths are those of the C++ (`Generated.SymbolsLayout`, re-emitted from the
  working tree): `len` is a uint8; `scope` has been a uint32 like the `current_scope`
  counter since e304c6d (it was a uint16).

  Layer (b) — `abs` maps the pool chain to the list of entries in pool order.
-/
import NakenVerif.Generated.Limits
import NakenVerif.Generated.SymbolsLayout

namespace NakenVerif.Symbols

open NakenVerif.Generated

/-- SYMBOLS_HEAP_SIZE -/
def heapSize : Nat := symbolsHeapSize
/-- sizeof(Symbols::Entry) -/
def hdr : Nat := symbolEntryHeader
/-- values of the `scope` entry field -/
def scopeMod : Nat := 2 ^ symbolScopeBits
/-- values of `current_scope` -/
def counterMod : Nat := 2 ^ symbolScopeCounterBits
/-- values of the `len` entry field -/
def lenMod : Nat := 2 ^ symbolLenBits
/-- the literal in `if (token_len > 255)` of Symbols::append (tied by the correspondence stream) -/
def tokenLenMax : Nat := 255

/-- Symbols::Entry -/
structure Entry where
  name : String
  len : Nat            -- strlen(name) + 1 as stored in the uint8 field
  rw : Bool            -- flag_rw
  exp : Bool           -- flag_export
  scope : Nat          -- uint16 field
  address : Nat        -- uint32 field
  deriving DecidableEq, Repr, Inhabited

/-- `entry->len + sizeof(Entry)`: distance to the next entry as every walker computes it -/
def stride (e : Entry) : Nat := e.len + hdr

/-- MemoryPool: `len` is always SYMBOLS_HEAP_SIZE -/
structure Pool where
  cells : List Entry
  ptr : Nat
  deriving DecidableEq, Repr, Inhabited

/-- class Symbols -/
structure Symbols where
  pools : List Pool := []
  locked : Bool := false
  inScope : Bool := false
  debug : Bool := false
  currentScope : Nat := 0
  deriving DecidableEq, Repr, Inhabited

/-- outcome of a member function: new state and return value, or undefined behaviour -/
inductive Res (α : Type) where
  | ok (s : Symbols) (r : α)
  | fault
  deriving Repr

/-- position of an entry: pool number, cell number (stands for the `Entry *`) -/
abbrev Ref := Nat × Nat

/-! ### walking -/

/-- one pool: `while (ptr < pool->ptr) { if (pred entry) return entry; ptr += stride; }` from
    offset `off`; the result is the cell number counted from the first cell given -/
def scanCells (limit : Nat) (pred : Entry → Bool) : List Entry → Nat → Option Nat
  | [], _ => none
  | e :: es, off =>
      if off < limit then
        if pred e then some 0 else (scanCells limit pred es (off + stride e)).map (· + 1)
      else none

/-- the chain: `while (memory_pool != nullptr) { ptr = 0; …; memory_pool = memory_pool->next; }` -/
def scanPools (pred : Entry → Bool) : List Pool → Option Ref
  | [] => none
  | p :: ps =>
      match scanCells p.ptr pred p.cells 0 with
      | some j => some (0, j)
      | none => (scanPools pred ps).map (fun r => (r.1 + 1, r.2))

def localPred (cs : Nat) (name : String) (e : Entry) : Bool := cs == e.scope && e.name == name
def globalPred (name : String) (e : Entry) : Bool := e.scope == 0 && e.name == name

/-- Symbols::find -/
def findRef (s : Symbols) (name : String) : Option Ref :=
  match (if s.inScope then scanPools (localPred s.currentScope name) s.pools else none) with
  | some r => some r
  | none => scanPools (globalPred name) s.pools

def getEntry (s : Symbols) (r : Ref) : Option Entry :=
  match s.pools[r.1]? with
  | some p => p.cells[r.2]?
  | none => none

def modifyCell (f : Entry → Entry) : List Entry → Nat → List Entry
  | [], _ => []
  | e :: es, 0 => f e :: es
  | e :: es, k + 1 => e :: modifyCell f es k

def modifyPool (f : Entry → Entry) : List Pool → Nat → Nat → List Pool
  | [], _, _ => []
  | p :: ps, 0, j => { p with cells := modifyCell f p.cells j } :: ps
  | p :: ps, i + 1, j => p :: modifyPool f ps i j

/-- write through an `Entry *` -/
def modifyEntry (s : Symbols) (r : Ref) (f : Entry → Entry) : Symbols :=
  { s with pools := modifyPool f s.pools r.1 r.2 }

/-- the entry found by Symbols::find -/
def find (s : Symbols) (name : String) : Option Entry :=
  match findRef s name with
  | some r => getEntry s r
  | none => none

/-! ### append -/

/-- strlen(name) + 1 -/
def tokenLen (name : String) : Nat := name.utf8ByteSize + 1

/-- "Find a pool that has enough area at the end": number of the first pool with
    `ptr + token_len + sizeof(Entry) < len`, or the number of pools if there is none. -/
def roomIdx (tl : Nat) : List Pool → Nat
  | [] => 0
  | p :: ps => if p.ptr + tl + hdr < heapSize then 0 else roomIdx tl ps + 1

/-- write the entry at `pool->ptr` of pool `k` (a new pool when `k` is past the chain) and
    advance `ptr` by `token_len + sizeof(Entry)` -/
def pushCell (e : Entry) (tl : Nat) : List Pool → Nat → List Pool
  | [], _ => [{ cells := [e], ptr := tl + hdr }]
  | p :: ps, 0 => { cells := p.cells ++ [e], ptr := p.ptr + tl + hdr } :: ps
  | p :: ps, k + 1 => p :: pushCell e tl ps k

/-- the part of Symbols::append after the duplicate test -/
def appendNew (s : Symbols) (name : String) (address : Nat) : Res Int :=
  let tl := tokenLen name
  if tl > tokenLenMax then .ok s (-1)
  else if ¬ (tl + hdr < heapSize) then .fault        -- the pool search would allocate for ever
  else
    let e : Entry := { name := name, len := tl % lenMod, rw := false, exp := false,
                       address := address,
                       scope := (if s.inScope then s.currentScope else 0) % scopeMod }
    .ok { s with pools := pushCell e tl s.pools (roomIdx tl s.pools) } 0

/-- `in_scope ? current_scope : 0`: the scope a definition made now belongs to -/
def defScope (s : Symbols) : Nat := if s.inScope then s.currentScope else 0

/-- the pass-2 branch of Symbols::append (`locked`): nothing is entered; a label (not a `.set`
    symbol) of the scope being defined whose recorded address differs is an error -/
def appendLocked (s : Symbols) (name : String) (address : Nat) : Res Int :=
  match findRef s name with
  | some r =>
      match getEntry s r with
      | none => .fault
      | some e =>
          if !e.rw && e.scope == defScope s && e.address != address
          then .ok s (-1) else .ok s 0
  | none => .ok s 0

/-- Symbols::append -/
def append (s : Symbols) (name : String) (address : Nat) : Res Int :=
  if s.locked then appendLocked s name address
  else
    match findRef s name with
    | some r =>
        match getEntry s r with
        | none => .fault
        | some e =>
            if s.debug then .ok (modifyEntry s r (fun e => { e with address := address })) 0
            else if !s.inScope || e.scope == s.currentScope then .ok s (-1)
            else appendNew s name address
    | none => appendNew s name address

/-- Symbols::set -/
def set (s : Symbols) (name : String) (address : Nat) : Res Int :=
  match findRef s name with
  | none =>
      match append s name address with
      | .fault => .fault
      | .ok s1 r =>
          if r != 0 then .ok s1 (-1)
          else
            match findRef s1 name with
            | none => .ok s1 (-1)                  -- `if (entry == nullptr) { return -1; }`
            | some r1 => .ok (modifyEntry s1 r1 (fun e => { e with scope := 0, rw := true })) 0
  | some r =>
      match getEntry s r with
      | none => .fault
      | some e =>
          if e.rw then .ok (modifyEntry s r (fun e => { e with address := address })) 0
          else .ok s (-1)

/-- Symbols::export_symbol -/
def exportSymbol (s : Symbols) (name : String) : Res Int :=
  match findRef s name with
  | none => .ok s (-1)
  | some r =>
      match getEntry s r with
      | none => .fault
      | some e =>
          if e.scope != 0 then .ok s (-1)
          else .ok (modifyEntry s r (fun e => { e with exp := true })) 0

/-- Symbols::lookup: (return value, *address) -/
def lookup (s : Symbols) (name : String) : Int × Nat :=
  match find s name with
  | none => (-1, 0)
  | some e => (0, e.address)

/-- Symbols::scope_start -/
def scopeStart (s : Symbols) : Symbols × Int :=
  if s.inScope then (s, -1)
  else ({ s with inScope := true, currentScope := (s.currentScope + 1) % counterMod }, 0)

def scopeEnd (s : Symbols) : Symbols := { s with inScope := false }
def scopeReset (s : Symbols) : Symbols := { s with currentScope := 0 }
def lock (s : Symbols) : Symbols := { s with locked := true }
def setDebug (s : Symbols) : Symbols := { s with debug := true }

/-! ### the callers in core/directives.cpp and AsmContext::assemble (status: true = the statement is an error) -/

/-- `name:` (TOKEN_LABEL in AsmContext::assemble): `if (symbols.append(...) == -1) return -1;` -/
def dirLabel (s : Symbols) (name : String) (address : Nat) : Option (Symbols × Bool) :=
  match append s name address with
  | .fault => none
  | .ok s' r => some (s', r == -1)

/-- parse_set: `if (symbols.set(name, num) != 0) { print_already_defined; return -1; }` -/
def dirSet (s : Symbols) (name : String) (value : Nat) : Option (Symbols × Bool) :=
  match set s name value with
  | .fault => none
  | .ok s' r => some (s', r != 0)

/-- `.func name`: the name is read with `ignore_symbols = 1`, `append` must return 0, then
    `scope_start` must return 0 -/
def dirFunc (s : Symbols) (name : String) (address : Nat) : Option (Symbols × Bool) :=
  match append s name address with
  | .fault => none
  | .ok s' r =>
      if r != 0 then some (s', true)
      else
        let (s'', r') := scopeStart s'
        some (s'', r' != 0)

/-- `.scope` -/
def dirScope (s : Symbols) : Symbols × Bool :=
  let (s', r) := scopeStart s
  (s', r != 0)

/-! ### count / export_count -/

def countCells (limit : Nat) (pred : Entry → Bool) : List Entry → Nat → Nat
  | [], _ => 0
  | e :: es, off =>
      if off < limit then (if pred e then 1 else 0) + countCells limit pred es (off + stride e) else 0

def countPools (pred : Entry → Bool) : List Pool → Nat
  | [] => 0
  | p :: ps => countCells p.ptr pred p.cells 0 + countPools pred ps

/-- Symbols::count -/
def count (s : Symbols) : Nat := countPools (fun _ => true) s.pools
/-- Symbols::export_count -/
def exportCount (s : Symbols) : Nat := countPools (fun e => e.exp) s.pools

/-! ### iterate -/

/-- SymbolsIter (the fields the iteration depends on) -/
structure Iter where
  pool : Option Nat := none      -- memory_pool (number in the chain), none = nullptr
  ptr : Nat := 0
  count : Nat := 0
  endFlag : Bool := false
  deriving DecidableEq, Repr, Inhabited

/-- the entry that starts at byte offset `off` of a pool buffer -/
def entryAt : List Entry → Nat → Option Entry
  | [], _ => none
  | e :: es, off =>
      if off = 0 then some e
      else if off < stride e then none
      else entryAt es (off - stride e)

inductive IterRes where
  | item (it : Iter) (e : Entry)     -- returned 0
  | done (it : Iter)                 -- returned -1
  | fault
  deriving Repr

/-- the `while (iter->memory_pool != nullptr)` loop of Symbols::iterate; `fuel` bounds the
    number of pool changes (one per remaining pool) -/
def iterLoop (pools : List Pool) : Nat → Iter → IterRes
  | 0, _ => .fault                      -- never reached: `fuel` exceeds the number of pools
  | fuel + 1, it =>
      match it.pool with
      | none => .done { it with endFlag := true }
      | some i =>
          match pools[i]? with
          | none => .fault
          | some p =>
              if it.ptr < p.ptr then
                match entryAt p.cells it.ptr with
                | none => .fault
                | some e => .item { it with ptr := it.ptr + stride e, count := it.count + 1 } e
              else
                iterLoop pools fuel
                  { it with pool := (if i + 1 < pools.length then some (i + 1) else none), ptr := 0 }

/-- Symbols::iterate -/
def iterate (s : Symbols) (it : Iter) : IterRes :=
  if it.endFlag then .done it
  else
    let it1 : Iter :=
      match it.pool with
      | none => { it with pool := (if s.pools.length > 0 then some 0 else none), ptr := 0 }
      | some _ => it
    iterLoop s.pools (s.pools.length + 1) it1

/-- `while (iterate(&iter) != -1) …` with a fresh iterator: the entries seen, and `iter.count`.
    `none` = fault or fuel exhausted. -/
def iterateAllFrom (s : Symbols) : Nat → Iter → List Entry → Option (List Entry × Nat)
  | 0, _, _ => none
  | fuel + 1, it, acc =>
      match iterate s it with
      | .fault => none
      | .done it' => some (acc.reverse, it'.count)
      | .item it' e => iterateAllFrom s fuel it' (e :: acc)

/-! ### abstraction -/

/-- all entries in pool order -/
def abs (s : Symbols) : List Entry := s.pools.flatMap (·.cells)

/-- number of calls that always suffices: one per entry and the final one -/
def iterateAll (s : Symbols) : Option (List Entry × Nat) :=
  iterateAllFrom s ((abs s).length + 1) {} []

/-! ### operation sequences (driver, and the statements of theorems about runs) -/

inductive Op where
  | append (name : String) (address : Nat)
  | set (name : String) (value : Nat)
  | export (name : String)
  | scopeStart | scopeEnd | scopeReset | lock
  deriving DecidableEq, Repr

/-- state after one operation; `none` = fault -/
def step (s : Symbols) : Op → Option Symbols
  | .append n a => match append s n a with | .ok s' _ => some s' | .fault => none
  | .set n v => match set s n v with | .ok s' _ => some s' | .fault => none
  | .export n => match exportSymbol s n with | .ok s' _ => some s' | .fault => none
  | .scopeStart => some (scopeStart s).1
  | .scopeEnd => some (scopeEnd s)
  | .scopeReset => some (scopeReset s)
  | .lock => some (lock s)

def run (s : Symbols) : List Op → Option Symbols
  | [] => some s
  | o :: os => match step s o with | some s' => run s' os | none => none

end NakenVerif.Symbols
