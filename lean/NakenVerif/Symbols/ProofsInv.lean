/-
  The invariant of reachable tables: well-formed pools, at most one entry per (name, scope),
  scope counter within its type — and what `append` / `set` do to `abs`.
-/
import NakenVerif.Symbols.ProofsAbs

namespace NakenVerif.Symbols

structure Inv (s : Symbols) : Prop where
  wf : WF s
  keys : KeysNodup (abs s)
  counter : s.currentScope < counterMod

/-- the entry field is at least as wide as the counter (since e304c6d both are 32 bits) -/
theorem counter_le_scope : counterMod ≤ scopeMod := by decide

theorem inv_empty : Inv {} := ⟨wf_empty, by simp [KeysNodup, abs], by decide⟩

theorem lfind_none_preds (l : List Entry) (i : Bool) (c : Nat) (n : String)
    (h : lfind l i c n = none) :
    (i = true → l.find? (localPred c n) = none) ∧ l.find? (globalPred n) = none := by
  unfold lfind at h
  cases i with
  | false => simpa using h
  | true =>
      simp only [if_true] at h
      cases hl : l.find? (localPred c n) with
      | some e => rw [hl] at h; simp at h
      | none => rw [hl] at h; simp only at h; exact ⟨fun _ => rfl, h⟩

theorem fresh_of_lfind_none (l : List Entry) (i : Bool) (c : Nat) (n : String)
    (h : lfind l i c n = none) : (n, if i then c else 0) ∉ l.map keyOf := by
  obtain ⟨h1, h2⟩ := lfind_none_preds l i c n h
  cases i with
  | false => simpa using (global_none_iff l n).1 h2
  | true => simpa using (local_none_iff l c n).1 (h1 rfl)

theorem fresh_of_lfind_other (l : List Entry) (c : Nat) (n : String) (e0 : Entry)
    (h : lfind l true c n = some e0) (hne : e0.scope ≠ c) : (n, c) ∉ l.map keyOf := by
  apply (local_none_iff l c n).1
  unfold lfind at h
  simp only [if_true] at h
  cases hl : l.find? (localPred c n) with
  | none => rfl
  | some e1 =>
      rw [hl] at h; simp only at h; injection h with h; subst h
      have := List.find?_some hl
      simp only [localPred, Bool.and_eq_true, beq_iff_eq] at this
      exact absurd this.1.symm hne

/-- what a successful `appendNew` does -/
theorem appendNew_cases (s : Symbols) (name : String) (a : Nat) (s' : Symbols) (r : Int)
    (hc : s.currentScope < counterMod) (h : appendNew s name a = .ok s' r) :
    (r = -1 ∧ s' = s) ∨
    (r = 0 ∧ ∃ l1 l2 e, abs s = l1 ++ l2 ∧ abs s' = l1 ++ e :: l2 ∧ e.name = name ∧ e.address = a ∧
        e.scope = defScope s ∧ e.rw = false) := by
  unfold appendNew at h
  by_cases h1 : tokenLen name > tokenLenMax
  · simp [h1] at h; exact Or.inl ⟨h.2.symm, h.1.symm⟩
  · by_cases h2 : tokenLen name + hdr < heapSize
    · simp only [h1, if_false, h2, not_true_eq_false] at h
      injection h with hs hr
      right
      refine ⟨hr.symm, ?_⟩
      obtain ⟨l1, l2, e1, e2⟩ := pushCell_abs
        { name := name, len := tokenLen name % lenMod, rw := false, exp := false, address := a,
          scope := (if s.inScope then s.currentScope else 0) % scopeMod } (tokenLen name) s.pools
        (roomIdx (tokenLen name) s.pools)
      refine ⟨l1, l2, _, e1, by rw [← hs]; exact e2, rfl, rfl, ?_, rfl⟩
      have := counter_le_scope
      show (if s.inScope then s.currentScope else 0) % scopeMod = defScope s
      unfold defScope
      apply Nat.mod_eq_of_lt
      split <;> omega
    · simp [h1, h2] at h

theorem defScope_eq (s : Symbols) : defScope s = if s.inScope then s.currentScope else 0 := rfl

theorem inv_of_insert (s s' : Symbols) (hi : Inv s) (hwf : WF s') (hregs : regs s' = regs s)
    (l1 l2 : List Entry) (e : Entry) (h1 : abs s = l1 ++ l2) (h2 : abs s' = l1 ++ e :: l2)
    (hfresh : keyOf e ∉ (abs s).map keyOf) : Inv s' := by
  refine ⟨hwf, ?_, ?_⟩
  · rw [h2]; apply keysNodup_insert
    · rw [← h1]; exact hi.keys
    · rw [← h1]; exact hfresh
  · have : s'.currentScope = s.currentScope := by
      have := congrArg Prod.snd hregs; simpa [regs] using this
    rw [this]; exact hi.counter

theorem inv_of_modify_same_keys (s : Symbols) (hi : Inv s) (name : String) (r : Ref) (f : Entry → Entry)
    (hr : findRef s name = some r) (hk : ∀ e, keyOf (f e) = keyOf e) (hs : ∀ e, stride (f e) = stride e) :
    Inv (modifyEntry s r f) := by
  refine ⟨modifyEntry_wf s r f hs hi.wf, ?_, hi.counter⟩
  unfold KeysNodup
  rw [findRef_modify_abs s hi.wf name r f hr, modifyFirst_keys _ f hk]
  exact hi.keys

theorem append_inv (s : Symbols) (hi : Inv s) (name : String) (a : Nat) (s' : Symbols) (r : Int)
    (h : append s name a = .ok s' r) : Inv s' := by
  have hwf' : WF s' := append_wf s name a hi.wf s' r h
  have hregs : regs s' = regs s := append_regs s name a s' r h
  unfold append at h
  split at h
  · rw [appendLocked_state s name a s' r h]; exact hi
  · split at h
    · rename_i r0 hr0
      obtain ⟨e0, hg, hl⟩ := findRef_some_lfind s hi.wf name r0 hr0
      rw [hg] at h
      simp only at h
      split at h
      · injection h with hs _; rw [← hs]
        exact inv_of_modify_same_keys s hi name r0 _ hr0 (fun _ => rfl) (fun _ => rfl)
      · split at h
        · injection h with hs _; rw [← hs]; exact hi
        · rename_i hnd hcond
          have hin : s.inScope = true ∧ e0.scope ≠ s.currentScope := by
            simp only [Bool.or_eq_true, Bool.not_eq_true', beq_iff_eq, not_or] at hcond
            exact ⟨by simpa using hcond.1, hcond.2⟩
          rcases appendNew_cases s name a s' r hi.counter h with ⟨_, hs⟩ | ⟨_, l1, l2, e, h1, h2, hn, _, hsc, _⟩
          · rw [hs]; exact hi
          · apply inv_of_insert s s' hi hwf' hregs l1 l2 e h1 h2
            have : keyOf e = (name, s.currentScope) := by
              simp [keyOf, hn, hsc, defScope_eq, hin.1]
            rw [this]
            rw [hin.1] at hl
            exact fresh_of_lfind_other (abs s) s.currentScope name e0 hl hin.2
    · rename_i hr0
      have hl := findRef_none_lfind s hi.wf name hr0
      rcases appendNew_cases s name a s' r hi.counter h with ⟨_, hs⟩ | ⟨_, l1, l2, e, h1, h2, hn, _, hsc, _⟩
      · rw [hs]; exact hi
      · apply inv_of_insert s s' hi hwf' hregs l1 l2 e h1 h2
        have : keyOf e = (name, if s.inScope then s.currentScope else 0) := by
          simp [keyOf, hn, hsc, defScope_eq]
        rw [this]
        exact fresh_of_lfind_none (abs s) s.inScope s.currentScope name hl

theorem find_middle (P : Entry → Bool) (l1 l2 : List Entry) (e e' : Entry)
    (hn : (l1 ++ l2).find? P = none) (hs : (l1 ++ e :: l2).find? P = some e') :
    l1.find? P = none ∧ P e = true := by
  have h1 : l1.find? P = none := by
    rw [List.find?_append] at hn
    cases hh : l1.find? P with
    | none => rfl
    | some x => rw [hh] at hn; simp at hn
  have h2 : l2.find? P = none := by
    rw [List.find?_append, h1] at hn; simpa using hn
  refine ⟨h1, ?_⟩
  rw [List.find?_append, h1] at hs
  simp only [Option.none_or, List.find?_cons] at hs
  cases hp : P e with
  | true => rfl
  | false => rw [hp] at hs; simp only [h2] at hs; cases hs

/-- the creating `.set`: description of the result -/
theorem set_create (s : Symbols) (hi : Inv s) (name : String) (v : Nat) (s' : Symbols) (r : Int)
    (hnone : findRef s name = none) (h : set s name v = .ok s' r) :
    (r = -1 ∧ s' = s) ∨
    (r = 0 ∧ regs s' = regs s ∧ ∃ l1 l2 e, abs s = l1 ++ l2 ∧ abs s' = l1 ++ e :: l2 ∧ e.name = name ∧
        e.scope = 0 ∧ e.address = v ∧ e.rw = true) := by
  have hl := findRef_none_lfind s hi.wf name hnone
  unfold set at h
  rw [hnone] at h
  simp only at h
  split at h
  · cases h
  · rename_i s1 r1 happ
    have hwf1 : WF s1 := append_wf s name v hi.wf s1 r1 happ
    have hregs1 : regs s1 = regs s := append_regs s name v s1 r1 happ
    -- what append did
    have happ' : (r1 = -1 ∧ s1 = s) ∨ (r1 = 0 ∧ s1 = s) ∨
        (r1 = 0 ∧ ∃ l1 l2 e, abs s = l1 ++ l2 ∧ abs s1 = l1 ++ e :: l2 ∧ e.name = name ∧ e.address = v ∧
          e.scope = defScope s ∧ e.rw = false) := by
      unfold append at happ
      split at happ
      · unfold appendLocked at happ
        rw [hnone] at happ
        injection happ with h1 h2
        exact Or.inr (Or.inl ⟨h2.symm, h1.symm⟩)
      · rw [hnone] at happ
        rcases appendNew_cases s name v s1 r1 hi.counter happ with h1 | h1
        · exact Or.inl h1
        · exact Or.inr (Or.inr h1)
    by_cases hz : r1 = 0
    · subst hz
      simp only [bne_self_eq_false, Bool.false_eq_true, if_false] at h
      split at h
      · -- the second find returned nullptr: `return -1`; only the locked no-op append gets here
        rename_i hnone1
        injection h with hs hr
        left
        refine ⟨hr.symm, ?_⟩
        rcases happ' with ⟨hm, _⟩ | ⟨_, hs1⟩ | ⟨_, l1, l2, e, h1, h2, hn, ha, hsc, _⟩
        · cases hm
        · rw [← hs, hs1]
        · -- an entry was inserted: it is visible from where it was defined, so find cannot fail
          exfalso
          have hl1 := findRef_none_lfind s1 hwf1 name hnone1
          have hr1 : s1.inScope = s.inScope ∧ s1.currentScope = s.currentScope := by
            have := hregs1; simp only [regs, Prod.mk.injEq] at this; exact this
          have hfresh := fresh_of_lfind_none (abs s1) s1.inScope s1.currentScope name hl1
          apply hfresh
          rw [h2, hr1.1, hr1.2]
          apply List.mem_map.2
          exact ⟨e, by simp, by simp [keyOf, hn, hsc, defScope_eq]⟩
      · rename_i r1' hr1'
        injection h with hs hr
        rcases happ' with ⟨hm, _⟩ | ⟨_, hs1⟩ | ⟨_, l1, l2, e, h1, h2, hn, ha, hsc, _⟩
        · cases hm
        · -- locked table: the second find cannot succeed
          rw [hs1, hnone] at hr1'; cases hr1'
        · right
          refine ⟨hr.symm, by rw [← hs]; exact hregs1, l1, l2,
            { e with scope := 0, rw := true }, h1, ?_, hn, rfl, ha, rfl⟩
          rw [← hs, findRef_modify_abs s1 hwf1 name r1' _ hr1', h2]
          obtain ⟨e', _, hl1⟩ := findRef_some_lfind s1 hwf1 name r1' hr1'
          rw [lfind_eq_find_lpred, h2] at hl1
          -- no entry of the old table satisfies the predicate used
          have hr1 : s1.inScope = s.inScope ∧ s1.currentScope = s.currentScope := by
            have := hregs1; simp only [regs, Prod.mk.injEq] at this; exact this
          obtain ⟨hloc, hglob⟩ := lfind_none_preds (abs s) s.inScope s.currentScope name hl
          have hP : (l1 ++ l2).find? (lpred (l1 ++ e :: l2) s1.inScope s1.currentScope name) = none := by
            unfold lpred
            split
            · rename_i hc
              simp only [Bool.and_eq_true] at hc
              rw [hr1.2, ← h1]; exact hloc (by rw [← hr1.1]; exact hc.1)
            · rw [← h1]; exact hglob
          obtain ⟨hp1, hpe⟩ := find_middle _ l1 l2 e e' hP hl1
          exact modifyFirst_middle _ _ l1 l2 e hp1 hpe
    · have hz' : (r1 != 0) = true := by simpa using hz
      simp only [hz', if_true] at h
      injection h with hs hr
      rcases happ' with ⟨_, hs1⟩ | ⟨h0, _⟩ | ⟨h0, _⟩
      · left; exact ⟨hr.symm, by rw [← hs, hs1]⟩
      · exact absurd h0 hz
      · exact absurd h0 hz

theorem set_inv (s : Symbols) (hi : Inv s) (name : String) (v : Nat) (s' : Symbols) (r : Int)
    (h : set s name v = .ok s' r) : Inv s' := by
  cases hf : findRef s name with
  | none =>
      have hl := findRef_none_lfind s hi.wf name hf
      rcases set_create s hi name v s' r hf h with ⟨_, hs⟩ | ⟨_, hregs, l1, l2, e, h1, h2, hn, hsc, _, _⟩
      · rw [hs]; exact hi
      · apply inv_of_insert s s' hi (set_wf s name v hi.wf s' r h) hregs l1 l2 e h1 h2
        have : keyOf e = (name, 0) := by simp [keyOf, hn, hsc]
        rw [this]
        exact (global_none_iff (abs s) name).1 (lfind_none_preds _ _ _ _ hl).2
  | some r0 =>
      unfold set at h
      rw [hf] at h
      simp only at h
      split at h
      · cases h
      · split at h
        · injection h with hs _; rw [← hs]
          exact inv_of_modify_same_keys s hi name r0 _ hf (fun _ => rfl) (fun _ => rfl)
        · injection h with hs _; rw [← hs]; exact hi

theorem export_inv (s : Symbols) (hi : Inv s) (name : String) (s' : Symbols) (r : Int)
    (h : exportSymbol s name = .ok s' r) : Inv s' := by
  unfold exportSymbol at h
  split at h
  · injection h with hs _; rw [← hs]; exact hi
  · rename_i r0 hr0
    split at h
    · cases h
    · split at h
      · injection h with hs _; rw [← hs]; exact hi
      · injection h with hs _; rw [← hs]
        exact inv_of_modify_same_keys s hi name r0 _ hr0 (fun _ => rfl) (fun _ => rfl)

theorem counterMod_pos : 0 < counterMod := by decide

theorem step_inv (s : Symbols) (o : Op) (hi : Inv s) : ∀ s', step s o = some s' → Inv s' := by
  intro s' hs
  cases o with
  | append n a =>
      simp only [step] at hs
      split at hs
      · rename_i s1 r1 hh; injection hs with hs; rw [← hs]; exact append_inv s hi n a s1 r1 hh
      · cases hs
  | set n v =>
      simp only [step] at hs
      split at hs
      · rename_i s1 r1 hh; injection hs with hs; rw [← hs]; exact set_inv s hi n v s1 r1 hh
      · cases hs
  | «export» n =>
      simp only [step] at hs
      split at hs
      · rename_i s1 r1 hh; injection hs with hs; rw [← hs]; exact export_inv s hi n s1 r1 hh
      · cases hs
  | scopeStart =>
      simp only [step, scopeStart] at hs
      injection hs with hs; rw [← hs]
      split
      · exact hi
      · exact ⟨hi.wf, hi.keys, Nat.mod_lt _ counterMod_pos⟩
  | scopeEnd => simp only [step] at hs; injection hs with hs; rw [← hs]; exact ⟨hi.wf, hi.keys, hi.counter⟩
  | scopeReset => simp only [step] at hs; injection hs with hs; rw [← hs]; exact ⟨hi.wf, hi.keys, counterMod_pos⟩
  | lock => simp only [step] at hs; injection hs with hs; rw [← hs]; exact ⟨hi.wf, hi.keys, hi.counter⟩

theorem run_inv : ∀ (ops : List Op) (s : Symbols), Inv s → ∀ s', run s ops = some s' → Inv s'
  | [], s, h, s', hr => by simp [run] at hr; rw [← hr]; exact h
  | o :: os, s, h, s', hr => by
      simp only [run] at hr
      split at hr
      · rename_i s1 hs1; exact run_inv os s1 (step_inv s o h s1 hs1) s' hr
      · cases hr

theorem inj_of_nodup_map {α β} (k : α → β) :
    ∀ (l : List α), (l.map k).Nodup → ∀ a ∈ l, ∀ b ∈ l, k a = k b → a = b
  | [], _, a, ha, _, _, _ => by simp at ha
  | x :: xs, h, a, ha, b, hb, hk => by
      simp only [List.map_cons, List.nodup_cons, List.mem_map, not_exists, not_and] at h
      simp only [List.mem_cons] at ha hb
      rcases ha with rfl | ha <;> rcases hb with rfl | hb
      · rfl
      · exact absurd hk.symm (h.1 b hb)
      · exact absurd hk (h.1 a ha)
      · exact inj_of_nodup_map k xs h.2 a ha b hb hk

end NakenVerif.Symbols
