/-
  Scope bookkeeping of a run: `in_scope` / `current_scope` evolve independently of the table.
-/
import NakenVerif.Symbols.ProofsFind

namespace NakenVerif.Symbols

/-- the scope registers -/
def regs (s : Symbols) : Bool × Nat := (s.inScope, s.currentScope)

theorem modifyEntry_regs (s : Symbols) (r : Ref) (f : Entry → Entry) : regs (modifyEntry s r f) = regs s := rfl

theorem appendNew_regs (s : Symbols) (n : String) (a : Nat) : ∀ s' r, appendNew s n a = .ok s' r → regs s' = regs s := by
  intro s' r h
  unfold appendNew at h
  by_cases h1 : tokenLen n > tokenLenMax
  · simp [h1] at h; rw [← h.1]
  · by_cases h2 : tokenLen n + hdr < heapSize
    · simp only [h1, if_false, h2, not_true_eq_false] at h
      injection h with hs _; rw [← hs]; rfl
    · simp [h1, h2] at h

theorem append_regs (s : Symbols) (n : String) (a : Nat) : ∀ s' r, append s n a = .ok s' r → regs s' = regs s := by
  intro s' r h
  unfold append at h
  split at h
  · rw [appendLocked_state s n a s' r h]
  · split at h
    · split at h
      · cases h
      · split at h
        · injection h with h _; rw [← h]; rfl
        · split at h
          · injection h with h _; rw [← h]
          · exact appendNew_regs s n a s' r h
    · exact appendNew_regs s n a s' r h

theorem set_regs (s : Symbols) (n : String) (a : Nat) : ∀ s' r, set s n a = .ok s' r → regs s' = regs s := by
  intro s' r h
  unfold set at h
  split at h
  · split at h
    · cases h
    · rename_i s1 r1 happ
      have h1 := append_regs s n a s1 r1 happ
      split at h
      · injection h with h _; rw [← h]; exact h1
      · split at h
        · injection h with h _; rw [← h]; exact h1
        · injection h with h _; rw [← h]; exact h1
  · split at h
    · cases h
    · split at h
      · injection h with h _; rw [← h]; rfl
      · injection h with h _; rw [← h]

theorem export_regs (s : Symbols) (n : String) : ∀ s' r, exportSymbol s n = .ok s' r → regs s' = regs s := by
  intro s' r h
  unfold exportSymbol at h
  split at h
  · injection h with h _; rw [← h]
  · split at h
    · cases h
    · split at h
      · injection h with h _; rw [← h]
      · injection h with h _; rw [← h]; rfl

/-- effect of one operation on the scope registers alone -/
def regStep (q : Bool × Nat) : Op → Bool × Nat
  | .scopeStart => if q.1 then q else (true, (q.2 + 1) % counterMod)
  | .scopeEnd => (false, q.2)
  | .scopeReset => (q.1, 0)
  | _ => q

theorem step_regs (s : Symbols) (o : Op) : ∀ s', step s o = some s' → regs s' = regStep (regs s) o := by
  intro s' h
  cases o with
  | append n a =>
      simp only [step] at h
      split at h
      · rename_i s1 r1 hh; injection h with h; rw [← h]; exact append_regs s n a s1 r1 hh
      · cases h
  | set n v =>
      simp only [step] at h
      split at h
      · rename_i s1 r1 hh; injection h with h; rw [← h]; exact set_regs s n v s1 r1 hh
      · cases h
  | «export» n =>
      simp only [step] at h
      split at h
      · rename_i s1 r1 hh; injection h with h; rw [← h]; exact export_regs s n s1 r1 hh
      · cases h
  | scopeStart =>
      simp only [step, scopeStart] at h
      injection h with h; rw [← h]
      by_cases hi : s.inScope <;> simp [regs, regStep, hi]
  | scopeEnd => simp only [step] at h; injection h with h; rw [← h]; rfl
  | scopeReset => simp only [step] at h; injection h with h; rw [← h]; rfl
  | lock => simp only [step] at h; injection h with h; rw [← h]; rfl

theorem run_regs : ∀ (ops : List Op) (s t : Symbols) (s' t' : Symbols),
    regs s = regs t → run s ops = some s' → run t ops = some t' → regs s' = regs t'
  | [], s, t, s', t', h, hs, ht => by
      simp [run] at hs ht; rw [← hs, ← ht]; exact h
  | o :: os, s, t, s', t', h, hs, ht => by
      simp only [run] at hs ht
      split at hs
      · rename_i s1 hs1
        split at ht
        · rename_i t1 ht1
          have := step_regs s o s1 hs1
          have h2 := step_regs t o t1 ht1
          exact run_regs os s1 t1 s' t' (by rw [this, h2, h]) hs ht
        · cases ht
      · cases hs

end NakenVerif.Symbols
