/-
  Lemmas about the pool layer of `Symbols.Impl`: well-formedness of the pool chain and its
  preservation, walking = list traversal, the iterator.
-/
import NakenVerif.Symbols.Impl
import NakenVerif.Symbols.Spec

namespace NakenVerif.Symbols

open NakenVerif.Generated

theorem hdr_pos : 0 < hdr := by decide
theorem stride_pos (e : Entry) : 0 < stride e := by
  have := hdr_pos; unfold stride; omega

/-- byte length of a run of entries -/
def sumStride : List Entry → Nat
  | [] => 0
  | e :: es => stride e + sumStride es

theorem sumStride_append (a b : List Entry) : sumStride (a ++ b) = sumStride a + sumStride b := by
  induction a with
  | nil => simp [sumStride]
  | cons e es ih => simp [sumStride, ih]; omega

/-- a pool whose `ptr` is exactly the end of its last entry and lies inside the buffer -/
structure PoolWF (p : Pool) : Prop where
  ptr_eq : p.ptr = sumStride p.cells
  in_buf : p.ptr < heapSize

def WF (s : Symbols) : Prop := ∀ p ∈ s.pools, PoolWF p

/-! ### walking a pool = traversing its cells -/

theorem scanCells_spec (pred : Entry → Bool) :
    ∀ (es : List Entry) (off : Nat),
      (scanCells (off + sumStride es) pred es off).bind (fun j => es[j]?) = es.find? pred
  | [], off => by simp [scanCells]
  | e :: es, off => by
      have hp := stride_pos e
      have hlt : off < off + sumStride (e :: es) := by simp [sumStride]; omega
      simp only [scanCells, hlt, if_true]
      by_cases h : pred e
      · simp [h]
      · have ih := scanCells_spec pred es (off + stride e)
        have e1 : off + sumStride (e :: es) = off + stride e + sumStride es := by simp [sumStride]; omega
        rw [e1]
        simp only [h, List.find?_cons]
        rw [← ih]
        cases scanCells (off + stride e + sumStride es) pred es (off + stride e) <;> simp

theorem scanCells_none (pred : Entry → Bool) :
    ∀ (es : List Entry) (off : Nat),
      scanCells (off + sumStride es) pred es off = none ↔ es.find? pred = none
  | [], off => by simp [scanCells]
  | e :: es, off => by
      have hp := stride_pos e
      have hlt : off < off + sumStride (e :: es) := by simp [sumStride]; omega
      have e1 : off + sumStride (e :: es) = off + stride e + sumStride es := by simp [sumStride]; omega
      simp only [scanCells, hlt, if_true]
      by_cases h : pred e
      · simp [h]
      · have ih := scanCells_none pred es (off + stride e)
        rw [e1]
        simp only [h, List.find?_cons, Bool.false_eq_true, if_false, Option.map_eq_none_iff]
        exact ih

/-- what a pool walk finds, as an entry -/
theorem scanPool_find (pred : Entry → Bool) (p : Pool) (h : PoolWF p) :
    (scanCells p.ptr pred p.cells 0).bind (fun j => p.cells[j]?) = p.cells.find? pred := by
  have := scanCells_spec pred p.cells 0
  rw [h.ptr_eq]; simpa using this

theorem scanPool_none (pred : Entry → Bool) (p : Pool) (h : PoolWF p) :
    scanCells p.ptr pred p.cells 0 = none ↔ p.cells.find? pred = none := by
  have := scanCells_none pred p.cells 0
  rw [h.ptr_eq]; simpa using this

def getRef (pools : List Pool) (r : Ref) : Option Entry :=
  match pools[r.1]? with
  | some p => p.cells[r.2]?
  | none => none

theorem getEntry_eq (s : Symbols) (r : Ref) : getEntry s r = getRef s.pools r := rfl

/-- walking the chain finds the first match of the concatenation of all pools -/
theorem scanPools_find (pred : Entry → Bool) :
    ∀ (ps : List Pool), (∀ p ∈ ps, PoolWF p) →
      (scanPools pred ps).bind (getRef ps) = (ps.flatMap (·.cells)).find? pred
  | [], _ => by simp [scanPools]
  | p :: ps, h => by
      have hp : PoolWF p := h p (by simp)
      have hps : ∀ q ∈ ps, PoolWF q := fun q hq => h q (by simp [hq])
      have ih := scanPools_find pred ps hps
      simp only [scanPools, List.flatMap_cons, List.find?_append]
      cases hc : scanCells p.ptr pred p.cells 0 with
      | some j =>
          have := scanPool_find pred p hp
          rw [hc] at this
          simp only [Option.bind_some] at this
          simp only [Option.bind_some, getRef, List.getElem?_cons_zero]
          rw [this]
          cases hf : p.cells.find? pred with
          | some e => simp
          | none =>
              have := (scanPool_none pred p hp).2 hf
              rw [hc] at this; cases this
      | none =>
          have hn := (scanPool_none pred p hp).1 hc
          rw [hn]
          simp only [Option.none_or]
          rw [← ih]
          cases scanPools pred ps with
          | none => simp
          | some r => simp [getRef]

/-! ### count -/

theorem countCells_spec (pred : Entry → Bool) :
    ∀ (es : List Entry) (off : Nat),
      countCells (off + sumStride es) pred es off = es.countP pred
  | [], off => by simp [countCells]
  | e :: es, off => by
      have hp := stride_pos e
      have hlt : off < off + sumStride (e :: es) := by simp [sumStride]; omega
      have e1 : off + sumStride (e :: es) = off + stride e + sumStride es := by simp [sumStride]; omega
      simp only [countCells, hlt, if_true]
      rw [e1, countCells_spec pred es (off + stride e), List.countP_cons]
      by_cases h : pred e <;> simp [h] <;> omega

theorem countPools_spec (pred : Entry → Bool) :
    ∀ (ps : List Pool), (∀ p ∈ ps, PoolWF p) →
      countPools pred ps = (ps.flatMap (·.cells)).countP pred
  | [], _ => by simp [countPools]
  | p :: ps, h => by
      have hp : PoolWF p := h p (by simp)
      have hps : ∀ q ∈ ps, PoolWF q := fun q hq => h q (by simp [hq])
      have := countCells_spec pred p.cells 0
      simp only [countPools, List.flatMap_cons, List.countP_append, countPools_spec pred ps hps]
      rw [hp.ptr_eq]; simp at this; rw [this]

/-! ### the iterator -/

theorem entryAt_boundary :
    ∀ (pre : List Entry) (e : Entry) (post : List Entry),
      entryAt (pre ++ e :: post) (sumStride pre) = some e
  | [], e, post => by simp [entryAt, sumStride]
  | p :: pre, e, post => by
      have hp := stride_pos p
      have h0 : ¬ (stride p + sumStride pre = 0) := by omega
      have h1 : ¬ (stride p + sumStride pre < stride p) := by omega
      simp only [List.cons_append, entryAt, sumStride, h0, h1, if_false]
      have : stride p + sumStride pre - stride p = sumStride pre := by omega
      rw [this]
      exact entryAt_boundary pre e post

/-- iterator positioned at a cell boundary of pool `i`: the call returns that cell and moves to the
    next boundary -/
theorem iterLoop_item (pools : List Pool) (fuel : Nat) (it : Iter) (i : Nat) (p : Pool)
    (pre post : List Entry) (e : Entry)
    (hpool : it.pool = some i) (hp : pools[i]? = some p) (hwf : PoolWF p)
    (hcells : p.cells = pre ++ e :: post) (hoff : it.ptr = sumStride pre) :
    iterLoop pools (fuel + 1) it =
      .item { it with ptr := sumStride (pre ++ [e]), count := it.count + 1 } e := by
  have hlt : it.ptr < p.ptr := by
    rw [hwf.ptr_eq, hcells, sumStride_append, hoff]
    have := stride_pos e
    simp [sumStride]; omega
  have hat : entryAt p.cells it.ptr = some e := by
    rw [hcells, hoff]; exact entryAt_boundary pre e post
  simp only [iterLoop, hpool, hp, hlt, if_true, hat]
  simp [sumStride_append, sumStride, hoff]

/-- the iterator stands in pool `i` behind the cells `pre`; `R` is what it still has to deliver -/
def At (pools : List Pool) (i : Nat) (it : Iter) (R : List Entry) : Prop :=
  ∃ p pre post, it.pool = some i ∧ pools[i]? = some p ∧ p.cells = pre ++ post ∧
    it.ptr = sumStride pre ∧ R = post ++ (pools.drop (i + 1)).flatMap (·.cells)

/-- one run of the `while (iter->memory_pool != nullptr)` loop from a cell boundary -/
theorem iterLoop_spec (pools : List Pool) (hwf : ∀ p ∈ pools, PoolWF p) :
    ∀ (fuel : Nat) (i : Nat) (it : Iter) (R : List Entry),
      At pools i it R → fuel + i ≥ pools.length + 1 →
      match R with
      | [] => ∃ it', iterLoop pools fuel it = .done it' ∧ it'.count = it.count
      | e :: R' => ∃ it' i', iterLoop pools fuel it = .item it' e ∧ At pools i' it' R' ∧
                    it'.count = it.count + 1 ∧ it'.endFlag = it.endFlag
  | 0, i, it, R, ⟨p, pre, post, _, hp, _, _, _⟩, hf => by
      have : i < pools.length := by
        have := List.getElem?_eq_some_iff.1 hp; exact this.1
      omega
  | f + 1, i, it, R, ⟨p, pre, post, hpool, hp, hcells, hoff, hR⟩, hf => by
      have hil : i < pools.length := (List.getElem?_eq_some_iff.1 hp).1
      have hpw : PoolWF p := hwf p (List.mem_of_getElem? hp)
      cases post with
      | cons e post' =>
          subst hR
          refine ⟨_, i, iterLoop_item pools f it i p pre post' e hpool hp hpw hcells hoff, ?_, rfl, rfl⟩
          exact ⟨p, pre ++ [e], post', hpool, hp, by simp [hcells], rfl, by simp⟩
      | nil =>
          have hnlt : ¬ (it.ptr < p.ptr) := by
            rw [hpw.ptr_eq, hoff, hcells]; simp
          by_cases hlast : i + 1 < pools.length
          · have hq : pools[i + 1]? = some pools[i + 1] := by simp [hlast]
            have hdrop : pools.drop (i + 1) = pools[i + 1] :: pools.drop (i + 2) :=
              List.drop_eq_getElem_cons hlast
            have hat : At pools (i + 1) { it with pool := some (i + 1), ptr := 0 } R :=
              ⟨pools[i + 1], [], pools[i + 1].cells, rfl, hq, by simp, by simp [sumStride], by
                rw [hR, hdrop, List.nil_append, List.flatMap_cons]⟩
            have ih := iterLoop_spec pools hwf f (i + 1) { it with pool := some (i + 1), ptr := 0 } R hat (by omega)
            simp only [iterLoop, hpool, hp, hnlt, if_false, hlast, if_true]
            exact ih
          · have hd : pools.drop (i + 1) = [] := List.drop_eq_nil_of_le (by omega)
            have hRn : R = [] := by rw [hR, hd]; simp
            subst hRn
            obtain ⟨f', rfl⟩ : ∃ f', f = f' + 1 := ⟨f - 1, by omega⟩
            simp only [iterLoop, hpool, hp, hnlt, if_false, hlast]
            exact ⟨_, rfl, rfl⟩

/-- position of an iterator between two calls: fresh, or at a cell boundary -/
def Pos (s : Symbols) (it : Iter) (R : List Entry) : Prop :=
  (∃ i, At s.pools i it R) ∨ (it.pool = none ∧ R = abs s)

/-- one call of Symbols::iterate -/
theorem iterate_spec (s : Symbols) (hwf : WF s) (it : Iter) (R : List Entry)
    (hend : it.endFlag = false) (h : Pos s it R) :
    match R with
    | [] => ∃ it', iterate s it = .done it' ∧ it'.count = it.count
    | e :: R' => ∃ it', iterate s it = .item it' e ∧ Pos s it' R' ∧
                  it'.count = it.count + 1 ∧ it'.endFlag = false := by
  rcases h with ⟨i, hat⟩ | ⟨hnone, hR⟩
  · have hpool : it.pool = some i := by obtain ⟨_, _, _, h, _⟩ := hat; exact h
    have := iterLoop_spec s.pools hwf (s.pools.length + 1) i it R hat (by omega)
    cases R with
    | nil =>
        obtain ⟨it', h1, h2⟩ := this
        exact ⟨it', by simp [iterate, hend, hpool, h1], h2⟩
    | cons e R' =>
        obtain ⟨it', i', h1, h2, h3, h4⟩ := this
        exact ⟨it', by simp [iterate, hend, hpool, h1], Or.inl ⟨i', h2⟩, h3, by rw [h4, hend]⟩
  · obtain hps | ⟨p, ps, hps⟩ : s.pools = [] ∨ ∃ p ps, s.pools = p :: ps := by
      cases s.pools <;> simp
    · have : R = [] := by rw [hR]; simp [abs, hps]
      subst this
      exact ⟨{ it with pool := none, ptr := 0, endFlag := true }, by
        simp [iterate, hend, hnone, hps, iterLoop], rfl⟩
    · have hat : At s.pools 0 { it with pool := some 0, ptr := 0 } R :=
        ⟨p, [], p.cells, rfl, by simp [hps], by simp, by simp [sumStride], by
          rw [hR]; simp [abs, hps]⟩
      have := iterLoop_spec s.pools hwf (s.pools.length + 1) 0 _ R hat (by omega)
      have hlen : s.pools.length > 0 := by simp [hps]
      cases R with
      | nil =>
          obtain ⟨it', h1, h2⟩ := this
          refine ⟨it', ?_, h2⟩
          simp only [iterate, hend, hnone]
          simpa [hlen, hend] using h1
      | cons e R' =>
          obtain ⟨it', i', h1, h2, h3, h4⟩ := this
          refine ⟨it', ?_, Or.inl ⟨i', h2⟩, h3, by rw [h4]; exact hend⟩
          simp only [iterate, hend, hnone]
          simpa [hlen, hend] using h1

theorem iterateAllFrom_spec (s : Symbols) (hwf : WF s) :
    ∀ (R : List Entry) (fuel : Nat) (it : Iter) (acc : List Entry),
      it.endFlag = false → Pos s it R → fuel ≥ R.length + 1 →
      iterateAllFrom s fuel it acc = some (acc.reverse ++ R, it.count + R.length)
  | [], fuel, it, acc, hend, hpos, hf => by
      obtain ⟨f, rfl⟩ : ∃ f, fuel = f + 1 := ⟨fuel - 1, by simp at hf; omega⟩
      obtain ⟨it', h1, h2⟩ := iterate_spec s hwf it [] hend hpos
      simp [iterateAllFrom, h1, h2]
  | e :: R', fuel, it, acc, hend, hpos, hf => by
      obtain ⟨f, rfl⟩ : ∃ f, fuel = f + 1 := ⟨fuel - 1, by simp at hf; omega⟩
      obtain ⟨it', h1, h2, h3, h4⟩ := iterate_spec s hwf it (e :: R') hend hpos
      have ih := iterateAllFrom_spec s hwf R' f it' (e :: acc) h4 h2 (by simp at hf; omega)
      simp only [iterateAllFrom, h1, ih, h3]
      simp; omega

/-! ### well-formedness is preserved -/

theorem pushCell_wf (e : Entry) (tl : Nat) (hs : stride e = tl + hdr) (hfit : tl + hdr < heapSize) :
    ∀ (ps : List Pool), (∀ p ∈ ps, PoolWF p) → ∀ q ∈ pushCell e tl ps (roomIdx tl ps), PoolWF q
  | [], _, q, hq => by
      simp [pushCell, roomIdx] at hq
      subst hq
      exact ⟨by simp [sumStride, hs], by simpa using hfit⟩
  | p :: ps, h, q, hq => by
      have hp : PoolWF p := h p (by simp)
      have hps : ∀ r ∈ ps, PoolWF r := fun r hr => h r (by simp [hr])
      by_cases hroom : p.ptr + tl + hdr < heapSize
      · simp only [roomIdx, hroom, if_true, pushCell, List.mem_cons] at hq
        rcases hq with rfl | hq
        · exact ⟨by simp [sumStride_append, sumStride, hp.ptr_eq, hs]; omega, by simpa using hroom⟩
        · exact hps q hq
      · simp only [roomIdx, hroom, if_false, pushCell, List.mem_cons] at hq
        rcases hq with rfl | hq
        · exact hp
        · exact pushCell_wf e tl hs hfit ps hps q hq

/-- where the new entry lands in pool order -/
theorem pushCell_abs (e : Entry) (tl : Nat) :
    ∀ (ps : List Pool) (k : Nat), ∃ l1 l2, ps.flatMap (·.cells) = l1 ++ l2 ∧
      (pushCell e tl ps k).flatMap (·.cells) = l1 ++ e :: l2
  | [], k => ⟨[], [], by simp, by simp [pushCell]⟩
  | p :: ps, 0 => ⟨p.cells, ps.flatMap (·.cells), by simp, by simp [pushCell]⟩
  | p :: ps, k + 1 => by
      obtain ⟨l1, l2, h1, h2⟩ := pushCell_abs e tl ps k
      exact ⟨p.cells ++ l1, l2, by simp [h1], by simp [pushCell, h2]⟩

theorem sumStride_modifyCell (f : Entry → Entry) (hf : ∀ e, stride (f e) = stride e) :
    ∀ (es : List Entry) (j : Nat), sumStride (modifyCell f es j) = sumStride es
  | [], _ => rfl
  | e :: es, 0 => by simp [modifyCell, sumStride, hf]
  | e :: es, j + 1 => by simp [modifyCell, sumStride, sumStride_modifyCell f hf es j]

theorem modifyPool_wf (f : Entry → Entry) (hf : ∀ e, stride (f e) = stride e) :
    ∀ (ps : List Pool) (i j : Nat), (∀ p ∈ ps, PoolWF p) → ∀ q ∈ modifyPool f ps i j, PoolWF q
  | [], _, _, _, q, hq => by simp [modifyPool] at hq
  | p :: ps, 0, j, h, q, hq => by
      simp only [modifyPool, List.mem_cons] at hq
      rcases hq with rfl | hq
      · have hp := h p (by simp)
        exact ⟨by simp [sumStride_modifyCell f hf, hp.ptr_eq], hp.in_buf⟩
      · exact h q (by simp [hq])
  | p :: ps, i + 1, j, h, q, hq => by
      simp only [modifyPool, List.mem_cons] at hq
      rcases hq with rfl | hq
      · exact h _ (by simp)
      · exact modifyPool_wf f hf ps i j (fun r hr => h r (by simp [hr])) q hq

theorem modifyEntry_wf (s : Symbols) (r : Ref) (f : Entry → Entry) (hf : ∀ e, stride (f e) = stride e)
    (h : WF s) : WF (modifyEntry s r f) :=
  modifyPool_wf f hf s.pools r.1 r.2 h

theorem tokenLenMax_lt : tokenLenMax < lenMod := by decide
theorem tokenLenMax_fits : tokenLenMax + hdr < heapSize := by decide

theorem appendNew_wf (s : Symbols) (name : String) (a : Nat) (h : WF s) :
    ∀ s' r, appendNew s name a = .ok s' r → WF s' := by
  intro s' r hr
  unfold appendNew at hr
  by_cases h1 : tokenLen name > tokenLenMax
  · simp [h1] at hr; rw [← hr.1]; exact h
  · have hle : tokenLen name ≤ tokenLenMax := by omega
    have hfit : tokenLen name + hdr < heapSize := by
      have := tokenLenMax_fits; omega
    simp only [h1, if_false, hfit, not_true_eq_false] at hr
    injection hr with hs _
    rw [← hs]
    have hmod : tokenLen name % lenMod = tokenLen name := Nat.mod_eq_of_lt (by have := tokenLenMax_lt; omega)
    exact pushCell_wf _ (tokenLen name) (by simp [stride, hmod]) hfit s.pools h

theorem appendLocked_state (s : Symbols) (name : String) (a : Nat) :
    ∀ s' r, appendLocked s name a = .ok s' r → s' = s := by
  intro s' r h
  unfold appendLocked at h
  split at h
  · split at h
    · cases h
    · split at h <;> (injection h with h _; exact h.symm)
  · injection h with h _; exact h.symm

theorem append_wf (s : Symbols) (name : String) (a : Nat) (h : WF s) :
    ∀ s' r, append s name a = .ok s' r → WF s' := by
  intro s' r hr
  unfold append at hr
  split at hr
  · rw [appendLocked_state s name a s' r hr]; exact h
  · split at hr
    · split at hr
      · cases hr
      · split at hr
        · injection hr with hs _; rw [← hs]
          exact modifyEntry_wf s _ _ (fun e => rfl) h
        · split at hr
          · injection hr with hs _; rw [← hs]; exact h
          · exact appendNew_wf s name a h s' r hr
    · exact appendNew_wf s name a h s' r hr

theorem set_wf (s : Symbols) (name : String) (a : Nat) (h : WF s) :
    ∀ s' r, set s name a = .ok s' r → WF s' := by
  intro s' r hr
  unfold set at hr
  split at hr
  · split at hr
    · cases hr
    · rename_i s1 r1 happ
      have h1 : WF s1 := append_wf s name a h s1 r1 happ
      split at hr
      · injection hr with hs _; rw [← hs]; exact h1
      · split at hr
        · injection hr with hs _; rw [← hs]; exact h1
        · injection hr with hs _; rw [← hs]
          exact modifyEntry_wf s1 _ _ (fun e => rfl) h1
  · split at hr
    · cases hr
    · split at hr
      · injection hr with hs _; rw [← hs]
        exact modifyEntry_wf s _ _ (fun e => rfl) h
      · injection hr with hs _; rw [← hs]; exact h

theorem exportSymbol_wf (s : Symbols) (name : String) (h : WF s) :
    ∀ s' r, exportSymbol s name = .ok s' r → WF s' := by
  intro s' r hr
  unfold exportSymbol at hr
  split at hr
  · injection hr with hs _; rw [← hs]; exact h
  · split at hr
    · cases hr
    · split at hr
      · injection hr with hs _; rw [← hs]; exact h
      · injection hr with hs _; rw [← hs]
        exact modifyEntry_wf s _ _ (fun e => rfl) h

theorem step_wf (s : Symbols) (o : Op) (h : WF s) : ∀ s', step s o = some s' → WF s' := by
  intro s' hs
  cases o with
  | append n a =>
      simp only [step] at hs
      split at hs
      · rename_i s1 r1 happ; injection hs with hs; rw [← hs]; exact append_wf s n a h s1 r1 happ
      · cases hs
  | set n v =>
      simp only [step] at hs
      split at hs
      · rename_i s1 r1 happ; injection hs with hs; rw [← hs]; exact set_wf s n v h s1 r1 happ
      · cases hs
  | «export» n =>
      simp only [step] at hs
      split at hs
      · rename_i s1 r1 happ; injection hs with hs; rw [← hs]; exact exportSymbol_wf s n h s1 r1 happ
      · cases hs
  | scopeStart =>
      simp only [step, scopeStart] at hs
      injection hs with hs; rw [← hs]
      split <;> exact h
  | scopeEnd => simp only [step] at hs; injection hs with hs; rw [← hs]; exact h
  | scopeReset => simp only [step] at hs; injection hs with hs; rw [← hs]; exact h
  | lock => simp only [step] at hs; injection hs with hs; rw [← hs]; exact h

theorem run_wf : ∀ (ops : List Op) (s : Symbols), WF s → ∀ s', run s ops = some s' → WF s'
  | [], s, h, s', hr => by simp [run] at hr; rw [← hr]; exact h
  | o :: os, s, h, s', hr => by
      simp only [run] at hr
      split at hr
      · rename_i s1 hs1; exact run_wf os s1 (step_wf s o h s1 hs1) s' hr
      · cases hr

theorem wf_empty : WF {} := by intro p hp; simp at hp

end NakenVerif.Symbols
