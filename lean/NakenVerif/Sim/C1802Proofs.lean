/-
  Safety of the 1802 step model: with `reg_p < 16` and `reg_x < 16` (kept by `reset`, `set_reg` and every instruction: RET / DIS /
  MARK / SEP / SEX assign nibbles) no `reg_r[]` access leaves the 16 registers, and every write has a 16-bit address.
-/
import NakenVerif.Sim.C1802Impl
import Std.Tactic.BVDecide

namespace NakenVerif.Sim.C1802
open NakenVerif.Sim NakenVerif.Generated

/-- the computation succeeds with a result satisfying `P` -/
def OkP {α : Type} (P : α → Prop) (x : Chk α) : Prop := ∃ a, x = .ok a ∧ P a

theorem OkP.pure {α : Type} {P : α → Prop} {a : α} (h : P a) : OkP P (pure a : Chk α) := ⟨a, rfl, h⟩
theorem OkP.ok {α : Type} {P : α → Prop} {a : α} (h : P a) : OkP P (Chk.ok a) := ⟨a, rfl, h⟩

theorem OkP.bind {α β : Type} {P : α → Prop} {Q : β → Prop} {x : Chk α} {k : α → Chk β}
    (hx : OkP P x) (hk : ∀ a, P a → OkP Q (k a)) : OkP Q (x >>= k) := by
  obtain ⟨a, ha, hp⟩ := hx
  rw [ha]; exact hk a hp

theorem OkP.ite {β : Type} {Q : β → Prop} {c : Prop} [Decidable c] {a b : Chk β} (ha : c → OkP Q a) (hb : ¬ c → OkP Q b) :
    OkP Q (if c then a else b) := by
  by_cases hc : c
  · rw [if_pos hc]; exact ha hc
  · rw [if_neg hc]; exact hb hc

/-- the invariant on the threaded machine state: P and X select one of the 16 registers; every write so far is below 2^16 -/
structure Good (base : List (BitVec 32 × BitVec 8)) (c : Core) : Prop where
  p : c.s.p < 16
  x : c.s.x < 16
  w : WOK 0x10000 base c.m.writes

/-- an index expression that is inside `reg_r[16]`: the current X or P, or a value below 16 -/
def Idx (c : Core) (a : BitVec 8) : Prop := a = c.s.x ∨ a = c.s.p ∨ a < 16

variable {base : List (BitVec 32 × BitVec 8)}

theorem Idx.lt {c : Core} {a : BitVec 8} (hg : Good base c) (h : Idx c a) : (z8 a).toNat < 16 := by
  have : a < 16 := by
    rcases h with h | h | h
    · rw [h]; exact hg.x
    · rw [h]; exact hg.p
    · exact h
  exact toNat_lt_of_lt (z8 a) 16 (by unfold z8; bv_decide)

theorem reg_ok {c : Core} {a : BitVec 8} (hg : Good base c) (h : Idx c a) : OkP (fun _ => True) (reg c a) := by
  unfold reg; rw [arr_ok _ _ _ (h.lt hg)]; exact ⟨_, rfl, trivial⟩

theorem setR_ok {c : Core} {a : BitVec 8} (v : BitVec 16) (hg : Good base c) (h : Idx c a) : OkP (Good base) (setR c a v) := by
  unfold setR; rw [arrSet_ok _ _ _ _ (h.lt hg)]; exact ⟨_, rfl, ⟨hg.p, hg.x, hg.w⟩⟩

theorem incR_ok {c : Core} {a : BitVec 8} (hg : Good base c) (h : Idx c a) : OkP (Good base) (incR c a) := by
  unfold incR; exact (reg_ok hg h).bind fun v _ => setR_ok _ hg h

theorem decR_ok {c : Core} {a : BitVec 8} (hg : Good base c) (h : Idx c a) : OkP (Good base) (decR c a) := by
  unfold decR; exact (reg_ok hg h).bind fun v _ => setR_ok _ hg h

theorem readInd_ok {c : Core} {a : BitVec 8} (hg : Good base c) (h : Idx c a) : OkP (fun _ => True) (readInd c a) := by
  unfold readInd; exact (reg_ok hg h).bind fun v _ => OkP.pure trivial

theorem good_writeRam {c : Core} (a : BitVec 16) (b : W) (hg : Good base c) : Good base (writeRam c a b) := by
  refine ⟨hg.p, hg.x, ?_⟩
  intro w hw
  unfold writeRam at hw
  simp only [List.mem_append, List.mem_cons, List.not_mem_nil, or_false] at hw
  rcases hw with hw | hw
  · exact hg.w w hw
  · right; rw [hw]; show z16 a < 0x10000; unfold z16; bv_decide

theorem writeInd_ok {c : Core} {a : BitVec 8} (b : W) (hg : Good base c) (h : Idx c a) : OkP (Good base) (writeInd c a b) := by
  unfold writeInd; exact (reg_ok hg h).bind fun v _ => OkP.pure (good_writeRam v b hg)

theorem getPc_ok {c : Core} (hg : Good base c) : OkP (fun _ => True) (getPc c) := reg_ok hg (Or.inr (Or.inl rfl))
theorem setPc_ok {c : Core} (v : BitVec 16) (hg : Good base c) : OkP (Good base) (setPc c v) := setR_ok v hg (Or.inr (Or.inl rfl))

theorem branchIf_ok {c : Core} (cond : Bool) (a : BitVec 16) (hg : Good base c) : OkP (Good base) (branchIf c cond a) := by
  unfold branchIf
  split
  · exact setPc_ok _ hg
  · exact (getPc_ok hg).bind fun v _ => setPc_ok _ hg

theorem skipIf_ok {c : Core} (cond : Bool) (hg : Good base c) : OkP (Good base) (skipIf c cond) := by
  unfold skipIf; exact (getPc_ok hg).bind fun v _ => setPc_ok _ hg

theorem immediate_ok {c : Core} (hg : Good base c) : OkP (fun r => Good base r.1) (immediate c) := by
  unfold immediate
  exact (getPc_ok hg).bind fun _ _ => (setPc_ok _ hg).bind fun c' hc' => (getPc_ok hc').bind fun v _ => OkP.pure hc'

theorem good_setD {c : Core} (v : W) (hg : Good base c) : Good base (setD c v) := ⟨hg.p, hg.x, hg.w⟩
theorem good_setDf {c : Core} (v : W) (hg : Good base c) : Good base (setDf c v) := ⟨hg.p, hg.x, hg.w⟩
theorem good_arith {c : Core} (t a b : W) (hg : Good base c) : Good base (arith c t a b) := ⟨hg.p, hg.x, hg.w⟩
theorem good_decimal {c : Core} (t a : W) (d : Bool) (hg : Good base c) : Good base (decimal c t a d) := by
  unfold decimal
  dsimp only
  split <;> exact ⟨hg.p, hg.x, hg.w⟩

/-- result of a `switch` group: the state is `Good` whether it fell out of the switch or returned -1 -/
@[reducible] def ROk (base : List (BitVec 32 × BitVec 8)) (r : R) : Prop :=
  match r with
  | .ok c => Good base c
  | .illegal c => Good base c

/-- `OkP.bind` with the write-log base shared between the two predicates (so that it is determined by the goal) -/
theorem bindG {x : Chk Core} {k : Core → Chk R} (hx : OkP (Good base) x)
    (hk : ∀ a, Good base a → OkP (ROk base) (k a)) : OkP (ROk base) (x >>= k) := OkP.bind hx hk

attribute [local irreducible] Chk.bind reg setR incR decR readInd writeInd getPc setPc branchIf skipIf immediate writeRam
  setD setDf arith decimal readRam

/-- an index side goal -/
macro "idx1802" : tactic =>
  `(tactic| first
    | exact Or.inl rfl
    | exact Or.inr (Or.inl rfl)
    | exact Or.inr (Or.inr (by first | assumption | (unfold t8; bv_decide) | bv_decide | decide)))

/-- `Good` of a state that differs from a `Good` one in registers other than the selected ones, or in X / P by a nibble -/
macro "good1802" : tactic =>
  `(tactic| first
    | assumption
    | exact good_setD _ (by assumption)
    | exact good_arith _ _ _ (by assumption)
    | exact good_decimal _ _ _ (by assumption)
    | exact good_setD _ (good_setD _ (by assumption))
    | (refine ⟨?_, ?_, ?_⟩ <;> (try dsimp only) <;> first
        | exact Good.p (by assumption)
        | exact Good.x (by assumption)
        | exact Good.w (by assumption)
        | assumption
        | (unfold t8; bv_decide)))

theorem bindI {x : Chk (Core × W)} {k : Core × W → Chk R} (hx : OkP (fun r => Good base r.1) x)
    (hk : ∀ a, Good base a.1 → OkP (ROk base) (k a)) : OkP (ROk base) (x >>= k) := OkP.bind hx hk

/-- one step through a `do` block -/
macro "s1802" : tactic =>
  `(tactic| first
    | exact OkP.pure (by good1802)
    | exact OkP.ok (by good1802)
    | (refine OkP.ite (fun _ => ?_) (fun _ => ?_))
    | (refine OkP.bind (getPc_ok (by good1802)) (fun _ _ => ?_))
    | (refine bindG (setPc_ok _ (by good1802)) (fun _ _ => ?_))
    | (refine bindG (branchIf_ok _ _ (by good1802)) (fun _ _ => ?_))
    | (refine bindG (skipIf_ok _ (by good1802)) (fun _ _ => ?_))
    | (refine bindI (immediate_ok (by good1802)) (fun _ _ => ?_))
    | (refine OkP.bind (reg_ok (by good1802) (by idx1802)) (fun _ _ => ?_))
    | (refine bindG (setR_ok _ (by good1802) (by idx1802)) (fun _ _ => ?_))
    | (refine bindG (incR_ok (by good1802) (by idx1802)) (fun _ _ => ?_))
    | (refine bindG (decR_ok (by good1802) (by idx1802)) (fun _ _ => ?_))
    | (refine OkP.bind (readInd_ok (by good1802) (by idx1802)) (fun _ _ => ?_))
    | (refine bindG (writeInd_ok _ (by good1802) (by idx1802)) (fun _ _ => ?_))
    | (dsimp only))

theorem shortBranch_ok {c : Core} (hg : Good base c) : OkP (ROk base) (shortBranch c) := by
  have hp := hg.p; have hx := hg.x
  unfold shortBranch
  repeat' s1802

theorem longBranch_ok {c : Core} (hg : Good base c) : OkP (ROk base) (longBranch c) := by
  have hp := hg.p; have hx := hg.x
  unfold longBranch
  repeat' s1802

theorem groupF_ok {c : Core} (hg : Good base c) : OkP (ROk base) (groupF c) := by
  have hp := hg.p; have hx := hg.x
  unfold groupF
  repeat' s1802

theorem group7_ok {c : Core} (hg : Good base c) : OkP (ROk base) (group7 c) := by
  have hp := hg.p; have hx := hg.x
  unfold group7
  repeat' s1802

theorem extended_ok {c : Core} (hg : Good base c) : OkP (ROk base) (extended c) := by
  have hp := hg.p; have hx := hg.x
  unfold extended
  repeat' s1802

theorem dispatch_ok {c : Core} (hg : Good base c) (hn : c.s.n < 16) : OkP (ROk base) (dispatch c) := by
  have hp := hg.p; have hx := hg.x
  unfold dispatch
  repeat' (refine OkP.ite (fun _ => ?_) (fun _ => ?_))
  all_goals first
    | exact shortBranch_ok hg
    | exact longBranch_ok hg
    | exact group7_ok hg
    | exact groupF_ok hg
    | exact extended_ok hg
    | (repeat' s1802)

/-- `operand_exe` succeeded: selected registers still in range, writes below 2^16, return value 0 or -1 -/
def ExeOk (base : List (BitVec 32 × BitVec 8)) (e : Exe) : Prop := Good base e.core ∧ (e.ret = 0 ∨ e.ret = -1)

theorem cycles_ok {c : Core} (opcode : BitVec 8) (hg : Good base c) : OkP (fun _ => True) (cycles c opcode) := by
  unfold cycles
  refine OkP.ite (fun _ => ?_) (fun _ => ?_)
  · exact OkP.bind (getPc_ok hg) (fun _ _ => OkP.pure trivial)
  · exact OkP.pure trivial

theorem finish_ok {c : Core} (hg : Good base c) (hn : c.s.n < 16) : OkP (ExeOk base) (finish c) := by
  unfold finish
  refine OkP.bind (dispatch_ok hg hn) (fun r hr => ?_)
  cases r with
  | illegal c' => exact OkP.pure ⟨hr, Or.inr rfl⟩
  | ok c' =>
    have hc' : Good base c' := hr
    refine OkP.bind (getPc_ok hc') (fun _ _ => ?_)
    refine OkP.bind (setPc_ok _ hc') (fun c'' hc'' => ?_)
    exact OkP.pure ⟨hc'', Or.inl rfl⟩

theorem operandExe_ok {c : Core} (opcode : BitVec 8) (hg : Good base c) : OkP (ExeOk base) (operandExe c opcode) := by
  have hn : opcode &&& 0xF < 16 := by bv_decide
  have hg1 : Good base { c with s := { c.s with n := opcode &&& 0xF, i := (opcode &&& 0xF0) >>> 4 } } := ⟨hg.p, hg.x, hg.w⟩
  unfold operandExe
  dsimp only
  refine OkP.ite (fun _ => ?_) (fun _ => ?_)
  · refine OkP.bind (getPc_ok hg1) (fun _ _ => ?_)
    refine OkP.bind (setPc_ok _ hg1) (fun c' hc' => ?_)
    exact OkP.pure ⟨hc', Or.inl rfl⟩
  · refine OkP.bind (cycles_ok opcode hg1) (fun cyc _ => ?_)
    exact finish_ok ⟨hg.p, hg.x, hg.w⟩ hn

structure Inv (s : State) : Prop where
  p : s.p < 16
  x : s.x < 16

/-- **Safety of one step.**  From every state with `reg_p < 16` and `reg_x < 16`, over every memory content and every value of the
    other registers, flags and `break_io`: `step` succeeds (no `reg_r[]` index outside 0..15), returns 0 or -1, keeps the two ranges,
    and every byte it writes has an address below 2^16. -/
theorem step_ok (mem : Mem) (s : State) (h : Inv s) :
    ∃ o m' b, step mem s = .ok (o, m', b) ∧ Inv o.state ∧ (o.ret = 0 ∨ o.ret = -1) ∧ ∀ w ∈ o.writes, w.1 < 0x10000 := by
  unfold step
  split
  · exact ⟨_, _, _, rfl, h, Or.inl rfl, fun w hw => absurd hw (by simp)⟩
  · have hg : Good [] { s := s, m := { mem := mem, writes := [], brk := none } } := ⟨h.p, h.x, WOK.refl _ _⟩
    obtain ⟨pc, hpc, _⟩ := getPc_ok hg
    obtain ⟨e, he, hge, hret⟩ := operandExe_ok (mem (z16 pc)) hg
    dsimp only
    rw [hpc]
    simp only [Chk.bind_ok]
    rw [he]
    simp only [Chk.bind_ok, Chk.pure_eq]
    refine ⟨{ ret := e.ret, state := e.core.s, writes := e.core.m.writes }, e.core.m.mem, e.core.m.brk, rfl,
      ⟨hge.p, hge.x⟩, hret, ?_⟩
    intro w hin
    rcases hge.w w hin with hb | hlt
    · exact absurd hb (by simp)
    · exact hlt

theorem step_stopped (mem : Mem) (s : State) (h : s.stopRunning = true) :
    step mem s = .ok ({ ret := 0, state := s, writes := [] }, mem, none) := by
  unfold step; rw [if_pos h]

theorem reset_inv (s : State) : Inv (reset s) := by
  constructor <;> (simp only [reset]; decide)

theorem setReg_inv (s : State) (name : String) (v : W) (h : Inv s) : Inv (setReg s name v) := by
  have := h.p; have := h.x
  unfold setReg
  repeat' split
  all_goals first | exact h | (constructor <;> ((try dsimp only); first | assumption | (unfold t8; bv_decide)))

def runN (m : Mem) : Nat → State → Chk (State × Mem)
  | 0, s => .ok (s, m)
  | n + 1, s => do
    let (o, m', _) ← step m s
    runN m' n o.state

/-- **No run of any length faults.** -/
theorem runN_ok (n : Nat) (m : Mem) (s : State) (h : Inv s) : ∃ r, runN m n s = .ok r ∧ Inv r.1 := by
  induction n generalizing s m with
  | zero => exact ⟨_, rfl, h⟩
  | succ n ih =>
    obtain ⟨o, m', b, ho, hi, _⟩ := step_ok m s h
    unfold runN
    rw [ho]
    simp only [Chk.bind_ok]
    exact ih m' o.state hi

end NakenVerif.Sim.C1802
