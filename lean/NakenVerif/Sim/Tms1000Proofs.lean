/-
  Safety of the tms1000 step model: from every state inside the invariant the simulator itself
  maintains, one step never indexes outside `ram[64]` or the three tables, and re-establishes the
  invariant.
-/
import NakenVerif.Sim.Tms1000Impl
import Std.Tactic.BVDecide

namespace NakenVerif.Sim.Tms1000
open NakenVerif.Sim NakenVerif.Generated

/-- The ranges `reset`, `set_reg`, `set_pc` and `execute` keep: PC 6 bits, page registers 4 bits, A/Y and every RAM
    cell one nibble, X two bits. -/
structure Inv (s : State) : Prop where
  pc : s.pc < 64
  pa : s.pa < 16
  pb : s.pb < 16
  sr : s.sr < 64
  cl : s.cl ≤ 1
  sFlag : s.sFlag ≤ 1
  a : s.a < 16
  x : s.x < 4
  y : s.y < 16
  ram : ∀ i (h : i < 64), s.ram[i] < 16

theorem xy_lt (x y : BitVec 8) (hx : x < 4) (hy : y < 16) : (((z x <<< 4) ||| z y) : BitVec 32).toNat < 64 := by
  have : ((z x <<< 4) ||| z y : BitVec 32) < 64 := by unfold z; bv_decide
  exact toNat_lt_of_lt _ _ this

theorem revConst_table : ∀ i : Fin 16, (SimTables.tms1000ReverseConstant[i.val]?).any (· < 16) = true := by decide
theorem revBit_table : ∀ i : Fin 4, (SimTables.tms1000ReverseBitAddress[i.val]?).any (· < 4) = true := by decide

theorem revConst_ok (op : BitVec 32) : ∃ v, revConst op = .ok v ∧ v < 16 := by
  have h : (op &&& 0xf).toNat < 16 := toNat_lt_of_lt _ 16 (by bv_decide)
  have := revConst_table ⟨_, h⟩
  unfold revConst tbl
  cases hv : SimTables.tms1000ReverseConstant[(op &&& 0xf).toNat]? with
  | none => rw [hv] at this; exact absurd this (by decide)
  | some v => rw [hv] at this; exact ⟨v, rfl, by simpa using this⟩

theorem revBit_ok (op : BitVec 32) : ∃ v, revBit op = .ok v ∧ v < 4 := by
  have h : (op &&& 0x3).toNat < 4 := toNat_lt_of_lt _ 4 (by bv_decide)
  have := revBit_table ⟨_, h⟩
  unfold revBit tbl
  cases hv : SimTables.tms1000ReverseBitAddress[(op &&& 0x3).toNat]? with
  | none => rw [hv] at this; exact absurd this (by decide)
  | some v => rw [hv] at this; exact ⟨v, rfl, by simpa using this⟩

theorem shl32_ok (what : String) (x n : BitVec 32) (h : n < 32) : shl32 what x n = .ok (x <<< n) := by
  have : n.toNat < 32 := toNat_lt_of_lt _ 32 h
  unfold shl32; rw [if_pos this]

theorem ramRd_ok (s : State) (xy : BitVec 32) (h : Inv s) (hxy : xy.toNat < 64) :
    ∃ v, ramRd s xy = .ok v ∧ v < 16 :=
  ⟨s.ram[xy.toNat], arr_ok _ _ _ hxy, h.ram _ hxy⟩

theorem ramWr_ok (s : State) (xy : BitVec 32) (v : BitVec 8) (h : Inv s) (hxy : xy.toNat < 64) (hv : v < 16) :
    ramWr s xy v = .ok { s with ram := s.ram.set xy.toNat v } ∧ Inv { s with ram := s.ram.set xy.toNat v } := by
  refine ⟨?_, ?_⟩
  · unfold ramWr; rw [arrSet_ok _ _ _ _ hxy]; rfl
  · refine { h with ram := ?_ }
    intro i hi
    have := h.ram i hi
    show (s.ram.set xy.toNat v)[i] < 16
    grind

/-- `execute` succeeded, kept the invariant, left `update_s` 0 or 1 and returned 0 or -1 -/
def ExeOk (r : Chk Exe) : Prop := ∃ e, r = .ok e ∧ Inv e.state ∧ e.us ≤ 1 ∧ (e.ret = 0 ∨ e.ret = -1)

theorem b2u_le (b : Bool) : b2u b ≤ 1 := by cases b <;> decide

theorem done_ok (s : State) (us : BitVec 8) (h : Inv s) (hu : us ≤ 1) : ExeOk (done s us) :=
  ⟨_, rfl, h, hu, Or.inl rfl⟩

theorem ramRd_bind (s : State) (xy : BitVec 32) (k : BitVec 8 → Chk Exe) (h : Inv s) (hxy : xy.toNat < 64)
    (hk : ∀ v, v < 16 → ExeOk (k v)) : ExeOk (ramRd s xy >>= k) := by
  obtain ⟨v, hv, hv16⟩ := ramRd_ok s xy h hxy
  rw [hv]; exact hk v hv16

theorem ramWr_bind (s : State) (xy : BitVec 32) (v : BitVec 8) (k : State → Chk Exe) (h : Inv s) (hxy : xy.toNat < 64)
    (hv : v < 16) (hk : ∀ s', Inv s' → ExeOk (k s')) : ExeOk (ramWr s xy v >>= k) := by
  obtain ⟨he, hi⟩ := ramWr_ok s xy v h hxy hv
  rw [he]; exact hk _ hi

theorem shl32_bind (what : String) (x n : BitVec 32) (k : BitVec 32 → Chk Exe) (hn : n < 32)
    (hk : ExeOk (k (x <<< n))) : ExeOk (shl32 what x n >>= k) := by
  rw [shl32_ok what x n hn]; exact hk

theorem revConst_bind (op : BitVec 32) (k : BitVec 32 → Chk Exe) (hk : ∀ v, v < 16 → ExeOk (k v)) :
    ExeOk (revConst op >>= k) := by
  obtain ⟨v, hv, hlt⟩ := revConst_ok op
  rw [hv]; exact hk v hlt

theorem revBit_bind (op : BitVec 32) (k : BitVec 32 → Chk Exe) (hk : ∀ v, v < 4 → ExeOk (k v)) :
    ExeOk (revBit op >>= k) := by
  obtain ⟨v, hv, hlt⟩ := revBit_ok op
  rw [hv]; exact hk v hlt

theorem ite_peel {c : Prop} [Decidable c] {a b : Chk Exe} (ha : c → ExeOk a) (hb : ¬ c → ExeOk b) :
    ExeOk (if c then a else b) := by
  by_cases hc : c
  · rw [if_pos hc]; exact ha hc
  · rw [if_neg hc]; exact hb hc

/-- bit-vector goal about promoted/narrowed bytes -/
macro "bvz" : tactic => `(tactic| ((try unfold z at *); (try unfold t8 at *); bv_decide))

macro "intro_inv" : tactic =>
  `(tactic| (intro s' hs'; have := hs'.pc; have := hs'.pa; have := hs'.pb; have := hs'.sr; have := hs'.cl
             have := hs'.sFlag; have := hs'.a; have := hs'.x; have := hs'.y; have := hs'.ram))

/-- closes `Inv` of a state that differs from an `Inv` state in register fields only -/
macro "inv_regs" : tactic =>
  `(tactic| (constructor <;> ((try dsimp only); first | assumption | bvz | (split <;> first | assumption | bvz))))

theorem execSwitch_ok (s : State) (opcode us : BitVec 8) (xy : BitVec 32) (h : Inv s) (hus : us ≤ 1)
    (hxy : xy.toNat < 64) : ExeOk (execSwitch s opcode us xy) := by
  have hpc := h.pc; have hpa := h.pa; have hpb := h.pb; have hsr := h.sr; have hcl := h.cl
  have hsf := h.sFlag; have ha := h.a; have hx := h.x; have hy := h.y; have hram := h.ram
  unfold execSwitch
  repeat' (refine ite_peel (fun _ => ?_) (fun _ => ?_))
  all_goals
    first
    | exact ⟨_, rfl, h, hus, Or.inr rfl⟩
    | (repeat' (first
        | (apply done_ok)
        | (apply ramRd_bind _ _ _ (by assumption) hxy; intro v hv)
        | (apply ramWr_bind _ _ _ _ (by assumption) hxy (by first | assumption | bvz); intro_inv)
        | (apply shl32_bind _ _ _ _ (by bvz))
        | assumption
        | exact b2u_le _
        | inv_regs))

theorem execute_ok (s : State) (opcode us : BitVec 8) (h : Inv s) (hus : us ≤ 1) : ExeOk (execute s opcode us) := by
  have hpc := h.pc; have hpa := h.pa; have hpb := h.pb; have hsr := h.sr; have hcl := h.cl
  have hsf := h.sFlag; have ha := h.a; have hx := h.x; have hy := h.y; have hram := h.ram
  have hxy := xy_lt s.x s.y hx hy
  unfold execute
  dsimp only
  repeat' (refine ite_peel (fun _ => ?_) (fun _ => ?_))
  all_goals
    first
    | exact execSwitch_ok s opcode us _ h hus hxy
    | (repeat' (first
        | (apply done_ok)
        | (apply revConst_bind; intro c hc)
        | (apply revBit_bind; intro c hc)
        | (apply ramRd_bind _ _ _ (by assumption) hxy; intro v hv)
        | (apply ramWr_bind _ _ _ _ (by assumption) hxy (by first | assumption | bvz); intro_inv)
        | (apply shl32_bind _ _ _ _ (by bvz))
        | assumption
        | exact b2u_le _
        | inv_regs))

theorem incrementPc_lt (pc : BitVec 32) : incrementPc pc < 64 := by
  unfold incrementPc; bv_decide

theorem lsfr_table : ∀ i : Fin 64, (SimTables.tms1000LsfrToAddress[i.val]?).isSome = true := by decide

theorem showLoop_ok (n : Nat) (pc : BitVec 32) (h : pc < 64) : showLoop n pc = .ok () := by
  induction n generalizing pc with
  | zero => rfl
  | succ n ih =>
    unfold showLoop tbl
    have hlt : pc.toNat < 64 := toNat_lt_of_lt _ 64 h
    have := lsfr_table ⟨_, hlt⟩
    cases hv : SimTables.tms1000LsfrToAddress[pc.toNat]? with
    | none => rw [hv] at this; exact absurd this (by decide)
    | some v => exact ih _ (incrementPc_lt pc)

/-- **Safety of one step.**  From every state inside the invariant, over every memory content, `step` returns
    (executed or illegal, never `fault`) and the resulting state is inside the invariant again. -/
theorem step_ok (m : Mem) (s : State) (h : Inv s) :
    ∃ o, step m s = .ok o ∧ Inv o.state ∧ (o.ret = 0 ∨ o.ret = -1) := by
  have hpc := h.pc; have hpa := h.pa; have hpb := h.pb; have hsr := h.sr; have hcl := h.cl
  have hsf := h.sFlag; have ha := h.a; have hx := h.x; have hy := h.y; have hram := h.ram
  have hinc : t8 (incrementPc (z s.pc)) < 64 := by
    have := incrementPc_lt (z s.pc)
    unfold t8; bv_decide
  have h1 : Inv { s with stopRunning := false, pc := t8 (incrementPc (z s.pc)) } := by
    constructor <;> ((try dsimp only); assumption)
  obtain ⟨e, he, hie, hue, hre⟩ := execute_ok _ (m ((z s.pa <<< 6) ||| z s.pc)) 1 h1 (by decide)
  have hie' : Inv { e.state with sFlag := e.us, cycleCount := e.state.cycleCount + 6 } := by
    have := hie.pc; have := hie.pa; have := hie.pb; have := hie.sr; have := hie.cl
    have := hie.a; have := hie.x; have := hie.y; have := hie.ram
    constructor <;> ((try dsimp only); assumption)
  unfold step
  dsimp only
  rw [he]
  simp only [Chk.bind_ok]
  split
  · rw [showLoop_ok 10 (z s.pc) (by bvz)]
    exact ⟨_, rfl, hie', hre⟩
  · exact ⟨_, rfl, hie', hre⟩

/-- `run` clears the static `stop_running` before the loop: the step does not depend on its old value -/
theorem step_ignores_stop_running (m : Mem) (s : State) (b : Bool) :
    step m { s with stopRunning := b } = step m s := rfl

theorem reset_inv (s : State) : Inv (reset s) := by
  constructor <;> (try (simp only [reset]; decide))
  intro i hi
  simp [reset]

theorem setPc_inv (s : State) (v : BitVec 32) (h : Inv s) : Inv (setPc s v) := by
  have := h.pb; have := h.sr; have := h.cl; have := h.sFlag; have := h.a; have := h.x; have := h.y; have := h.ram
  unfold setPc
  constructor <;> ((try dsimp only); first | assumption | bvz)

theorem setReg_inv (s : State) (name : String) (v : BitVec 32) (h : Inv s) : Inv (setReg s name v) := by
  have := h.pc; have := h.pa; have := h.pb; have := h.sr; have := h.cl; have := h.sFlag
  have := h.a; have := h.x; have := h.y; have := h.ram
  unfold setReg
  repeat' split
  all_goals first | exact h | (constructor <;> ((try dsimp only); first | assumption | bvz))

/-- `n` successive steps (memory may be rewritten arbitrarily between steps: the tms1000 simulator never writes it) -/
def runN (m : Nat → Mem) : Nat → State → Chk State
  | 0, s => .ok s
  | n + 1, s => do
    let o ← step (m n) s
    runN m n o.state

/-- **No run of any length faults**, whatever the memory contents at each step. -/
theorem runN_ok (m : Nat → Mem) (n : Nat) (s : State) (h : Inv s) : ∃ s', runN m n s = .ok s' ∧ Inv s' := by
  induction n generalizing s with
  | zero => exact ⟨s, rfl, h⟩
  | succ n ih =>
    obtain ⟨o, ho, hi, _⟩ := step_ok (m n) s h
    unfold runN
    rw [ho]
    exact ih o.state hi

/-! ### The program counter and the disassembler

  The simulator's `pc` is the 6-bit LFSR value; `disasm_tms1000` is called with the linear address
  `(pa << 6) | tms1000_lsfr_to_address[pc]`, reads the opcode at `tms1000_address_to_lsfr[linear & 0x3f]`
  and returns length 1 on every path. -/

/-- the disassembler shows the byte the simulator executes: `address_to_lsfr[lsfr_to_address[pc]] = pc` -/
theorem lsfr_roundtrip : ∀ pc : Fin 64,
    (SimTables.tms1000LsfrToAddress[pc.val]?).bind (fun a => SimTables.tms1000AddressToLsfr[a.toNat]?) =
      some (BitVec.ofNat 8 pc.val) := by decide

/-- **PC advance = next disassembled instruction**: the linear address of `increment_pc(pc)` is the linear address
    of `pc` plus the disassembler's length 1 (modulo the 64-byte page) -/
theorem pc_advance_linear : ∀ pc : Fin 64,
    SimTables.tms1000LsfrToAddress[(incrementPc (BitVec.ofNat 32 pc.val)).toNat]? =
      (SimTables.tms1000LsfrToAddress[pc.val]?).map (fun a => (a + 1) &&& 0x3f) := by decide

end NakenVerif.Sim.Tms1000
