/-
  Safety of the 6502 step model: with A, X, Y, SP in 0..255 (what `reset`, `set_reg` and every instruction keep) one step never
  leaves the 256-row opcode table or the 256-entry disassembler length table, keeps those ranges, and writes only below 2^16
  (stack page 0x100..0x1ff and effective addresses, which every mode of a storing instruction masks to 16 bits).
-/
import NakenVerif.Sim.M6502Impl
import Std.Tactic.BVDecide

namespace NakenVerif.Sim.M6502
open NakenVerif.Sim NakenVerif.Generated

structure Inv (s : State) : Prop where
  a : s.a < 256
  x : s.x < 256
  y : s.y < 256
  sp : s.sp < 256

/-! ### table facts (regenerated tables, `decide`) -/

theorem table_size : SimTables.table6502Opcodes.size = 256 := by decide +kernel
theorem dislen_size : SimTables.disasm6502Len.size = 256 := by decide +kernel

/-- `disasm_6502` never returns more than 3: `char bytes[16]` of the display loop holds `count` items of 3 characters -/
theorem disLen_le_3 : ∀ i : Fin 256, (SimTables.disasm6502Len[i.val]?).all (· ≤ 3) = true := by decide +kernel

/-- every row that is not M65XX_ERROR names an entry of `table_6502[table_6502_len]` (the disassembler's `.name` lookup) -/
theorem instr_in_table : ∀ i : Fin 256, (SimTables.table6502Opcodes[i.val]?).all
    (fun r => r.instr = SimTables.M65XX_ERROR ∨ r.instr < SimTables.table6502Len) = true := by decide +kernel

theorem z8_lt (o : BitVec 8) : (z8 o).toNat < 256 := toNat_lt_of_lt (z8 o) 256 (by unfold z8; bv_decide)

theorem row_ok (o : BitVec 8) : ∃ r, tbl "table_6502_opcodes" SimTables.table6502Opcodes (z8 o) = .ok r := by
  unfold tbl
  have h : (z8 o).toNat < SimTables.table6502Opcodes.size := by rw [table_size]; exact z8_lt o
  rw [Array.getElem?_eq_getElem h]
  exact ⟨_, rfl⟩

theorem disLen_ok (m : Mem) (pc : W) : ∃ l, disLen m pc = .ok l := by
  unfold disLen tbl
  have h : (z8 (m pc)).toNat < SimTables.disasm6502Len.size := by rw [dislen_size]; exact z8_lt _
  rw [Array.getElem?_eq_getElem h]
  exact ⟨_, rfl⟩

/-! ### effective addresses of storing instructions -/

/-- the modes whose `calc_address` result is masked to 16 bits -/
def maskedMode (n : Nat) : Bool :=
  n = SimTables.M6502_OP_ADDRESS8 || n = SimTables.M6502_OP_ADDRESS16 || n = SimTables.M6502_OP_INDEXED8_X ||
  n = SimTables.M6502_OP_INDEXED8_Y || n = SimTables.M6502_OP_INDEXED16_X || n = SimTables.M6502_OP_INDEXED16_Y ||
  n = SimTables.M6502_OP_INDIRECT16 || n = SimTables.M6502_OP_X_INDIRECT8 || n = SimTables.M6502_OP_INDIRECT8_Y ||
  n = SimTables.M6502_OP_RELATIVE

/-- classes that call `ram_write8(address, ...)` unconditionally / only when `mode != OP_NONE` -/
def storeCls (c : Cls) : Bool := c = .dec || c = .inc || c = .sta || c = .stx || c = .sty
def rmwCls (c : Cls) : Bool := c = .asl || c = .lsr || c = .rol || c = .ror

/-- in the regenerated table every storing opcode has a masked mode; the read-modify-write ones a masked mode or OP_NONE
    (accumulator) -/
theorem store_modes : ∀ i : Fin 256, (SimTables.table6502Opcodes[i.val]?).all (fun r =>
    r.instr = SimTables.M65XX_ERROR ∨
      ((storeCls (classOf (BitVec.ofNat 8 i.val)) → maskedMode r.op) ∧
       (rmwCls (classOf (BitVec.ofNat 8 i.val)) → maskedMode r.op ∨ r.op = SimTables.M6502_OP_NONE))) = true := by
  decide +kernel

theorem calcAddress_masked (s : State) (m : MemB) (address : W) (n : Nat) (h : maskedMode n = true) :
    calcAddress s m address (mode n) < 0x10000 := by
  unfold maskedMode at h
  simp only [Bool.or_eq_true, decide_eq_true_eq] at h
  unfold calcAddress rd z8 mode
  rcases h with ((((((((h | h) | h) | h) | h) | h) | h) | h) | h) | h <;> subst h <;>
    simp only [SimTables.M6502_OP_NONE, SimTables.M6502_OP_IMMEDIATE, SimTables.M6502_OP_ADDRESS8, SimTables.M6502_OP_ADDRESS16,
      SimTables.M6502_OP_INDEXED8_X, SimTables.M6502_OP_INDEXED8_Y, SimTables.M6502_OP_INDEXED16_X, SimTables.M6502_OP_INDEXED16_Y,
      SimTables.M6502_OP_INDIRECT16, SimTables.M6502_OP_X_INDIRECT8, SimTables.M6502_OP_INDIRECT8_Y, SimTables.M6502_OP_RELATIVE,
      BitVec.ofNat_eq_ofNat, BitVec.reduceEq, reduceIte] <;>
    bv_decide

/-! ### the instruction bodies -/

/-- `operand_exe` kept A, X, Y, SP in 0..255, wrote only below 2^16 and returned -1, 0 or 1 -/
def ExeOk (base : List (BitVec 32 × BitVec 8)) (e : Exe) : Prop :=
  Inv e.state ∧ WOK 0x10000 base e.mem.writes ∧ (e.ret = 0 ∨ e.ret = 1 ∨ e.ret = -1)

theorem wok_wr (base : List (BitVec 32 × BitVec 8)) (bio : W) (mb : MemB) (a d : W)
    (h : WOK 0x10000 base mb.writes) (ha : a < 0x10000) : WOK 0x10000 base (wr bio mb a d).writes := by
  intro w hw
  unfold wr at hw
  simp only [List.mem_append, List.mem_cons, List.not_mem_nil, or_false] at hw
  rcases hw with hw | hw
  · exact h w hw
  · right; rw [hw]; exact ha

theorem and_ff_lt (v : BitVec 32) : v &&& 0xFF < 256 := by bv_decide
theorem stack_lt (sp : BitVec 32) (h : sp < 256) : 0x100 + sp < 0x10000 := by bv_decide
theorem stack_lt' (sp : BitVec 32) : 0x100 + ((sp - 1) &&& 0xFF) < 0x10000 := by bv_decide

macro "m6502_field" : tactic =>
  `(tactic| ((try dsimp only); first
      | assumption
      | exact and_ff_lt _
      | ((try simp only [bcd, readBit, spDec, spInc, flagC] at *); bv_decide)))

theorem execCls_ok (base : List (BitVec 32 × BitVec 8)) (c : Cls) (s : State) (mb : MemB) (md address m : W)
    (h : Inv s) (hm : m < 256) (hw : WOK 0x10000 base mb.writes)
    (hst : storeCls c = true → address < 0x10000)
    (hrmw : rmwCls c = true → md ≠ mode SimTables.M6502_OP_NONE → address < 0x10000) :
    ExeOk base (execCls c s mb md address m) := by
  have ha := h.a; have hx := h.x; have hy := h.y; have hsp := h.sp
  have hrd : ∀ a : W, rd mb a < 256 := by intro a; unfold rd z8; bv_decide
  cases c <;> simp only [execCls, r0, r1, branch] <;> (repeat' split) <;>
    refine ⟨⟨?_, ?_, ?_, ?_⟩, ?_, ?_⟩
  all_goals first
    | m6502_field
    | exact hrd _
    | exact hw
    | exact Or.inl rfl
    | exact Or.inr (Or.inl rfl)
    | exact Or.inr (Or.inr rfl)
    | exact wok_wr _ _ _ _ _ hw (hst rfl)
    | exact wok_wr _ _ _ _ _ hw (hrmw rfl (by assumption))
    | exact wok_wr _ _ _ _ _ hw (stack_lt _ hsp)
    | exact wok_wr _ _ _ _ _ (wok_wr _ _ _ _ _ hw (stack_lt _ hsp)) (stack_lt' _)

theorem z8_toNat (o : BitVec 8) : (z8 o).toNat = o.toNat := by
  have := o.isLt
  unfold z8
  simp only [BitVec.truncate_eq_setWidth, BitVec.toNat_setWidth]
  omega

set_option maxRecDepth 8192 in
theorem operandExe_ok (base : List (BitVec 32 × BitVec 8)) (s : State) (mb : MemB) (opcode : BitVec 8)
    (h : Inv s) (hw : WOK 0x10000 base mb.writes) :
    ∃ e, operandExe s mb opcode = .ok e ∧ ExeOk base e := by
  obtain ⟨row, hrow⟩ := row_ok opcode
  have hlt : opcode.toNat < 256 := opcode.isLt
  have hsome : SimTables.table6502Opcodes[opcode.toNat]? = some row := by
    unfold tbl at hrow
    rw [z8_toNat] at hrow
    cases hv : SimTables.table6502Opcodes[opcode.toNat]? with
    | none => rw [hv] at hrow; exact absurd hrow (by simp)
    | some r => rw [hv] at hrow; injection hrow with hrow; rw [hrow]
  have hmodes := store_modes ⟨opcode.toNat, hlt⟩
  dsimp only at hmodes
  rw [hsome] at hmodes
  simp only [Option.all_some, BitVec.ofNat_toNat, BitVec.setWidth_eq, Bool.or_eq_true, Bool.and_eq_true, decide_eq_true_eq,
    Bool.decide_or, Bool.decide_and, Bool.decide_eq_true] at hmodes
  unfold operandExe
  rw [hrow]
  simp only [Chk.bind_ok]
  split
  · exact ⟨_, rfl, h, hw, Or.inr (Or.inr rfl)⟩
  · rename_i hne
    split
    · exact ⟨_, rfl, h, hw, Or.inr (Or.inr rfl)⟩
    · refine ⟨_, rfl, ?_⟩
      rcases hmodes with herr | ⟨h1, h2⟩
      · exact absurd herr hne
      apply execCls_ok
      · exact ⟨h.a, h.x, h.y, h.sp⟩
      · unfold rd z8; bv_decide
      · exact hw
      · intro hst
        exact calcAddress_masked _ _ _ _ (h1 hst)
      · intro hr hnone
        rcases h2 hr with hmk | hn
        · exact calcAddress_masked _ _ _ _ hmk
        · exact absurd (by rw [hn]) hnone

/-- **Safety of one step.**  From every state with A, X, Y, SP in 0..255, over every memory content, PC, SR and `break_io`:
    `step` succeeds (never `fault`: both 256-entry tables are indexed with a byte), returns 0, keeps the ranges, and every byte it
    writes has an address below 2^16. -/
theorem step_ok (mem : Mem) (s : State) (h : Inv s) :
    ∃ o m' b, step mem s = .ok (o, m', b) ∧ Inv o.state ∧ o.ret = 0 ∧ ∀ w ∈ o.writes, w.1 < 0x10000 := by
  unfold step
  split
  · exact ⟨_, _, _, rfl, h, rfl, fun w hw => absurd hw (by simp)⟩
  · obtain ⟨e, he, hi, hwok, _⟩ := operandExe_ok [] s { mem := mem, writes := [], brk := none } (mem s.pc) h (WOK.refl _ _)
    have hwr : ∀ w ∈ e.mem.writes, w.1 < 0x10000 := by
      intro w hin
      rcases hwok w hin with hb | hlt
      · exact absurd hb (by simp)
      · exact hlt
    dsimp only
    rw [he]
    simp only [Chk.bind_ok]
    split
    · obtain ⟨l, hl⟩ := disLen_ok e.mem.mem s.pc
      rw [hl]
      exact ⟨_, _, _, rfl, ⟨hi.a, hi.x, hi.y, hi.sp⟩, rfl, hwr⟩
    · exact ⟨_, _, _, rfl, hi, rfl, hwr⟩

/-- **PC after a non-branching instruction = address of the next disassembled instruction.**  Whenever `operand_exe` returns 0
    (the instruction did not set the PC itself), the new PC is the old PC plus the value `disasm_6502` returns for the byte found
    at the old PC in the memory as the instruction left it.  (By construction: `run` takes the length from the disassembler.) -/
theorem step_pc_non_branching (mem : Mem) (s : State) (e : Exe) (o : StepOut State) (m' : Mem) (b : Option (BitVec 8))
    (hrun : s.stopRunning = false)
    (he : operandExe s { mem := mem, writes := [], brk := none } (mem s.pc) = .ok e) (hret : e.ret = 0)
    (h : step mem s = .ok (o, m', b)) :
    ∃ l, disLen m' s.pc = .ok l ∧ o.state.pc = e.state.pc + l ∧ m' = e.mem.mem := by
  unfold step at h
  rw [if_neg (by rw [hrun]; decide)] at h
  dsimp only at h
  rw [he] at h
  simp only [Chk.bind_ok, hret, if_true] at h
  obtain ⟨l, hl⟩ := disLen_ok e.mem.mem s.pc
  rw [hl] at h
  simp only [Chk.bind_ok, Chk.pure_eq] at h
  injection h with h
  injection h with h1 h2
  injection h2 with h2 h3
  subst h1 h2
  exact ⟨l, hl, rfl, rfl⟩

/-- `Simulate6502::run` does not clear the static `stop_running`: it is an explicit input; when set the step does nothing -/
theorem step_stopped (mem : Mem) (s : State) (h : s.stopRunning = true) :
    step mem s = .ok ({ ret := 0, state := s, writes := [] }, mem, none) := by
  unfold step; rw [if_pos h]

theorem reset_inv (s : State) (org : W) : Inv (reset s org) := by
  constructor <;> (simp only [reset]; decide)

theorem setPc_inv (s : State) (v : W) (h : Inv s) : Inv (setPc s v) := ⟨h.a, h.x, h.y, h.sp⟩

theorem setReg_inv (s : State) (name : String) (v : W) (h : Inv s) : Inv (setReg s name v) := by
  have := h.a; have := h.x; have := h.y; have := h.sp
  unfold setReg
  repeat' split
  all_goals first | exact h | (constructor <;> ((try dsimp only); first | assumption | exact and_ff_lt _))

theorem pushApi_inv (s : State) (mb : MemB) (v : W) (h : Inv s) :
    Inv (pushApi s mb v).1 ∧ WOK 0x10000 mb.writes (pushApi s mb v).2.writes := by
  have := h.a; have := h.x; have := h.y; have hsp := h.sp
  unfold pushApi
  refine ⟨?_, wok_wr _ _ _ _ _ (WOK.refl _ _) (stack_lt _ hsp)⟩
  constructor <;> ((try dsimp only); first | assumption | (unfold spDec; exact and_ff_lt _))

def runN (m : Mem) : Nat → State → Chk (State × Mem)
  | 0, s => .ok (s, m)
  | n + 1, s => do
    let (o, m', _) ← step m s
    runN m' n o.state

/-- **No run of any length faults.** -/
theorem runN_ok (n : Nat) (m : Mem) (s : State) (h : Inv s) : ∃ r, runN m n s = .ok r ∧ Inv r.1 := by
  induction n generalizing s m with
  | zero => exact ⟨_, rfl, h⟩
  | succ n ih =>
    obtain ⟨o, m', b, ho, hi, _⟩ := step_ok m s h
    unfold runN
    rw [ho]
    exact ih m' o.state hi

end NakenVerif.Sim.M6502
