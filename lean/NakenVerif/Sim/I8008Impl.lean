/-
  Implementation model of simulate/8008.cpp (class Simulate8008, simulate/8008.h).

  `step` is `run(-1, 1)` in step mode: one iteration of the loop, i.e. fetch, `pc += 1`,
  `execute_instruction`.  `alu`, `set_parity`, the private `push(uint16_t)` / `pop()` of the header and the
  public `push(uint32_t)` / `set_reg` / `set_pc` / `reset` are mirrored as written.

  Representation.
  * `uint16_t pc, sp` are `BitVec 16`; the four one-bit bit-fields `flags.p/s/c/z` are `Bool`;
    `uint8_t reg[8]` is `Vector (BitVec 8) 8`, `uint16_t stack[8]` is `Vector (BitVec 16) 8`.  Every index
    (`reg[d]`, `reg[s]`, `stack[sp]`) goes through `arr`/`arrSet` and faults outside the array.
  * `Memory` is total over 32-bit addresses (`Mem`); `Memory::read16` is little endian for this CPU and computes
    `address + 1` in `uint32_t` (so the operand of a jump at PC = 0xffff comes from 0xffff and 0x10000, as in
    the C++).  Writes are `memory->write8` (no `break_io`), recorded in `writes`.
  * Integer promotion: `int` values are `BitVec 32`.
  * Statics / hidden inputs.  `Simulate::stop_running` (static) is the field `stopRunning`: `run` clears it
    before the loop and HLT sets it, so it is an output of the step but not an input.  `show` only selects
    the display loop, which indexes no array (it walks `disasm_8008`, whose return value is ≥ 1 on every
    path, so `n` reaches 12).  `break_point` stays -1 (never equal to the 16-bit `pc`), `auto_run` is false in
    step mode.  `cycle_count` is not changed by this simulator (`#if 0`).  Uninitialised locals of `run`
    (`ret`, `pc_current`, `n`, `instruction`) are assigned before use.
-/
import NakenVerif.Sim.Common

namespace NakenVerif.Sim.I8008
open NakenVerif.Sim

structure State where
  pc : BitVec 16
  sp : BitVec 16
  fp : Bool
  fs : Bool
  fc : Bool
  fz : Bool
  reg : Vector (BitVec 8) 8
  stack : Vector (BitVec 16) 8
  stopRunning : Bool
  showOn : Bool

@[inline] def z8 (v : BitVec 8) : BitVec 32 := v.zeroExtend 32
@[inline] def z16 (v : BitVec 16) : BitVec 32 := v.zeroExtend 32
@[inline] def b32 (b : Bool) : BitVec 32 := if b then 1 else 0

/-- private `void push(uint16_t value) { stack[sp++] = value; sp &= 7; }` -/
def push (s : State) (value : BitVec 16) : Chk State := do
  let st ← arrSet "stack[sp++]" s.stack (z16 s.sp) value
  pure { s with stack := st, sp := (s.sp + 1) &&& 7 }

/-- private `uint16_t pop() { sp = (sp - 1) & 7; return stack[sp]; }` -/
def pop (s : State) : Chk (State × BitVec 16) := do
  let sp : BitVec 16 := ((z16 s.sp - 1) &&& 7).truncate 16
  let v ← arr "stack[sp]" s.stack (z16 sp)
  pure ({ s with sp := sp }, v)

/-- `pc = pop()` -/
def ret (s : State) : Chk State := do
  let (s, v) ← pop s
  pure { s with pc := v }

/-- `void alu(uint8_t operation, uint8_t s)` with `set_parity` as written (`for (n = 0; n > 8; n++)` never runs,
    so `count` stays 0 and `flags.p` becomes 1) -/
def alu (s : State) (operation : BitVec 8) (v : BitVec 8) : Chk State := do
  let src := z8 v
  let r0 ← arr "reg[0]" s.reg 0
  let a := z8 r0
  let c := b32 s.fc
  let a : BitVec 32 :=
    if operation = 0 then a + src
    else if operation = 1 then a + src + c
    else if operation = 2 then a - src
    else if operation = 3 then a - (src + c)
    else if operation = 4 then a &&& src
    else if operation = 5 then a ^^^ src
    else if operation = 6 then a ||| src
    else if operation = 7 then a - src
    else a
  let reg ← if operation ≠ 7 then arrSet "reg[0]" s.reg 0 (a.truncate 8) else pure s.reg
  pure { s with reg := reg, fp := true, fc := (a &&& 0x100) ≠ 0, fs := (a &&& 0x80) ≠ 0, fz := (a &&& 0xff) = 0 }

/-- the flag test of the conditional return / jump / call `switch (operation)` -/
def cond (s : State) (operation : BitVec 8) : Bool :=
  if operation = 0 then s.fc = false
  else if operation = 1 then s.fz = false
  else if operation = 2 then s.fs = false
  else if operation = 3 then s.fp = false
  else if operation = 4 then s.fc = true
  else if operation = 5 then s.fz = true
  else if operation = 6 then s.fs = true
  else if operation = 7 then s.fp = true
  else false

/-- result of `execute_instruction`: state, memory, return value (1, 2, 3 or -1) -/
structure Exe where
  state : State
  mem : MemW
  ret : Int

/-- `int Simulate8008::execute_instruction(uint8_t opcode)` -/
def execute (s : State) (m : MemW) (opcode : BitVec 8) : Chk Exe :=
  if opcode &&& 0xfe = 0 ∨ opcode = 0xff then                 -- HLT
    .ok { state := { s with stopRunning := true }, mem := m, ret := 1 }
  else do
    let sI := opcode &&& 0x7
    let d := (opcode >>> 3) &&& 0x7
    let r5 ← arr "reg[5]" s.reg 5
    let r6 ← arr "reg[6]" s.reg 6
    let mAddr : BitVec 32 := (z8 r5 <<< 8) ||| z8 r6         -- int m
    let upper := opcode >>> 6
    let operation := (opcode >>> 3) &&& 7
    let type := opcode &&& 7
    let currentPc := s.pc
    if upper = 0 then
      if type = 7 then do                                      -- RET
        let s ← ret s
        pure { state := s, mem := m, ret := 1 }
      else if type = 3 then do                                 -- return conditional
        let s ← if cond s operation then ret s else pure s
        pure { state := s, mem := m, ret := 1 }
      else if type = 4 then do                                 -- ALU with constant
        let value := m.mem (z16 s.pc)
        let s := { s with pc := s.pc + 1 }
        let s ← alu s operation value
        pure { state := s, mem := m, ret := 2 }
      else if type = 5 then do                                 -- RST
        let s ← push s s.pc
        pure { state := { s with pc := ((z8 operation) <<< 3).truncate 16 }, mem := m, ret := 1 }
      else if type = 6 then do                                 -- MVI
        let value := m.mem (z16 s.pc)
        let s := { s with pc := s.pc + 1 }
        if d = 7 then
          pure { state := s, mem := m.write8 mAddr value, ret := 2 }
        else do
          let reg ← arrSet "reg[d]" s.reg (z8 d) value
          pure { state := { s with reg := reg }, mem := m, ret := 2 }
      else
        pure { state := s, mem := m, ret := -1 }
    else if upper = 1 then do
      let address := m.mem.read16le (z16 s.pc)
      let s := { s with pc := s.pc + 2 }
      if type = 4 then                                         -- JMP
        pure { state := { s with pc := address }, mem := m, ret := 3 }
      else if type = 6 then do                                 -- CALL
        let s ← push s s.pc
        pure { state := { s with pc := address }, mem := m, ret := 3 }
      else if type = 0 then                                    -- jump conditional
        let s := if cond s operation then { s with pc := address } else s
        pure { state := s, mem := m, ret := 3 }
      else if type = 2 then do                                 -- call conditional
        let s := if cond s operation then { s with pc := address } else s
        let s ← if s.pc = address then push s currentPc else pure s
        pure { state := s, mem := m, ret := 3 }
      else
        pure { state := s, mem := m, ret := -1 }
    else if upper = 2 then do                                  -- ALU reg
      let value ← arr "reg[s]" s.reg (z8 sI)
      let value := if sI = 7 then m.mem mAddr else value
      let s ← alu s operation value
      pure { state := s, mem := m, ret := 1 }
    else if upper = 3 then                                     -- MOV
      if sI = 7 then do
        let reg ← arrSet "reg[d]" s.reg (z8 d) (m.mem mAddr)
        pure { state := { s with reg := reg }, mem := m, ret := 1 }
      else if d = 7 then do
        let v ← arr "reg[s]" s.reg (z8 sI)
        pure { state := s, mem := m.write8 mAddr v, ret := 1 }
      else do
        let v ← arr "reg[s]" s.reg (z8 sI)
        let reg ← arrSet "reg[d]" s.reg (z8 d) v
        pure { state := { s with reg := reg }, mem := m, ret := 1 }
    else
      pure { state := s, mem := m, ret := -1 }

/-- one `run(-1, 1)` in step mode: returns -1 for an illegal instruction, 0 otherwise -/
def step (mem : Mem) (s : State) : Chk (StepOut State × Mem) := do
  let s := { s with stopRunning := false }                    -- stop_running = false
  let opcode := mem (z16 s.pc)                                -- memory->read8(pc_current)
  let s := { s with pc := s.pc + 1 }
  let e ← execute s { mem := mem, writes := [] } opcode
  pure ({ ret := if e.ret = -1 then -1 else 0, state := e.state, writes := e.mem.writes }, e.mem.mem)

/-- `reset()`; `org` is 0 unless set -/
def reset (s : State) (org : BitVec 32) : State :=
  { s with reg := Vector.replicate 8 0, fp := false, fs := false, fc := false, fz := false,
           stack := Vector.replicate 8 0, pc := org.truncate 16, sp := 0 }

/-- public `void push(uint32_t value) { if (sp == 7) { return; } stack[sp++] = value; }` -/
def pushApi (s : State) (value : BitVec 32) : Chk State :=
  if s.sp = 7 then .ok s
  else do
    let st ← arrSet "stack[sp++]" s.stack (z16 s.sp) (value.truncate 16)
    pure { s with stack := st, sp := s.sp + 1 }

/-- `set_pc` -/
def setPc (s : State) (value : BitVec 32) : State := { s with pc := value.truncate 16 }

/-- `set_reg` ("sp", one-letter register names a b c d e h l, "m" = h:l); unknown names change nothing.
    Constant indices 0..6, all inside `reg[8]`. -/
def setReg (s : State) (name : String) (value : BitVec 32) : State :=
  if name = "sp" then
    let sp : BitVec 16 := value.truncate 16
    { s with sp := if sp > 7 then 7 else sp }
  else
    let v : BitVec 8 := (value &&& 0xff).truncate 8
    if name = "a" then { s with reg := s.reg.set 0 v }
    else if name = "b" then { s with reg := s.reg.set 1 v }
    else if name = "c" then { s with reg := s.reg.set 2 v }
    else if name = "d" then { s with reg := s.reg.set 3 v }
    else if name = "e" then { s with reg := s.reg.set 4 v }
    else if name = "h" then { s with reg := s.reg.set 5 v }
    else if name = "l" then { s with reg := s.reg.set 6 v }
    else if name = "m" then
      { s with reg := (s.reg.set 5 (((value >>> 8) &&& 0xff).truncate 8)).set 6 v }
    else s

end NakenVerif.Sim.I8008
