/-
  Implementation model of simulate/1802.cpp (class Simulate1802, simulate/1802.h).

  `step` is `run(-1, 1)` in step mode: `opcode = READ_RAM(PC)`, `operand_exe(opcode)`; -1 → "Illegal instruction", return -1.
  `operandExe` mirrors `operand_exe` case by case (the nested `switch (REG_I)` / `switch (REG_N)` / extended 0x68 group).

  Representation.
  * `uint8_t reg_d, reg_p, reg_x, reg_t, reg_n, reg_i, reg_b, reg_cntr, reg_cn, flag_*` are `BitVec 8`; `uint16_t reg_r[16]` is
    `Vector (BitVec 16) 16`.  Every `REG(a)` = `reg_r[a]` — with a = REG_N, _N, REG_X, REG_P or the constant 2 — goes through
    `arr`/`arrSet` (fault outside the 16 registers).  `PC` is `reg_r[REG_P]`.
  * `uint16_t temp, address`, `int _temp`: arithmetic in `BitVec 32` (integer promotion; `%`, `/`, `>`, `<` signed), narrowed on
    assignment.  The flags are `uint8_t`, not booleans: SHLC / SHL leave `flag_df = 0x80` (as written) and `!flag_df`, `flag_df << 7`
    are computed on that.
  * `READ_RAM(a)` = `memory->read8(a)` with `a` an `int` (so `READ_RAM(PC + 1)` at PC = 0xffff reads 0x10000);
    `WRITE_RAM(a, b)` = `if (a == break_io) exit(b); memory->write8(a, b)` with `a` a `uint16_t` register: the write log has 16-bit
    addresses by construction, `brk` records the exit status (the exit happens BEFORE the write).
  * `cycle_count += cycles * 8` for the first matching row of the regenerated `table_1802` (or `table_1802_16` for the byte after
    0x68); sentinel-terminated loops, no index.
  * Statics / hidden inputs: `run` does not clear the static `stop_running` (input); `flag_etq` is a data member that no constructor
    or `reset` initialised before fix C15-14 — it is part of the state here (the harness sets it).  `reg_b` is never read.
    `temp`, `_temp`, `address` are assigned before use in every case.
-/
import NakenVerif.Sim.Common
import NakenVerif.Generated.SimTables

namespace NakenVerif.Sim.C1802
open NakenVerif.Sim NakenVerif.Generated

scoped notation "W" => BitVec 32

structure State where
  d : BitVec 8
  p : BitVec 8
  x : BitVec 8
  t : BitVec 8
  n : BitVec 8
  i : BitVec 8
  b : BitVec 8
  r : Vector (BitVec 16) 16
  cntr : BitVec 8
  cn : BitVec 8
  df : BitVec 8
  q : BitVec 8
  mie : BitVec 8
  cie : BitVec 8
  xie : BitVec 8
  cil : BitVec 8
  etq : BitVec 8
  cycleCount : W
  breakIo : W
  stopRunning : Bool
  showOn : Bool

structure MemB where
  mem : Mem
  writes : List (BitVec 32 × BitVec 8)
  brk : Option (BitVec 8)

/-- machine state threaded through `operand_exe` -/
structure Core where
  s : State
  m : MemB

@[inline] def z8 (v : BitVec 8) : W := v.zeroExtend 32
@[inline] def z16 (v : BitVec 16) : W := v.zeroExtend 32
@[inline] def t8 (v : W) : BitVec 8 := v.truncate 8
@[inline] def t16 (v : W) : BitVec 16 := v.truncate 16
/-- `!flag` -/
@[inline] def lnot (v : BitVec 8) : W := if v = 0 then 1 else 0

/-- `REG(a)` read -/
def reg (c : Core) (a : BitVec 8) : Chk (BitVec 16) := arr "reg_r[]" c.s.r (z8 a)
/-- `REG(a) = v` -/
def setR (c : Core) (a : BitVec 8) (v : BitVec 16) : Chk Core := do
  let r ← arrSet "reg_r[]" c.s.r (z8 a) v
  pure { c with s := { c.s with r := r } }
/-- `++REG(a)` / `--REG(a)` -/
def incR (c : Core) (a : BitVec 8) : Chk Core := do let v ← reg c a; setR c a (v + 1)
def decR (c : Core) (a : BitVec 8) : Chk Core := do let v ← reg c a; setR c a (v - 1)

/-- `READ_RAM(a)`, `a` an `int` -/
def readRam (c : Core) (a : W) : W := z8 (c.m.mem a)
/-- `READ_IND(a)` = `READ_RAM(reg_r[a])` -/
def readInd (c : Core) (a : BitVec 8) : Chk W := do let v ← reg c a; pure (readRam c (z16 v))
/-- `WRITE_RAM(a, b)` with `a` a 16-bit register -/
def writeRam (c : Core) (a : BitVec 16) (b : W) : Core :=
  let addr := z16 a
  { c with m := { mem := c.m.mem.write8 addr (t8 b), writes := c.m.writes ++ [(addr, t8 b)],
                  brk := if c.m.brk.isNone ∧ addr = c.s.breakIo then some (t8 b) else c.m.brk } }
/-- `WRITE_IND(a, b)` -/
def writeInd (c : Core) (a : BitVec 8) (b : W) : Chk Core := do let v ← reg c a; pure (writeRam c v b)

/-- `PC` (read) and `PC = v` -/
def getPc (c : Core) : Chk (BitVec 16) := reg c c.s.p
def setPc (c : Core) (v : BitVec 16) : Chk Core := setR c c.s.p v

def setD (c : Core) (v : W) : Core := { c with s := { c.s with d := t8 v } }
def setDf (c : Core) (v : W) : Core := { c with s := { c.s with df := t8 v } }

/-- `cycle_count += row.cycles * 8` for the first row with `(opcode & mask) == row.opcode` -/
def cyclesOf : List SimTables.Row1802 → W → W
  | [], _ => 0
  | r :: rest, opcode => if opcode &&& r.mask = r.opcode then r.cycles * 8 else cyclesOf rest opcode

/-- `condition ? address : PC` assigned to PC -/
def branchIf (c : Core) (cond : Bool) (address : BitVec 16) : Chk Core :=
  if cond then setPc c address else do let pc ← getPc c; setPc c pc

/-- `PC = cond ? PC : PC - 2` (long skips) -/
def skipIf (c : Core) (cond : Bool) : Chk Core := do
  let pc ← getPc c
  setPc c (if cond then pc else pc - 2)

/-- the decimal adjust shared by the DADD family: sets DF and D from `int _temp`; `dadc` selects the parenthesisation of DADC -/
def decimal (c : Core) (temp : W) (dfWhenOut : W) (dadc : Bool) : Core :=
  let out : Bool := (99 : W).slt temp ∨ temp.slt 0
  let c := setDf c (if out then dfWhenOut else 1 - dfWhenOut)
  let temp := if (99 : W).slt temp then temp - 100 else if temp.slt 0 then 100 + temp else temp
  if dadc then setD c (((temp.srem 10) ||| (temp.sdiv 10)) <<< 4)
  else setD c ((temp.srem 10) ||| ((temp.sdiv 10) <<< 4))

/-- 8-bit add / subtract through `uint16_t temp`: `FLAG_DF = temp & 0x100 ? a : b; REG_D = temp` -/
def arith (c : Core) (temp : W) (dfSet dfClear : W) : Core :=
  let temp := z16 (t16 temp)
  setD (setDf c (if temp &&& 0x100 ≠ 0 then dfSet else dfClear)) temp

inductive R where
  | ok (c : Core)            -- falls out of the switch: `++PC; return 0`
  | illegal (c : Core)       -- `return -1`

/-- the extended group: `case 0x8` of `switch (REG_N)` under `REG_I == 6` (opcode 0x68) -/
def extended (c : Core) : Chk R := do
  let c ← do let pc ← getPc c; setPc c (pc + 1)                       -- ++PC
  let pc ← getPc c
  let ext := t8 (readRam c (z16 pc))                                  -- uint8_t _extinstr = READ_RAM(PC)
  let eI := (ext &&& 0xF0) >>> 4
  let eN := ext &&& 0xF
  let s := c.s
  if eI = 0x0 then
    if eN = 0x0 then pure (.ok c)                                      -- STPC
    else if eN = 0x1 then                                              -- DTC
      if s.cntr = 1 then
        let q := if s.etq = 1 then t8 (lnot s.q) else s.q
        pure (.ok { c with s := { s with q := q, cil := 1, cntr := s.cn } })
      else pure (.ok { c with s := { s with cntr := s.cntr - 1 } })
    else if eN = 0x2 ∨ eN = 0x3 ∨ eN = 0x4 ∨ eN = 0x5 then pure (.ok c)  -- SPM2 SCM2 SPM1 SCM1
    else if eN = 0x6 then pure (.ok { c with s := { s with cntr := s.d, cn := s.d, etq := 0 } })   -- LDC
    else if eN = 0x7 then pure (.ok c)                                 -- STM
    else if eN = 0x8 then pure (.ok { c with s := { s with d := s.cntr } })  -- GEC
    else if eN = 0x9 then pure (.ok { c with s := { s with etq := 1 } })
    else if eN = 0xA then pure (.ok { c with s := { s with xie := 1 } })
    else if eN = 0xB then pure (.ok { c with s := { s with xie := 0 } })
    else if eN = 0xC then pure (.ok { c with s := { s with cie := 1 } })
    else if eN = 0xD then pure (.ok { c with s := { s with cie := 0 } })
    else pure (.illegal c)
  else if eI = 0x2 then do                                             -- DBNZ
    let c ← do let pc ← getPc c; setPc c (pc + 2)
    let pc ← getPc c
    let address := t16 (((readRam c (z16 pc - 1) <<< 8) ||| readRam c (z16 pc)) - 1)
    let c ← decR c eN
    let v ← reg c eN
    let c ← branchIf c (v ≠ 0) address
    pure (.ok c)
  else if eI = 0x3 then do
    let c ← do let pc ← getPc c; setPc c (pc + 1)
    let pc ← getPc c
    let address := t16 (((z16 pc &&& 0xFF00) ||| readRam c (z16 pc)) - 1)
    if eN = 0xE then do let c ← branchIf c (c.s.cil = 0) address; pure (.ok c)      -- BCI
    else if eN = 0xF then pure (.ok c)                                               -- BXI
    else pure (.illegal c)
  else if eI = 0x6 then do                                             -- RLXA
    let v ← readInd c c.s.x
    let c ← setR c eN (t16 (v <<< 8))
    let c ← incR c c.s.x
    let v ← readInd c c.s.x
    let old ← reg c eN
    let c ← setR c eN (t16 (z16 old ||| v))
    let c ← incR c c.s.x
    pure (.ok c)
  else if eI = 0x7 then
    if eN = 0x4 then do                                                -- DADC
      let v ← readInd c c.s.x
      pure (.ok (decimal c (z8 c.s.d + v + z8 c.s.df) 1 true))
    else if eN = 0x6 then do                                           -- DSAV
      let c ← decR c c.s.x
      let c ← writeInd c c.s.x (z8 c.s.t)
      let c ← decR c c.s.x
      let c ← writeInd c c.s.x (z8 c.s.d)
      let c ← decR c c.s.x
      let d := t8 (z8 c.s.d >>> 1)
      let d := t8 (z8 d ||| (z8 c.s.df <<< 7))
      let c := { c with s := { c.s with d := d } }
      let c ← writeInd c c.s.x (z8 c.s.d)
      pure (.ok c)
    else if eN = 0x7 then do                                           -- DSMB
      let v ← readInd c c.s.x
      pure (.ok (decimal c (z8 c.s.d - v - lnot c.s.df) 0 false))
    else if eN = 0xC then do                                           -- DACI
      let c ← do let pc ← getPc c; setPc c (pc + 1)
      let pc ← getPc c
      pure (.ok (decimal c (z8 c.s.d + readRam c (z16 pc) + z8 c.s.df) 1 false))
    else if eN = 0xF then do                                           -- DSBI
      let c ← do let pc ← getPc c; setPc c (pc + 1)
      let pc ← getPc c
      pure (.ok (decimal c (z8 c.s.d - readRam c (z16 pc) - lnot c.s.df) 0 false))
    else pure (.illegal c)
  else if eI = 0x8 then do                                             -- SCAL
    let v ← reg c eN
    let c ← writeInd c c.s.x (z16 v &&& 0xFF)
    let c ← decR c c.s.x
    let v ← reg c eN
    let c ← writeInd c c.s.x ((z16 v &&& 0xFF00) >>> 8)
    let c ← decR c c.s.x
    let pcv ← reg c c.s.p
    let c ← setR c eN pcv
    let v ← readInd c eN
    let c ← setR c c.s.p (t16 (v <<< 8))
    let c ← incR c eN
    let v ← readInd c eN
    let old ← reg c c.s.p
    let c ← setR c c.s.p (t16 (z16 old ||| v))
    let c ← incR c eN
    pure (.ok c)
  else if eI = 0x9 then do                                             -- SRET
    let v ← reg c eN
    let c ← setR c c.s.p v
    let c ← incR c c.s.x
    let v ← readInd c c.s.x
    let c ← setR c eN (t16 (v <<< 8))
    let c ← incR c c.s.x
    let v ← readInd c c.s.x
    let old ← reg c eN
    let c ← setR c eN (t16 (z16 old ||| v))
    pure (.ok c)
  else if eI = 0xA then do                                             -- RSXD
    let v ← reg c eN
    let c ← writeInd c c.s.x (z16 v &&& 0xFF)
    let c ← decR c c.s.x
    let v ← reg c eN
    let c ← writeInd c c.s.x ((z16 v &&& 0xFF00) >>> 8)
    let c ← decR c c.s.x
    pure (.ok c)
  else if eI = 0xB then do                                             -- RNX
    let v ← reg c eN
    let c ← setR c c.s.x v
    pure (.ok c)
  else if eI = 0xC then do                                             -- RLDI
    let c ← do let pc ← getPc c; setPc c (pc + 1)
    let pc ← getPc c
    let c ← setR c eN (t16 (readRam c (z16 pc) <<< 8))
    let c ← do let pc ← getPc c; setPc c (pc + 1)
    let pc ← getPc c
    let old ← reg c eN
    let c ← setR c eN (t16 (z16 old ||| readRam c (z16 pc)))
    pure (.ok c)
  else if eI = 0xF then
    if eN = 0x4 then do                                                -- DADD
      let v ← readInd c c.s.x
      pure (.ok (decimal c (z8 c.s.d + v) 1 false))
    else if eN = 0x7 then do                                           -- DSM
      let v ← readInd c c.s.x
      pure (.ok (decimal c (z8 c.s.d - v) 0 false))
    else if eN = 0xC then do                                           -- DADI
      let c ← do let pc ← getPc c; setPc c (pc + 1)
      let pc ← getPc c
      pure (.ok (decimal c (z8 c.s.d + readRam c (z16 pc)) 1 false))
    else if eN = 0xF then do                                           -- DSMI
      let c ← do let pc ← getPc c; setPc c (pc + 1)
      let pc ← getPc c
      pure (.ok (decimal c (z8 c.s.d - readRam c (z16 pc)) 0 false))
    else pure (.illegal c)
  else pure (.illegal c)

/-- `++PC; x = READ_RAM(PC)`: the immediate operand of the arithmetic / logic immediates -/
def immediate (c : Core) : Chk (Core × W) := do
  let c ← do let pc ← getPc c; setPc c (pc + 1)
  let pc ← getPc c
  pure (c, readRam c (z16 pc))

/-- `case 0x7` (mostly arithmetic) -/
def group7 (c : Core) : Chk R := do
  let n := c.s.n
  let s := c.s
  if n = 0x0 ∨ n = 0x1 then do                                         -- RET / DIS
    let temp ← readInd c s.x
    let c := { c with s := { s with x := t8 ((temp &&& 0xF0) >>> 4), p := t8 (temp &&& 0xF) } }
    let c ← incR c c.s.x
    pure (.ok { c with s := { c.s with mie := if n = 0 then 1 else 0 } })
  else if n = 0x2 then do                                              -- LDXA
    let v ← readInd c s.x
    let c ← incR (setD c v) s.x
    pure (.ok c)
  else if n = 0x3 then do                                              -- STXD
    let c ← writeInd c s.x (z8 s.d)
    let c ← decR c s.x
    pure (.ok c)
  else if n = 0x4 then do                                              -- ADC
    let v ← readInd c s.x
    pure (.ok (arith c (v + z8 s.d + z8 s.df) 1 0))
  else if n = 0x5 then do                                              -- SDB
    let v ← readInd c s.x
    pure (.ok (arith c (v - z8 s.d - lnot s.df) 0 1))
  else if n = 0x6 then                                                 -- SHRC
    let temp := z8 s.d &&& 0x1
    let d := t8 (z8 s.d >>> 1)
    let d := t8 (z8 d ||| (z8 s.df <<< 7))
    pure (.ok { c with s := { s with d := d, df := t8 temp } })
  else if n = 0x7 then do                                              -- SMB
    let v ← readInd c s.x
    pure (.ok (arith c (z8 s.d - v - lnot s.df) 0 1))
  else if n = 0x8 then do                                              -- SAV
    let c ← writeInd c s.x (z8 s.t)
    pure (.ok c)
  else if n = 0x9 then do                                              -- MARK
    let t := t8 ((z8 s.x <<< 4) ||| z8 s.p)
    let c := { c with s := { s with t := t } }
    let c ← writeInd c 0x2 (z8 t)
    let c := { c with s := { c.s with x := c.s.p } }
    let c ← decR c 2
    pure (.ok c)
  else if n = 0xA then pure (.ok { c with s := { s with q := 0 } })    -- REQ
  else if n = 0xB then pure (.ok { c with s := { s with q := 1 } })    -- SEQ
  else if n = 0xC then do                                              -- ADCI
    let (c, v) ← immediate c
    pure (.ok (arith c (v + z8 c.s.d + z8 c.s.df) 1 0))
  else if n = 0xD then do                                              -- SDBI
    let (c, v) ← immediate c
    pure (.ok (arith c (v - z8 c.s.d - lnot c.s.df) 0 1))
  else if n = 0xE then                                                 -- SHLC
    let temp := z8 s.d &&& 0x80
    let d := t8 (z8 s.d <<< 1)
    let d := t8 (z8 d ||| z8 s.df)
    pure (.ok { c with s := { s with d := d, df := t8 temp } })
  else if n = 0xF then do                                              -- SMBI
    let (c, v) ← immediate c
    pure (.ok (arith c (z8 c.s.d - v - lnot c.s.df) 0 1))
  else pure (.illegal c)

/-- `case 0xF` (mostly logic) -/
def groupF (c : Core) : Chk R := do
  let n := c.s.n
  let s := c.s
  if n = 0x0 then do let v ← readInd c s.x; pure (.ok (setD c v))                          -- LDX
  else if n = 0x1 then do let v ← readInd c s.x; pure (.ok (setD c (v ||| z8 s.d)))          -- OR
  else if n = 0x2 then do let v ← readInd c s.x; pure (.ok (setD c (v &&& z8 s.d)))          -- AND
  else if n = 0x3 then do let v ← readInd c s.x; pure (.ok (setD c (v ^^^ z8 s.d)))          -- XOR
  else if n = 0x4 then do let v ← readInd c s.x; pure (.ok (arith c (v + z8 s.d) 1 0))       -- ADD
  else if n = 0x5 then do let v ← readInd c s.x; pure (.ok (arith c (v - z8 s.d) 0 1))       -- SD
  else if n = 0x6 then                                                                       -- SHR
    pure (.ok { c with s := { s with df := t8 (z8 s.d &&& 0x1), d := t8 (z8 s.d >>> 1) } })
  else if n = 0x7 then do let v ← readInd c s.x; pure (.ok (arith c (z8 s.d - v) 0 1))       -- SM
  else if n = 0x8 then do let (c, v) ← immediate c; pure (.ok (setD c v))                    -- LDI
  else if n = 0x9 then do let (c, v) ← immediate c; pure (.ok (setD c (v ||| z8 c.s.d)))     -- ORI
  else if n = 0xA then do let (c, v) ← immediate c; pure (.ok (setD c (v &&& z8 c.s.d)))     -- ANI
  else if n = 0xB then do let (c, v) ← immediate c; pure (.ok (setD c (v ^^^ z8 c.s.d)))     -- XRI
  else if n = 0xC then do let (c, v) ← immediate c; pure (.ok (arith c (v + z8 c.s.d) 1 0))  -- ADI
  else if n = 0xD then do let (c, v) ← immediate c; pure (.ok (arith c (v - z8 c.s.d) 0 1))  -- SDI
  else if n = 0xE then                                                                       -- SHL
    pure (.ok { c with s := { s with df := t8 (z8 s.d &&& 0x80), d := t8 (z8 s.d <<< 1) } })
  else if n = 0xF then do let (c, v) ← immediate c; pure (.ok (arith c (z8 c.s.d - v) 0 1))  -- SMI
  else pure (.illegal c)

/-- `case 0x3` short branch / `case 0xC` long branch and skips -/
def shortBranch (c : Core) : Chk R := do
  let c ← do let pc ← getPc c; setPc c (pc + 1)
  let pc ← getPc c
  let address := t16 (((z16 pc &&& 0xFF00) ||| readRam c (z16 pc)) - 1)
  let n := c.s.n
  let s := c.s
  if n = 0x0 then do let c ← setPc c address; pure (.ok c)
  else if n = 0x1 then do let c ← branchIf c (s.q = 0) address; pure (.ok c)       -- BQ (as written)
  else if n = 0x2 then do let c ← branchIf c (s.d = 0) address; pure (.ok c)
  else if n = 0x3 then do let c ← branchIf c (s.df ≠ 0) address; pure (.ok c)
  else if n = 0x4 ∨ n = 0x5 ∨ n = 0x6 ∨ n = 0x7 ∨ n = 0x8 then pure (.ok c)
  else if n = 0x9 then do let c ← branchIf c (s.q ≠ 0) address; pure (.ok c)
  else if n = 0xA then do let c ← branchIf c (s.d ≠ 0) address; pure (.ok c)
  else if n = 0xB then do let c ← branchIf c (s.df = 0) address; pure (.ok c)
  else if n = 0xC ∨ n = 0xD ∨ n = 0xE ∨ n = 0xF then pure (.ok c)
  else pure (.illegal c)

def longBranch (c : Core) : Chk R := do
  let c ← do let pc ← getPc c; setPc c (pc + 2)
  let pc ← getPc c
  let address := t16 (((readRam c (z16 pc - 1) <<< 8) ||| readRam c (z16 pc)) - 1)
  let n := c.s.n
  let s := c.s
  if n = 0x0 then do let c ← setPc c address; pure (.ok c)
  else if n = 0x1 then do let c ← branchIf c (s.q = 0) address; pure (.ok c)
  else if n = 0x2 then do let c ← branchIf c (s.d = 0) address; pure (.ok c)
  else if n = 0x3 then do let c ← branchIf c (s.df ≠ 0) address; pure (.ok c)
  else if n = 0x4 then do let c ← setPc c (pc - 2); pure (.ok c)                   -- NOP
  else if n = 0x5 then do let c ← skipIf c (s.q = 0); pure (.ok c)
  else if n = 0x6 then do let c ← skipIf c (s.d ≠ 0); pure (.ok c)
  else if n = 0x7 then do let c ← skipIf c (s.df = 0); pure (.ok c)
  else if n = 0x8 then pure (.ok c)                                                -- LSKP
  else if n = 0x9 then do let c ← branchIf c (s.q = 0) address; pure (.ok c)
  else if n = 0xA then do let c ← branchIf c (s.d ≠ 0) address; pure (.ok c)
  else if n = 0xB then do let c ← branchIf c (s.df = 0) address; pure (.ok c)
  else if n = 0xC then do let c ← skipIf c (s.mie ≠ 0); pure (.ok c)
  else if n = 0xD then do let c ← skipIf c (s.q ≠ 0); pure (.ok c)
  else if n = 0xE then do let c ← skipIf c (s.d = 0); pure (.ok c)
  else if n = 0xF then do let c ← skipIf c (s.df ≠ 0); pure (.ok c)
  else pure (.illegal c)

/-- the `switch (REG_I)` -/
def dispatch (c : Core) : Chk R := do
  let i := c.s.i
  let n := c.s.n
  if i = 0x0 then do let v ← readInd c n; pure (.ok (setD c v))                              -- LDN
  else if i = 0x1 then do let c ← incR c n; pure (.ok c)                                     -- INC
  else if i = 0x2 then do let c ← decR c n; pure (.ok c)                                     -- DEC
  else if i = 0x3 then shortBranch c
  else if i = 0x4 then do let v ← readInd c n; let c ← incR (setD c v) n; pure (.ok c)       -- LDA
  else if i = 0x5 then do let c ← writeInd c n (z8 c.s.d); pure (.ok c)                      -- STR
  else if i = 0x6 then
    if n = 0x0 then do let c ← incR c c.s.x; pure (.ok c)                                    -- IRX
    else if n = 0x8 then extended c
    else pure (.ok c)                                                                         -- OUT1..7, IN1..7
  else if i = 0x7 then group7 c
  else if i = 0x8 then do let v ← reg c n; pure (.ok (setD c (z16 v &&& 0xFF)))              -- GLO
  else if i = 0x9 then do let v ← reg c n; pure (.ok (setD c ((z16 v &&& 0xFF00) >>> 8)))    -- GHI
  else if i = 0xA then do                                                                     -- PLO
    let v ← reg c n
    let c ← setR c n (v &&& 0xFF00)
    let v ← reg c n
    let c ← setR c n (t16 (z16 v ||| z8 c.s.d))
    pure (.ok c)
  else if i = 0xB then do                                                                     -- PHI
    let v ← reg c n
    let c ← setR c n (v &&& 0xFF)
    let v ← reg c n
    let c ← setR c n (t16 (z16 v ||| (z8 c.s.d <<< 8)))
    pure (.ok c)
  else if i = 0xC then longBranch c
  else if i = 0xD then pure (.ok { c with s := { c.s with p := n } })                         -- SEP
  else if i = 0xE then pure (.ok { c with s := { c.s with x := n } })                         -- SEX
  else if i = 0xF then groupF c
  else pure (.illegal c)

structure Exe where
  core : Core
  ret : Int

/-- the two table walks that add `cycles * 8` to `cycle_count` -/
def cycles (c : Core) (opcode : BitVec 8) : Chk W :=
  if opcode = 0x68 then do
    let pc ← getPc c
    pure (cyclesOf SimTables.table1802x16 (readRam c (z16 pc + 1)))      -- int _opcode = READ_RAM(PC + 1)
  else pure (cyclesOf SimTables.table1802 (z8 opcode))

/-- the `switch (REG_I)` and what follows it: `return -1` inside, or `++PC; return 0` -/
def finish (c : Core) : Chk Exe := do
  match ← dispatch c with
  | .illegal c => pure { core := c, ret := -1 }
  | .ok c => do
    let pc ← getPc c
    let c ← setPc c (pc + 1)                                            -- ++PC
    pure { core := c, ret := 0 }

/-- `int Simulate1802::operand_exe(int opcode)` for `opcode = READ_RAM(pc)` (0..255) -/
def operandExe (c : Core) (opcode : BitVec 8) : Chk Exe := do
  let c := { c with s := { c.s with n := opcode &&& 0xF, i := (opcode &&& 0xF0) >>> 4 } }
  if opcode = 0x00 then do                                             -- IDL: ++PC; return 0
    let pc ← getPc c
    let c ← setPc c (pc + 1)
    pure { core := c, ret := 0 }
  else do
    let cyc ← cycles c opcode
    finish { c with s := { c.s with cycleCount := c.s.cycleCount + cyc } }

/-- one `run(-1, 1)` in step mode -/
def step (mem : Mem) (s : State) : Chk (StepOut State × Mem × Option (BitVec 8)) :=
  if s.stopRunning then .ok ({ ret := 0, state := s, writes := [] }, mem, none)
  else do
    let c : Core := { s := s, m := { mem := mem, writes := [], brk := none } }
    let pc ← getPc c
    let opcode := mem (z16 pc)
    let e ← operandExe c opcode
    pure ({ ret := e.ret, state := e.core.s, writes := e.core.m.writes }, e.core.m.mem, e.core.m.brk)

/-- `reset()` (as fixed: `flag_etq = 0` too) -/
def reset (s : State) : State :=
  { s with cycleCount := 0, d := 0, b := 0, p := 0, x := 0, t := 0, i := 0, n := 0, r := Vector.replicate 16 0, cntr := 0, cn := 0,
           df := 0, mie := 1, cie := 1, xie := 1, cil := 0, etq := 0, q := 0 }

/-- `set_reg` for the one-letter / two-letter names (the rN names store `value & 0xFFFF` at a constant index 0..15) -/
def setReg (s : State) (name : String) (value : W) : State :=
  if name = "df" then { s with df := t8 (value &&& 1) }
  else if name = "d" then { s with d := t8 (value &&& 0xFF) }
  else if name = "ie" then { s with mie := t8 (value &&& 1) }
  else if name = "q" then { s with q := t8 (value &&& 1) }
  else if name = "p" then { s with p := t8 (value &&& 0xF) }
  else if name = "x" then { s with x := t8 (value &&& 0xF) }
  else if name = "t" then { s with t := t8 (value &&& 0xFF) }
  else if name = "i" then { s with i := t8 (value &&& 0xF) }
  else if name = "n" then { s with n := t8 (value &&& 0xF) }
  else s

end NakenVerif.Sim.C1802
