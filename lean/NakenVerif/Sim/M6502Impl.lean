/-
  Implementation model of simulate/6502.cpp (class Simulate6502, simulate/6502.h), with the length part of
  disasm/6502.cpp that `run` relies on (`reg_pc += disasm_6502(...)`).

  `step` is `run(-1, 1)` in step mode: `opcode = ram_read8(reg_pc)`, `operand_exe(opcode)`, then
  * ret == -1 (BRK, an opcode the table marks M65XX_ERROR, or an addressing mode `calc_address` does not know):
    the loop is left with `break`, `run` prints "Stopped" and RETURNS 0 (the "Illegal instruction" test below it is
    unreachable),
  * ret == 0: `reg_pc += disasm_6502(memory, pc, ...)` — the length is taken from the disassembler, which re-reads
    the opcode byte from memory AFTER the instruction has executed (an instruction that overwrites its own opcode
    is measured by the new byte; if that is an M65XX_ERROR byte the length is 0),
  * ret == 1: a taken branch / jump / return set `reg_pc` itself.

  Representation.
  * `int reg_a, reg_x, reg_y, reg_sr, reg_pc, reg_sp`, `int cycle_count` and every local are `BitVec 32`
    (two's complement; `>`/`>=`/`/`/`%`/`>>` are the signed C operations).
  * `table_6502_opcodes[opcode]` is the regenerated 256-row table read through `tbl` (fault outside it), and
    `disasm_6502`'s return value is the regenerated `disasm6502Len[first byte]` (what the real function returned for
    each of the 256 first bytes when the translator ran: `op_bytes[op]`, or 0).
  * Memory is the total `Mem`; `ram_read8` with no serial device is `memory->read8` (address converted to `uint32_t`);
    `ram_write8` records the write and, when the address equals `break_io`, the exit status (`brk`).
  * Statics / hidden inputs.  `run` does NOT clear the static `Simulate::stop_running`: it is an input (field
    `stopRunning`); when set the loop is not entered and `run` returns 0 without executing.  `serial_in/out` are null
    (no `init_serial`), `break_point` is -1 after `reset` (compared with `reg_pc`: equal only for reg_pc = -1, where `run`
    returns 0 through the "Breakpoint hit" break instead of the `step` return — same value), `auto_run` is false.
    Uninitialised locals of `operand_exe` (`temp`, `pc_lo`, `pc_hi`) are assigned before use in their cases.
    `show` selects the display loop: `char bytes[16]` receives `count` ≤ 3 items of 3 characters (`disLen_le_3`).
-/
import NakenVerif.Sim.Common
import NakenVerif.Generated.SimTables

namespace NakenVerif.Sim.M6502
open NakenVerif.Sim NakenVerif.Generated

/-- C `int` -/
scoped notation "W" => BitVec 32

structure State where
  a : W
  x : W
  y : W
  sr : W
  pc : W
  sp : W
  cycleCount : W
  breakIo : W
  stopRunning : Bool
  showOn : Bool

/-- memory with the write log and the `exit()` status of the first write that hit `break_io` -/
structure MemB where
  mem : Mem
  writes : List (BitVec 32 × BitVec 8)
  brk : Option (BitVec 8)

@[inline] def z8 (v : BitVec 8) : W := v.zeroExtend 32
/-- `ram_read8(int address)` -/
@[inline] def rd (m : MemB) (a : W) : W := z8 (m.mem a)
/-- `ram_write8(address, int data)`: data is narrowed to `uint8_t` -/
def wr (bio : W) (m : MemB) (a : W) (d : W) : MemB :=
  { mem := m.mem.write8 a (d.truncate 8), writes := m.writes ++ [(a, d.truncate 8)],
    brk := if m.brk.isNone ∧ a = bio then some (d.truncate 8) else m.brk }

/-! ### status register macros -/
def flagC : W := 0
def flagZ : W := 1
def flagI : W := 2
def flagD : W := 3
def flagV : W := 6
def flagN : W := 7

/-- `READ_FLAG(a)` / `READ_BIT(dst, a)` : 1 or 0 -/
def readBit (dst a : W) : W := if dst &&& ((1 : W) <<< a) ≠ 0 then 1 else 0
/-- `FLAG(condition, flag)` -/
def flag (sr : W) (c : Bool) (f : W) : W := if c then sr ||| ((1 : W) <<< f) else sr &&& ~~~((1 : W) <<< f)
/-- `x > 127` on `int` -/
def gt127 (v : W) : Bool := (127 : W).slt v
def nz (sr v : W) : W := flag (flag sr (gt127 v) flagN) (v = 0) flagZ

/-! ### addressing -/
def mode (n : Nat) : W := BitVec.ofNat 32 n

/-- `int calc_address(int address, int mode)`; -1 for the modes it does not know -/
def calcAddress (s : State) (m : MemB) (address md : W) : W :=
  let lo := rd m address
  let hi := rd m ((address + 1) &&& 0xFFFF)
  if md = mode SimTables.M6502_OP_NONE then address
  else if md = mode SimTables.M6502_OP_IMMEDIATE then address
  else if md = mode SimTables.M6502_OP_ADDRESS8 then lo &&& 0xFF
  else if md = mode SimTables.M6502_OP_ADDRESS16 then lo ||| (hi <<< 8)
  else if md = mode SimTables.M6502_OP_INDEXED8_X then (lo + s.x) &&& 0xFF
  else if md = mode SimTables.M6502_OP_INDEXED8_Y then (lo + s.y) &&& 0xFFFF
  else if md = mode SimTables.M6502_OP_INDEXED16_X then ((lo ||| (hi <<< 8)) + s.x) &&& 0xFFFF
  else if md = mode SimTables.M6502_OP_INDEXED16_Y then ((lo ||| (hi <<< 8)) + s.y) &&& 0xFFFF
  else if md = mode SimTables.M6502_OP_INDIRECT16 then
    let indirect := (lo ||| (hi <<< 8)) &&& 0xFFFF
    rd m indirect ||| ((rd m ((indirect + 1) &&& 0xFFFF) <<< 8) &&& 0xFFFF)
  else if md = mode SimTables.M6502_OP_X_INDIRECT8 then
    let indirect := (rd m (lo + s.x) &&& 0xFF) ||| (rd m ((lo + 1 + s.x) &&& 0xFF) <<< 8)
    indirect &&& 0xFFFF
  else if md = mode SimTables.M6502_OP_INDIRECT8_Y then
    let indirect := rd m lo ||| (rd m ((lo + 1) &&& 0xFF) <<< 8)
    (indirect + s.y) &&& 0xFFFF
  else if md = mode SimTables.M6502_OP_RELATIVE then
    (address + (((m.mem address).signExtend 32) + 1)) &&& 0xFFFF
  else 0xFFFFFFFF

/-! ### the `switch (opcode)` of `operand_exe` -/
inductive Cls where
  | adc | and | asl | bcc | bcs | beq | bmi | bne | bpl | bvc | bvs | brk | bit | clc | cld | cli | clv | cmp | cpx | cpy
  | dec | dex | dey | eor | inc | inx | iny | jmp | jsr | lda | ldx | ldy | lsr | nop | ora | pha | php | pla | plp | rol | ror
  | rti | rts | sbc | sec | sed | sei | sta | stx | sty | tax | tay | tsx | txa | txs | tya | none
  deriving DecidableEq, Repr

def inList (o : BitVec 8) (l : List (BitVec 8)) : Bool := l.contains o

/-- the case labels -/
def classOf (o : BitVec 8) : Cls :=
  if inList o [0x61, 0x65, 0x69, 0x6D, 0x71, 0x75, 0x79, 0x7D] then .adc
  else if inList o [0x21, 0x25, 0x29, 0x2D, 0x31, 0x35, 0x39, 0x3D] then .and
  else if inList o [0x06, 0x0A, 0x0E, 0x16, 0x1E] then .asl
  else if o = 0x90 then .bcc else if o = 0xB0 then .bcs else if o = 0xF0 then .beq else if o = 0x30 then .bmi
  else if o = 0xD0 then .bne else if o = 0x10 then .bpl else if o = 0x50 then .bvc else if o = 0x70 then .bvs
  else if o = 0x00 then .brk
  else if inList o [0x24, 0x2C] then .bit
  else if o = 0x18 then .clc else if o = 0xD8 then .cld else if o = 0x58 then .cli else if o = 0xB8 then .clv
  else if inList o [0xC1, 0xC5, 0xC9, 0xCD, 0xD1, 0xD5, 0xD9, 0xDD] then .cmp
  else if inList o [0xE0, 0xE4, 0xEC] then .cpx
  else if inList o [0xC0, 0xC4, 0xCC] then .cpy
  else if inList o [0xC6, 0xCE, 0xD6, 0xDE] then .dec
  else if o = 0xCA then .dex else if o = 0x88 then .dey
  else if inList o [0x41, 0x45, 0x49, 0x4D, 0x51, 0x55, 0x59, 0x5D] then .eor
  else if inList o [0xE6, 0xEE, 0xF6, 0xFE] then .inc
  else if o = 0xE8 then .inx else if o = 0xC8 then .iny
  else if inList o [0x4C, 0x6C] then .jmp
  else if o = 0x20 then .jsr
  else if inList o [0xA1, 0xA5, 0xA9, 0xAD, 0xB1, 0xB5, 0xB9, 0xBD] then .lda
  else if inList o [0xA2, 0xA6, 0xAE, 0xB6, 0xBE] then .ldx
  else if inList o [0xA0, 0xA4, 0xAC, 0xB4, 0xBC] then .ldy
  else if inList o [0x46, 0x4A, 0x4E, 0x56, 0x5E] then .lsr
  else if o = 0xEA then .nop
  else if inList o [0x01, 0x05, 0x09, 0x0D, 0x11, 0x15, 0x19, 0x1D] then .ora
  else if o = 0x48 then .pha else if o = 0x08 then .php else if o = 0x68 then .pla else if o = 0x28 then .plp
  else if inList o [0x26, 0x2A, 0x2E, 0x36, 0x3E] then .rol
  else if inList o [0x66, 0x6A, 0x6E, 0x76, 0x7E] then .ror
  else if o = 0x40 then .rti else if o = 0x60 then .rts
  else if inList o [0xE1, 0xE5, 0xE9, 0xED, 0xF1, 0xF5, 0xF9, 0xFD] then .sbc
  else if o = 0x38 then .sec else if o = 0xF8 then .sed else if o = 0x78 then .sei
  else if inList o [0x81, 0x85, 0x8D, 0x91, 0x95, 0x99, 0x9D] then .sta
  else if inList o [0x86, 0x8E, 0x96] then .stx
  else if inList o [0x84, 0x8C, 0x94] then .sty
  else if o = 0xAA then .tax else if o = 0xA8 then .tay else if o = 0xBA then .tsx else if o = 0x8A then .txa
  else if o = 0x9A then .txs else if o = 0x98 then .tya
  else .none

/-- result of `operand_exe`: return value -1 / 0 / 1 -/
structure Exe where
  state : State
  mem : MemB
  ret : Int

@[inline] def r0 (s : State) (m : MemB) : Exe := { state := s, mem := m, ret := 0 }
@[inline] def r1 (s : State) (m : MemB) : Exe := { state := s, mem := m, ret := 1 }

/-- `reg_sp--; reg_sp &= 0xFF;` / `reg_sp++; reg_sp &= 0xFF;` -/
def spDec (sp : W) : W := (sp - 1) &&& 0xFF
def spInc (sp : W) : W := (sp + 1) &&& 0xFF

def bcd (v : W) : W := (v &&& 15) + 10 * (v.sshiftRight 4)

/-- compare (CMP / CPX / CPY): `temp = reg - m; FLAG(temp >= 0, c); temp &= 0xFF; n, z` -/
def compare (sr reg m : W) : W :=
  let temp := reg - m
  let sr := flag sr (¬ temp.slt 0) flagC
  nz sr (temp &&& 0xFF)

/-- a taken / not taken conditional branch -/
def branch (s : State) (m : MemB) (taken : Bool) (address : W) : Exe :=
  if taken then r1 { s with pc := address } m else r0 s m

/-- the body of the `switch`, after `cycle_count += cycles_min` -/
def execCls (c : Cls) (s : State) (mb : MemB) (md address m : W) : Exe :=
  let tempA := s.a
  let C := readBit s.sr flagC
  match c with
  | .adc =>
    let (a, sr) :=
      if readBit s.sr flagD ≠ 0 then
        let result := bcd s.a + bcd m + C
        let sr := flag s.sr ((99 : W).slt result) flagC
        let result := result.srem 100
        (result.srem 10 + ((result.sdiv 10) <<< 4), sr)
      else
        let a := s.a + (m + C)
        (a, flag s.sr ((255 : W).slt a) flagC)
    let a := a &&& 0xFF
    let sr := flag sr ((tempA ^^^ a) &&& (m ^^^ a) &&& 0x80 ≠ 0) flagV
    r0 { s with a := a, sr := nz sr a } mb
  | .and => let a := s.a &&& m; r0 { s with a := a, sr := nz s.sr a } mb
  | .asl =>
    if md = mode SimTables.M6502_OP_NONE then
      let sr := flag s.sr (readBit s.a 7 ≠ 0) flagC
      let a := (s.a <<< 1) &&& 0xFF
      r0 { s with a := a, sr := nz sr a } mb
    else
      let sr := flag s.sr (readBit m 7 ≠ 0) flagC
      let m := (m <<< 1) &&& 0xFF
      r0 { s with sr := nz sr m } (wr s.breakIo mb address m)
  | .bcc => branch s mb (C = 0) address
  | .bcs => branch s mb (C = 1) address
  | .beq => branch s mb (readBit s.sr flagZ = 1) address
  | .bmi => branch s mb (readBit s.sr flagN = 1) address
  | .bne => branch s mb (readBit s.sr flagZ = 0) address
  | .bpl => branch s mb (readBit s.sr flagN = 0) address
  | .bvc => branch s mb (readBit s.sr flagV = 0) address
  | .bvs => branch s mb (readBit s.sr flagV = 1) address
  | .brk => { state := s, mem := mb, ret := -1 }
  | .bit =>
    let sr := flag s.sr (s.a &&& m = 0) flagZ
    let sr := flag sr (readBit m 6 ≠ 0) flagV
    r0 { s with sr := flag sr (readBit m 7 ≠ 0) flagN } mb
  | .clc => r0 { s with sr := flag s.sr false flagC } mb
  | .cld => r0 { s with sr := flag s.sr false flagD } mb
  | .cli => r0 { s with sr := flag s.sr false flagI } mb
  | .clv => r0 { s with sr := flag s.sr false flagV } mb
  | .cmp => r0 { s with sr := compare s.sr s.a m } mb
  | .cpx => r0 { s with sr := compare s.sr s.x m } mb
  | .cpy => r0 { s with sr := compare s.sr s.y m } mb
  | .dec => let temp := (m - 1) &&& 0xFF; r0 { s with sr := nz s.sr temp } (wr s.breakIo mb address temp)
  | .dex => let x := (s.x - 1) &&& 0xFF; r0 { s with x := x, sr := nz s.sr x } mb
  | .dey => let y := (s.y - 1) &&& 0xFF; r0 { s with y := y, sr := nz s.sr y } mb
  | .eor => let a := s.a ^^^ m; r0 { s with a := a, sr := nz s.sr a } mb
  | .inc => let temp := (m + 1) &&& 0xFF; r0 { s with sr := nz s.sr temp } (wr s.breakIo mb address temp)
  | .inx => let x := (s.x + 1) &&& 0xFF; r0 { s with x := x, sr := nz s.sr x } mb
  | .iny => let y := (s.y + 1) &&& 0xFF; r0 { s with y := y, sr := nz s.sr s.x } mb      -- as written: flags from reg_x
  | .jmp => r1 { s with pc := address } mb
  | .jsr =>
    let mb := wr s.breakIo mb (0x100 + s.sp) ((s.pc + 2).sdiv 256)
    let sp := spDec s.sp
    let mb := wr s.breakIo mb (0x100 + sp) ((s.pc + 2) &&& 0xFF)
    r1 { s with sp := spDec sp, pc := address } mb
  | .lda => r0 { s with a := m, sr := nz s.sr m } mb
  | .ldx => r0 { s with x := m, sr := flag (flag s.sr (m = 0) flagZ) (gt127 m) flagN } mb
  | .ldy => r0 { s with y := m, sr := flag (flag s.sr (m = 0) flagZ) (gt127 m) flagN } mb
  | .lsr =>
    if md = mode SimTables.M6502_OP_NONE then
      let sr := flag s.sr (readBit s.a 0 ≠ 0) flagC
      let a := (s.a.sshiftRight 1) &&& ~~~((1 : W) <<< 7)
      r0 { s with a := a, sr := nz sr a } mb
    else
      let sr := flag s.sr (readBit m 0 ≠ 0) flagC
      let m := (m.sshiftRight 1) &&& ~~~((1 : W) <<< 7)
      r0 { s with sr := nz sr m } (wr s.breakIo mb address m)
  | .nop => r0 s mb
  | .ora => let a := s.a ||| m; r0 { s with a := a, sr := nz s.sr a } mb
  | .pha => r0 { s with sp := spDec s.sp } (wr s.breakIo mb (0x100 + s.sp) s.a)
  | .php => r0 { s with sp := spDec s.sp } (wr s.breakIo mb (0x100 + s.sp) s.sr)
  | .pla => let sp := spInc s.sp; r0 { s with sp := sp, a := rd mb (0x100 + sp) } mb
  | .plp => let sp := spInc s.sp; r0 { s with sp := sp, sr := rd mb (0x100 + sp) } mb
  | .rol =>
    if md = mode SimTables.M6502_OP_NONE then
      let temp := C
      let sr := flag s.sr (readBit s.a 7 ≠ 0) flagC
      let a := ((s.a <<< 1) ||| temp) &&& 0xFF
      r0 { s with a := a, sr := nz sr a } mb
    else
      let temp := C
      let sr := flag s.sr (readBit m 7 ≠ 0) flagC
      let m := ((m <<< 1) ||| temp) &&& 0xFF
      r0 { s with sr := nz sr m } (wr s.breakIo mb address m)
  | .ror =>
    if md = mode SimTables.M6502_OP_NONE then
      let temp := readBit s.a 0
      let a := (s.a.sshiftRight 1) ||| (C <<< 7)
      let sr := flag s.sr (temp ≠ 0) flagC
      r0 { s with a := a, sr := nz sr a } mb
    else
      let temp := readBit m 0
      let m := (m.sshiftRight 1) ||| (C <<< 7)
      let sr := flag s.sr (temp ≠ 0) flagC
      r0 { s with sr := nz sr m } (wr s.breakIo mb address m)
  | .rti =>
    let sp := spInc s.sp
    let sr := rd mb (0x100 + sp)
    let sp := spInc sp
    let pcLo := rd mb (0x100 + sp)
    let sp := spInc sp
    let pcHi := rd mb (0x100 + sp)
    r1 { s with sp := sp, sr := sr, pc := (pcLo + 256 * pcHi) + 1 } mb
  | .rts =>
    let sp := spInc s.sp
    let pcLo := rd mb (0x100 + sp)
    let sp := spInc sp
    let pcHi := rd mb (0x100 + sp)
    r1 { s with sp := sp, pc := (pcLo + 256 * pcHi) + 1 } mb
  | .sbc =>
    let (a, sr) :=
      if readBit s.sr flagD ≠ 0 then
        let result := bcd s.a - bcd m - (1 - C)
        let sr := flag s.sr (¬ result.slt 0) flagC
        let result := result.srem 100
        (result.srem 10 + ((result.sdiv 10) <<< 4), sr)
      else
        let a := s.a - (m - (1 - C))
        (a, flag s.sr (¬ a.slt 0) flagC)
    let a := a &&& 0xFF
    let sr := flag sr ((tempA ^^^ a) &&& (m ^^^ a) &&& 0x80 ≠ 0) flagV
    r0 { s with a := a, sr := nz sr a } mb
  | .sec => r0 { s with sr := flag s.sr true flagC } mb
  | .sed => r0 { s with sr := flag s.sr true flagD } mb
  | .sei => r0 { s with sr := flag s.sr true flagI } mb
  | .sta => r0 s (wr s.breakIo mb address s.a)
  | .stx => r0 s (wr s.breakIo mb address s.x)
  | .sty => r0 s (wr s.breakIo mb address s.y)
  | .tax => r0 { s with x := s.a, sr := flag (flag s.sr (s.a = 0) flagZ) (gt127 m) flagN } mb
  | .tay => r0 { s with y := s.a, sr := flag (flag s.sr (s.a = 0) flagZ) (gt127 m) flagN } mb
  | .tsx => r0 { s with x := s.sp, sr := flag (flag s.sr (s.sp = 0) flagZ) (gt127 m) flagN } mb
  | .txa => r0 { s with a := s.x, sr := nz s.sr s.x } mb
  | .txs => r0 { s with sp := s.x } mb
  | .tya => r0 { s with a := s.y, sr := nz s.sr s.y } mb
  | .none => r0 s mb

/-- `int Simulate6502::operand_exe(int opcode)` for `opcode = ram_read8(pc)` (so 0 ≤ opcode ≤ 0xFF) -/
def operandExe (s : State) (mb : MemB) (opcode : BitVec 8) : Chk Exe := do
  let row ← tbl "table_6502_opcodes" SimTables.table6502Opcodes (z8 opcode)
  let md := mode row.op
  if row.instr = SimTables.M65XX_ERROR then
    pure { state := s, mem := mb, ret := -1 }
  else
    let address := calcAddress s mb (s.pc + 1) md
    if address = 0xFFFFFFFF then
      pure { state := s, mem := mb, ret := -1 }
    else
      let m := rd mb address
      let s := { s with cycleCount := s.cycleCount + BitVec.ofNat 32 row.cyclesMin }
      pure (execCls (classOf opcode) s mb md address m)

/-- return value of `disasm_6502(memory, pc, ...)`: depends on the byte at `pc` only -/
def disLen (m : Mem) (pc : W) : Chk W :=
  tbl "disasm_6502 length" SimTables.disasm6502Len (z8 (m pc))

/-- one `run(-1, 1)` in step mode; `run` returns 0 on every path (BRK / illegal leave the loop with `break`) -/
def step (mem : Mem) (s : State) : Chk (StepOut State × Mem × Option (BitVec 8)) :=
  if s.stopRunning then .ok ({ ret := 0, state := s, writes := [] }, mem, none)
  else do
    let pc := s.pc
    let opcode := mem pc                                       -- ram_read8(pc)
    let e ← operandExe s { mem := mem, writes := [], brk := none } opcode
    if e.ret = 0 then do
      let len ← disLen e.mem.mem pc
      pure ({ ret := 0, state := { e.state with pc := e.state.pc + len }, writes := e.mem.writes }, e.mem.mem, e.mem.brk)
    else
      pure ({ ret := 0, state := e.state, writes := e.mem.writes }, e.mem.mem, e.mem.brk)

/-- `reset()` -/
def reset (s : State) (org : W) : State :=
  { s with cycleCount := 0, a := 0, x := 0, y := 0, sr := 0, pc := org, sp := 0xFF }

def setPc (s : State) (value : W) : State := { s with pc := value }

/-- `set_reg`: the first letters select the register (a / x / y / sr / pc / sp), anything else is refused -/
def setReg (s : State) (name : String) (value : W) : State :=
  if name = "a" then { s with a := value &&& 0xFF }
  else if name = "x" then { s with x := value &&& 0xFF }
  else if name = "y" then { s with y := value &&& 0xFF }
  else if name = "sr" then { s with sr := value &&& 0xFF }
  else if name = "pc" then { s with pc := value &&& 0xFFFF }
  else if name = "sp" then { s with sp := value &&& 0xFF }
  else s

/-- public `push(uint32_t value)` -/
def pushApi (s : State) (mb : MemB) (value : W) : State × MemB :=
  ({ s with sp := spDec s.sp }, wr s.breakIo mb (0x100 + s.sp) (value &&& 0xFF))

end NakenVerif.Sim.M6502
