/-
  Shared pieces of the simulator step models (C15): checked C arrays, the sparse `Memory` image,
  the outcome of one `run(-1, 1)` call.

  `Chk α` is the result of a computation that indexes C arrays: every access goes through
  `arr` / `arrSet` / `tbl`, which compare the index with the real capacity of the array and
  produce `fault` where the C++ would read or write outside it.  The safety theorems say that
  `fault` is unreachable from states satisfying the simulator's own invariant.
-/
namespace NakenVerif.Sim

inductive Chk (α : Type) where
  | ok : α → Chk α
  | fault : String → Chk α
  deriving Repr

namespace Chk
@[inline] def bind {α β : Type} (x : Chk α) (f : α → Chk β) : Chk β :=
  match x with
  | ok a => f a
  | fault w => fault w

instance : Monad Chk where
  pure := ok
  bind := bind

def isOk {α : Type} : Chk α → Bool
  | ok _ => true
  | fault _ => false

@[simp] theorem bind_ok {α β : Type} (a : α) (f : α → Chk β) : (ok a >>= f) = f a := rfl
@[simp] theorem bind_fault {α β : Type} (w : String) (f : α → Chk β) : ((fault w : Chk α) >>= f) = fault w := rfl
@[simp] theorem pure_eq {α : Type} (a : α) : (pure a : Chk α) = ok a := rfl
end Chk

/-- read of a C array `T a[n]` at a computed `int` index (two's complement: a negative index is ≥ 2^31) -/
def arr {n : Nat} {α : Type} (what : String) (a : Vector α n) (i : BitVec 32) : Chk α :=
  if h : i.toNat < n then .ok a[i.toNat] else .fault what

/-- write of a C array element -/
def arrSet {n : Nat} {α : Type} (what : String) (a : Vector α n) (i : BitVec 32) (v : α) : Chk (Vector α n) :=
  if h : i.toNat < n then .ok (a.set i.toNat v) else .fault what

/-- read of a constant table whose size is whatever the regenerated table has -/
def tbl {α : Type} (what : String) (a : Array α) (i : BitVec 32) : Chk α :=
  match a[i.toNat]? with
  | some v => .ok v
  | none => .fault what

/-- C `x << n` on `int`: undefined for n ≥ 32 (n < 0 is n ≥ 2^31 here) -/
def shl32 (what : String) (x n : BitVec 32) : Chk (BitVec 32) :=
  if n.toNat < 32 then .ok (x <<< n) else .fault what

theorem arr_ok {n : Nat} {α : Type} (what : String) (a : Vector α n) (i : BitVec 32) (h : i.toNat < n) :
    arr what a i = .ok a[i.toNat] := by
  unfold arr; simp [h]

theorem arrSet_ok {n : Nat} {α : Type} (what : String) (a : Vector α n) (i : BitVec 32) (v : α) (h : i.toNat < n) :
    arrSet what a i v = .ok (a.set i.toNat v) := by
  unfold arrSet; simp [h]

/-! ### `Memory` (core/Memory.cpp): total over 32-bit addresses, a byte never written reads 0 -/

abbrev Mem := BitVec 32 → BitVec 8

def Mem.write8 (m : Mem) (a : BitVec 32) (v : BitVec 8) : Mem := fun x => if x = a then v else m x

/-- `Memory::read16`, little endian -/
def Mem.read16le (m : Mem) (a : BitVec 32) : BitVec 16 :=
  (m a).zeroExtend 16 ||| ((m (a + 1)).zeroExtend 16 <<< 8)

/-- `Memory::read16`, big endian -/
def Mem.read16be (m : Mem) (a : BitVec 32) : BitVec 16 :=
  ((m a).zeroExtend 16 <<< 8) ||| (m (a + 1)).zeroExtend 16

/-- memory plus the list of `Memory::write8` calls (address, byte), oldest first -/
structure MemW where
  mem : Mem
  writes : List (BitVec 32 × BitVec 8)

def MemW.write8 (m : MemW) (a : BitVec 32) (v : BitVec 8) : MemW :=
  { mem := m.mem.write8 a v, writes := m.writes ++ [(a, v)] }

/-- outcome of `run(-1, 1)` in step mode: return value (0 executed / stopped, -1 illegal) and the state -/
structure StepOut (σ : Type) where
  ret : Int
  state : σ
  writes : List (BitVec 32 × BitVec 8)

end NakenVerif.Sim
