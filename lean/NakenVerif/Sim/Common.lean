/-
  Shared pieces of the simulator step models (C15): checked C arrays, the sparse `Memory` image,
  the outcome of one `run(-1, 1)` call.

  `Chk α` is the result of a computation that indexes C arrays: every access goes through
  `arr` / `arrSet` / `tbl`, which compare the index with the real capacity of the array and
  produce `fault` where the C++ would read or write outside it.  The safety theorems say that
  `fault` is unreachable from states satisfying the simulator's own invariant.
-/
namespace NakenVerif.Sim

inductive Chk (α : Type) where
  | ok : α → Chk α
  | fault : String → Chk α
  deriving Repr

namespace Chk
@[inline] def bind {α β : Type} (x : Chk α) (f : α → Chk β) : Chk β :=
  match x with
  | ok a => f a
  | fault w => fault w

instance : Monad Chk where
  pure := ok
  bind := bind

def isOk {α : Type} : Chk α → Bool
  | ok _ => true
  | fault _ => false

@[simp] theorem bind_ok {α β : Type} (a : α) (f : α → Chk β) : (ok a >>= f) = f a := rfl
@[simp] theorem bind_fault {α β : Type} (w : String) (f : α → Chk β) : ((fault w : Chk α) >>= f) = fault w := rfl
@[simp] theorem pure_eq {α : Type} (a : α) : (pure a : Chk α) = ok a := rfl
end Chk

/-- read of a C array `T a[n]` at a computed `int` index (two's complement: a negative index is ≥ 2^31) -/
def arr {n : Nat} {α : Type} (what : String) (a : Vector α n) (i : BitVec 32) : Chk α :=
  if h : i.toNat < n then .ok a[i.toNat] else .fault what

/-- write of a C array element -/
def arrSet {n : Nat} {α : Type} (what : String) (a : Vector α n) (i : BitVec 32) (v : α) : Chk (Vector α n) :=
  if h : i.toNat < n then .ok (a.set i.toNat v) else .fault what

/-- read of a constant table whose size is whatever the regenerated table has -/
def tbl {α : Type} (what : String) (a : Array α) (i : BitVec 32) : Chk α :=
  match a[i.toNat]? with
  | some v => .ok v
  | none => .fault what

/-- C `x << n` on `int`: undefined for n ≥ 32 (n < 0 is n ≥ 2^31 here) -/
def shl32 (what : String) (x n : BitVec 32) : Chk (BitVec 32) :=
  if n.toNat < 32 then .ok (x <<< n) else .fault what

theorem arr_ok {n : Nat} {α : Type} (what : String) (a : Vector α n) (i : BitVec 32) (h : i.toNat < n) :
    arr what a i = .ok a[i.toNat] := by
  unfold arr; simp [h]

theorem arrSet_ok {n : Nat} {α : Type} (what : String) (a : Vector α n) (i : BitVec 32) (v : α) (h : i.toNat < n) :
    arrSet what a i v = .ok (a.set i.toNat v) := by
  unfold arrSet; simp [h]

theorem toNat_lt_of_lt {w : Nat} (a b : BitVec w) (h : a < b) : a.toNat < b.toNat := BitVec.lt_def.mp h

/-- a bind whose first part succeeds with a value satisfying `P` -/
theorem Chk.bind_of {α β : Type} {x : Chk α} {k : α → Chk β} {P : α → Prop} (Q : Chk β → Prop)
    (hx : ∃ a, x = .ok a ∧ P a) (hk : ∀ a, P a → Q (k a)) : Q (x >>= k) := by
  obtain ⟨a, ha, hp⟩ := hx
  rw [ha]; exact hk a hp

theorem Chk.ite_of {β : Type} (Q : Chk β → Prop) {c : Prop} [Decidable c] {a b : Chk β} (ha : c → Q a) (hb : ¬ c → Q b) :
    Q (if c then a else b) := by
  by_cases hc : c
  · rw [if_pos hc]; exact ha hc
  · rw [if_neg hc]; exact hb hc

/-! ### `Memory` (core/Memory.cpp): total over 32-bit addresses, a byte never written reads 0 -/

abbrev Mem := BitVec 32 → BitVec 8

def Mem.write8 (m : Mem) (a : BitVec 32) (v : BitVec 8) : Mem := fun x => if x = a then v else m x

/-- `Memory::read16`, little endian -/
def Mem.read16le (m : Mem) (a : BitVec 32) : BitVec 16 :=
  (m a).zeroExtend 16 ||| ((m (a + 1)).zeroExtend 16 <<< 8)

/-- `Memory::read16`, big endian -/
def Mem.read16be (m : Mem) (a : BitVec 32) : BitVec 16 :=
  ((m a).zeroExtend 16 <<< 8) ||| (m (a + 1)).zeroExtend 16

/-- memory plus the list of `Memory::write8` calls (address, byte), oldest first -/
structure MemW where
  mem : Mem
  writes : List (BitVec 32 × BitVec 8)

def MemW.write8 (m : MemW) (a : BitVec 32) (v : BitVec 8) : MemW :=
  { mem := m.mem.write8 a v, writes := m.writes ++ [(a, v)] }

/-- `l` extends `base` only by writes below `bound` -/
def WOK (bound : BitVec 32) (base l : List (BitVec 32 × BitVec 8)) : Prop := ∀ w ∈ l, w ∈ base ∨ w.1 < bound

theorem WOK.refl (bound : BitVec 32) (b : List (BitVec 32 × BitVec 8)) : WOK bound b b := fun _ h => Or.inl h

theorem WOK.write8 (bound : BitVec 32) (base : List (BitVec 32 × BitVec 8)) (m : MemW) (a : BitVec 32) (v : BitVec 8)
    (h : WOK bound base m.writes) (ha : a < bound) : WOK bound base (m.write8 a v).writes := by
  intro w hw
  unfold MemW.write8 at hw
  simp only [List.mem_append, List.mem_cons, List.not_mem_nil, or_false] at hw
  rcases hw with hw | hw
  · exact h w hw
  · right; rw [hw]; exact ha

/-- outcome of `run(-1, 1)` in step mode: return value (0 executed / stopped, -1 illegal) and the state -/
structure StepOut (σ : Type) where
  ret : Int
  state : σ
  writes : List (BitVec 32 × BitVec 8)

end NakenVerif.Sim
