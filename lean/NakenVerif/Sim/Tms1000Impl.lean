/-
  Implementation model of simulate/tms1000.cpp (class SimulateTms1000, simulate/tms1000.h).

  `step` is `run(-1, 1)` in step mode (what naken_util's `step` command and the harness call):
  one iteration of the `while (stop_running == false)` loop.  `execute` mirrors
  `SimulateTms1000::execute` branch by branch, `incrementPc` is `increment_pc`.

  Representation.
  * `uint8_t pc, pa, pb, cl, sr, s_flag, reg_a, reg_x, reg_y, o_pins, k_pins` are `BitVec 8`,
    `uint16_t r_pins` is `BitVec 16`, `int cycle_count` is `BitVec 32` (two's complement wrap; the C
    addition overflows only after 2^31/6 steps).  Integer promotion: every operand is widened to
    `BitVec 32` (`z`), results are narrowed on assignment (`t8`).
  * `uint8_t ram[64]` is a `Vector (BitVec 8) 64`; `ram[xy]` with `const int xy = reg_x << 4 | reg_y`
    goes through `arr`/`arrSet` (fault when `xy ≥ 64`).
  * `tms1000_reverse_constant[]`, `tms1000_reverse_bit_address[]`, `tms1000_lsfr_to_address[]` are the
    regenerated arrays of `Generated/SimTables.lean`, read through `tbl` (fault outside the table).
  * `1 << n` goes through `shl32` (fault when the shift count is ≥ 32).
  * Statics / hidden inputs.  `Simulate::stop_running` (static, shared by all simulator objects) is
    the field `stopRunning`: `run` clears it before the loop, so the step does not depend on its old
    value.  `show` selects the register/disassembly display, which reads
    `tms1000_lsfr_to_address[pc_current]` for ten successive `increment_pc` values; `showLoop`
    models those ten table reads (`disasm_tms1000` returns 1 on every path, so `n` counts to 10).
    `break_point` stays at its constructor value -1 (never equal to `pa`), `auto_run` is false in step
    mode, `usec`/`max_cycles` are not read before the `step == 1` return.  The only uninitialised
    locals of `run`/`execute` (`ret`, `pc_current`, `n`, `temp`, `instruction`) are assigned before use
    on every path.
-/
import NakenVerif.Sim.Common
import NakenVerif.Generated.SimTables

namespace NakenVerif.Sim.Tms1000
open NakenVerif.Sim
open NakenVerif.Generated

structure State where
  pc : BitVec 8
  pa : BitVec 8
  pb : BitVec 8
  cl : BitVec 8
  sr : BitVec 8
  sFlag : BitVec 8
  a : BitVec 8
  x : BitVec 8
  y : BitVec 8
  ram : Vector (BitVec 8) 64
  rPins : BitVec 16
  oPins : BitVec 8
  kPins : BitVec 8
  cycleCount : BitVec 32
  stopRunning : Bool
  showOn : Bool

/-- integer promotion of a `uint8_t` -/
@[inline] def z (v : BitVec 8) : BitVec 32 := v.zeroExtend 32
/-- assignment of an `int` to a `uint8_t` -/
@[inline] def t8 (v : BitVec 32) : BitVec 8 := v.truncate 8
/-- `c ? 1 : 0` stored in a `uint8_t` -/
@[inline] def b2u (b : Bool) : BitVec 8 := if b then 1 else 0

/-- `int SimulateTms1000::increment_pc(int pc)` -/
def incrementPc (pc : BitVec 32) : BitVec 32 :=
  let fb : BitVec 32 :=
    if pc = 0x1f then 1
    else if pc = 0x3f then 0
    else
      let bit5 := (pc >>> 5) &&& 1
      let bit4 := (pc >>> 4) &&& 1
      (bit5 ^^^ bit4) ^^^ 1
  ((pc <<< 1) ||| fb) &&& 0x3f

def revConst (opcode : BitVec 32) : Chk (BitVec 32) :=
  tbl "tms1000_reverse_constant" SimTables.tms1000ReverseConstant (opcode &&& 0xf)

def revBit (opcode : BitVec 32) : Chk (BitVec 32) :=
  tbl "tms1000_reverse_bit_address" SimTables.tms1000ReverseBitAddress (opcode &&& 0x3)

def ramRd (s : State) (xy : BitVec 32) : Chk (BitVec 8) := arr "ram" s.ram xy

def ramWr (s : State) (xy : BitVec 32) (v : BitVec 8) : Chk State := do
  let r ← arrSet "ram" s.ram xy v
  pure { s with ram := r }

/-- result of `execute`: the state, `update_s`, and the return value (0 or -1) -/
structure Exe where
  state : State
  us : BitVec 8
  ret : Int

@[inline] def done (s : State) (us : BitVec 8) : Chk Exe := .ok { state := s, us := us, ret := 0 }

/-- the o_pins values of `tdo` with S = 1 (`switch (reg_a)`; no case for reg_a > 15: o_pins unchanged) -/
def tdoSegments (a : BitVec 8) (o : BitVec 8) : BitVec 8 :=
  if a = 0 then 0x7e else if a = 1 then 0x30 else if a = 2 then 0x6d else if a = 3 then 0x79
  else if a = 4 then 0x33 else if a = 5 then 0x5b else if a = 6 then 0x5f else if a = 7 then 0x70
  else if a = 8 then 0x7f else if a = 9 then 0x7b else if a = 10 then 0x77 else if a = 11 then 0x1f
  else if a = 12 then 0x4e else if a = 13 then 0x3d else if a = 14 then 0x4f else if a = 15 then 0x47
  else o

/-- the `switch (opcode)` of `execute` -/
def execSwitch (s : State) (opcode : BitVec 8) (us : BitVec 8) (xy : BitVec 32) : Chk Exe :=
  if opcode = 0x00 then                                   -- comx
    done { s with x := s.x ^^^ 0x3 } us
  else if opcode = 0x01 then                              -- a8aac
    let temp := t8 (z s.a + 8)
    let a := t8 (z temp &&& 0xf)
    done { s with a := a } (b2u (a ≠ temp))
  else if opcode = 0x02 then                              -- ynea
    done s (b2u (s.y ≠ s.a))
  else if opcode = 0x03 then do                           -- tam
    let s ← ramWr s xy s.a
    done s us
  else if opcode = 0x04 then do                           -- tamza
    let s ← ramWr s xy s.a
    done { s with a := 0 } us
  else if opcode = 0x05 then                              -- a10aac
    let temp := t8 (z s.a + 10)
    let a := t8 (z temp &&& 0xf)
    done { s with a := a } (b2u (a ≠ temp))
  else if opcode = 0x06 then                              -- a6aac (as written: reg_a = reg_a & 0xf)
    let temp := t8 (z s.a + 6)
    let a := t8 (z s.a &&& 0xf)
    done { s with a := a } (b2u (a ≠ temp))
  else if opcode = 0x07 then                              -- dan
    let us := b2u (z s.a ≥ 1)
    done { s with a := t8 ((z s.a - 1) &&& 0xf) } us
  else if opcode = 0x08 then                              -- tka
    done { s with a := t8 (z s.kPins &&& 0xf) } us
  else if opcode = 0x09 then                              -- knez
    done s (b2u (s.kPins ≠ 0))
  else if opcode = 0x0a then                              -- tdo
    if s.sFlag = 1 then done { s with oPins := tdoSegments s.a s.oPins } us
    else done { s with oPins := s.a } us
  else if opcode = 0x0b then                              -- clo
    done { s with oPins := 0 } us
  else if opcode = 0x0c then do                           -- rstr
    let m ← shl32 "1 << reg_y" 1 (z s.y)
    done { s with rPins := (s.rPins.zeroExtend 32 &&& (0xffff ^^^ m)).truncate 16 } us
  else if opcode = 0x0d then do                           -- setr
    let m ← shl32 "1 << reg_y" 1 (z s.y)
    done { s with rPins := (s.rPins.zeroExtend 32 ||| m).truncate 16 } us
  else if opcode = 0x0e then                              -- ia
    done { s with a := t8 ((z s.a + 1) &&& 0xf) } us
  else if opcode = 0x0f then                              -- retn
    let s := if s.cl = 1 then { s with pc := s.sr, cl := 0 } else s
    done { s with pa := s.pb } us
  else if opcode = 0x20 then do                           -- tamiy
    let s ← ramWr s xy s.a
    done { s with y := t8 ((z s.y + 1) &&& 0xf) } us
  else if opcode = 0x21 then do                           -- tma
    let v ← ramRd s xy
    done { s with a := v } us
  else if opcode = 0x22 then do                           -- tmy
    let v ← ramRd s xy
    done { s with y := v } us
  else if opcode = 0x23 then                              -- tya
    done { s with a := s.y } us
  else if opcode = 0x24 then                              -- tay
    done { s with y := s.a } us
  else if opcode = 0x25 then do                           -- amaac (as written: reg_a = reg_a & 0xf)
    let v ← ramRd s xy
    let temp := t8 (z v + z s.a)
    let a := t8 (z s.a &&& 0xf)
    done { s with a := a } (b2u (temp ≠ a))
  else if opcode = 0x26 then do                           -- mnez
    let v ← ramRd s xy
    done s (b2u (v ≠ 0))
  else if opcode = 0x27 then do                           -- saman
    let v ← ramRd s xy
    let us := b2u (s.a ≤ v)
    let v2 ← ramRd s xy
    done { s with a := t8 ((z v2 - z s.a) &&& 0xf) } us
  else if opcode = 0x28 then do                           -- imac
    let v ← ramRd s xy
    let temp := t8 (z v + 1)
    let a := t8 (z temp &&& 0xf)
    done { s with a := a } (b2u (temp ≠ a))
  else if opcode = 0x29 then do                           -- alem
    let v ← ramRd s xy
    done s (b2u (s.a ≤ v))
  else if opcode = 0x2a then do                           -- dman
    let temp ← ramRd s xy
    done { s with a := t8 ((z temp - 1) &&& 0xf) } (b2u (z temp ≥ 1))
  else if opcode = 0x2b then                              -- iyc
    let temp := t8 (z s.y + 1)
    let y := t8 (z temp &&& 0xf)
    done { s with y := y } (b2u (temp ≠ y))
  else if opcode = 0x2c then                              -- dyn
    let us := b2u (z s.y ≥ 1)
    done { s with y := t8 ((z s.y - 1) &&& 0xf) } us
  else if opcode = 0x2d then                              -- cpaiz
    let a := t8 ((0 - z s.a) &&& 0xf)
    done { s with a := a } (b2u (a = 0))
  else if opcode = 0x2e then do                           -- xma
    let temp ← ramRd s xy
    let s ← ramWr s xy s.a
    done { s with a := temp } us
  else if opcode = 0x2f then                              -- cla
    done { s with a := 0 } us
  else
    .ok { state := s, us := us, ret := -1 }

/-- `int SimulateTms1000::execute(uint8_t opcode, uint8_t &update_s)` -/
def execute (s : State) (opcode : BitVec 8) (us : BitVec 8) : Chk Exe :=
  let xy : BitVec 32 := (z s.x <<< 4) ||| z s.y            -- const int xy = reg_x << 4 | reg_y
  let op := z opcode
  if op &&& 0xfc = 0x3c then do                           -- ldx
    let v ← revBit op
    done { s with x := t8 v } us
  else if op &&& 0xf0 = 0x10 then do                      -- ldp
    let v ← revConst op
    done { s with pb := t8 v } us
  else if op &&& 0xf0 = 0x40 then do                      -- tcy
    let v ← revConst op
    done { s with y := t8 v } us
  else if op &&& 0xf0 = 0x50 then do                      -- ynec
    let m ← ramRd s xy
    let v ← revConst op
    done s (b2u (z m ≠ v))
  else if op &&& 0xf0 = 0x60 then do                      -- tcmiy
    let v ← revConst op
    let s ← ramWr s xy (t8 v)
    done { s with y := t8 ((z s.y + 1) &&& 0xf) } us
  else if op &&& 0xf0 = 0x70 then do                      -- alec
    let v ← revConst op
    done s (b2u ((z s.a).sle v))
  else if op &&& 0xfc = 0x30 then do                      -- sbit
    let v ← revBit op
    let bit ← shl32 "1 << tms1000_reverse_bit_address[]" 1 v
    let m ← ramRd s xy
    let s ← ramWr s xy (t8 (z m ||| bit))
    done s us
  else if op &&& 0xfc = 0x34 then do                      -- rbit
    let v ← revBit op
    let bit ← shl32 "1 << tms1000_reverse_bit_address[]" 1 v
    let m ← ramRd s xy
    let s ← ramWr s xy (t8 (z m &&& (0xf ^^^ bit)))
    done s us
  else if op &&& 0xfc = 0x38 then do                      -- tbit1
    let v ← revBit op
    let bit ← shl32 "1 << tms1000_reverse_bit_address[]" 1 v
    let m ← ramRd s xy
    done s (b2u (¬ (z m &&& bit = 0)))
  else if op &&& 0xc0 = 0x80 then                         -- br
    if s.sFlag = 1 then
      let s := if s.cl = 0 then { s with pa := s.pb } else s
      done { s with pc := t8 (op &&& 0x3f) } us
    else done s us
  else if op &&& 0xc0 = 0xc0 then                         -- call
    if s.sFlag = 1 then
      let s :=
        if s.cl = 0 then
          let temp := s.pa
          { s with sr := s.pc, pa := s.pb, pb := temp, cl := 1 }
        else { s with pa := s.pb }
      done { s with pc := t8 (op &&& 0x3f) } us
    else done s us
  else execSwitch s opcode us xy

/-- the ten `tms1000_lsfr_to_address[pc_current]` reads of the display loop (`show == true`) -/
def showLoop : Nat → BitVec 32 → Chk Unit
  | 0, _ => .ok ()
  | n + 1, pcCurrent => do
    let _ ← tbl "tms1000_lsfr_to_address" SimTables.tms1000LsfrToAddress pcCurrent
    showLoop n (incrementPc pcCurrent)

/-- one `run(-1, 1)` in step mode -/
def step (m : Mem) (s : State) : Chk (StepOut State) := do
  let s := { s with stopRunning := false }                -- stop_running = false
  let opcode := m (((z s.pa <<< 6) ||| z s.pc))           -- memory->read8((pa << 6) | pc), uint16_t, passed as uint8_t
  let pcCurrent := z s.pc
  let s := { s with pc := t8 (incrementPc (z s.pc)) }
  let e ← execute s opcode 1                              -- uint8_t update_s = 1
  let s := { e.state with sFlag := e.us, cycleCount := e.state.cycleCount + 6 }
  if s.showOn then showLoop 10 pcCurrent else pure ()
  pure { ret := e.ret, state := s, writes := [] }

/-- `reset()` (the constructor calls it; `org`, the base-class fields and `stop_running` are not touched) -/
def reset (s : State) : State :=
  { s with pc := 0, pb := 0xf, pa := 0xf, cl := 0, sr := 0, sFlag := 0, a := 0, x := 0, y := 0,
           rPins := 0, oPins := 0, kPins := 0, ram := Vector.replicate 64 0 }

/-- `set_pc(uint32_t value)` -/
def setPc (s : State) (value : BitVec 32) : State :=
  { s with pc := t8 (value &&& 0x3f), pa := t8 ((value >>> 6) &&& 0xf) }

/-- `set_reg(name, value)` for the six names it knows; any other name changes nothing -/
def setReg (s : State) (name : String) (value : BitVec 32) : State :=
  if name = "a" then { s with a := t8 (value &&& 0xf) }
  else if name = "x" then { s with x := t8 (value &&& 0x3) }
  else if name = "y" then { s with y := t8 (value &&& 0xf) }
  else if name = "r" then { s with rPins := value.truncate 16 }
  else if name = "o" then { s with oPins := t8 value }
  else if name = "k" then { s with kPins := t8 (value &&& 0xf) }
  else s

end NakenVerif.Sim.Tms1000
