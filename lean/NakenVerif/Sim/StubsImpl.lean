/-
  Implementation models of the two simulators that execute no instruction at all:

  * simulate/tms9900.cpp: `run` reads `opcode = (READ_RAM(pc) << 8) | READ_RAM(pc)` (the same byte twice, as written),
    adds 2 to `pc`, leaves the loop for opcode 0 ("Stopped", return 0) and otherwise sets `ret = -1` and returns -1
    ("Illegal instruction"): no instruction is decoded.  Registers R0..R15 live in memory at `wp`; only `set_reg` touches them.
    `run` does not clear the static `stop_running` (an input).
  * simulate/ebpf.cpp: `run` clears `stop_running`, prints "CPU not supported." and returns 0.

  Both are modelled so that the C15 statements (returns, no array access, deterministic) are theorems also for them; there is
  nothing else to say about them.
-/
import NakenVerif.Sim.Common

namespace NakenVerif.Sim.Tms9900
open NakenVerif.Sim

structure State where
  pc : BitVec 16
  wp : BitVec 16
  st : BitVec 16
  stopRunning : Bool
  showOn : Bool

/-- one `run(-1, 1)` in step mode -/
def step (mem : Mem) (s : State) : StepOut State :=
  if s.stopRunning then { ret := 0, state := s, writes := [] }
  else
    let b : BitVec 32 := (mem (s.pc.zeroExtend 32)).zeroExtend 32
    let opcode : BitVec 16 := ((b <<< 8) ||| b).truncate 16
    let s := { s with pc := s.pc + 2 }
    if opcode = 0 then { ret := 0, state := s, writes := [] }      -- break: "Stopped."
    else { ret := -1, state := s, writes := [] }                     -- ret = -1: "Illegal instruction"

/-- `get_register`: r0..r9, r10..r15 -/
def getRegister (name : List Char) : Option (BitVec 32) :=
  match name with
  | [r, d] => if (r = 'r' ∨ r = 'R') ∧ '0'.toNat ≤ d.toNat ∧ d.toNat ≤ '9'.toNat then some (BitVec.ofNat 32 (d.toNat - '0'.toNat)) else none
  | [r, '1', d] =>
    if (r = 'r' ∨ r = 'R') ∧ '0'.toNat ≤ d.toNat ∧ d.toNat ≤ '5'.toNat then some (BitVec.ofNat 32 (10 + (d.toNat - '0'.toNat))) else none
  | _ => none

/-- `WRITE_REG(index, value)` of `set_reg`: two bytes at `wp + index * 2` (computed in `int`) -/
def writeReg (s : State) (m : MemW) (index value : BitVec 32) : MemW :=
  let a : BitVec 32 := s.wp.zeroExtend 32 + index * 2
  (m.write8 a ((value >>> 8).truncate 8)).write8 (a + 1) ((value &&& 0xff).truncate 8)

end NakenVerif.Sim.Tms9900

namespace NakenVerif.Sim.Ebpf
open NakenVerif.Sim

structure State where
  reg : Vector (BitVec 64) 16
  pc : BitVec 32
  stopRunning : Bool
  showOn : Bool

/-- `run`: `stop_running = 0; while (stop_running == 0) { printf("CPU not supported.\n"); break; } return 0;` -/
def step (_mem : Mem) (s : State) : StepOut State :=
  { ret := 0, state := { s with stopRunning := false }, writes := [] }

/-- `get_register`: r0..r9, r10 -/
def getRegister (name : List Char) : Option (BitVec 32) :=
  match name.dropWhile (· = ' ') with
  | [r, d] => if (r = 'r' ∨ r = 'R') ∧ '0'.toNat ≤ d.toNat ∧ d.toNat ≤ '9'.toNat then some (BitVec.ofNat 32 (d.toNat - '0'.toNat)) else none
  | [r, '1', '0'] => if r = 'r' ∨ r = 'R' then some 10 else none
  | _ => none

/-- `set_reg`: `reg[r] = value` through the checked array -/
def setReg (s : State) (name : List Char) (value : BitVec 32) : Chk State :=
  match getRegister name with
  | none => .ok s
  | some i => do
    let r ← arrSet "reg[r]" s.reg i (value.zeroExtend 64)
    pure { s with reg := r }

end NakenVerif.Sim.Ebpf
