/-
  Implementation model of simulate/lc3.cpp (class SimulateLc3, simulate/lc3.h).

  `step` is `run(-1, 1)` in step mode: `opcode = READ_RAM(pc)`, `pc += 1`, `execute(opcode)`.
  `execute` is mirrored branch by branch IN THE ORDER of the C++ `if / else if` chain (so `ret`
  0xc1c0 is shadowed by `jmp`, as in the C++), quirks included: the 5-bit immediate is "sign extended"
  with `|= 0xf0`, `ldr`/`str` take a 10-bit offset, `jmp` adds to the PC, `jsr` does `pc += pc + offset11`,
  `br` tests n/z/p in bits 9/10/11, `rti` reads no memory.

  Representation.
  * `uint16_t reg[8], pc, psr` are `Vector (BitVec 16) 8` / `BitVec 16`.  The register indices are 3-bit
    fields of the opcode (C `int`); they go through `arr`/`arrSet` (fault outside `reg[8]`).
  * `int16_t result, simm`, `uint16_t address`, `int offset*` follow the C conversions: arithmetic in
    `BitVec 32` (sign- or zero-extended as C promotes), truncation on assignment.
  * Memory is word addressed through the macros `READ_RAM(a) = (read8(a * 2) << 8) | read8(a * 2 + 1)` and
    `WRITE_RAM(a, b) = write8(a * 2, b >> 8); write8(a * 2 + 1, b & 0xff)`: byte addresses `a * 2` are computed in
    `int`, so they range over 0 .. 0x1ffff.  Writes go directly to `memory->write8` and are recorded.
  * Statics / hidden inputs.  `SimulateLc3::run` does NOT clear the static `Simulate::stop_running`; it is a
    genuine input of the step (field `stopRunning`): when it is set, `run` prints "Stopped" and returns 0
    without executing anything.  Nothing in this simulator sets it (only the SIGINT handler does).
    `show` selects a display loop that indexes no array (`disasm_lc3` returns 2 on every path, so `n`
    reaches 12).  `break_point` stays -1, `auto_run` is false.  `int16_t result` is assigned before every use.
-/
import NakenVerif.Sim.Common

namespace NakenVerif.Sim.Lc3
open NakenVerif.Sim

structure State where
  reg : Vector (BitVec 16) 8
  pc : BitVec 16
  psr : BitVec 16
  stopRunning : Bool
  showOn : Bool

@[inline] def z16 (v : BitVec 16) : BitVec 32 := v.zeroExtend 32
/-- `(int16_t)x` promoted to `int` -/
@[inline] def s16 (v : BitVec 16) : BitVec 32 := v.signExtend 32
@[inline] def t16 (v : BitVec 32) : BitVec 16 := v.truncate 16

/-- `READ_RAM(a)`, `a` an `int` word address -/
def readRam (m : Mem) (a : BitVec 32) : BitVec 32 :=
  ((m (a * 2)).zeroExtend 32 <<< 8) ||| (m (a * 2 + 1)).zeroExtend 32

/-- `WRITE_RAM(a, b)` with `b` a `uint16_t` -/
def writeRam (m : MemW) (a : BitVec 32) (b : BitVec 16) : MemW :=
  (m.write8 (a * 2) ((z16 b >>> 8).truncate 8)).write8 (a * 2 + 1) ((z16 b &&& 0xff).truncate 8)

/-- `CHECK_FLAGS()` on `int16_t result` -/
def checkFlags (psr : BitVec 16) (result : BitVec 16) : BitVec 16 :=
  let psr := psr &&& 0xfff8
  let psr := if result.slt 0 then psr ||| 0x4 else psr
  let psr := if result = 0 then psr ||| 0x2 else psr
  if (0 : BitVec 16).slt result then psr ||| 0x1 else psr

def rd (s : State) (i : BitVec 32) : Chk (BitVec 16) := arr "reg[]" s.reg i
def wr (s : State) (i : BitVec 32) (v : BitVec 16) : Chk State := do
  let r ← arrSet "reg[]" s.reg i v
  pure { s with reg := r }

/-- sign extension as written: `x = opcode & mask; if ((x & sign) != 0) { x |= ext; }` -/
def ext (opcode mask sign e : BitVec 32) : BitVec 32 :=
  let x := opcode &&& mask
  if x &&& sign ≠ 0 then x ||| e else x

structure Exe where
  state : State
  mem : MemW
  ret : Int

@[inline] def fin (s : State) (m : MemW) : Chk Exe := .ok { state := s, mem := m, ret := 0 }

/-- `int SimulateLc3::execute(uint16_t opcode)` -/
def execute (s : State) (m : MemW) (opcode16 : BitVec 16) : Chk Exe :=
  let opcode := z16 opcode16
  let r0 := (opcode >>> 9) &&& 0x7
  let r1 := (opcode >>> 6) &&& 0x7
  let r2 := opcode &&& 0x7
  if opcode &&& 0xf038 = 0x1000 then do                       -- add reg
    let a ← rd s r1
    let b ← rd s r2
    let result := t16 (s16 a + s16 b)
    let s := { s with psr := checkFlags s.psr result }
    let s ← wr s r0 result
    fin s m
  else if opcode &&& 0xf020 = 0x1020 then do                  -- add imm
    let simm := t16 (ext opcode 0x1f 0x10 0xf0)
    let a ← rd s r1
    let result := t16 (s16 a + s16 simm)
    let s := { s with psr := checkFlags s.psr result }
    let s ← wr s r0 result
    fin s m
  else if opcode &&& 0xf038 = 0x5000 then do                  -- and reg
    let a ← rd s r1
    let b ← rd s r2
    let result := t16 (z16 a &&& z16 b)
    let s := { s with psr := checkFlags s.psr result }
    let s ← wr s r0 result
    fin s m
  else if opcode &&& 0xf020 = 0x5020 then do                  -- and imm
    let simm := t16 (ext opcode 0x1f 0x10 0xf0)
    let a ← rd s r1
    let result := t16 (z16 a &&& s16 simm)
    let s := { s with psr := checkFlags s.psr result }
    let s ← wr s r0 result
    fin s m
  else if opcode &&& 0xf000 = 0x0000 then                     -- br
    let n := (opcode >>> 9) &&& 1
    let zf := (opcode >>> 10) &&& 1
    let p := (opcode >>> 11) &&& 1
    let offset9 := ext opcode 0x1ff 0x100 0xff00
    let psr := z16 s.psr
    if (n = 1 ∧ (psr >>> 2) &&& 1 = 1) ∨ (zf = 1 ∧ (psr >>> 1) &&& 1 = 1) ∨ (p = 1 ∧ psr &&& 1 = 1) then
      fin { s with pc := t16 (z16 s.pc + offset9) } m
    else fin s m
  else if opcode &&& 0xfe3f = 0xc000 then do                  -- jmp (as written: pc += reg[r1])
    let a ← rd s r1
    fin { s with pc := t16 (z16 s.pc + z16 a) } m
  else if opcode &&& 0xf800 = 0x4800 then do                  -- jsr
    let s ← wr s 7 s.pc
    let offset11 := ext opcode 0x7ff 0x400 0xf800
    fin { s with pc := t16 (z16 s.pc + (z16 s.pc + offset11)) } m
  else if opcode &&& 0xfe3f = 0x4000 then do                  -- jsrr
    let result ← rd s r1
    let s ← wr s 7 s.pc
    fin { s with pc := result } m
  else if opcode &&& 0xf000 = 0x2000 then do                  -- ld
    let offset9 := ext opcode 0x1ff 0x100 0xff00
    let address := t16 (z16 s.pc + offset9)
    let s ← wr s r0 (t16 (readRam m.mem (z16 address)))
    fin s m
  else if opcode &&& 0xf000 = 0xa000 then do                  -- ldi
    let offset9 := ext opcode 0x1ff 0x100 0xff00
    let address := t16 (z16 s.pc + offset9)
    let address := t16 (readRam m.mem (z16 address))
    let s ← wr s r0 (t16 (readRam m.mem (z16 address)))
    fin s m
  else if opcode &&& 0xf000 = 0x6000 then do                  -- ldr (as written: 10-bit offset)
    let offset6 := ext opcode 0x3ff 0x200 0xfe00
    let a ← rd s r1
    let address := t16 (z16 a + offset6)
    let s ← wr s r0 (t16 (readRam m.mem (z16 address)))
    fin s m
  else if opcode &&& 0xf000 = 0xe000 then do                  -- lea
    let offset9 := ext opcode 0x1ff 0x100 0xff00
    let address := t16 (z16 s.pc + offset9)
    let s ← wr s r0 address
    fin s m
  else if opcode &&& 0xf03f = 0x903f then do                  -- not
    let a ← rd s r1
    let result := t16 (z16 a ^^^ 0xffff)
    let s := { s with psr := checkFlags s.psr result }
    let s ← wr s r0 result
    fin s m
  else if opcode &&& 0xffff = 0xc1c0 then do                  -- ret (shadowed by jmp)
    let a ← rd s 7
    fin { s with pc := a } m
  else if opcode &&& 0xffff = 0x8000 then                     -- rti
    if (z16 s.psr >>> 15) &&& 1 ≠ 0 then
      .ok { state := s, mem := m, ret := -1 }
    else do
      let a ← rd s 6
      let s := { s with pc := a }
      let s ← wr s 6 (a - 1)
      let b ← rd s 6
      let s := { s with psr := b }
      let s ← wr s 6 (b - 1)
      fin s m
  else if opcode &&& 0xf000 = 0x3000 then do                  -- st
    let offset9 := ext opcode 0x1ff 0x100 0xff00
    let address := t16 (z16 s.pc + offset9)
    let v ← rd s r0
    fin s (writeRam m (z16 address) v)
  else if opcode &&& 0xf000 = 0xb000 then do                  -- sti
    let offset9 := ext opcode 0x1ff 0x100 0xff00
    let address := t16 (z16 s.pc + offset9)
    let address := t16 (readRam m.mem (z16 address))
    let v ← rd s r0
    fin s (writeRam m (z16 address) v)
  else if opcode &&& 0xf000 = 0x7000 then do                  -- str (as written: 10-bit offset)
    let offset6 := ext opcode 0x3ff 0x200 0xfe00
    let a ← rd s r1
    let address := t16 (z16 a + offset6)
    let v ← rd s r0
    fin s (writeRam m (z16 address) v)
  else if opcode &&& 0xff00 = 0xf000 then do                  -- trap
    let simm := t16 (opcode &&& 0xff)
    let s ← wr s 7 s.pc
    fin { s with pc := t16 (readRam m.mem (s16 simm)) } m
  else
    .ok { state := s, mem := m, ret := -1 }

/-- one `run(-1, 1)` in step mode -/
def step (mem : Mem) (s : State) : Chk (StepOut State × Mem) :=
  if s.stopRunning then                                        -- while (stop_running == false) not entered
    .ok ({ ret := 0, state := s, writes := [] }, mem)
  else do
    let opcode := t16 (readRam mem (z16 s.pc))                 -- opcode = READ_RAM(pc_current)
    let s := { s with pc := s.pc + 1 }
    let e ← execute s { mem := mem, writes := [] } opcode
    pure ({ ret := e.ret, state := e.state, writes := e.mem.writes }, e.mem.mem)

/-- `reset()` (the constructor sets `org = 0x3000` only afterwards, so the first reset gives pc = 0) -/
def reset (s : State) (org : BitVec 32) : State :=
  { s with reg := Vector.replicate 8 0, pc := t16 org, psr := 0 }

def setPc (s : State) (value : BitVec 32) : State := { s with pc := t16 value }

/-- `get_reg_index` (after the fix of the range test): optional blanks, `r`/`R`, one digit `0`..`7`, end of string -/
def getRegIndex (name : List Char) : Option (BitVec 32) :=
  let name := name.dropWhile (· = ' ')
  match name with
  | [r, d] =>
    if r ≠ 'r' ∧ r ≠ 'R' then none
    else if d.toNat < '0'.toNat ∨ d.toNat > '7'.toNat then none
    else some (BitVec.ofNat 32 (d.toNat - '0'.toNat))
  | _ => none

/-- `set_reg`: `reg[index] = value` through the checked array -/
def setReg (s : State) (name : List Char) (value : BitVec 32) : Chk State :=
  match getRegIndex name with
  | none => .ok s
  | some i => wr s i (t16 value)

end NakenVerif.Sim.Lc3
