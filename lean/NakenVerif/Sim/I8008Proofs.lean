/-
  Safety of the 8008 step model: with `sp < 8` (what `reset`, `set_reg("sp")`, both `push`es and `pop` keep),
  one step never indexes outside `reg[8]` / `stack[8]`, writes only below 2^16 and keeps `sp < 8`.
-/
import NakenVerif.Sim.I8008Impl
import Std.Tactic.BVDecide

namespace NakenVerif.Sim.I8008
open NakenVerif.Sim

structure Inv (s : State) : Prop where
  sp : s.sp < 8

theorem idx8 (x : BitVec 8) (h : x < 8) : (z8 x).toNat < 8 :=
  toNat_lt_of_lt (z8 x) 8 (by unfold z8; bv_decide)

theorem idx16 (x : BitVec 16) (h : x < 8) : (z16 x).toNat < 8 :=
  toNat_lt_of_lt (z16 x) 8 (by unfold z16; bv_decide)

theorem push_ok (s : State) (v : BitVec 16) (h : Inv s) : ∃ s', push s v = .ok s' ∧ Inv s' := by
  unfold push
  rw [arrSet_ok _ _ _ _ (idx16 s.sp h.sp)]
  refine ⟨_, rfl, ⟨?_⟩⟩
  have := h.sp
  show (s.sp + 1) &&& 7 < 8
  bv_decide

theorem pop_ok (s : State) : ∃ r, pop s = .ok r ∧ Inv r.1 := by
  have hlt : (((z16 s.sp - 1) &&& 7).truncate 16 : BitVec 16) < 8 := by unfold z16; bv_decide
  unfold pop
  dsimp only
  rw [arr_ok _ _ _ (idx16 _ hlt)]
  exact ⟨_, rfl, ⟨hlt⟩⟩

theorem ret_ok (s : State) : ∃ s', ret s = .ok s' ∧ Inv s' := by
  obtain ⟨r, hr, hi⟩ := pop_ok s
  unfold ret
  rw [hr]
  exact ⟨_, rfl, ⟨hi.sp⟩⟩

theorem alu_ok (s : State) (op v : BitVec 8) (h : Inv s) : ∃ s', alu s op v = .ok s' ∧ Inv s' := by
  unfold alu
  rw [arr_ok _ _ _ (by decide : (0 : BitVec 32).toNat < 8)]
  simp only [Chk.bind_ok]
  split
  · rw [arrSet_ok _ _ _ _ (by decide : (0 : BitVec 32).toNat < 8)]
    exact ⟨_, rfl, ⟨h.sp⟩⟩
  · exact ⟨_, rfl, ⟨h.sp⟩⟩

/-- `execute_instruction` succeeded: `sp` still below 8, every new write below 2^16, return value 1, 2, 3 or -1 -/
def ExeOk (base : List (BitVec 32 × BitVec 8)) (r : Chk Exe) : Prop :=
  ∃ e, r = .ok e ∧ Inv e.state ∧ WOK 0x10000 base e.mem.writes ∧ (e.ret = 1 ∨ e.ret = 2 ∨ e.ret = 3 ∨ e.ret = -1)

theorem mAddr_lt (r5 r6 : BitVec 8) : ((z8 r5 <<< 8) ||| z8 r6 : BitVec 32) < 0x10000 := by unfold z8; bv_decide

theorem execute_ok (s : State) (m : MemW) (opcode : BitVec 8) (h : Inv s) : ExeOk m.writes (execute s m opcode) := by
  have hs : (z8 (opcode &&& 0x7)).toNat < 8 := idx8 _ (by bv_decide)
  have hd : (z8 ((opcode >>> 3) &&& 0x7)).toNat < 8 := idx8 _ (by bv_decide)
  have h5 : (5 : BitVec 32).toNat < 8 := by decide
  have h6 : (6 : BitVec 32).toNat < 8 := by decide
  have hw := WOK.refl 0x10000 m.writes
  unfold execute
  refine Chk.ite_of (ExeOk m.writes) (fun _ => ⟨_, rfl, ⟨h.sp⟩, hw, Or.inl rfl⟩) (fun _ => ?_)
  rw [arr_ok _ _ _ h5, arr_ok _ _ _ h6]
  simp only [Chk.bind_ok]
  have hm := mAddr_lt s.reg[(5 : BitVec 32).toNat] s.reg[(6 : BitVec 32).toNat]
  repeat' (refine Chk.ite_of (ExeOk m.writes) (fun _ => ?_) (fun _ => ?_))
  -- upper = 0: RET, conditional return (taken / not), ALU immediate, RST, MVI (memory / register), illegal
  · exact Chk.bind_of _ (ret_ok s) fun s' hs' => ⟨_, rfl, hs', hw, Or.inl rfl⟩
  · exact Chk.bind_of _ (ret_ok s) fun s' hs' => ⟨_, rfl, hs', hw, Or.inl rfl⟩
  · exact ⟨_, rfl, h, hw, Or.inl rfl⟩
  · exact Chk.bind_of _ (alu_ok _ _ _ ⟨h.sp⟩) fun s' hs' => ⟨_, rfl, hs', hw, Or.inr (Or.inl rfl)⟩
  · exact Chk.bind_of _ (push_ok s s.pc h) fun s' hs' => ⟨_, rfl, ⟨hs'.sp⟩, hw, Or.inl rfl⟩
  · exact ⟨_, rfl, ⟨h.sp⟩, WOK.write8 _ _ _ _ _ hw hm, Or.inr (Or.inl rfl)⟩
  · rw [arrSet_ok _ _ _ _ hd]
    exact ⟨_, rfl, ⟨h.sp⟩, hw, Or.inr (Or.inl rfl)⟩
  · exact ⟨_, rfl, ⟨h.sp⟩, hw, Or.inr (Or.inr (Or.inr rfl))⟩
  -- upper = 1: JMP, CALL, conditional jump, conditional call (pushed / not), illegal
  · exact ⟨_, rfl, ⟨h.sp⟩, hw, Or.inr (Or.inr (Or.inl rfl))⟩
  · exact Chk.bind_of _ (push_ok _ _ ⟨h.sp⟩) fun s' hs' => ⟨_, rfl, ⟨hs'.sp⟩, hw, Or.inr (Or.inr (Or.inl rfl))⟩
  · refine ⟨_, rfl, ⟨?_⟩, hw, Or.inr (Or.inr (Or.inl rfl))⟩
    dsimp only
    split <;> exact h.sp
  · refine Chk.bind_of _ (push_ok _ _ ⟨?_⟩) fun s' hs' => ⟨_, rfl, hs', hw, Or.inr (Or.inr (Or.inl rfl))⟩
    split <;> exact h.sp
  · refine ⟨_, rfl, ⟨?_⟩, hw, Or.inr (Or.inr (Or.inl rfl))⟩
    dsimp only
    split <;> exact h.sp
  · exact ⟨_, rfl, ⟨h.sp⟩, hw, Or.inr (Or.inr (Or.inr rfl))⟩
  -- upper = 2: ALU register / memory
  · rw [arr_ok _ _ _ hs, Chk.bind_ok]
    exact Chk.bind_of _ (alu_ok _ _ _ h) fun s' hs' => ⟨_, rfl, hs', hw, Or.inl rfl⟩
  -- upper = 3: MOV
  · rw [arrSet_ok _ _ _ _ hd]
    exact ⟨_, rfl, ⟨h.sp⟩, hw, Or.inl rfl⟩
  · rw [arr_ok _ _ _ hs]
    exact ⟨_, rfl, ⟨h.sp⟩, WOK.write8 _ _ _ _ _ hw hm, Or.inl rfl⟩
  · rw [arr_ok _ _ _ hs, Chk.bind_ok, arrSet_ok _ _ _ _ hd]
    exact ⟨_, rfl, ⟨h.sp⟩, hw, Or.inl rfl⟩
  · exact ⟨_, rfl, ⟨h.sp⟩, hw, Or.inr (Or.inr (Or.inr rfl))⟩

/-- **Safety of one step.**  From every state with `sp < 8`, over every memory content: `step` returns 0 or -1 (never
    `fault`), `sp < 8` afterwards, and every byte it writes has an address below 2^16. -/
theorem step_ok (mem : Mem) (s : State) (h : Inv s) :
    ∃ o m', step mem s = .ok (o, m') ∧ Inv o.state ∧ (o.ret = 0 ∨ o.ret = -1) ∧ ∀ w ∈ o.writes, w.1 < 0x10000 := by
  obtain ⟨e, he, hi, hw, hr⟩ :=
    execute_ok { s with stopRunning := false, pc := s.pc + 1 } { mem := mem, writes := [] } (mem (z16 s.pc)) ⟨h.sp⟩
  unfold step
  dsimp only
  rw [he]
  refine ⟨_, _, rfl, hi, ?_, ?_⟩
  · dsimp only
    split
    · exact Or.inr rfl
    · exact Or.inl rfl
  · intro w hin
    rcases hw w hin with hb | hlt
    · exact absurd hb (by simp)
    · exact hlt

/-- `run` clears the static `stop_running` before the loop: the step does not depend on its old value -/
theorem step_ignores_stop_running (mem : Mem) (s : State) (b : Bool) :
    step mem { s with stopRunning := b } = step mem s := rfl

theorem reset_inv (s : State) (org : BitVec 32) : Inv (reset s org) := ⟨by simp [reset]⟩

theorem setPc_inv (s : State) (v : BitVec 32) (h : Inv s) : Inv (setPc s v) := ⟨h.sp⟩

theorem setReg_inv (s : State) (name : String) (v : BitVec 32) (h : Inv s) : Inv (setReg s name v) := by
  unfold setReg
  repeat' split
  all_goals first | exact ⟨h.sp⟩ | (constructor; dsimp only; bv_decide) | (constructor; dsimp only; split <;> bv_decide)

/-- the public `push(uint32_t)` stops at `sp == 7` -/
theorem pushApi_ok (s : State) (v : BitVec 32) (h : Inv s) : ∃ s', pushApi s v = .ok s' ∧ Inv s' := by
  unfold pushApi
  split
  · exact ⟨s, rfl, h⟩
  · rename_i hne
    rw [arrSet_ok _ _ _ _ (idx16 s.sp h.sp)]
    refine ⟨_, rfl, ⟨?_⟩⟩
    have := h.sp
    show s.sp + 1 < 8
    bv_decide

def runN (m : Mem) : Nat → State → Chk (State × Mem)
  | 0, s => .ok (s, m)
  | n + 1, s => do
    let (o, m') ← step m s
    runN m' n o.state

/-- **No run of any length faults.** -/
theorem runN_ok (n : Nat) (m : Mem) (s : State) (h : Inv s) : ∃ r, runN m n s = .ok r ∧ Inv r.1 := by
  induction n generalizing s m with
  | zero => exact ⟨_, rfl, h⟩
  | succ n ih =>
    obtain ⟨o, m', ho, hi, _⟩ := step_ok m s h
    unfold runN
    rw [ho]
    exact ih m' o.state hi

end NakenVerif.Sim.I8008
