/-
  tms1000: the program counter after a non-branching instruction is `increment_pc` of the old one.
-/
import NakenVerif.Sim.Tms1000Proofs

namespace NakenVerif.Sim.Tms1000
open NakenVerif.Sim NakenVerif.Generated

/-- if the computation succeeds, the resulting `pc` is `p` -/
def PcIs (p : BitVec 8) (r : Chk Exe) : Prop := ∀ e, r = .ok e → e.state.pc = p

theorem pcIs_done (p : BitVec 8) (s : State) (us : BitVec 8) (h : s.pc = p) : PcIs p (done s us) := by
  intro e he; injection he with he; subst he; exact h

theorem pcIs_bind {α : Type} (p : BitVec 8) (x : Chk α) (k : α → Chk Exe) (hk : ∀ a, x = .ok a → PcIs p (k a)) :
    PcIs p (x >>= k) := by
  cases x with
  | ok a => exact hk a rfl
  | fault w => intro e he; exact absurd he (by simp)

theorem ramWr_pc (s s' : State) (xy : BitVec 32) (v : BitVec 8) (h : ramWr s xy v = .ok s') : s'.pc = s.pc := by
  unfold ramWr arrSet at h
  split at h
  · injection h with h; subst h; rfl
  · exact absurd h (by simp)

theorem pcIs_ramWr (p : BitVec 8) (s : State) (xy : BitVec 32) (v : BitVec 8) (k : State → Chk Exe)
    (hk : ∀ s', s'.pc = s.pc → PcIs p (k s')) : PcIs p (ramWr s xy v >>= k) :=
  pcIs_bind p _ k fun a ha => hk a (ramWr_pc s a xy v ha)

theorem pcIs_ite {p : BitVec 8} {c : Prop} [Decidable c] {a b : Chk Exe} (ha : c → PcIs p a) (hb : ¬ c → PcIs p b) :
    PcIs p (if c then a else b) := by
  by_cases hc : c
  · rw [if_pos hc]; exact ha hc
  · rw [if_neg hc]; exact hb hc

/-- br (10xxxxxx), call (11xxxxxx) and retn (0x0f) -/
def branching (opcode : BitVec 8) : Bool := opcode &&& 0x80 = 0x80 || opcode = 0x0f

theorem execSwitch_pc (s : State) (opcode us : BitVec 8) (xy : BitVec 32) (hnb : opcode ≠ 0x0f) :
    PcIs s.pc (execSwitch s opcode us xy) := by
  unfold execSwitch
  repeat' (refine pcIs_ite (fun _ => ?_) (fun _ => ?_))
  all_goals
    first
    | contradiction
    | (intro e he; injection he with he; subst he; rfl)
    | (repeat' (first
        | (apply pcIs_done)
        | rfl
        | assumption
        | (apply pcIs_ramWr; intro s' hs')
        | (apply pcIs_bind; intro a ha)))

theorem execute_pc (s : State) (opcode us : BitVec 8) (hnb : branching opcode = false) :
    PcIs s.pc (execute s opcode us) := by
  have h0f : opcode ≠ 0x0f := by unfold branching at hnb; bv_decide
  have hbr : ¬ (z opcode &&& 0xc0 = 0x80) := by unfold branching at hnb; unfold z; bv_decide
  have hcall : ¬ (z opcode &&& 0xc0 = 0xc0) := by unfold branching at hnb; unfold z; bv_decide
  unfold execute
  dsimp only
  repeat' (refine pcIs_ite (fun _ => ?_) (fun _ => ?_))
  all_goals
    first
    | contradiction
    | exact execSwitch_pc s opcode us _ h0f
    | (intro e he; injection he with he; subst he; rfl)
    | (repeat' (first
        | (apply pcIs_done)
        | rfl
        | assumption
        | (apply pcIs_ramWr; intro s' hs')
        | (apply pcIs_bind; intro a ha)))

/-- **PC after a non-branching instruction** (every opcode except br, call, retn; every state, no invariant
    needed): the new `pc` is `increment_pc(pc)`, whose linear address is the next disassembled instruction
    (`pc_advance_linear`). -/
theorem step_pc_non_branching (m : Mem) (s : State) (o : StepOut State)
    (hnb : branching (m ((z s.pa <<< 6) ||| z s.pc)) = false) (h : step m s = .ok o) :
    o.state.pc = t8 (incrementPc (z s.pc)) := by
  unfold step at h
  dsimp only at h
  cases he : execute { s with stopRunning := false, pc := t8 (incrementPc (z s.pc)) } (m ((z s.pa <<< 6) ||| z s.pc)) 1 with
  | fault w => rw [he] at h; exact absurd h (by simp)
  | ok e =>
    have hp := execute_pc _ _ 1 hnb e he
    rw [he] at h
    simp only [Chk.bind_ok] at h
    split at h
    · cases hs : showLoop 10 (z s.pc) with
      | fault w => rw [hs] at h; exact absurd h (by simp)
      | ok u => rw [hs] at h; simp only [Chk.bind_ok, Chk.pure_eq] at h; injection h with h; subst h; exact hp
    · simp only [Chk.bind_ok, Chk.pure_eq] at h; injection h with h; subst h; exact hp

end NakenVerif.Sim.Tms1000
