/-
  Safety of the lc3 step model.  No invariant is needed: every register index is a 3-bit field of the opcode or a
  constant, every byte address is `2 * (16-bit word address)` or that plus one.
-/
import NakenVerif.Sim.Lc3Impl
import Std.Tactic.BVDecide

namespace NakenVerif.Sim.Lc3
open NakenVerif.Sim

theorem idx (x : BitVec 32) (h : x < 8) : x.toNat < 8 := toNat_lt_of_lt x 8 h

theorem rd_ok (s : State) (i : BitVec 32) (h : i < 8) : ∃ v, rd s i = .ok v ∧ True :=
  ⟨_, arr_ok _ _ _ (idx i h), trivial⟩

theorem wr_ok (s : State) (i : BitVec 32) (v : BitVec 16) (h : i < 8) : ∃ s', wr s i v = .ok s' ∧ True := by
  unfold wr
  rw [arrSet_ok _ _ _ _ (idx i h)]
  exact ⟨_, rfl, trivial⟩

/-- `execute` succeeded, wrote only below 2^17 (64 Ki words of two bytes) and returned 0 or -1 -/
def ExeOk (base : List (BitVec 32 × BitVec 8)) (r : Chk Exe) : Prop :=
  ∃ e, r = .ok e ∧ WOK 0x20000 base e.mem.writes ∧ (e.ret = 0 ∨ e.ret = -1)

theorem fin_ok (s : State) (m : MemW) (base : List (BitVec 32 × BitVec 8)) (h : WOK 0x20000 base m.writes) :
    ExeOk base (fin s m) := ⟨_, rfl, h, Or.inl rfl⟩

theorem writeRam_wok (base : List (BitVec 32 × BitVec 8)) (m : MemW) (a v : BitVec 16) (h : WOK 0x20000 base m.writes) :
    WOK 0x20000 base (writeRam m (z16 a) v).writes := by
  unfold writeRam
  apply WOK.write8
  · apply WOK.write8 _ _ _ _ _ h
    unfold z16; bv_decide
  · unfold z16; bv_decide

theorem execute_ok (s : State) (m : MemW) (opcode : BitVec 16) : ExeOk m.writes (execute s m opcode) := by
  have h0 : ((z16 opcode >>> 9) &&& 0x7) < 8 := by bv_decide
  have h1 : ((z16 opcode >>> 6) &&& 0x7) < 8 := by bv_decide
  have h2 : (z16 opcode &&& 0x7) < 8 := by bv_decide
  have h6 : (6 : BitVec 32) < 8 := by decide
  have h7 : (7 : BitVec 32) < 8 := by decide
  have hw := WOK.refl 0x20000 m.writes
  unfold execute
  dsimp only
  repeat' (refine Chk.ite_of (ExeOk m.writes) (fun _ => ?_) (fun _ => ?_))
  all_goals
    first
    | exact ⟨_, rfl, hw, Or.inr rfl⟩
    | (repeat' (first
        | exact fin_ok _ _ _ hw
        | exact fin_ok _ _ _ (writeRam_wok _ _ _ _ hw)
        | (refine Chk.bind_of (ExeOk m.writes) (rd_ok _ _ (by assumption)) (fun _ _ => ?_))
        | (refine Chk.bind_of (ExeOk m.writes) (wr_ok _ _ _ (by assumption)) (fun _ _ => ?_))))

/-- **Safety of one step.**  From every state (no invariant), over every memory content: `step` returns 0 or -1, never
    `fault`, and every byte it writes has an address below 2^17. -/
theorem step_ok (mem : Mem) (s : State) :
    ∃ o m', step mem s = .ok (o, m') ∧ (o.ret = 0 ∨ o.ret = -1) ∧ ∀ w ∈ o.writes, w.1 < 0x20000 := by
  unfold step
  split
  · exact ⟨_, _, rfl, Or.inl rfl, fun w hw => absurd hw (by simp)⟩
  · obtain ⟨e, he, hw, hr⟩ := execute_ok { s with pc := s.pc + 1 } { mem := mem, writes := [] } (t16 (readRam mem (z16 s.pc)))
    dsimp only
    rw [he]
    refine ⟨_, _, rfl, hr, ?_⟩
    intro w hin
    rcases hw w hin with hb | hlt
    · exact absurd hb (by simp)
    · exact hlt

/-- `SimulateLc3::run` never clears the static `stop_running`: once it is set (SIGINT), a step executes nothing and
    changes nothing.  (An input of the step, modelled explicitly; nothing in this simulator sets it.) -/
theorem step_stopped (mem : Mem) (s : State) (h : s.stopRunning = true) :
    step mem s = .ok ({ ret := 0, state := s, writes := [] }, mem) := by
  unfold step; rw [if_pos h]

theorem getRegIndex_lt (name : List Char) (i : BitVec 32) (h : getRegIndex name = some i) : i < 8 := by
  unfold getRegIndex at h
  dsimp only at h
  split at h
  · rename_i r d _
    split at h
    · exact absurd h (by simp)
    · split at h
      · exact absurd h (by simp)
      · rename_i hd
        injection h with h
        subst h
        have h48 : '0'.toNat = 48 := rfl
        have h55 : '7'.toNat = 55 := rfl
        rw [h48, h55] at hd
        have h1 : ¬ d.toNat < 48 := fun hlt => hd (Or.inl hlt)
        have h2 : ¬ d.toNat > 55 := fun hgt => hd (Or.inr hgt)
        show BitVec.ofNat 32 (d.toNat - '0'.toNat) < 8
        rw [BitVec.lt_def, h48]
        have h8 : (8 : BitVec 32).toNat = 8 := rfl
        rw [h8, BitVec.toNat_ofNat]
        omega
  · exact absurd h (by simp)

/-- **`set_reg` (as fixed) never indexes outside `reg[8]`**, whatever the register name -/
theorem setReg_ok (s : State) (name : List Char) (v : BitVec 32) : ∃ s', setReg s name v = .ok s' := by
  unfold setReg
  split
  · exact ⟨s, rfl⟩
  · rename_i i hi
    obtain ⟨s', hs', _⟩ := wr_ok s i (t16 v) (getRegIndex_lt name i hi)
    exact ⟨s', hs'⟩

def runN (m : Mem) : Nat → State → Chk (State × Mem)
  | 0, s => .ok (s, m)
  | n + 1, s => do
    let (o, m') ← step m s
    runN m' n o.state

/-- **No run of any length faults.** -/
theorem runN_ok (n : Nat) (m : Mem) (s : State) : ∃ r, runN m n s = .ok r := by
  induction n generalizing s m with
  | zero => exact ⟨_, rfl⟩
  | succ n ih =>
    obtain ⟨o, m', ho, _⟩ := step_ok m s
    unfold runN
    rw [ho]
    exact ih m' o.state

end NakenVerif.Sim.Lc3
