/-
  C08 (6502): the disassembler is total (a Lean function), its length is 1, 2 or 3 for every byte sequence,
  text and length depend only on the address and on the bytes of the instruction itself, the text fits the caller's
  128-byte buffer with room to spare (at most 35 characters), and the address column of `disasm_range_6502` lists
  every address of the range once, in increasing order, to the end of the range.
-/
import NakenVerif.M6502.AsmProofs
import NakenVerif.Common.Walk
namespace NakenVerif.M6502
open NakenVerif.Generated.SimTables NakenVerif.Generated.M6502Asm NakenVerif.M6502.Asm NakenVerif.M6502.Disasm

/-! ## length -/

theorem len_table : ∀ c < 256, 1 ≤ (disasm6502Len.toList.getD c 0).toNat ∧ (disasm6502Len.toList.getD c 0).toNat ≤ 3 := by
  decide +kernel

/-- **C08, length bounds.**  For every byte sequence `disasm_6502` returns 1, 2 or 3: at least one byte, at most the
    longest instruction. -/
theorem m6502_len_bounds (addr : BitVec 32) (b0 b1 b2 : BitVec 8) :
    1 ≤ (disasm addr b0 b1 b2).len ∧ (disasm addr b0 b1 b2).len ≤ 3 := by
  have : (disasm addr b0 b1 b2).len = len b0 := by
    unfold disasm
    by_cases h : (row b0).instr = M65XX_ERROR
    · rw [if_pos h]
    · rw [if_neg h]
  rw [this]
  exact len_table b0.toNat b0.isLt

theorem disasm_len (addr : BitVec 32) (b0 b1 b2 : BitVec 8) : (disasm addr b0 b1 b2).len = len b0 := by
  unfold disasm
  by_cases h : (row b0).instr = M65XX_ERROR
  · rw [if_pos h]
  · rw [if_neg h]

/-! ## locality -/

/-- every row's mode is one of the 15 enumerators, and for a defined opcode the returned length is `op_bytes[op]` -/
theorem row_facts : ∀ c < 256, (rowN c).op < 15 ∧
    ((rowN c).instr ≠ M65XX_ERROR →
      (disasm6502Len.toList.getD c 0).toNat = opBytes.getD (rowN c).op 0 ∧ (rowN c).instr < 98) := by
  decide +kernel

theorem op15 {op : Nat} (h : op < 15) : op = 0 ∨ op = 1 ∨ op = 2 ∨ op = 3 ∨ op = 4 ∨ op = 5 ∨ op = 6 ∨ op = 7 ∨ op = 8 ∨
    op = 9 ∨ op = 10 ∨ op = 11 ∨ op = 12 ∨ op = 13 ∨ op = 14 := by omega

/-- the operand text reads the second byte only in modes with operand bytes, the third only in three-byte modes -/
theorem operandText_local (addr : BitVec 32) (op : Nat) (hop : op < 15) (b1 b2 b1' b2' : BitVec 8) :
    (bytesOf op = 1 → operandText addr op b1 b2 = operandText addr op b1' b2') ∧
    (bytesOf op = 2 → operandText addr op b1 b2 = operandText addr op b1 b2') := by
  rcases op15 hop with e | e | e | e | e | e | e | e | e | e | e | e | e | e | e <;> subst e <;>
    simp [bytesOf, opBytes, operandText, operandTextOf, numText, opConsts]

/-- the bytes of memory `m` at `addr`, `addr + 1`, `addr + 2` (32-bit address arithmetic, as `READ_RAM` does) -/
def disasmMem (addr : BitVec 32) (m : BitVec 32 → BitVec 8) : Dis := disasm addr (m addr) (m (addr + 1)) (m (addr + 2))

/-- **C08, locality.**  Text and length depend only on the address and on the bytes of the instruction itself:
    two memories that agree on the `len` bytes from the address on give the same text and the same length. -/
theorem m6502_decode_local (addr : BitVec 32) (m m' : BitVec 32 → BitVec 8)
    (h : ∀ k : Nat, k < (disasmMem addr m).len → m (addr + BitVec.ofNat 32 k) = m' (addr + BitVec.ofNat 32 k)) :
    disasmMem addr m = disasmMem addr m' := by
  unfold disasmMem at h ⊢
  rw [disasm_len] at h
  have hb := len_table (m addr).toNat (m addr).isLt
  have h0 : m addr = m' addr := by
    have := h 0 (by unfold len; omega)
    simpa using this
  rw [← h0]
  generalize m addr = b0 at *
  have hr := row_facts b0.toNat b0.isLt
  unfold disasm
  by_cases he : (row b0).instr = M65XX_ERROR
  · simp only [he, if_true]
  · simp only [he, if_false]
    have hl : len b0 = bytesOf (row b0).op := (hr.2 he).1
    obtain ⟨l1, l2⟩ := operandText_local addr (row b0).op hr.1 (m (addr + 1)) (m (addr + 2)) (m' (addr + 1)) (m' (addr + 2))
    have hlen : len b0 = 1 ∨ len b0 = 2 ∨ len b0 = 3 := by unfold len; omega
    rcases hlen with e | e | e
    · rw [l1 (by omega)]
    · have h1 : m (addr + 1) = m' (addr + 1) := h 1 (by omega)
      rw [l2 (by omega), h1]
    · have h1 : m (addr + 1) = m' (addr + 1) := h 1 (by omega)
      have h2 : m (addr + 2) = m' (addr + 2) := h 2 (by omega)
      rw [h1, h2]

/-! ## the text fits the caller's buffer -/

theorem hexFix_length (k n : Nat) : (hexFix k n).length = k := by
  induction k generalizing n with
  | zero => rfl
  | succ k ih => simp [hexFix, ih]

theorem decFix_length (k n : Nat) : (decFix k n).length = k := by
  induction k generalizing n with
  | zero => rfl
  | succ k ih => simp [decFix, ih]

theorem trimZeros_length_le (keep : Nat) (l : List Char) : (trimZeros keep l).length ≤ l.length := by
  induction l with
  | nil => simp [trimZeros]
  | cons c cs ih =>
    unfold trimZeros
    split
    · exact Nat.le_succ_of_le ih
    · exact Nat.le_refl _

theorem hex_len (m : Nat) (v : BitVec 32) : (hex m v).length ≤ 8 := by
  unfold hex
  exact Nat.le_trans (trimZeros_length_le _ _) (by rw [hexFix_length]; exact Nat.le_refl _)

theorem dec8_len (b : BitVec 8) : (dec8 b).length ≤ 4 := by
  unfold dec8
  split
  · have := trimZeros_length_le 1 (decFix 3 (256 - b.toNat))
    rw [decFix_length] at this
    simp only [List.length_cons]; omega
  · have := trimZeros_length_le 1 (decFix 3 b.toNat)
    rw [decFix_length] at this
    omega

theorem ite_len {c : Prop} [Decidable c] {a b : List Char} {n : Nat} (ha : a.length ≤ n) (hb : b.length ≤ n) :
    (if c then a else b).length ≤ n := by
  split <;> assumption

theorem numText_len (addr : BitVec 32) (op : Nat) (b1 b2 : BitVec 8) : (numText addr op b1 b2).length ≤ 10 := by
  unfold numText
  have h1 := hex_len 4 (addr + 2 + s8 b1)
  have h2 := hex_len 2 (u8 b1)
  have h3 := hex_len 4 ((u8 b2 <<< 8) ||| u8 b1)
  repeat' apply ite_len
  all_goals simp only [List.length_take, List.length_append, List.length_cons, List.length_nil]
  all_goals omega

theorem operandText_len (addr : BitVec 32) (op : Nat) (b1 b2 : BitVec 8) : (operandText addr op b1 b2).length ≤ 31 := by
  unfold operandText operandTextOf
  have h1 := numText_len addr op b1 b2
  have h2 := dec8_len b1
  repeat' apply ite_len
  all_goals simp only [List.length_take, List.length_append, List.length_cons, List.length_nil]
  all_goals omega

theorem nameOf_len (instr : Nat) : (nameOf instr).length ≤ 4 := by
  unfold nameOf
  rcases Nat.lt_or_ge instr names.length with h | h
  · rw [List.getD_eq_getElem?_getD, List.getElem?_eq_getElem h]
    exact table_names_short _ (List.getElem_mem h)
  · rw [List.getD_eq_getElem?_getD, List.getElem?_eq_none h]
    decide

/-- **C08, the text fits.**  The text `disasm_6502` writes is at most 35 characters long (36 bytes with the NUL), far
    inside the 128-byte buffer every caller passes; `strcpy`/`strcat` are therefore in bounds. -/
theorem m6502_text_fits (addr : BitVec 32) (b0 b1 b2 : BitVec 8) : (disasm addr b0 b1 b2).text.length ≤ 35 := by
  unfold disasm
  by_cases h : (row b0).instr = M65XX_ERROR
  · rw [if_pos h]
    have := hex_len 2 (u8 b0)
    simp only [List.length_append, List.length_cons, List.length_nil]
    omega
  · rw [if_neg h]
    have h1 := nameOf_len (row b0).instr
    have h2 := operandText_len addr (row b0).op b1 b2
    simp only [List.length_append]
    omega

/-! ## the range loop -/

theorem contLines_addrs (a k : Nat) : (contLines a k).map Prod.fst = List.range' a k := by
  induction k generalizing a with
  | zero => rfl
  | succ k ih => simp [contLines, ih, List.range'_succ]

theorem contLines_heads (a k : Nat) : (contLines a k).filter (fun l => !l.2) = [] := by
  induction k generalizing a with
  | zero => rfl
  | succ k ih => simp [contLines, ih]

/-- **C08, tiling.**  Whatever the bytes are, the address column of `disasm_range_6502` lists the addresses
    `start, start+1, start+2, …` — every one once, in increasing order, without a gap — and goes on until the end
    of the range is covered; the instruction lines among them are exactly the chain `start, start+len, …` of the
    generic walk (`Walk.walk`). -/
theorem m6502_walk_tiles (lenAt : Nat → Nat) (hl : ∀ a, 1 ≤ lenAt a ∧ lenAt a ≤ 3) (stop : Nat) :
    ∀ (n start : Nat), stop + 1 - start = n →
      (∃ k, (rangeLines lenAt start stop).map Prod.fst = List.range' start k ∧ (start ≤ stop → stop < start + k)) ∧
      ((rangeLines lenAt start stop).filter (fun l => !l.2)).map Prod.fst = Walk.walk lenAt start stop := by
  intro n
  induction n using Nat.strongRecOn with
  | _ n ih =>
    intro start hn
    unfold rangeLines
    unfold Walk.walk
    by_cases h : start ≤ stop
    · simp only [h, if_true]
      have hw := hl start
      have hmax : max 1 (lenAt start) = lenAt start := by omega
      rw [hmax]
      obtain ⟨⟨k, e2, e3⟩, e4⟩ := ih (stop + 1 - (start + lenAt start)) (by omega) (start + lenAt start) rfl
      have e1 : 1 + (lenAt start - 1) = lenAt start := by omega
      constructor
      · refine ⟨lenAt start + k, ?_, ?_⟩
        · simp only [List.map_cons, List.map_append, contLines_addrs, e2]
          have e : start + lenAt start = start + 1 + (lenAt start - 1) := by omega
          rw [e, List.cons_append, List.range'_append_1, ← List.range'_succ]
          congr 1
          omega
        · intro _
          by_cases h2 : start + lenAt start ≤ stop
          · have := e3 h2; omega
          · omega
      · have hpos : 0 < lenAt start := by omega
        simp only [hpos, if_true, List.filter_cons, Bool.not_false, List.filter_append, contLines_heads,
          List.nil_append, List.map_cons, List.map_append, List.cons_append, e4]
    · rw [if_neg h, if_neg h]
      exact ⟨⟨0, by simp, fun h' => absurd h' h⟩, by simp⟩

/-- instantiated with the model's length function on any memory -/
theorem m6502_walk_tiles_disasm (mem : Nat → BitVec 8) (start stop : Nat) (h : start ≤ stop) :
    ∃ k, (rangeLines (fun a => len (mem a)) start stop).map Prod.fst = List.range' start k ∧ stop < start + k := by
  obtain ⟨⟨k, e1, e2⟩, _⟩ := m6502_walk_tiles (fun a => len (mem a))
    (fun a => len_table (mem a).toNat (mem a).isLt) stop _ start rfl
  exact ⟨k, e1, e2 h⟩

/-- non-vacuity: texts and lengths of a defined, a branch and an undefined opcode; a walk with a three-byte instruction -/
example : disasm 0x1000 0xb1 0x34 0x00 = ⟨t!"lda (0x34),y", 2⟩ := by decide +kernel
example : disasm 0x1000 0xd0 0xfe 0x00 = ⟨t!"bne 0x1000 (offset=-2)", 2⟩ := by decide +kernel
example : disasm 0x1000 0x0f 0x12 0xfd = ⟨t!"bbr0 0x12, 0x1000 (offset=-3)", 3⟩ := by decide +kernel
example : disasm 0x1000 0x02 0x00 0x00 = ⟨t!"??? 0x02", 1⟩ := by decide +kernel
example : rangeLines (fun a => if a = 0x1000 then 3 else 1) 0x1000 0x1003 =
    [(0x1000, false), (0x1001, true), (0x1002, true), (0x1003, false)] := by decide +kernel

end NakenVerif.M6502
