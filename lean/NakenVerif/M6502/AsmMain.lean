/-
  C01 (6502): `m6502_encode_sound` — see AsmSound.lean for the statement in words.
-/
import NakenVerif.M6502.AsmSound
namespace NakenVerif.M6502
open NakenVerif.Generated.SimTables NakenVerif.Generated.M6502Asm NakenVerif.M6502.Asm NakenVerif.M6502.Arch
  NakenVerif.M6502.Spec

/-- the six address notations: the hit's mode is the zero-page or the absolute form of the notation, with the value -/
theorem addr_reading {mn : Mnem} {short long : Mode} {a16 : BitVec 16} {p : Parsed} {x : BitVec 32} {op' : Nat} {md : Mode}
    (hx : p.num = x) (hm : archMode op' = some md) (hops : (op' = s8 ∧ archMode s8 = some short) ∨ (op' = s16 ∧ archMode s16 = some long))
    (h8 : short.operandBytes = 1 ∧ short ≠ .rel ∧ (ranged short p = true → within 0 0xff p.num = true))
    (h16 : long.operandBytes = 2 ∧ long ≠ .zprel ∧ (ranged long p = true → within 0 0xffff p.num = true))
    (hr : ranged md p = true) (hs : (opcodeOf mn md).isSome = true) :
    denote mn md a16 p ∈ twoForms mn short (some long) x := by
  rcases hops with ⟨e, ha⟩ | ⟨e, ha⟩
  · subst e
    rw [ha] at hm
    simp only [Option.some.injEq] at hm
    subst hm
    have hw := h8.2.2 hr
    have : denote mn short a16 p = ⟨mn, short, t16 x, 0⟩ := by
      unfold denote
      rw [h8.1]
      simp only [h8.2.1, if_false]
      rw [bv_zp _ hw, hx]
    rw [this]
    exact twoForms_short (hx ▸ hw) hs
  · subst e
    rw [ha] at hm
    simp only [Option.some.injEq] at hm
    subst hm
    have hw := h16.2.2 hr
    have : denote mn long a16 p = ⟨mn, long, t16 x, 0⟩ := by
      unfold denote
      rw [h16.1]
      simp only [h16.2.1, if_false]
      rw [bv_abs, hx]
    rw [this]
    exact twoForms_long (hx ▸ hw) hs

theorem m6502_encode_sound (ctx : Ctx) (hp : ctx.pass1 = false) (s : Stmt) (bs : List (BitVec 8))
    (h : encode ctx s = .ok bs) :
    ∃ i, i ∈ readings ctx.address s ∧ Arch.decode (ctx.address.truncate 16) bs = some (i, bs.length) := by
  unfold encode at h
  cases hf : findName s.mnemonic with
  | none => simp [hf] at h
  | some pr =>
    obtain ⟨idx, row⟩ := pr
    simp only [hf] at h
    obtain ⟨mn, hmo, hmi, hi, hbr, hrow⟩ := name_mnem hf
    by_cases hrel : row.op = M6502_OP_RELATIVE
    · -- branches
      have hb : isBranch mn = true := hbr.mp hrel
      simp only [hrel, if_true] at h
      cases hpr : parseRel ctx s.op with
      | err => simp [hpr] at h
      | unmodelled => simp [hpr] at h
      | ok p =>
        simp only [hpr] at h
        obtain ⟨op', md, hfb, hm, hs, hseen, hr, hl, hd⟩ := finish_reading hp hi hmi h
        obtain ⟨hop, hfacts⟩ := parseRel_facts hp hpr
        rw [hop] at hfb hseen
        have hop' : op' = 13 := by rcases fallback_cases hfb with e | e | e | e | e <;> omega
        subst hop'
        simp [archMode, opConsts] at hm
        subst hm
        refine ⟨_, ?_, hd⟩
        unfold readings
        simp only [hmo, hb, if_true]
        cases ho : s.op with
        | none =>
          rw [ho] at hfacts
          simp only at hfacts
          have := hseen (by decide)
          rw [hfacts] at this
          cases this
        | imm m v =>
          rw [ho] at hfacts
          obtain ⟨n, hv, hw, hnum⟩ := hfacts
          simp only [hv]
          have : denote mn .rel (ctx.address.truncate 16) p =
              ⟨mn, .rel, t16 ctx.address + 2 + (n.truncate 8 : BitVec 8).signExtend 16, 0⟩ := by
            simp only [denote, Mode.operandBytes, if_true, hnum, bv_imm]
            rfl
          rw [this]
          exact mem_form hw hs
        | addr m v =>
          rw [ho] at hfacts
          obtain ⟨n, hv, hw, hnum⟩ := hfacts
          simp only [hv]
          have : denote mn .rel (ctx.address.truncate 16) p = ⟨mn, .rel, t16 n, 0⟩ := by
            simp only [denote, Mode.operandBytes, if_true, hnum, bv_rel _ _ hw]
          rw [this]
          exact mem_form hw hs
        | addrX m v => rw [ho] at hfacts; exact hfacts.elim
        | addrY m v => rw [ho] at hfacts; exact hfacts.elim
        | addrRel m v t => rw [ho] at hfacts; exact hfacts.elim
        | ind m v => rw [ho] at hfacts; exact hfacts.elim
        | indX m v => rw [ho] at hfacts; exact hfacts.elim
        | indY m v => rw [ho] at hfacts; exact hfacts.elim
    · -- every other mnemonic
      have hb : isBranch mn = false := by
        cases hbb : isBranch mn with
        | false => rfl
        | true => exact absurd (hbr.mpr hbb) hrel
      simp only [hrel, if_false] at h
      cases hpr : parseGen ctx row.op s.size s.op with
      | err => simp [hpr] at h
      | unmodelled => simp [hpr] at h
      | ok p =>
        simp only [hpr] at h
        obtain ⟨op', md, hfb, hm, hs, hseen, hr, hl, hd⟩ := finish_reading hp hi hmi h
        have hfacts := parseGen_facts hpr
        refine ⟨_, ?_, hd⟩
        unfold readings
        simp only [hmo, hb]
        cases ho : s.op with
        | none =>
          rw [ho] at hfacts
          obtain ⟨hop, hsn⟩ := hfacts
          rw [hop] at hfb hseen
          have hop0 : row.op = 0 := by
            simp only [opConsts] at hrow hrel
            rcases hrow with e | e | e | e
            · exact e
            · rw [e] at hseen; have := hseen (by decide); rw [hsn] at this; cases this
            · rw [e] at hseen; have := hseen (by decide); rw [hsn] at this; cases this
            · exact absurd e hrel
          rw [hop0] at hfb
          have hop' : op' = 0 := by rcases fallback_cases hfb with e | e | e | e | e <;> omega
          subst hop'
          simp [archMode, opConsts] at hm
          subst hm
          exact mem_form rfl hs
        | imm m v =>
          rw [ho] at hfacts
          obtain ⟨n, hv, hw, hnum, hop⟩ := hfacts
          rw [hop] at hfb
          have hop' : op' = 1 := by rcases fallback_cases hfb with e | e | e | e | e <;> omega
          subst hop'
          simp [archMode, opConsts] at hm
          subst hm
          simp only [hv]
          have : denote mn .imm (ctx.address.truncate 16) p = ⟨mn, .imm, (n.truncate 8 : BitVec 8).zeroExtend 16, 0⟩ := by
            simp only [denote, Mode.operandBytes, hnum, bv_imm]
            rfl
          rw [this]
          exact mem_form hw hs
        | addrRel m v t =>
          rw [ho] at hfacts
          obtain ⟨x, hv, hnum, hop, hoff⟩ := hfacts
          rw [hop] at hfb
          have hop' : op' = 14 := by rcases fallback_cases hfb with e | e | e | e | e <;> omega
          subst hop'
          simp [archMode, opConsts] at hm
          subst hm
          simp only [hv]
          simp only [ranged, Bool.and_eq_true, hnum, hoff, hp, Bool.false_eq_true, if_false] at hr
          have : denote mn .zprel (ctx.address.truncate 16) p = ⟨mn, .zprel, t16 t, x.truncate 8⟩ := by
            simp only [denote, Mode.operandBytes, if_true, hnum, hoff, hp, Bool.false_eq_true, if_false]
            rw [bv_zprel _ _ hr.2]
            rfl
          rw [this]
          exact mem_form (by rw [Bool.and_eq_true]; exact hr) hs
        | addr m v =>
          rw [ho] at hfacts
          obtain ⟨x, hv, hnum, hop⟩ := hfacts
          simp only [hv]
          refine addr_reading (s8 := 2) (s16 := 3) hnum hm ?_ ⟨rfl, by decide, fun h => h⟩ ⟨rfl, by decide, fun h => h⟩ hr hs
          rcases hop with e | e <;> rw [e] at hfb <;> rcases fallback_cases hfb with e' | e' | e' | e' | e' <;>
            first | (left; exact ⟨by omega, by simp [archMode, opConsts]⟩) | (right; exact ⟨by omega, by simp [archMode, opConsts]⟩) | omega
        | addrX m v =>
          rw [ho] at hfacts
          obtain ⟨x, hv, hnum, hop⟩ := hfacts
          simp only [hv]
          refine addr_reading (s8 := 4) (s16 := 6) hnum hm ?_ ⟨rfl, by decide, fun h => h⟩ ⟨rfl, by decide, fun h => h⟩ hr hs
          rcases hop with e | e <;> rw [e] at hfb <;> rcases fallback_cases hfb with e' | e' | e' | e' | e' <;>
            first | (left; exact ⟨by omega, by simp [archMode, opConsts]⟩) | (right; exact ⟨by omega, by simp [archMode, opConsts]⟩) | omega
        | addrY m v =>
          rw [ho] at hfacts
          obtain ⟨x, hv, hnum, hop⟩ := hfacts
          simp only [hv]
          refine addr_reading (s8 := 5) (s16 := 7) hnum hm ?_ ⟨rfl, by decide, fun h => h⟩ ⟨rfl, by decide, fun h => h⟩ hr hs
          rcases hop with e | e <;> rw [e] at hfb <;> rcases fallback_cases hfb with e' | e' | e' | e' | e' <;>
            first | (left; exact ⟨by omega, by simp [archMode, opConsts]⟩) | (right; exact ⟨by omega, by simp [archMode, opConsts]⟩) | omega
        | ind m v =>
          rw [ho] at hfacts
          obtain ⟨x, hv, hnum, hop⟩ := hfacts
          simp only [hv]
          refine addr_reading (s8 := 11) (s16 := 8) hnum hm ?_ ⟨rfl, by decide, fun h => h⟩ ⟨rfl, by decide, fun h => h⟩ hr hs
          rw [hop] at hfb
          rcases fallback_cases hfb with e' | e' | e' | e' | e' <;>
            first | (left; exact ⟨by omega, by simp [archMode, opConsts]⟩) | (right; exact ⟨by omega, by simp [archMode, opConsts]⟩) | omega
        | indX m v =>
          rw [ho] at hfacts
          obtain ⟨x, hv, hnum, hop⟩ := hfacts
          simp only [hv]
          refine addr_reading (s8 := 9) (s16 := 12) hnum hm ?_ ⟨rfl, by decide, fun h => h⟩ ⟨rfl, by decide, fun h => h⟩ hr hs
          rw [hop] at hfb
          rcases fallback_cases hfb with e' | e' | e' | e' | e' <;>
            first | (left; exact ⟨by omega, by simp [archMode, opConsts]⟩) | (right; exact ⟨by omega, by simp [archMode, opConsts]⟩) | omega
        | indY m v =>
          rw [ho] at hfacts
          obtain ⟨x, hv, hnum, hop⟩ := hfacts
          simp only [hv]
          rw [hop] at hfb
          have hop' : op' = 10 := by rcases fallback_cases hfb with e | e | e | e | e <;> omega
          subst hop'
          simp [archMode, opConsts] at hm
          subst hm
          simp only [ranged, hnum] at hr
          have : denote mn .indy (ctx.address.truncate 16) p = ⟨mn, .indy, t16 x, 0⟩ := by
            simp only [denote, Mode.operandBytes, hnum]
            rw [bv_zp _ hr]
            simp
          rw [this]
          unfold twoForms
          simp only [List.append_nil]
          exact mem_form hr hs

/-- non-vacuity: an accepted statement, its reading, and the architecture's decoding of the emitted bytes -/
example : encode { address := 0x1000 } ⟨"lda", .s0, .addr .none 0x34⟩ = .ok [0xa5, 0x34] ∧
    (⟨.lda, .zp, 0x34, 0⟩ : Instr) ∈ readings 0x1000 ⟨"lda", .s0, .addr .none 0x34⟩ ∧
    Arch.decode 0x1000 [0xa5, 0x34] = some (⟨.lda, .zp, 0x34, 0⟩, 2) := by decide +kernel
example : encode { address := 0x1000 } ⟨"bbs7", .s0, .addrRel .none 0x12 0x1082⟩ = .ok [0xff, 0x12, 0x7f] ∧
    Arch.decode 0x1000 [0xff, 0x12, 0x7f] = some (⟨.bbs 7, .zprel, 0x1082, 0x12⟩, 3) := by decide +kernel

end NakenVerif.M6502
