/-
  The instruction set of the 65C02 (MOS 6502 + the CMOS additions + the Rockwell/WDC bit instructions RMB, SMB, BBR,
  BBS, and WAI/STP), written from the programming manual (MOS MCS6500 programming manual, appendix "Summary of
  instruction set"; WDC W65C02S data sheet, table "Operational codes, execution time and memory requirements" and
  the description of the 16 addressing modes).  Nothing here is derived from /repo.

  An instruction is an opcode byte followed by 0, 1 or 2 operand bytes, the 16-bit ones low byte first.  The
  branches (`rel`) carry a signed 8-bit displacement that the CPU adds to the address of the NEXT instruction
  (address + 2); BBR/BBS (`zprel`) carry a zero-page address and such a displacement, and being three bytes long
  their next instruction is at address + 3.  `decode` is the architecture's own reading of a byte sequence: which
  operation, which addressing mode, which operand (for branches: the target address), how many bytes.
-/
namespace NakenVerif.M6502.Arch

/-- the 56 mnemonics of the MOS 6502, the ten the 65C02 adds, and the four bit-instruction families -/
inductive Mnem
  | adc | and | asl | bcc | bcs | beq | bit | bmi | bne | bpl | brk | bvc | bvs | clc | cld | cli | clv | cmp | cpx | cpy
  | dec | dex | dey | eor | inc | inx | iny | jmp | jsr | lda | ldx | ldy | lsr | nop | ora | pha | php | pla | plp
  | rol | ror | rti | rts | sbc | sec | sed | sei | sta | stx | sty | tax | tay | tsx | txa | txs | tya
  | bra | phx | phy | plx | ply | stz | trb | tsb | wai | stp
  | rmb (n : Fin 8) | smb (n : Fin 8) | bbr (n : Fin 8) | bbs (n : Fin 8)
  deriving DecidableEq, Repr, Inhabited

/-- addressing modes (implied and accumulator are one: no operand bytes) -/
inductive Mode
  | imp       -- implied / accumulator
  | imm       -- #nn
  | zp        -- nn            zero page
  | zpx       -- nn,X
  | zpy       -- nn,Y
  | abs       -- nnnn          absolute
  | absx      -- nnnn,X
  | absy      -- nnnn,Y
  | ind       -- (nnnn)        absolute indirect (JMP)
  | indx      -- (nn,X)        zero page indexed indirect
  | indy      -- (nn),Y        zero page indirect indexed
  | zpind     -- (nn)          zero page indirect (65C02)
  | absindx   -- (nnnn,X)      absolute indexed indirect (65C02 JMP)
  | rel       -- branch target, one displacement byte
  | zprel     -- nn, target    zero page + displacement byte (BBR/BBS)
  deriving DecidableEq, Repr, Inhabited

/-- operand bytes after the opcode -/
def Mode.operandBytes : Mode → Nat
  | .imp => 0
  | .imm | .zp | .zpx | .zpy | .indx | .indy | .zpind | .rel => 1
  | .abs | .absx | .absy | .ind | .absindx | .zprel => 2

/-- the opcode matrix: 212 defined opcodes -/
def matrix : List (Mnem × Mode × BitVec 8) := [
  (.ora, .indx, 0x01), (.ora, .zp, 0x05), (.ora, .imm, 0x09), (.ora, .abs, 0x0d), (.ora, .indy, 0x11),
  (.ora, .zpind, 0x12), (.ora, .zpx, 0x15), (.ora, .absy, 0x19), (.ora, .absx, 0x1d), (.and, .indx, 0x21),
  (.and, .zp, 0x25), (.and, .imm, 0x29), (.and, .abs, 0x2d), (.and, .indy, 0x31), (.and, .zpind, 0x32),
  (.and, .zpx, 0x35), (.and, .absy, 0x39), (.and, .absx, 0x3d), (.eor, .indx, 0x41), (.eor, .zp, 0x45),
  (.eor, .imm, 0x49), (.eor, .abs, 0x4d), (.eor, .indy, 0x51), (.eor, .zpind, 0x52), (.eor, .zpx, 0x55),
  (.eor, .absy, 0x59), (.eor, .absx, 0x5d), (.adc, .indx, 0x61), (.adc, .zp, 0x65), (.adc, .imm, 0x69),
  (.adc, .abs, 0x6d), (.adc, .indy, 0x71), (.adc, .zpind, 0x72), (.adc, .zpx, 0x75), (.adc, .absy, 0x79),
  (.adc, .absx, 0x7d), (.sta, .indx, 0x81), (.sta, .zp, 0x85), (.sta, .abs, 0x8d), (.sta, .indy, 0x91),
  (.sta, .zpind, 0x92), (.sta, .zpx, 0x95), (.sta, .absy, 0x99), (.sta, .absx, 0x9d), (.lda, .indx, 0xa1),
  (.lda, .zp, 0xa5), (.lda, .imm, 0xa9), (.lda, .abs, 0xad), (.lda, .indy, 0xb1), (.lda, .zpind, 0xb2),
  (.lda, .zpx, 0xb5), (.lda, .absy, 0xb9), (.lda, .absx, 0xbd), (.cmp, .indx, 0xc1), (.cmp, .zp, 0xc5),
  (.cmp, .imm, 0xc9), (.cmp, .abs, 0xcd), (.cmp, .indy, 0xd1), (.cmp, .zpind, 0xd2), (.cmp, .zpx, 0xd5),
  (.cmp, .absy, 0xd9), (.cmp, .absx, 0xdd), (.sbc, .indx, 0xe1), (.sbc, .zp, 0xe5), (.sbc, .imm, 0xe9),
  (.sbc, .abs, 0xed), (.sbc, .indy, 0xf1), (.sbc, .zpind, 0xf2), (.sbc, .zpx, 0xf5), (.sbc, .absy, 0xf9),
  (.sbc, .absx, 0xfd), (.asl, .zp, 0x06), (.asl, .imp, 0x0a), (.asl, .abs, 0x0e), (.asl, .zpx, 0x16),
  (.asl, .absx, 0x1e), (.rol, .zp, 0x26), (.rol, .imp, 0x2a), (.rol, .abs, 0x2e), (.rol, .zpx, 0x36),
  (.rol, .absx, 0x3e), (.lsr, .zp, 0x46), (.lsr, .imp, 0x4a), (.lsr, .abs, 0x4e), (.lsr, .zpx, 0x56),
  (.lsr, .absx, 0x5e), (.ror, .zp, 0x66), (.ror, .imp, 0x6a), (.ror, .abs, 0x6e), (.ror, .zpx, 0x76),
  (.ror, .absx, 0x7e), (.dec, .imp, 0x3a), (.dec, .zp, 0xc6), (.dec, .abs, 0xce), (.dec, .zpx, 0xd6),
  (.dec, .absx, 0xde), (.inc, .imp, 0x1a), (.inc, .zp, 0xe6), (.inc, .abs, 0xee), (.inc, .zpx, 0xf6),
  (.inc, .absx, 0xfe), (.stx, .zp, 0x86), (.stx, .abs, 0x8e), (.stx, .zpy, 0x96), (.ldx, .imm, 0xa2),
  (.ldx, .zp, 0xa6), (.ldx, .abs, 0xae), (.ldx, .zpy, 0xb6), (.ldx, .absy, 0xbe), (.sty, .zp, 0x84),
  (.sty, .abs, 0x8c), (.sty, .zpx, 0x94), (.ldy, .imm, 0xa0), (.ldy, .zp, 0xa4), (.ldy, .abs, 0xac),
  (.ldy, .zpx, 0xb4), (.ldy, .absx, 0xbc), (.cpy, .imm, 0xc0), (.cpy, .zp, 0xc4), (.cpy, .abs, 0xcc),
  (.cpx, .imm, 0xe0), (.cpx, .zp, 0xe4), (.cpx, .abs, 0xec), (.bit, .zp, 0x24), (.bit, .abs, 0x2c),
  (.bit, .zpx, 0x34), (.bit, .absx, 0x3c), (.bit, .imm, 0x89), (.stz, .zp, 0x64), (.stz, .zpx, 0x74),
  (.stz, .abs, 0x9c), (.stz, .absx, 0x9e), (.trb, .zp, 0x14), (.trb, .abs, 0x1c), (.tsb, .zp, 0x04),
  (.tsb, .abs, 0x0c), (.jmp, .abs, 0x4c), (.jmp, .ind, 0x6c), (.jmp, .absindx, 0x7c), (.jsr, .abs, 0x20),
  (.bpl, .rel, 0x10), (.bmi, .rel, 0x30), (.bvc, .rel, 0x50), (.bvs, .rel, 0x70), (.bra, .rel, 0x80),
  (.bcc, .rel, 0x90), (.bcs, .rel, 0xb0), (.bne, .rel, 0xd0), (.beq, .rel, 0xf0), (.brk, .imp, 0x00),
  (.php, .imp, 0x08), (.clc, .imp, 0x18), (.plp, .imp, 0x28), (.sec, .imp, 0x38), (.rti, .imp, 0x40),
  (.pha, .imp, 0x48), (.cli, .imp, 0x58), (.rts, .imp, 0x60), (.pla, .imp, 0x68), (.sei, .imp, 0x78),
  (.dey, .imp, 0x88), (.txa, .imp, 0x8a), (.tya, .imp, 0x98), (.txs, .imp, 0x9a), (.tay, .imp, 0xa8),
  (.tax, .imp, 0xaa), (.clv, .imp, 0xb8), (.tsx, .imp, 0xba), (.iny, .imp, 0xc8), (.dex, .imp, 0xca),
  (.cld, .imp, 0xd8), (.inx, .imp, 0xe8), (.nop, .imp, 0xea), (.sed, .imp, 0xf8), (.phy, .imp, 0x5a),
  (.ply, .imp, 0x7a), (.phx, .imp, 0xda), (.plx, .imp, 0xfa), (.wai, .imp, 0xcb), (.stp, .imp, 0xdb),
  ((.rmb 0), .zp, 0x07), ((.smb 0), .zp, 0x87), ((.bbr 0), .zprel, 0x0f), ((.bbs 0), .zprel, 0x8f),
  ((.rmb 1), .zp, 0x17), ((.smb 1), .zp, 0x97), ((.bbr 1), .zprel, 0x1f), ((.bbs 1), .zprel, 0x9f),
  ((.rmb 2), .zp, 0x27), ((.smb 2), .zp, 0xa7), ((.bbr 2), .zprel, 0x2f), ((.bbs 2), .zprel, 0xaf),
  ((.rmb 3), .zp, 0x37), ((.smb 3), .zp, 0xb7), ((.bbr 3), .zprel, 0x3f), ((.bbs 3), .zprel, 0xbf),
  ((.rmb 4), .zp, 0x47), ((.smb 4), .zp, 0xc7), ((.bbr 4), .zprel, 0x4f), ((.bbs 4), .zprel, 0xcf),
  ((.rmb 5), .zp, 0x57), ((.smb 5), .zp, 0xd7), ((.bbr 5), .zprel, 0x5f), ((.bbs 5), .zprel, 0xdf),
  ((.rmb 6), .zp, 0x67), ((.smb 6), .zp, 0xe7), ((.bbr 6), .zprel, 0x6f), ((.bbs 6), .zprel, 0xef),
  ((.rmb 7), .zp, 0x77), ((.smb 7), .zp, 0xf7), ((.bbr 7), .zprel, 0x7f), ((.bbs 7), .zprel, 0xff)]

def opcodeOf (mn : Mnem) (md : Mode) : Option (BitVec 8) :=
  (matrix.find? (fun e => e.1 == mn && e.2.1 == md)).map (·.2.2)

def ofOpcode (b : BitVec 8) : Option (Mnem × Mode) :=
  (matrix.find? (fun e => e.2.2 == b)).map (fun e => (e.1, e.2.1))

/-- an instruction as the CPU sees it.  `val`: the immediate / zero-page address (upper byte 0), the 16-bit address,
    or for `rel` / `zprel` the branch TARGET; `zp`: the zero-page address BBR/BBS test (0 otherwise). -/
structure Instr where
  mn : Mnem
  mode : Mode
  val : BitVec 16
  zp : BitVec 8
  deriving DecidableEq, Repr, Inhabited

/-- The architecture's decoder: the instruction at the head of `bs` (which lies at address `addr`) and the number
    of bytes it occupies; `none` for an undefined opcode or missing operand bytes. -/
def decode (addr : BitVec 16) (bs : List (BitVec 8)) : Option (Instr × Nat) :=
  match bs with
  | [] => none
  | b :: rest =>
    match ofOpcode b with
    | none => none
    | some (mn, md) =>
      match md.operandBytes, rest with
      | 0, _ => some (⟨mn, md, 0, 0⟩, 1)
      | 1, lo :: _ =>
        if md = .rel then some (⟨mn, md, addr + 2 + lo.signExtend 16, 0⟩, 2)
        else some (⟨mn, md, lo.zeroExtend 16, 0⟩, 2)
      | 2, lo :: hi :: _ =>
        if md = .zprel then some (⟨mn, md, addr + 3 + hi.signExtend 16, lo⟩, 3)
        else some (⟨mn, md, hi ++ lo, 0⟩, 3)
      | _, _ => none

/-- length of the instruction that starts with `b` (1 for an undefined opcode: it still occupies its byte) -/
def length (b : BitVec 8) : Nat :=
  match ofOpcode b with
  | none => 1
  | some (_, md) => 1 + md.operandBytes

theorem matrix_length : matrix.length = 212 := by decide +kernel
/-- no opcode is listed twice and no (mnemonic, mode) pair has two opcodes -/
theorem matrix_opcodes_nodup : (matrix.map (·.2.2)).Nodup := by decide +kernel
theorem matrix_forms_nodup : (matrix.map (fun e => (e.1, e.2.1))).Nodup := by decide +kernel

example : decode 0x1000 [0xa9, 0x05] = some (⟨.lda, .imm, 5, 0⟩, 2) := by decide
example : decode 0x1000 [0xad, 0x34, 0x12] = some (⟨.lda, .abs, 0x1234, 0⟩, 3) := by decide
example : decode 0x1000 [0xd0, 0xfe] = some (⟨.bne, .rel, 0x1000, 0⟩, 2) := by decide
example : decode 0x1000 [0x0f, 0x05, 0xfd] = some (⟨.bbr 0, .zprel, 0x1000, 5⟩, 3) := by decide
example : decode 0x1000 [0x02] = none := by decide
example : decode 0x1000 [0x6c, 0x34, 0x12] = some (⟨.jmp, .ind, 0x1234, 0⟩, 3) := by decide

end NakenVerif.M6502.Arch
