/-
  What a 6502 assembly statement means, written from the programming manual (MOS MCS6500 programming manual chapter
  "Addressing techniques" with the assembler notation `#nn  nn  nn,X  nn,Y  nnnn  nnnn,X  nnnn,Y  (nn,X)  (nn),Y
  (nnnn)`, WDC W65C02S data sheet for `(nn)`, `(nnnn,X)`, BBR/BBS `nn, target`).  Independent of naken_asm's tables:
  mnemonics are mapped to the architecture's operations by name.  The statement type is the one the token loop
  produces (`Asm.Stmt`).

  The assembly notation does not say whether an address is a zero-page or an absolute one: `lda 0x34` may be
  assembled as A5 34 or as AD 34 00, the CPU reads the same byte either way.  A statement therefore has a LIST of
  readings: every instruction of the architecture whose notation and operand VALUE it has — the zero-page form only
  if the value is below 0x100, the absolute form only if it is below 0x10000, a form only if the mnemonic has it.
  A value that fits no form has no reading (C06: such a statement must be rejected).

  Readings that are naken_asm's own and not the manual's: the operators `<v` (low byte of v), `>v` (second byte of
  v) and `!v` (low 16 bits of v, "force absolute") apply to the value before anything else; a branch mnemonic
  followed by `#v` takes v as the displacement byte itself (-128 .. 255); the `.b` / `.w` suffix is a hint that
  does not change what the statement may denote.
-/
import NakenVerif.M6502.Arch
import NakenVerif.M6502.Asm
namespace NakenVerif.M6502.Spec
open NakenVerif.M6502.Arch NakenVerif.M6502.Asm

/-- mnemonic names (98) -/
def mnemTable : List (String × Mnem) := [
  ("adc", .adc), ("and", .and), ("asl", .asl), ("bbr0", .bbr 0), ("bbr1", .bbr 1), ("bbr2", .bbr 2),
  ("bbr3", .bbr 3), ("bbr4", .bbr 4), ("bbr5", .bbr 5), ("bbr6", .bbr 6), ("bbr7", .bbr 7), ("bbs0", .bbs 0),
  ("bbs1", .bbs 1), ("bbs2", .bbs 2), ("bbs3", .bbs 3), ("bbs4", .bbs 4), ("bbs5", .bbs 5), ("bbs6", .bbs 6),
  ("bbs7", .bbs 7), ("bcc", .bcc), ("bcs", .bcs), ("beq", .beq), ("bit", .bit), ("bmi", .bmi), ("bne", .bne),
  ("bpl", .bpl), ("bra", .bra), ("brk", .brk), ("bvc", .bvc), ("bvs", .bvs), ("clc", .clc), ("cld", .cld),
  ("cli", .cli), ("clv", .clv), ("cmp", .cmp), ("cpx", .cpx), ("cpy", .cpy), ("dec", .dec), ("dex", .dex),
  ("dey", .dey), ("eor", .eor), ("inc", .inc), ("inx", .inx), ("iny", .iny), ("jmp", .jmp), ("jsr", .jsr),
  ("lda", .lda), ("ldx", .ldx), ("ldy", .ldy), ("lsr", .lsr), ("nop", .nop), ("ora", .ora), ("pha", .pha),
  ("php", .php), ("phx", .phx), ("phy", .phy), ("pla", .pla), ("plp", .plp), ("plx", .plx), ("ply", .ply),
  ("rmb0", .rmb 0), ("rmb1", .rmb 1), ("rmb2", .rmb 2), ("rmb3", .rmb 3), ("rmb4", .rmb 4), ("rmb5", .rmb 5),
  ("rmb6", .rmb 6), ("rmb7", .rmb 7), ("rol", .rol), ("ror", .ror), ("rti", .rti), ("rts", .rts), ("sbc", .sbc),
  ("sec", .sec), ("sed", .sed), ("sei", .sei), ("smb0", .smb 0), ("smb1", .smb 1), ("smb2", .smb 2),
  ("smb3", .smb 3), ("smb4", .smb 4), ("smb5", .smb 5), ("smb6", .smb 6), ("smb7", .smb 7), ("sta", .sta),
  ("stp", .stp), ("stx", .stx), ("sty", .sty), ("stz", .stz), ("tax", .tax), ("tay", .tay), ("trb", .trb),
  ("tsb", .tsb), ("tsx", .tsx), ("txa", .txa), ("txs", .txs), ("tya", .tya), ("wai", .wai)]

def mnemOf (s : String) : Option Mnem := (mnemTable.find? (fun p => p.1 == s)).map (·.2)

/-- the conditional branches and BRA: the operand is the branch target -/
def isBranch : Mnem → Bool
  | .bcc | .bcs | .beq | .bmi | .bne | .bpl | .bvc | .bvs | .bra => true
  | _ => false

/-- the value an operand denotes after naken_asm's operators; `none`: the operator does not exist at that place
    (`imm`: the operand of `#` or of a branch) -/
def value (imm : Bool) (m : Mod) (v : BitVec 32) : Option (BitVec 32) :=
  match m with
  | .none => some v
  | .lt => some (v &&& 0xff)
  | .gt => if imm then some ((v >>> 8) &&& 0xff) else none
  | .bang => if imm then none else some (v &&& 0xffff)

/-- `lo ≤ v ≤ hi` as signed 32-bit numbers -/
def within (lo hi v : BitVec 32) : Bool := lo.sle v && v.sle hi

/-- the instruction `i`, if `ok` and the mnemonic has the addressing mode -/
def form (ok : Bool) (i : Instr) : List Instr := if ok && (opcodeOf i.mn i.mode).isSome then [i] else []

def t16 (v : BitVec 32) : BitVec 16 := v.truncate 16

/-- zero-page and absolute form of an address notation -/
def twoForms (mn : Mnem) (short : Mode) (long : Option Mode) (x : BitVec 32) : List Instr :=
  form (within 0 0xff x) ⟨mn, short, t16 x, 0⟩ ++
  (match long with
   | some l => form (within 0 0xffff x) ⟨mn, l, t16 x, 0⟩
   | none => [])

/-- every instruction the statement, standing at `addr`, may denote -/
def readings (addr : BitVec 32) (s : Stmt) : List Instr :=
  match mnemOf s.mnemonic with
  | none => []
  | some mn =>
    if isBranch mn then
      match s.op with
      | .addr m v =>
        (match value true m v with
         | some t => form (within (-128) 127 (t - (addr + 2))) ⟨mn, .rel, t16 t, 0⟩
         | none => [])
      | .imm m v =>
        (match value true m v with
         | some d => form (within (-128) 255 d) ⟨mn, .rel, t16 addr + 2 + (d.truncate 8 : BitVec 8).signExtend 16, 0⟩
         | none => [])
      | _ => []
    else
      match s.op with
      | .none => form true ⟨mn, .imp, 0, 0⟩
      | .imm m v =>
        (match value true m v with
         | some x => form (within (-128) 255 x) ⟨mn, .imm, (x.truncate 8 : BitVec 8).zeroExtend 16, 0⟩
         | none => [])
      | .addr m v => (match value false m v with | some x => twoForms mn .zp (some .abs) x | none => [])
      | .addrX m v => (match value false m v with | some x => twoForms mn .zpx (some .absx) x | none => [])
      | .addrY m v => (match value false m v with | some x => twoForms mn .zpy (some .absy) x | none => [])
      | .ind m v => (match value false m v with | some x => twoForms mn .zpind (some .ind) x | none => [])
      | .indX m v => (match value false m v with | some x => twoForms mn .indx (some .absindx) x | none => [])
      | .indY m v => (match value false m v with | some x => twoForms mn .indy none x | none => [])
      | .addrRel m v t =>
        (match value false m v with
         | some x =>
           form (within 0 0xff x && within (-128) 127 (t - (addr + 3))) ⟨mn, .zprel, t16 t, x.truncate 8⟩
         | none => [])

/-- C06: the operand values fit a field of some form the instruction has -/
def fits (addr : BitVec 32) (s : Stmt) : Bool := !(readings addr s).isEmpty

example : readings 0x1000 ⟨"lda", .s0, .addr .none 0x34⟩ = [⟨.lda, .zp, 0x34, 0⟩, ⟨.lda, .abs, 0x34, 0⟩] := by decide +kernel
example : readings 0x1000 ⟨"lda", .s0, .addr .none 0x100⟩ = [⟨.lda, .abs, 0x100, 0⟩] := by decide +kernel
example : readings 0x1000 ⟨"lda", .s0, .addr .none 0x10000⟩ = [] := by decide +kernel
example : readings 0x1000 ⟨"lda", .s0, .addr .none (-1)⟩ = [] := by decide +kernel
example : readings 0x1000 ⟨"stx", .s0, .addrY .none 0x100⟩ = [] := by decide +kernel
example : readings 0x1000 ⟨"lda", .s0, .imm .none 0x100⟩ = [] := by decide +kernel
example : readings 0x1000 ⟨"lda", .s0, .imm .none (-1)⟩ = [⟨.lda, .imm, 0xff, 0⟩] := by decide +kernel
example : readings 0x1000 ⟨"bne", .s0, .addr .none 0x1081⟩ = [⟨.bne, .rel, 0x1081, 0⟩] := by decide +kernel
example : fits 0x1000 ⟨"bne", .s0, .addr .none 0x1082⟩ = false := by decide +kernel
example : fits 0x1000 ⟨"bbr0", .s0, .addrRel .none 0x100 0x1000⟩ = false := by decide +kernel
example : readings 0x1000 ⟨"bbr0", .s0, .addrRel .none 5 0x1000⟩ = [⟨.bbr 0, .zprel, 0x1000, 5⟩] := by decide +kernel

end NakenVerif.M6502.Spec
