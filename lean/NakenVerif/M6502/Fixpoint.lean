/-
  C01 (6502), the fixpoint and the walk.

  * `m6502_encode_len`: the disassembler's length for the first emitted byte is the number of bytes emitted.
  * `m6502_walk_exact`: the range loop over the emitted bytes prints the instruction line and one continuation line
    per further byte and ends exactly at the last emitted byte.
  * `m6502_refix_bytes` / `m6502_fixpoint_structured`: assembling the disassembler's reading of the emitted bytes (at
    any address; the pass-1 flag byte is not 1: a disassembly text holds no forward reference) gives exactly the same
    bytes again — except for the one class `lowPage`: an ABSOLUTE (abs / abs,x / abs,y) operand below 0x100 of a
    mnemonic that also has the zero-page form.  Its text (`lda 0x0034`) re-assembles to the zero-page form:
    `m6502_fixpoint_lowpage_counterexample` (finding m6502-absolute-low-page-text).
-/
import NakenVerif.M6502.RoundTrip
import NakenVerif.M6502.AsmRange
namespace NakenVerif.M6502
open NakenVerif.Generated.SimTables NakenVerif.Generated.M6502Asm NakenVerif.M6502.Asm NakenVerif.M6502.Disasm

/-! ### length and walk -/

theorem emit_head {op : Nat} {c : BitVec 8} {p : Parsed} {bs : List (BitVec 8)} (h : emit op c p = .ok bs) :
    ∃ rest, bs = c :: rest := by
  unfold emit at h
  repeat' split at h
  all_goals cases h
  all_goals exact ⟨_, rfl⟩

theorem len_ofNat {c : Nat} (h : c < 256) : len (BitVec.ofNat 8 c) = (disasm6502Len.toList.getD c 0).toNat := by
  unfold len
  simp [BitVec.toNat_ofNat, Nat.mod_eq_of_lt h]

/-- **C01, length.**  The decoder's length for the emitted bytes is the number of emitted bytes. -/
theorem m6502_encode_len (ctx : Ctx) (hp : ctx.pass1 = false) (s : Stmt) (bs : List (BitVec 8))
    (h : encode ctx s = .ok bs) : ∃ b0 rest, bs = b0 :: rest ∧ len b0 = bs.length := by
  unfold encode at h
  cases hf : findName s.mnemonic with
  | none => simp [hf] at h
  | some pr =>
    obtain ⟨idx, row⟩ := pr
    simp only [hf] at h
    obtain ⟨mn, _, hmi, hi, _, _⟩ := name_mnem hf
    have fin : ∀ p, finish ctx idx p = .ok bs → ∃ b0 rest, bs = b0 :: rest ∧ len b0 = bs.length := by
      intro p hfin
      obtain ⟨c, op', hs, _, he⟩ := finish_ok hp hfin
      obtain ⟨md, hm, ho, _, h1, h2, hc⟩ := hit_arch hi hmi hs
      obtain ⟨_, _, hl⟩ := emit_decode 0 he hm ho
      obtain ⟨rest, hb⟩ := emit_head he
      refine ⟨_, rest, hb, ?_⟩
      rw [len_ofNat hc, hl]
      have hlc := table_len_consistent c hc
      unfold lenOK at hlc
      have hE : M65XX_ERROR = 98 := table_sizes.2.2.2.2
      have hne : ¬ (rowN c).instr = M65XX_ERROR := by omega
      simp only [hne, if_false, h2, hm, Bool.and_eq_true, beq_iff_eq] at hlc
      exact hlc.2
    by_cases hrel : row.op = M6502_OP_RELATIVE
    · simp only [hrel, if_true] at h
      cases hpr : parseRel ctx s.op with
      | err => simp [hpr] at h
      | unmodelled => simp [hpr] at h
      | ok p => simp only [hpr] at h; exact fin p h
    · simp only [hrel, if_false] at h
      cases hpr : parseGen ctx row.op s.size s.op with
      | err => simp [hpr] at h
      | unmodelled => simp [hpr] at h
      | ok p => simp only [hpr] at h; exact fin p h

/-- **C01, walk.**  Walking the range loop over `n` emitted bytes at `a` (the decoder's length there is `n`) prints
    the instruction at `a`, a continuation line for each further byte, and nothing else: exactly the emitted bytes
    are consumed. -/
theorem m6502_walk_exact (lenAt : Nat → Nat) (a n : Nat) (hn : 1 ≤ n) (hl : lenAt a = n) :
    rangeLines lenAt a (a + n - 1) = (a, false) :: contLines (a + 1) (n - 1) := by
  unfold rangeLines
  have h1 : a ≤ a + n - 1 := by omega
  rw [if_pos h1, hl]
  have h2 : max 1 n = n := by omega
  rw [h2]
  unfold rangeLines
  have h3 : ¬ a + n ≤ a + n - 1 := by omega
  rw [if_neg h3]
  simp

/-! ### the fixpoint -/

/-- the mnemonic `instr` has an entry with mode `op` -/
def hasForm (instr op : Nat) : Bool := table6502Opcodes.toList.any (fun r => r.instr == instr && r.op == op)

/-- entry `c` is an absolute mode (abs / abs,x / abs,y) of a mnemonic that also has the zero-page form -/
def lowPageRow (c : Nat) : Bool :=
  ((rowN c).op == 3 && hasForm (rowN c).instr 2) || ((rowN c).op == 6 && hasForm (rowN c).instr 4) ||
  ((rowN c).op == 7 && hasForm (rowN c).instr 5)

/-- the class the fixpoint excludes: such an entry with a high operand byte of 0 -/
def lowPage (b0 b2 : BitVec 8) : Bool := b2 == 0 && lowPageRow b0.toNat

/-- the mode the token loop chooses for the text of a mode-`op` instruction (`small`: the numeral is below 0x100) -/
def reOp (op : Nat) (small : Bool) : Nat :=
  if op = 3 then (if small then 2 else 3)
  else if op = 6 then (if small then 4 else 6)
  else if op = 7 then (if small then 5 else 7)
  else if op = 11 then 8
  else if op = 12 then 9
  else op

/-- searching for the mode the text is parsed to comes back to the entry the text was printed from -/
def refindOK (c : Nat) (small : Bool) : Bool :=
  (rowN c).instr == M65XX_ERROR || (rowN c).op == 13 || (rowN c).op == 14 || (small && lowPageRow c) ||
    (match search (rowN c).instr (reOp (rowN c).op small) with
     | none => true
     | some (c', o) => c' == c && o == (rowN c).op)
theorem table_refind : ∀ c < 256, refindOK c true = true ∧ refindOK c false = true := by decide +kernel

theorem bv_small (b1 b2 : BitVec 8) : (0xff : BitVec 32).slt ((u8 b2 <<< 8) ||| u8 b1) = !(b2 == 0) := by
  unfold u8
  bv_decide

theorem bv_small8 (b1 : BitVec 8) : (0xff : BitVec 32).slt (u8 b1) = false := by
  unfold u8
  bv_decide

theorem bv_lo_u8 (b1 : BitVec 8) : lo8 (u8 b1) = b1 := by
  unfold u8 lo8
  bv_decide

theorem bv_lo_u16 (b1 b2 : BitVec 8) : lo8 ((u8 b2 <<< 8) ||| u8 b1) = b1 ∧ hi8 ((u8 b2 <<< 8) ||| u8 b1) = b2 := by
  unfold u8 lo8 hi8
  constructor <;> bv_decide

/-- the mode the re-parse settles on -/
theorem reparse_op {ctx : Ctx} (hflag : ctx.flag ≠ 1) {op op0 : Nat} {b1 b2 : BitVec 8} {o : Operand} {p : Parsed}
    (hop : op < 15) (ho : operandOf op (valueOf op b1 b2) = some o) (h0 : op = 0 → op0 = 0)
    (hpr : parseGen ctx op0 .s0 o = .ok p) :
    p.op = reOp op (b2 == 0) ∧ (op ≠ 0 → op ≠ 1 → p.num = valueOf op b1 b2) ∧ (op = 1 → p.num = u8 b1) := by
  have hfl : (ctx.flag == 1) = false := by simpa using hflag
  rcases op15 hop with e | e | e | e | e | e | e | e | e | e | e | e | e | e | e <;> subst e <;>
    simp [operandOf, bytesOf, opBytes, opConsts] at ho <;> subst ho <;>
    simp [parseGen, getNum, getAddress, valueOf, bytesOf, opBytes, opConsts, outside_within, hflag, bv_small, bv_small8] at hpr
  · subst hpr; simp [reOp, h0]
  all_goals
    repeat' split at hpr
  all_goals first | cases hpr | skip
  all_goals simp_all [reOp, valueOf, bytesOf, opBytes, bv_small, bv_small8]
  all_goals (simp only [Spec.within, u8] at *; bv_decide)

/-- **C01, fixpoint on the decoder's reading.**  Whatever bytes `b0 b1 b2` are: if their text is a statement and the
    assembler accepts it (pass 2, no forward-reference flag), it emits exactly the bytes of that instruction again —
    unless they are a `lowPage` instruction. -/
theorem m6502_refix_bytes (ctx : Ctx) (hp : ctx.pass1 = false) (hflag : ctx.flag ≠ 1) (b0 b1 b2 : BitVec 8) (s : Stmt)
    (hs : toStmt b0 b1 b2 = some s) (bs' : List (BitVec 8)) (he : encode ctx s = .ok bs')
    (hlow : lowPage b0 b2 = false) : bs' = [b0, b1, b2].take (len b0) := by
  obtain ⟨hidx, hop, c', op'', o, p, hc, h1, h2, hfb, rfl, ho, hnrel, h0, hpr, hsr, hem⟩ := reencode_core hp hs he
  obtain ⟨hpo, hnum, hnum1⟩ := reparse_op hflag hop ho h0 hpr
  have hE : M65XX_ERROR = 98 := table_sizes.2.2.2.2
  have hrf := (row_facts b0.toNat b0.isLt).2
  rw [← row_eq] at hrf
  have hlen : len b0 = bytesOf (row b0).op := (hrf (by omega)).1
  -- the search comes back to b0's own entry
  have hback : c' = b0.toNat ∧ op'' = (row b0).op := by
    have ht := table_refind b0.toNat b0.isLt
    have ht' : refindOK b0.toNat (b2 == 0) = true := by cases (b2 == 0) <;> simp [ht.1, ht.2]
    unfold refindOK at ht'
    rw [← row_eq, ← hpo, hsr] at ht'
    simp only [Bool.or_eq_true, beq_iff_eq, Bool.and_eq_true] at ht'
    rcases ht' with (((h | h) | h) | h) | h
    · omega
    · rw [h] at ho; simp [operandOf, bytesOf, opBytes, opConsts] at ho
    · rw [h] at ho; simp [operandOf, bytesOf, opBytes, opConsts] at ho
    · unfold lowPage at hlow
      rw [Bool.and_eq_false_iff] at hlow
      rcases hlow with hl | hl
      · simp only [beq_eq_false_iff_ne, ne_eq] at hl; exact absurd h.1 hl
      · rw [hl] at h; exact absurd h.2 (by simp)
    · exact h
  obtain ⟨rfl, rfl⟩ := hback
  have hb0 : BitVec.ofNat 8 b0.toNat = b0 := by simp
  rw [hb0] at hem
  rw [hlen]
  generalize (row b0).op = op at *
  rcases op15 hop with e | e | e | e | e | e | e | e | e | e | e | e | e | e | e <;> subst e <;>
    simp [operandOf, bytesOf, opBytes, opConsts] at ho
  all_goals
    simp [emit, is8, is16, opConsts, opBytes, outside_within] at hem
  all_goals first | (split at hem <;> cases hem) | cases hem | skip
  all_goals simp [bytesOf, opBytes, valueOf] at hnum hnum1 ⊢
  all_goals first | (rw [hnum1]; exact bv_lo_u8 b1) | (rw [hnum]; first | exact bv_lo_u8 b1 | exact bv_lo_u16 b1 b2) | skip

/-- **C01, fixpoint.**  For an accepted statement: assembling the disassembler's reading of the emitted bytes gives
    exactly the emitted bytes again (whenever it is accepted), unless the emitted instruction is a `lowPage` one. -/
theorem m6502_fixpoint_structured (ctx : Ctx) (hp : ctx.pass1 = false) (s : Stmt) (bs : List (BitVec 8))
    (h : encode ctx s = .ok bs) (ctx' : Ctx) (hp' : ctx'.pass1 = false) (hflag : ctx'.flag ≠ 1) (s' : Stmt)
    (hs' : toStmt (bs.getD 0 0) (bs.getD 1 0) (bs.getD 2 0) = some s') (bs' : List (BitVec 8))
    (he : encode ctx' s' = .ok bs') (hlow : lowPage (bs.getD 0 0) (bs.getD 2 0) = false) : bs' = bs := by
  obtain ⟨b0, rest, hb, hl⟩ := m6502_encode_len ctx hp s bs h
  rw [m6502_refix_bytes ctx' hp' hflag _ _ _ s' hs' bs' he hlow]
  subst hb
  have hb3 := (len_table b0.toNat b0.isLt).2
  simp only [List.getD_cons_zero] at hl ⊢
  rw [hl]
  have : len b0 ≤ 3 := hb3
  rw [hl] at this
  match rest, this with
  | [], _ => rfl
  | [x], _ => rfl
  | [x, y], _ => rfl
  | _ :: _ :: _ :: _, h3 => simp only [List.length_cons] at h3; omega

/-- the excluded class is real (finding m6502-absolute-low-page-text): `lda.w 0x34` is assembled as AD 34 00, printed
    as `lda 0x0034`, read as the statement `lda 0x34`, and that is assembled as A5 34 -/
theorem m6502_fixpoint_lowpage_counterexample :
    encode { address := 0x1000 } ⟨"lda", .s16, .addr .none 0x34⟩ = .ok [0xad, 0x34, 0x00] ∧
    toStmt 0xad 0x34 0x00 = some ⟨"lda", .s0, .addr .none 0x34⟩ ∧
    encode { address := 0x1000 } ⟨"lda", .s0, .addr .none 0x34⟩ = .ok [0xa5, 0x34] ∧
    lowPage 0xad 0x00 = true := by decide +kernel

/-- non-vacuity: an accepted statement whose text is accepted again, with the same bytes -/
example : encode { address := 0x1000 } ⟨"lda", .s0, .addrX .none 0x1234⟩ = .ok [0xbd, 0x34, 0x12] ∧
    toStmt 0xbd 0x34 0x12 = some ⟨"lda", .s0, .addrX .none 0x1234⟩ ∧ lowPage 0xbd 0x12 = false := by decide +kernel

end NakenVerif.M6502
