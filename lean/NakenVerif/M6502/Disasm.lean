/-
  Implementation model of `disasm_6502` (disasm/6502.cpp): the exact text and the returned length for every byte
  sequence, and of the address column `disasm_range_6502` prints.  `b0` is the byte at the address, `b1 b2` the two
  bytes after it.  Text is a `List Char` (the driver turns it into a string); numerals are rendered by `hex`/`dec`
  (`%02x`, `%04x`, `%d`).  `snprintf(num, sizeof(num), …)` writes into `char num[8]`: at most 7 characters survive
  (a branch target above 0xfffff loses its low digits), `temp` is `char temp[32]`: at most 31 characters.

  The length is `op_bytes[op]` of the opcode's table row and 1 for an opcode without a row (since /repo fix
  "disasm_6502 returned length 0 …"; before it the function returned 0 there).  The model takes it from
  `SimTables.disasm6502Len`, the return value of the REAL function per first byte as the translator measured it;
  `DisProps.table_len_consistent` proves that this is `op_bytes[op]`, the value the text branches on.
-/
import NakenVerif.M6502.Asm
namespace NakenVerif.M6502.Disasm
open NakenVerif.Generated.SimTables NakenVerif.Generated.M6502Asm NakenVerif.M6502.Asm

/-- `t!"abc"` is the character list `['a', 'b', 'c']` (expanded when the file is elaborated, so that no proof has
    to evaluate a string literal) -/
macro:max "t!" s:str : term => do
  let elems ← s.getString.toList.toArray.mapM (fun c => `($(Lean.Syntax.mkCharLit c)))
  `([$elems,*])

/-! ### numerals -/

def hexDigit (n : Nat) : Char := if n % 16 < 10 then Char.ofNat (48 + n % 16) else Char.ofNat (87 + n % 16)
def decDigit (n : Nat) : Char := Char.ofNat (48 + n % 10)

/-- `k` digits of `n` in base 16 / 10, most significant first -/
def hexFix : Nat → Nat → List Char
  | 0, _ => []
  | k + 1, n => hexFix k (n / 16) ++ [hexDigit n]
def decFix : Nat → Nat → List Char
  | 0, _ => []
  | k + 1, n => decFix k (n / 10) ++ [decDigit n]

/-- drop leading zeros while more than `keep` characters remain -/
def trimZeros (keep : Nat) : List Char → List Char
  | [] => []
  | c :: cs => if c = '0' ∧ keep < (c :: cs).length then trimZeros keep cs else c :: cs

/-- `%0<min>x` of a 32-bit value -/
def hex (min : Nat) (v : BitVec 32) : List Char := trimZeros min (hexFix 8 v.toNat)
/-- `%d` of an `int8_t` promoted to `int` -/
def dec8 (b : BitVec 8) : List Char :=
  if b.msb then '-' :: trimZeros 1 (decFix 3 (256 - b.toNat)) else trimZeros 1 (decFix 3 b.toNat)

def u8 (b : BitVec 8) : BitVec 32 := b.zeroExtend 32
def s8 (b : BitVec 8) : BitVec 32 := b.signExtend 32

/-! ### one instruction -/

def row (b0 : BitVec 8) : Row6502 := table6502Opcodes.toList.getD b0.toNat ⟨M65XX_ERROR, 0, 0, 0⟩

/-- `table_6502[instr].name` -/
def nameOf (instr : Nat) : List Char := ((names.getD instr ⟨"", 0, 0⟩).name).toList

/-- `op_bytes[op]` -/
def bytesOf (op : Nat) : Nat := opBytes.getD op 0

/-- the return value of `disasm_6502` -/
def len (b0 : BitVec 8) : Nat := (disasm6502Len.toList.getD b0.toNat 0).toNat

/-- `num`: the operand numeral (`char num[8]`) -/
def numText (addr : BitVec 32) (op : Nat) (b1 b2 : BitVec 8) : List Char :=
  if bytesOf op = 2 then
    if op = M6502_OP_RELATIVE then (t!"0x" ++ hex 4 (addr + 2 + s8 b1)).take 7
    else t!"0x" ++ hex 2 (u8 b1)
  else if bytesOf op = 3 then t!"0x" ++ hex 4 ((u8 b2 <<< 8) ||| u8 b1)
  else []

/-- `temp`: the operand text, `num` being the numeral -/
def operandTextOf (num : List Char) (addr : BitVec 32) (op : Nat) (b1 b2 : BitVec 8) : List Char :=
  if 1 < bytesOf op then
    if op = M6502_OP_NONE then t!" "
    else if op = M6502_OP_IMMEDIATE then t!" #" ++ num
    else if op = M6502_OP_ADDRESS8 ∨ op = M6502_OP_ADDRESS16 then t!" " ++ num
    else if op = M6502_OP_INDEXED8_X ∨ op = M6502_OP_INDEXED16_X then t!" " ++ num ++ t!",x"
    else if op = M6502_OP_INDEXED8_Y ∨ op = M6502_OP_INDEXED16_Y then t!" " ++ num ++ t!",y"
    else if op = M6502_OP_INDIRECT16 ∨ op = M6502_OP_INDIRECT8 then t!" (" ++ num ++ t!")"
    else if op = M6502_OP_X_INDIRECT8 ∨ op = M6502_OP_X_INDIRECT16 then t!" (" ++ num ++ t!",x)"
    else if op = M6502_OP_INDIRECT8_Y then t!" (" ++ num ++ t!"),y"
    else if op = M6502_OP_RELATIVE then t!" " ++ num ++ t!" (offset=" ++ dec8 b1 ++ t!")"
    else if op = M6502_OP_ADDRESS8_RELATIVE then
      (t!" 0x" ++ hex 2 (u8 b1) ++ t!", 0x" ++ hex 2 (addr + 3 + s8 b2) ++ t!" (offset=" ++ dec8 b2 ++ t!")").take 31
    else t!" "
  else t!" "

def operandText (addr : BitVec 32) (op : Nat) (b1 b2 : BitVec 8) : List Char :=
  operandTextOf (numText addr op b1 b2) addr op b1 b2

structure Dis where
  text : List Char
  len : Nat
  deriving DecidableEq, Repr

/-- `disasm_6502(memory, addr, instruction, …)` -/
def disasm (addr : BitVec 32) (b0 b1 b2 : BitVec 8) : Dis :=
  if (row b0).instr = M65XX_ERROR then ⟨t!"??? 0x" ++ hex 2 (u8 b0), len b0⟩
  else ⟨nameOf (row b0).instr ++ operandText addr (row b0).op b1 b2, len b0⟩

/-! ### the statement the printed text is to the assembler's token loop -/

/-- the operand value the text spells: the 16-bit numeral of a three-byte instruction, else the 8-bit one (numerals
    are `0x…` literals: the value, zero extended) -/
def valueOf (op : Nat) (b1 b2 : BitVec 8) : BitVec 32 :=
  if bytesOf op = 3 then (u8 b2 <<< 8) ||| u8 b1 else u8 b1

/-- the operand notation of a mode; branch texts carry `(offset=…)` after the target, which the expression
    evaluator rejects: `none` -/
def operandOf (op : Nat) (v : BitVec 32) : Option Operand :=
  if bytesOf op ≤ 1 then some .none
  else if op = M6502_OP_IMMEDIATE then some (.imm .none v)
  else if op = M6502_OP_ADDRESS8 ∨ op = M6502_OP_ADDRESS16 then some (.addr .none v)
  else if op = M6502_OP_INDEXED8_X ∨ op = M6502_OP_INDEXED16_X then some (.addrX .none v)
  else if op = M6502_OP_INDEXED8_Y ∨ op = M6502_OP_INDEXED16_Y then some (.addrY .none v)
  else if op = M6502_OP_INDIRECT16 ∨ op = M6502_OP_INDIRECT8 then some (.ind .none v)
  else if op = M6502_OP_X_INDIRECT8 ∨ op = M6502_OP_X_INDIRECT16 then some (.indX .none v)
  else if op = M6502_OP_INDIRECT8_Y then some (.indY .none v)
  else none

/-- The statement the text of the instruction is to the assembler's token loop (`none`: an undefined opcode,
    `??? 0x..`, or a branch text). -/
def toStmt (b0 b1 b2 : BitVec 8) : Option Stmt :=
  if (row b0).instr = M65XX_ERROR then none
  else
    (operandOf (row b0).op (valueOf (row b0).op b1 b2)).map
      (fun o => ⟨(names.getD (row b0).instr ⟨"", 0, 0⟩).name, .s0, o⟩)

/-! ### `disasm_range_6502` -/

/-- `k` continuation lines `a, a+1, …` -/
def contLines (a : Nat) : Nat → List (Nat × Bool)
  | 0 => []
  | k + 1 => (a, true) :: contLines (a + 1) k

/-- lines (address, is a continuation line) printed for `start .. stop`; `lenAt a` = the value `disasm_6502`
    returns at `a`: the instruction line, one line per further byte, then `start = start + 1` -/
def rangeLines (lenAt : Nat → Nat) (start stop : Nat) : List (Nat × Bool) :=
  if start ≤ stop then
    (start, false) :: contLines (start + 1) (lenAt start - 1) ++ rangeLines lenAt (start + max 1 (lenAt start)) stop
  else []
termination_by stop + 1 - start
decreasing_by omega

end NakenVerif.M6502.Disasm
