/-
  C01 (6502): soundness of the encoder.  An accepted statement is emitted as bytes that the ARCHITECTURE's decoder
  reads back as one of the instructions the statement may denote (`Spec.readings`): the mnemonic's operation, an
  addressing mode the notation stands for, the operand VALUE exactly (zero page only for a value below 0x100,
  absolute only below 0x10000, a displacement only within -128 … 127 of the next instruction), and exactly as many
  bytes as were emitted.  Holds for every pass-1 flag byte, suffix, modifier and address.
-/
import NakenVerif.M6502.AsmProofs
namespace NakenVerif.M6502
open NakenVerif.Generated.SimTables NakenVerif.Generated.M6502Asm NakenVerif.M6502.Asm NakenVerif.M6502.Arch
  NakenVerif.M6502.Spec

/-! ### what the operand parsers deliver -/

/-- facts about an accepted operand of a non-branch mnemonic: the mode the token loop chose, the value -/
def GenFacts (ctx : Ctx) (op0 : Nat) (o : Operand) (p : Parsed) : Prop :=
  match o with
  | .none => p.op = op0 ∧ p.seen = false
  | .imm m v => ∃ n, value true m v = some n ∧ within (-128) 255 n = true ∧ p.num = n &&& 0xff ∧ p.op = 1
  | .addr m v => ∃ x, value false m v = some x ∧ p.num = x ∧ (p.op = 2 ∨ p.op = 3)
  | .addrX m v => ∃ x, value false m v = some x ∧ p.num = x ∧ (p.op = 4 ∨ p.op = 6)
  | .addrY m v => ∃ x, value false m v = some x ∧ p.num = x ∧ (p.op = 5 ∨ p.op = 7)
  | .ind m v => ∃ x, value false m v = some x ∧ p.num = x ∧ p.op = 8
  | .indX m v => ∃ x, value false m v = some x ∧ p.num = x ∧ p.op = 9
  | .indY m v => ∃ x, value false m v = some x ∧ p.num = x ∧ p.op = 10
  | .addrRel m v t => ∃ x, value false m v = some x ∧ p.num = x ∧ p.op = 14 ∧
      p.offset = (if ctx.pass1 then 0 else t - (ctx.address + 3))

theorem parseGen_facts {ctx : Ctx} {op0 : Nat} {size : Size} {o : Operand} {p : Parsed}
    (h : parseGen ctx op0 size o = .ok p) : GenFacts ctx op0 o p := by
  cases o with
  | none =>
    simp only [parseGen, PResult.ok.injEq] at h
    subst h
    exact ⟨rfl, rfl⟩
  | imm m v =>
    simp only [parseGen] at h
    cases hn : getNum m v with
    | none => simp [hn] at h
    | some n =>
      simp only [hn, outside_within] at h
      split at h
      · cases h
      · rename_i hw
        simp only [PResult.ok.injEq] at h
        subst h
        exact ⟨n, getNum_value hn, by simpa using hw, rfl, by simp [opConsts]⟩
  | ind m v =>
    simp only [parseGen] at h
    cases hn : getAddress ctx m v size with
    | none => simp [hn] at h
    | some pr =>
      obtain ⟨n, w⟩ := pr
      simp only [hn, PResult.ok.injEq] at h
      subst h
      exact ⟨n, getAddress_value hn, rfl, by simp [opConsts]⟩
  | indX m v =>
    simp only [parseGen] at h
    cases hn : getAddress ctx m v size with
    | none => simp [hn] at h
    | some pr =>
      obtain ⟨n, w⟩ := pr
      simp only [hn, PResult.ok.injEq] at h
      subst h
      exact ⟨n, getAddress_value hn, rfl, by simp [opConsts]⟩
  | indY m v =>
    simp only [parseGen] at h
    cases hn : getAddress ctx m v size with
    | none => simp [hn] at h
    | some pr =>
      obtain ⟨n, w⟩ := pr
      simp only [hn] at h
      split at h
      · cases h
      · simp only [PResult.ok.injEq] at h
        subst h
        exact ⟨n, getAddress_value hn, rfl, by simp [opConsts]⟩
  | addr m v =>
    simp only [parseGen] at h
    cases hn : getAddress ctx m v size with
    | none => simp [hn] at h
    | some pr =>
      obtain ⟨n, w⟩ := pr
      simp only [hn] at h
      split at h
      · cases h
      · split at h
        · cases h
        · simp only [PResult.ok.injEq] at h
          subst h
          refine ⟨n, getAddress_value hn, rfl, ?_⟩
          simp only [opConsts]
          split <;> simp
  | addrX m v =>
    simp only [parseGen] at h
    cases hn : getAddress ctx m v size with
    | none => simp [hn] at h
    | some pr =>
      obtain ⟨n, w⟩ := pr
      simp only [hn] at h
      split at h
      · cases h
      · split at h
        · cases h
        · simp only [PResult.ok.injEq] at h
          subst h
          refine ⟨n, getAddress_value hn, rfl, ?_⟩
          simp only [opConsts]
          split <;> simp
  | addrY m v =>
    simp only [parseGen] at h
    cases hn : getAddress ctx m v size with
    | none => simp [hn] at h
    | some pr =>
      obtain ⟨n, w⟩ := pr
      simp only [hn] at h
      split at h
      · cases h
      · split at h
        · cases h
        · simp only [PResult.ok.injEq] at h
          subst h
          refine ⟨n, getAddress_value hn, rfl, ?_⟩
          simp only [opConsts]
          split <;> simp
  | addrRel m v t =>
    simp only [parseGen] at h
    cases hn : getAddress ctx m v size with
    | none => simp [hn] at h
    | some pr =>
      obtain ⟨n, w⟩ := pr
      simp only [hn] at h
      split at h
      · cases h
      · split at h
        · cases h
        · simp only [PResult.ok.injEq] at h
          subst h
          exact ⟨n, getAddress_value hn, rfl, by simp [opConsts], rfl⟩

theorem parseGen_seen {ctx : Ctx} {op0 : Nat} {size : Size} {o : Operand} {p : Parsed}
    (h : parseGen ctx op0 size o = .ok p) (ho : o ≠ .none) : p.seen = true := by
  cases o <;> simp only [parseGen] at h
  · exact absurd rfl ho
  all_goals
    repeat' split at h
    all_goals cases h
    all_goals rfl

/-- facts about an accepted operand of a branch mnemonic (pass 2) -/
def RelFacts (ctx : Ctx) (o : Operand) (p : Parsed) : Prop :=
  p.op = 13 ∧
  match o with
  | .none => p.seen = false
  | .imm m v => ∃ n, value true m v = some n ∧ within (-128) 255 n = true ∧ p.num = n &&& 0xff
  | .addr m v => ∃ n, value true m v = some n ∧ within (-128) 127 (n - (ctx.address + 2)) = true ∧
      p.num = (n - (ctx.address + 2)) &&& 0xff
  | _ => False

theorem parseRel_facts {ctx : Ctx} {o : Operand} {p : Parsed} (hp : ctx.pass1 = false)
    (h : parseRel ctx o = .ok p) : RelFacts ctx o p := by
  cases o with
  | none =>
    simp only [parseRel, PResult.ok.injEq] at h
    subst h
    exact ⟨by simp [opConsts], rfl⟩
  | imm m v =>
    simp only [parseRel] at h
    cases hn : getNum m v with
    | none => simp [hn] at h
    | some n =>
      simp only [hn, outside_within] at h
      split at h
      · cases h
      · rename_i hw
        simp only [PResult.ok.injEq] at h
        subst h
        exact ⟨by simp [opConsts], n, getNum_value hn, by simpa using hw, rfl⟩
  | addr m v =>
    simp only [parseRel] at h
    cases hn : getNum m v with
    | none => simp [hn] at h
    | some n =>
      simp only [hn, hp, outside_within] at h
      split at h
      · rename_i hc; cases hc
      · split at h
        · cases h
        · rename_i hw
          simp only [PResult.ok.injEq] at h
          subst h
          exact ⟨by simp [opConsts], n, getNum_value hn, by simpa using hw, rfl⟩
  | addrX m v => simp only [parseRel] at h; split at h <;> cases h
  | addrY m v => simp only [parseRel] at h; split at h <;> cases h
  | addrRel m v t => simp only [parseRel] at h; split at h <;> cases h
  | ind m v => simp [parseRel] at h
  | indX m v => simp [parseRel] at h
  | indY m v => simp [parseRel] at h

/-! ### from the hit to a reading -/

theorem fallback_cases {op op' : Nat} (h : fallback op op' = true) :
    op' = op ∨ (op = 8 ∧ op' = 11) ∨ (op = 9 ∧ op' = 12) ∨ (op = 2 ∧ op' = 3) ∨ (op = 5 ∧ op' = 7) := by
  simp only [fallback, opConsts, Bool.or_eq_true, Bool.and_eq_true, beq_iff_eq] at h
  omega

/-- everything `finish` tells about an accepted statement, seen by the architecture -/
theorem finish_reading {ctx : Ctx} {idx : Nat} {mn : Mnem} {p : Parsed} {bs : List (BitVec 8)} (hp : ctx.pass1 = false)
    (hi : idx < 98) (hmn : mnemIdx idx = some mn) (h : finish ctx idx p = .ok bs) :
    ∃ op' md, fallback p.op op' = true ∧ archMode op' = some md ∧ (opcodeOf mn md).isSome = true ∧
      (1 < opBytes.getD p.op 0 → p.seen = true) ∧ ranged md p = true ∧ bs.length = 1 + md.operandBytes ∧
      Arch.decode (ctx.address.truncate 16) bs = some (denote mn md (ctx.address.truncate 16) p, bs.length) := by
  obtain ⟨c, op', hs, hseen, he⟩ := finish_ok hp h
  obtain ⟨md, hm, ho, hf, _, _, _⟩ := hit_arch hi hmn hs
  obtain ⟨hd, hr, hl⟩ := emit_decode (ctx.address.truncate 16) he hm ho
  exact ⟨op', md, hf, hm, ofOpcode_form ho, hseen, hr, hl, hd⟩

theorem twoForms_short {mn : Mnem} {short : Mode} {long : Option Mode} {x : BitVec 32} (h8 : within 0 0xff x = true)
    (hs : (opcodeOf mn short).isSome = true) : (⟨mn, short, t16 x, 0⟩ : Instr) ∈ twoForms mn short long x := by
  unfold twoForms
  exact List.mem_append_left _ (mem_form h8 hs)

theorem twoForms_long {mn : Mnem} {short l : Mode} {x : BitVec 32} (h16 : within 0 0xffff x = true)
    (hs : (opcodeOf mn l).isSome = true) : (⟨mn, l, t16 x, 0⟩ : Instr) ∈ twoForms mn short (some l) x := by
  unfold twoForms
  exact List.mem_append_right _ (mem_form h16 hs)

end NakenVerif.M6502
