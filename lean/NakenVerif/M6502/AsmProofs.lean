/-
  Lemmas for the 6502 encoder theorems: what `findName`, `finish`/`emit` and the two operand parsers deliver, the
  architecture decoder on the emitted bytes, bit-vector facts about the operand bytes.
-/
import Std.Tactic.BVDecide
import NakenVerif.M6502.Tables
namespace NakenVerif.M6502
open NakenVerif.Generated.SimTables NakenVerif.Generated.M6502Asm NakenVerif.M6502.Asm NakenVerif.M6502.Arch
  NakenVerif.M6502.Spec

/-! ### bit vectors -/

theorem outside_within (lo hi v : BitVec 32) : outside lo hi v = !within lo hi v := by
  unfold outside within
  bv_decide

theorem bv_zp (n : BitVec 32) (h : within 0 0xff n = true) : (lo8 n).zeroExtend 16 = t16 n := by
  unfold within at h; unfold lo8 t16
  bv_decide

theorem bv_zp8 (n : BitVec 32) : lo8 n = n.truncate 8 := rfl

theorem bv_abs (n : BitVec 32) : hi8 n ++ lo8 n = t16 n := by
  unfold hi8 lo8 t16
  bv_decide

theorem bv_imm (n : BitVec 32) : lo8 (n &&& 0xff) = n.truncate 8 := by
  unfold lo8
  bv_decide

theorem bv_rel (addr t : BitVec 32) (h : within (-128) 127 (t - (addr + 2)) = true) :
    (addr.truncate 16 : BitVec 16) + 2 + (lo8 ((t - (addr + 2)) &&& 0xff)).signExtend 16 = t16 t := by
  unfold within at h; unfold lo8 t16
  bv_decide

theorem bv_zprel (addr t : BitVec 32) (h : within (-128) 127 (t - (addr + 3)) = true) :
    (addr.truncate 16 : BitVec 16) + 3 + (lo8 (t - (addr + 3))).signExtend 16 = t16 t := by
  unfold within at h; unfold lo8 t16
  bv_decide

theorem bv_gt (v : BitVec 32) : (v.sshiftRight 8) &&& 0xff = (v >>> 8) &&& 0xff := by
  bv_decide

/-! ### the operators -/

theorem getNum_value {m : Mod} {v n : BitVec 32} (h : getNum m v = some n) : value true m v = some n := by
  cases m <;> simp only [getNum, value, Option.some.injEq, if_true] at h ⊢
  · exact h
  · exact h
  · rw [← h]; exact (bv_gt v).symm
  · cases h

theorem getAddress_value {ctx : Ctx} {m : Mod} {v n : BitVec 32} {size : Size} {w : Bool}
    (h : getAddress ctx m v size = some (n, w)) : value false m v = some n := by
  cases m <;> simp only [getAddress, value, Option.some.injEq, Prod.mk.injEq] at h ⊢
  · exact h.1
  · exact h.1
  · cases h
  · simpa using h.1

/-! ### names -/

theorem findName_spec {m : String} {idx : Nat} {row : Name} (h : findName m = some (idx, row)) :
    idx < 98 ∧ nameN idx = row ∧ row.name = m := by
  unfold findName at h
  rw [Option.map_eq_some_iff] at h
  obtain ⟨⟨r, i⟩, hf, he⟩ := h
  simp only [Prod.mk.injEq] at he
  obtain ⟨rfl, rfl⟩ := he
  have hp := List.find?_some hf
  have hm := List.mem_of_find?_eq_some hf
  simp only [beq_iff_eq] at hp
  rw [List.mem_zipIdx_iff_getElem?] at hm
  simp only at hm
  have hl : names.length = 98 := table_sizes.2.2.1
  have hlt : i < names.length := by
    rcases Nat.lt_or_ge i names.length with h1 | h1
    · exact h1
    · rw [List.getElem?_eq_none h1] at hm; cases hm
  refine ⟨by omega, ?_, hp⟩
  unfold nameN
  rw [List.getD_eq_getElem?_getD, hm]
  rfl

/-- the architecture's mnemonic of the statement's name -/
theorem name_mnem {m : String} {idx : Nat} {row : Name} (h : findName m = some (idx, row)) :
    ∃ mn, mnemOf m = some mn ∧ mnemIdx idx = some mn ∧ idx < 98 ∧
      ((row.op = M6502_OP_RELATIVE) ↔ isBranch mn = true) ∧
      (row.op = M6502_OP_NONE ∨ row.op = M6502_OP_ADDRESS8 ∨ row.op = M6502_OP_ADDRESS8_RELATIVE ∨
        row.op = M6502_OP_RELATIVE) := by
  obtain ⟨hi, hr, hn⟩ := findName_spec h
  obtain ⟨h1, h2⟩ := table_names_mnem idx hi
  have h3 := table_names_arch idx hi
  rw [hr, hn] at h1
  cases hm : mnemIdx idx with
  | none => rw [hm] at h2; simp at h2
  | some mn =>
    refine ⟨mn, by rw [h1, hm], rfl, hi, ?_, ?_⟩
    all_goals
      unfold nameOK at h3
      simp only [hm, hr, Bool.and_eq_true, Bool.or_eq_true, beq_iff_eq] at h3
    · obtain ⟨h4, _⟩ := h3
      constructor
      · intro e; simpa [e] using h4
      · intro e; rw [e] at h4; simpa using h4
    · obtain ⟨_, h5⟩ := h3
      rcases h5 with ((h5 | h5) | h5) | h5
      · exact Or.inl h5
      · exact Or.inr (Or.inl h5)
      · exact Or.inr (Or.inr (Or.inl h5))
      · exact Or.inr (Or.inr (Or.inr h5))

/-! ### a hit of the search, seen by the architecture -/

/-- the `OP_*` enumerators -/
theorem opConsts : M6502_OP_NONE = 0 ∧ M6502_OP_IMMEDIATE = 1 ∧ M6502_OP_ADDRESS8 = 2 ∧ M6502_OP_ADDRESS16 = 3 ∧
    M6502_OP_INDEXED8_X = 4 ∧ M6502_OP_INDEXED8_Y = 5 ∧ M6502_OP_INDEXED16_X = 6 ∧ M6502_OP_INDEXED16_Y = 7 ∧
    M6502_OP_INDIRECT16 = 8 ∧ M6502_OP_X_INDIRECT8 = 9 ∧ M6502_OP_INDIRECT8_Y = 10 ∧ M6502_OP_INDIRECT8 = 11 ∧
    M6502_OP_X_INDIRECT16 = 12 ∧ M6502_OP_RELATIVE = 13 ∧ M6502_OP_ADDRESS8_RELATIVE = 14 := by decide


theorem archMode_lt {op : Nat} {md : Mode} (h : archMode op = some md) : op < 15 := by
  rcases Nat.lt_or_ge op 15 with h1 | h1
  · exact h1
  · exfalso
    have : archMode op = none := by
      simp only [archMode, opConsts]
      repeat rw [if_neg (by omega)]
    rw [this] at h
    cases h

theorem hit_arch {idx op c op' : Nat} {mn : Mnem} (hi : idx < 98) (hmn : mnemIdx idx = some mn)
    (h : search idx op = some (c, op')) :
    ∃ md, archMode op' = some md ∧ ofOpcode (BitVec.ofNat 8 c) = some (mn, md) ∧ fallback op op' = true ∧
      (rowN c).instr = idx ∧ (rowN c).op = op' ∧ c < 256 := by
  obtain ⟨hc, h1, h2, h3⟩ := search_hit h
  have hr := table_matches_arch c hc
  unfold rowOK at hr
  simp only at hr
  cases ho : ofOpcode (BitVec.ofNat 8 c) with
  | none =>
    simp only [ho, beq_iff_eq] at hr
    rw [h1] at hr
    have : M65XX_ERROR = 98 := table_sizes.2.2.2.2
    omega
  | some pr =>
    obtain ⟨mn', md⟩ := pr
    simp only [ho, Bool.and_eq_true, decide_eq_true_eq, beq_iff_eq] at hr
    obtain ⟨⟨_, h4⟩, h5⟩ := hr
    rw [h1, hmn] at h4
    rw [h2] at h5
    simp only [Option.some.injEq] at h4
    subst h4
    exact ⟨md, h5, rfl, h3, h1, h2, hc⟩

/-- an opcode of the matrix is the opcode of its (mnemonic, mode) pair -/
theorem ofOpcode_form {b : BitVec 8} {mn : Mnem} {md : Mode} (h : ofOpcode b = some (mn, md)) :
    (opcodeOf mn md).isSome = true := by
  unfold ofOpcode at h
  rw [Option.map_eq_some_iff] at h
  obtain ⟨e, hf, he⟩ := h
  have hm := List.mem_of_find?_eq_some hf
  unfold opcodeOf
  rw [Option.isSome_map, List.find?_isSome]
  simp only [Prod.mk.injEq] at he
  exact ⟨e, hm, by simp [he.1, he.2]⟩

theorem mem_form {ok : Bool} {i : Instr} (h1 : ok = true) (h2 : (opcodeOf i.mn i.mode).isSome = true) : i ∈ form ok i := by
  unfold form
  simp [h1, h2]

/-! ### `finish` and the decoder on what it emits -/

theorem finish_ok {ctx : Ctx} {idx : Nat} {p : Parsed} {bs : List (BitVec 8)} (hp : ctx.pass1 = false)
    (h : finish ctx idx p = .ok bs) :
    ∃ c op', search idx p.op = some (c, op') ∧ (1 < opBytes.getD p.op 0 → p.seen = true) ∧
      emit op' (BitVec.ofNat 8 c) p = .ok bs := by
  unfold finish at h
  split at h
  · cases h
  · rename_i hs
    cases hf : search idx p.op with
    | none => simp [hf, hp] at h
    | some pr =>
      obtain ⟨c, op'⟩ := pr
      simp only [hf] at h
      refine ⟨c, op', rfl, ?_, h⟩
      intro h1
      cases hseen : p.seen with
      | true => rfl
      | false => exact absurd ⟨h1, hseen⟩ hs

/-- the instruction the emitted bytes are, for the mode `md` of the hit -/
def denote (mn : Mnem) (md : Mode) (a16 : BitVec 16) (p : Parsed) : Instr :=
  match md.operandBytes with
  | 0 => ⟨mn, md, 0, 0⟩
  | 1 => if md = .rel then ⟨mn, md, a16 + 2 + (lo8 p.num).signExtend 16, 0⟩ else ⟨mn, md, (lo8 p.num).zeroExtend 16, 0⟩
  | _ => if md = .zprel then ⟨mn, md, a16 + 3 + (lo8 p.offset).signExtend 16, lo8 p.num⟩
         else ⟨mn, md, hi8 p.num ++ lo8 p.num, 0⟩

/-- the range the final `switch` enforced, by mode -/
def ranged (md : Mode) (p : Parsed) : Bool :=
  match md with
  | .zp | .zpx | .zpy | .indx | .indy | .zpind => within 0 0xff p.num
  | .abs | .absx | .absy | .ind | .absindx => within 0 0xffff p.num
  | .zprel => within 0 0xff p.num && within (-128) 127 p.offset
  | _ => true

theorem emit_decode {op' : Nat} {c8 : BitVec 8} {p : Parsed} {bs : List (BitVec 8)} {mn : Mnem} {md : Mode}
    (a16 : BitVec 16) (h : emit op' c8 p = .ok bs) (hm : archMode op' = some md) (ho : ofOpcode c8 = some (mn, md)) :
    Arch.decode a16 bs = some (denote mn md a16 p, bs.length) ∧ ranged md p = true ∧
      bs.length = 1 + md.operandBytes := by
  have hlt := archMode_lt hm
  have hcases : op' = 0 ∨ op' = 1 ∨ op' = 2 ∨ op' = 3 ∨ op' = 4 ∨ op' = 5 ∨ op' = 6 ∨ op' = 7 ∨ op' = 8 ∨ op' = 9 ∨
      op' = 10 ∨ op' = 11 ∨ op' = 12 ∨ op' = 13 ∨ op' = 14 := by omega
  rcases hcases with e | e | e | e | e | e | e | e | e | e | e | e | e | e | e <;> subst e <;>
    simp [archMode, opConsts] at hm <;> subst hm <;>
    simp [emit, is8, is16, opBytes, opConsts, outside_within] at h
  all_goals
    repeat' split at h
  all_goals cases h
  all_goals simp_all [Arch.decode, denote, ranged, Mode.operandBytes]

end NakenVerif.M6502
