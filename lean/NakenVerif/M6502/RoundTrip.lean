/-
  C07 (6502): decode → encode → decode is a fixpoint.  `Disasm.toStmt b0 b1 b2` is the statement the disassembly text
  of the bytes is to the assembler (mnemonic, operand notation, the numeral's VALUE: `0x0034` and `0x34` are one
  operand); if the assembler accepts it — at any address, with any pass-1 flag byte — the bytes it produces
  disassemble to the same statement again.  The texts the assembler never accepts are listed by
  `m6502_text_rejected_classes`: the 44 undefined opcodes (`??? 0x..`) and the branch texts of OP_RELATIVE /
  OP_ADDRESS8_RELATIVE rows (`bne 0x1000 (offset=-2)`: the `(offset=…)` suffix is not an expression).
-/
import NakenVerif.M6502.AsmSound
import NakenVerif.M6502.DisProps
namespace NakenVerif.M6502
open NakenVerif.Generated.SimTables NakenVerif.Generated.M6502Asm NakenVerif.M6502.Asm NakenVerif.M6502.Disasm

/-! ### table facts -/

/-- a branch mnemonic has only OP_RELATIVE entries and no other mnemonic has one; a mnemonic with an OP_NONE entry
    has the default mode OP_NONE -/
def rtRowOK (c : Nat) : Bool :=
  let r := rowN c
  r.instr == M65XX_ERROR ||
    (((nameN r.instr).op == M6502_OP_RELATIVE) == (r.op == M6502_OP_RELATIVE) &&
     (r.op != M6502_OP_NONE || (nameN r.instr).op == M6502_OP_NONE))
theorem table_rt_rows : ∀ c < 256, rtRowOK c = true := by decide +kernel

theorem row_eq (b0 : BitVec 8) : row b0 = rowN b0.toNat := rfl

theorem row_ofNat {c : Nat} (h : c < 256) : row (BitVec.ofNat 8 c) = rowN c := by
  unfold row rowN
  simp [BitVec.toNat_ofNat, Nat.mod_eq_of_lt h]

/-! ### the notation of a mode -/

theorem operandOf_cases {op : Nat} {v : BitVec 32} {o : Operand} (hop : op < 15) (h : operandOf op v = some o) :
    (op = 0 ∧ o = .none) ∨ (op = 1 ∧ o = .imm .none v) ∨ ((op = 2 ∨ op = 3) ∧ o = .addr .none v) ∨
    ((op = 4 ∨ op = 6) ∧ o = .addrX .none v) ∨ ((op = 5 ∨ op = 7) ∧ o = .addrY .none v) ∨
    ((op = 8 ∨ op = 11) ∧ o = .ind .none v) ∨ ((op = 9 ∨ op = 12) ∧ o = .indX .none v) ∨ (op = 10 ∧ o = .indY .none v) := by
  rcases op15 hop with e | e | e | e | e | e | e | e | e | e | e | e | e | e | e <;> subst e <;>
    simp [operandOf, bytesOf, opBytes, opConsts] at h <;> simp [h]

theorem bv_u8_lo8 (v : BitVec 32) (h : Spec.within 0 0xff v = true) : u8 (lo8 v) = v := by
  unfold Spec.within at h; unfold u8 lo8
  bv_decide

theorem bv_u16 (v : BitVec 32) (h : Spec.within 0 0xffff v = true) : (u8 (hi8 v) <<< 8) ||| u8 (lo8 v) = v := by
  unfold Spec.within at h; unfold u8 lo8 hi8
  bv_decide

theorem bv_u8_imm (b : BitVec 8) : u8 (lo8 (u8 b &&& 0xff)) = u8 b := by
  unfold u8 lo8
  bv_decide

/-- what `emit` writes for an address mode, and the value the decoder reads back from it -/
theorem emit_addr {op'' : Nat} {c : BitVec 8} {p : Parsed} {bs' : List (BitVec 8)} (he : emit op'' c p = .ok bs')
    (h : op'' = 2 ∨ op'' = 3 ∨ op'' = 4 ∨ op'' = 5 ∨ op'' = 6 ∨ op'' = 7 ∨ op'' = 8 ∨ op'' = 9 ∨ op'' = 10 ∨ op'' = 11 ∨
      op'' = 12) :
    bs'.getD 0 0 = c ∧ valueOf op'' (bs'.getD 1 0) (bs'.getD 2 0) = p.num ∧ bs'.length = bytesOf op'' := by
  rcases h with e | e | e | e | e | e | e | e | e | e | e <;> subst e <;>
    simp [emit, is8, is16, opConsts, outside_within] at he <;>
    split at he <;> cases he <;> rename_i hw <;>
    simp [valueOf, bytesOf, opBytes] <;>
    first
      | exact bv_u8_lo8 _ (by simpa using hw)
      | exact bv_u16 _ (by simpa using hw)

/-! ### re-assembly of the decoder's reading -/

/-- everything the assembler does with the statement `toStmt b0 b1 b2` -/
theorem reencode_core {ctx : Ctx} (hp : ctx.pass1 = false) {b0 b1 b2 : BitVec 8} {s : Stmt}
    (hs : toStmt b0 b1 b2 = some s) {bs' : List (BitVec 8)} (he : encode ctx s = .ok bs') :
    (row b0).instr < 98 ∧ (row b0).op < 15 ∧
    ∃ c' op'' o p, c' < 256 ∧ (rowN c').instr = (row b0).instr ∧ (rowN c').op = op'' ∧ fallback p.op op'' = true ∧
      s = ⟨(nameN (row b0).instr).name, .s0, o⟩ ∧ operandOf (row b0).op (valueOf (row b0).op b1 b2) = some o ∧
      (nameN (row b0).instr).op ≠ M6502_OP_RELATIVE ∧ ((row b0).op = 0 → (nameN (row b0).instr).op = 0) ∧
      parseGen ctx (nameN (row b0).instr).op .s0 o = .ok p ∧ search (row b0).instr p.op = some (c', op'') ∧
      emit op'' (BitVec.ofNat 8 c') p = .ok bs' := by
  unfold toStmt at hs
  by_cases hE : (row b0).instr = M65XX_ERROR
  · rw [if_pos hE] at hs; cases hs
  · rw [if_neg hE] at hs
    rw [Option.map_eq_some_iff] at hs
    obtain ⟨o, ho, hs⟩ := hs
    have hrf := row_facts b0.toNat b0.isLt
    rw [← row_eq] at hrf
    obtain ⟨hop, hrf2⟩ := hrf
    obtain ⟨_, hidx⟩ := hrf2 hE
    have hrt := table_rt_rows b0.toNat b0.isLt
    unfold rtRowOK at hrt
    rw [← row_eq] at hrt
    simp only [Bool.or_eq_true, Bool.and_eq_true, beq_iff_eq, bne_iff_ne, ne_eq, Bool.not_eq_true', beq_eq_false_iff_ne,
      Bool.beq_eq_decide_eq, decide_eq_true_eq] at hrt
    have hrt' := hrt.resolve_left hE
    have hname := table_names_unique (row b0).instr hidx
    refine ⟨hidx, hop, ?_⟩
    subst hs
    unfold encode at he
    simp only [show names.getD (row b0).instr ⟨"", 0, 0⟩ = nameN (row b0).instr from rfl, hname] at he
    -- a branch mnemonic's rows are OP_RELATIVE rows, whose text is not a statement
    have hnrel : (nameN (row b0).instr).op ≠ M6502_OP_RELATIVE := by
      intro e
      have h13 : (row b0).op = M6502_OP_RELATIVE := by
        have := hrt'.1
        simp only [e, true_iff, decide_true] at this
        simpa using this
      rw [h13] at ho
      simp [operandOf, bytesOf, opBytes, opConsts] at ho
    simp only [hnrel, if_false] at he
    cases hpr : parseGen ctx (nameN (row b0).instr).op .s0 o with
    | err => simp [hpr] at he
    | unmodelled => simp [hpr] at he
    | ok p =>
      simp only [hpr] at he
      obtain ⟨c', op'', hsr, _, hem⟩ := finish_ok hp he
      obtain ⟨hc, h1, h2, h3⟩ := search_hit hsr
      refine ⟨c', op'', o, p, hc, h1, h2, h3, rfl, ho, hnrel, ?_, hpr, hsr, hem⟩
      intro h0
      have := hrt'.2
      simp only [opConsts] at this ⊢
      rcases this with h | h
      · exact absurd h0 h
      · exact h

/-- **C07.**  If the assembler accepts the disassembler's reading of a byte sequence, the bytes it produces are
    read as the same statement again: same mnemonic, same operand notation, same operand value. -/
theorem m6502_decode_encode_decode (ctx : Ctx) (hp : ctx.pass1 = false) (b0 b1 b2 : BitVec 8) (s : Stmt)
    (hs : toStmt b0 b1 b2 = some s) (bs' : List (BitVec 8)) (he : encode ctx s = .ok bs') :
    toStmt (bs'.getD 0 0) (bs'.getD 1 0) (bs'.getD 2 0) = some s := by
  obtain ⟨hidx, hop, c', op'', o, p, hc, h1, h2, hfb, rfl, ho, hnrel, h0, hpr, hsr, hem⟩ := reencode_core hp hs he
  have hfacts := parseGen_facts hpr
  have hE : M65XX_ERROR = 98 := table_sizes.2.2.2.2
  -- the first byte is c', whose row is (instr, op'')
  have key : bs'.getD 0 0 = BitVec.ofNat 8 c' ∧
      operandOf op'' (valueOf op'' (bs'.getD 1 0) (bs'.getD 2 0)) = some o := by
    rcases operandOf_cases hop ho with ⟨e, rfl⟩ | ⟨e, rfl⟩ | ⟨e, rfl⟩ | ⟨e, rfl⟩ | ⟨e, rfl⟩ | ⟨e, rfl⟩ | ⟨e, rfl⟩ | ⟨e, rfl⟩
    · -- no operand
      obtain ⟨hpo, _⟩ := hfacts
      rw [hpo, h0 e] at hfb
      have : op'' = 0 := by rcases fallback_cases hfb with e' | e' | e' | e' | e' <;> omega
      subst this
      simp [emit, is8, is16, opConsts, opBytes] at hem
      subst hem
      simp [operandOf, bytesOf, opBytes]
    · -- immediate
      obtain ⟨n, hv, _, hnum, hpo⟩ := hfacts
      rw [hpo] at hfb
      have : op'' = 1 := by rcases fallback_cases hfb with e' | e' | e' | e' | e' <;> omega
      subst this
      simp only [Spec.value, Option.some.injEq] at hv
      subst hv
      simp [emit, is8, is16, opConsts, opBytes] at hem
      subst hem
      simp [operandOf, valueOf, bytesOf, opBytes, opConsts, hnum, e]
      exact bv_u8_imm b1
    all_goals
      obtain ⟨x, hv, hnum, hpo⟩ := hfacts
      simp only [Spec.value, Option.some.injEq] at hv
      subst hv
      have hops : op'' = 2 ∨ op'' = 3 ∨ op'' = 4 ∨ op'' = 5 ∨ op'' = 6 ∨ op'' = 7 ∨ op'' = 8 ∨ op'' = 9 ∨ op'' = 10 ∨
          op'' = 11 ∨ op'' = 12 := by
        first
          | (rcases hpo with e1 | e1 <;> rw [e1] at hfb <;> rcases fallback_cases hfb with e' | e' | e' | e' | e' <;> omega)
          | (rw [hpo] at hfb; rcases fallback_cases hfb with e' | e' | e' | e' | e' <;> omega)
      obtain ⟨g0, g1, _⟩ := emit_addr hem hops
      refine ⟨g0, ?_⟩
      rw [g1, hnum]
      first
        | (rcases hpo with e1 | e1 <;> rw [e1] at hfb <;> rcases fallback_cases hfb with e' | e' | e' | e' | e' <;>
            first | omega | (obtain ⟨_, e''⟩ := e'; subst e''; simp [operandOf, bytesOf, opBytes, opConsts]) |
              (subst e'; simp [operandOf, bytesOf, opBytes, opConsts]))
        | (rw [hpo] at hfb; rcases fallback_cases hfb with e' | e' | e' | e' | e' <;>
            first | omega | (obtain ⟨_, e''⟩ := e'; subst e''; simp [operandOf, bytesOf, opBytes, opConsts]) |
              (subst e'; simp [operandOf, bytesOf, opBytes, opConsts]))
  obtain ⟨k0, k1⟩ := key
  unfold toStmt
  rw [k0, row_ofNat hc, h1, h2]
  have : ¬ (row b0).instr = M65XX_ERROR := by omega
  rw [if_neg this, k1]
  rfl

/-- the classes of bytes whose text is never re-assembled: undefined opcodes and the two branch modes -/
theorem m6502_text_rejected_classes (b0 b1 b2 : BitVec 8) :
    toStmt b0 b1 b2 = none ↔
      ((row b0).instr = M65XX_ERROR ∨ (row b0).op = M6502_OP_RELATIVE ∨ (row b0).op = M6502_OP_ADDRESS8_RELATIVE) := by
  have hrf := row_facts b0.toNat b0.isLt
  rw [← row_eq] at hrf
  unfold toStmt
  by_cases hE : (row b0).instr = M65XX_ERROR
  · simp [hE]
  · rw [if_neg hE]
    simp only [hE, false_or, Option.map_eq_none_iff]
    generalize (row b0).op = op at *
    rcases op15 hrf.1 with e | e | e | e | e | e | e | e | e | e | e | e | e | e | e <;> subst e <;>
      simp [operandOf, bytesOf, opBytes, opConsts]

/-- non-vacuity: a reading that is accepted, and the two rejected classes -/
example : toStmt 0xb1 0x34 0x00 = some ⟨"lda", .s0, .indY .none 0x34⟩ ∧
    encode { address := 0x2000 } ⟨"lda", .s0, .indY .none 0x34⟩ = .ok [0xb1, 0x34] := by decide +kernel
example : toStmt 0xd0 0xfe 0x00 = none ∧ toStmt 0x02 0x00 0x00 = none ∧ toStmt 0x0f 0x12 0x05 = none := by decide +kernel

end NakenVerif.M6502
