/-
  Implementation model of the 6502 encoder `parse_instruction_6502` (asm/6502.cpp, with `get_num` and
  `get_address`) for statements that carry at most ONE operand of the syntactic shapes listed in `Operand`.

  A statement is what the token loop sees: the lower-cased mnemonic, the dot suffix (none, `.b`, `.w`)
  and the operand: which brackets / index letter / modifier (`<`, `>`, `!`) were written and the C `int` that
  `eval_expression(asm_context, &num)` delivered for each number (the 64-bit expression value, rejected unless it
  lies in -2^31 .. 2^32-1, then its low 32 bits), so every range check below is the C comparison on `int`.

  Followed in the order of the C function: search of `table_6502[]` by name (the ROW INDEX is what is compared with
  `table_6502_opcodes[i].instr`), the operand branch (relative mnemonics: `get_num`; others: `#`, `(`, address),
  `get_address`'s zero-page-or-absolute choice by VALUE (and by the byte that pass 1 left at the instruction's
  address: `ctx.flag = 1` forces the absolute form), the search of `table_6502_opcodes[256]` with its four
  fall-backs ((zp) for (abs), (abs,x) for (zp,x), abs for zp, abs,y for zp,y), the final range `switch`, and the
  bytes given to `add_bin8`.  The model follows /repo as fixed by the four `fix:` commits of proposed_fixes/
  (missing operand, bbr/bbs zero-page range, bbr/bbs displacement base address + 3).

  Outside the model (`Result.unmodelled`): a second operand group in the same statement (the `while (1)` loop would
  run again), `>` before an address, `!` before a number read by `get_num`, `(` after a branch mnemonic (these hand
  the token to the expression evaluator), symbols and operators inside expressions.
-/
import NakenVerif.Generated.SimTables
import NakenVerif.Generated.M6502AsmTable
namespace NakenVerif.M6502.Asm
open NakenVerif.Generated.SimTables NakenVerif.Generated.M6502Asm

/-- the modifier token in front of a number -/
inductive Mod | none | lt | gt | bang
  deriving DecidableEq, Repr, Inhabited

/-- operand syntax -/
inductive Operand where
  | none                                          -- no operand
  | imm (m : Mod) (v : BitVec 32)                 -- # v
  | addr (m : Mod) (v : BitVec 32)                -- v
  | addrX (m : Mod) (v : BitVec 32)               -- v , x
  | addrY (m : Mod) (v : BitVec 32)               -- v , y
  | addrRel (m : Mod) (v : BitVec 32) (t : BitVec 32)   -- v , t      (bbr / bbs)
  | ind (m : Mod) (v : BitVec 32)                 -- ( v )
  | indX (m : Mod) (v : BitVec 32)                -- ( v , x )
  | indY (m : Mod) (v : BitVec 32)                -- ( v ) , y
  deriving DecidableEq, Repr, Inhabited

/-- the dot suffix: none (`size = 0`), `.b` (8), `.w` (16) -/
inductive Size | s0 | s8 | s16
  deriving DecidableEq, Repr, Inhabited

structure Stmt where
  mnemonic : String            -- instr_case
  size : Size := .s0
  op : Operand
  deriving DecidableEq, Repr, Inhabited

structure Ctx where
  address : BitVec 32          -- asm_context->address
  flag : BitVec 8 := 0         -- asm_context->memory_read(address): what pass 1 left in the image there
  pass1 : Bool := false        -- asm_context->pass == 1
  deriving Repr

inductive Result where
  | ok (bs : List (BitVec 8))  -- the bytes given to add_bin8, in order
  | err                        -- an error was printed / -1 returned
  | unmodelled                 -- the statement leaves the modelled fragment
  deriving DecidableEq, Repr, Inhabited

/-- C `v < lo || v > hi` on `int` -/
def outside (lo hi v : BitVec 32) : Bool := v.slt lo || hi.slt v

/-- `get_num`: the number after an optional `<` (low byte) or `>` (high byte) -/
def getNum (m : Mod) (v : BitVec 32) : Option (BitVec 32) :=
  match m with
  | .none => some v
  | .lt => some (v &&& 0xff)
  | .gt => some ((v.sshiftRight 8) &&& 0xff)
  | .bang => none

/-- `get_address`: the number after an optional `<` (force zero page) or `!` (force absolute) and the operand size
    it settles on (`true` = 16, `false` = 8) when the suffix left it open -/
def getAddress (ctx : Ctx) (m : Mod) (v : BitVec 32) (size : Size) : Option (BitVec 32 × Bool) :=
  let wide : Bool :=
    match size with
    | .s0 => (0xff : BitVec 32).slt v || ctx.flag = 1
    | .s8 => false
    | .s16 => true
  match m with
  | .none => some (v, wide)
  | .lt => some (v &&& 0xff, false)
  | .bang => some (v &&& 0xffff, true)
  | .gt => none

/-- what the token loop leaves: addressing mode, `num`, `offset`, and whether `num` was set at all (`seen`) -/
structure Parsed where
  op : Nat
  num : BitVec 32
  offset : BitVec 32 := 0
  seen : Bool := true
  deriving DecidableEq, Repr, Inhabited

inductive PResult where
  | ok (p : Parsed)
  | err
  | unmodelled
  deriving DecidableEq, Repr, Inhabited

/-- the operand of a mnemonic whose default mode is OP_RELATIVE (bcc … bra) -/
def parseRel (ctx : Ctx) (o : Operand) : PResult :=
  match o with
  | .none => .ok { op := M6502_OP_RELATIVE, num := 0, seen := false }
  | .imm m v =>
    (match getNum m v with
     | none => .unmodelled
     | some n => if outside (-128) 0xff n then .err else .ok { op := M6502_OP_RELATIVE, num := n &&& 0xff })
  | .addr m v =>
    (match getNum m v with
     | none => .unmodelled
     | some n =>
       if ctx.pass1 then .ok { op := M6502_OP_RELATIVE, num := n }
       else
         let d := n - (ctx.address + 2)
         if outside (-128) 127 d then .err else .ok { op := M6502_OP_RELATIVE, num := d &&& 0xff })
  | .addrX m _ | .addrY m _ | .addrRel m _ _ => if m = .bang then .unmodelled else .err   -- "Unexpected token ,"
  | .ind _ _ | .indX _ _ | .indY _ _ => .unmodelled

/-- the operand of every other mnemonic; `op0` is the default mode of its `table_6502[]` row -/
def parseGen (ctx : Ctx) (op0 : Nat) (size : Size) (o : Operand) : PResult :=
  let address (m : Mod) (v : BitVec 32) (k : BitVec 32 → Bool → PResult) : PResult :=
    match getAddress ctx m v size with
    | none => .unmodelled
    | some (n, wide) =>
      if outside 0 0xffff n then .err
      else
        let wide := wide || (n = 0 && ctx.flag = 1)
        if !wide && (0xff : BitVec 32).slt n then .err else k n wide
  match o with
  | .none => .ok { op := op0, num := 0, seen := false }
  | .imm m v =>
    (match getNum m v with
     | none => .unmodelled
     | some n => if outside (-128) 0xff n then .err else .ok { op := M6502_OP_IMMEDIATE, num := n &&& 0xff })
  | .ind m v =>
    (match getAddress ctx m v size with
     | none => .unmodelled
     | some (n, _) => .ok { op := M6502_OP_INDIRECT16, num := n })
  | .indX m v =>
    (match getAddress ctx m v size with
     | none => .unmodelled
     | some (n, _) => .ok { op := M6502_OP_X_INDIRECT8, num := n })
  | .indY m v =>
    (match getAddress ctx m v size with
     | none => .unmodelled
     | some (n, wide) => if outside 0 0xff n || wide then .err else .ok { op := M6502_OP_INDIRECT8_Y, num := n })
  | .addr m v =>
    address m v (fun n wide => .ok { op := if wide then M6502_OP_ADDRESS16 else M6502_OP_ADDRESS8, num := n })
  | .addrX m v =>
    address m v (fun n wide =>
      .ok { op := if (0xff : BitVec 32).slt n || wide then M6502_OP_INDEXED16_X else M6502_OP_INDEXED8_X, num := n })
  | .addrY m v =>
    address m v (fun n wide =>
      .ok { op := if (0xff : BitVec 32).slt n || wide then M6502_OP_INDEXED16_Y else M6502_OP_INDEXED8_Y, num := n })
  | .addrRel m v t =>
    address m v (fun n _ =>
      .ok { op := M6502_OP_ADDRESS8_RELATIVE, num := n, offset := if ctx.pass1 then 0 else t - (ctx.address + 3) })

/-! ### the search of `table_6502_opcodes[256]` -/

/-- one step of the `for (i = 0; i < 256; i++)` loop: the mode the entry is taken with, if it is taken -/
def takes (op : Nat) (r : Row6502) : Option Nat :=
  if r.op = op then some op
  else if op = M6502_OP_INDIRECT16 ∧ r.op = M6502_OP_INDIRECT8 then some M6502_OP_INDIRECT8
  else if op = M6502_OP_X_INDIRECT8 ∧ r.op = M6502_OP_X_INDIRECT16 then some M6502_OP_X_INDIRECT16
  else if op = M6502_OP_ADDRESS8 ∧ r.op = M6502_OP_ADDRESS16 then some M6502_OP_ADDRESS16
  else if op = M6502_OP_INDEXED8_Y ∧ r.op = M6502_OP_INDEXED16_Y then some M6502_OP_INDEXED16_Y
  else none

def searchFrom (instr op : Nat) : Nat → List Row6502 → Option (Nat × Nat)
  | _, [] => none
  | i, r :: rest =>
    if r.instr = instr then
      match takes op r with
      | some op' => some (i, op')
      | none => searchFrom instr op (i + 1) rest
    else searchFrom instr op (i + 1) rest

/-- (opcode, final mode) -/
def search (instr op : Nat) : Option (Nat × Nat) := searchFrom instr op 0 (table6502Opcodes.toList.take 256)

def is8 (op : Nat) : Bool :=
  op = M6502_OP_ADDRESS8 || op = M6502_OP_INDEXED8_X || op = M6502_OP_INDEXED8_Y || op = M6502_OP_X_INDIRECT8 ||
  op = M6502_OP_INDIRECT8_Y || op = M6502_OP_INDIRECT8
def is16 (op : Nat) : Bool :=
  op = M6502_OP_ADDRESS16 || op = M6502_OP_INDEXED16_X || op = M6502_OP_INDEXED16_Y || op = M6502_OP_INDIRECT16 ||
  op = M6502_OP_X_INDIRECT16

def lo8 (v : BitVec 32) : BitVec 8 := v.truncate 8
def hi8 (v : BitVec 32) : BitVec 8 := (v >>> 8).truncate 8

/-- the final range `switch` and the bytes given to `add_bin8`, for the mode `op` the search settled on -/
def emit (op : Nat) (opcode : BitVec 8) (p : Parsed) : Result :=
  if is8 op then
    if outside 0 0xff p.num then .err else .ok [opcode, lo8 p.num]
  else if is16 op then
    if outside 0 0xffff p.num then .err else .ok [opcode, lo8 p.num, hi8 p.num]
  else if op = M6502_OP_ADDRESS8_RELATIVE then
    if outside 0 0xff p.num then .err
    else if outside (-128) 127 p.offset then .err
    else .ok [opcode, lo8 p.num, lo8 p.offset]
  else
    let bytes := opBytes.getD op 0
    .ok (opcode :: ((if 1 < bytes then [lo8 p.num] else []) ++ (if 2 < bytes then [hi8 p.num] else [])))

/-- from "find opcode in table" to the end of the function; `instr` is the row index in `table_6502[]` -/
def finish (ctx : Ctx) (instr : Nat) (p : Parsed) : Result :=
  if 1 < opBytes.getD p.op 0 ∧ p.seen = false then .err          -- "Wrong number of operands"
  else
    match search instr p.op with
    | none => if ctx.pass1 then emit p.op 0xff p else .err        -- pass 2: "No instruction found for addressing mode"
    | some (c, op) => emit op (BitVec.ofNat 8 c) p

/-- the row of `table_6502[]` the name loop stops at, with its index -/
def findName (m : String) : Option (Nat × Name) :=
  (names.zipIdx.find? (fun p => p.1.name == m)).map (fun p => (p.2, p.1))

/-- `parse_instruction_6502` -/
def encode (ctx : Ctx) (s : Stmt) : Result :=
  match findName s.mnemonic with
  | none => .err                                                  -- "Unknown operands combo"
  | some (idx, row) =>
    match (if row.op = M6502_OP_RELATIVE then parseRel ctx s.op else parseGen ctx row.op s.size s.op) with
    | .err => .err
    | .unmodelled => .unmodelled
    | .ok p => finish ctx idx p

/-- both passes of one statement at `addr` on an empty image (numeric operands: `eval_expression` never fails in
    pass 1, so the flag byte stays 0) -/
def assemble (addr : BitVec 32) (s : Stmt) : Result :=
  match encode { address := addr, flag := 0, pass1 := true } s with
  | .ok _ => encode { address := addr, flag := 0, pass1 := false } s
  | r => r

example : encode { address := 0x1000 } ⟨"lda", .s0, .imm .none 5⟩ = .ok [0xa9, 0x05] := by decide +kernel
example : encode { address := 0x1000 } ⟨"lda", .s0, .addr .none 0xff⟩ = .ok [0xa5, 0xff] := by decide +kernel
example : encode { address := 0x1000 } ⟨"lda", .s0, .addr .none 0x100⟩ = .ok [0xad, 0x00, 0x01] := by decide +kernel
example : encode { address := 0x1000, flag := 1 } ⟨"lda", .s0, .addr .none 5⟩ = .ok [0xad, 0x05, 0x00] := by decide +kernel
example : encode { address := 0x1000 } ⟨"lda", .s0, .addrY .none 5⟩ = .ok [0xb9, 0x05, 0x00] := by decide +kernel
example : encode { address := 0x1000 } ⟨"lda", .s0, .addr .none 0x10000⟩ = .err := by decide +kernel
example : encode { address := 0x1000 } ⟨"bne", .s0, .addr .none 0x1081⟩ = .ok [0xd0, 0x7f] := by decide +kernel
example : encode { address := 0x1000 } ⟨"bne", .s0, .addr .none 0x1082⟩ = .err := by decide +kernel
example : encode { address := 0x1000 } ⟨"bbr0", .s0, .addrRel .none 5 0x1000⟩ = .ok [0x0f, 0x05, 0xfd] := by decide +kernel
example : encode { address := 0x1000 } ⟨"jmp", .s0, .ind .none 0x1234⟩ = .ok [0x6c, 0x34, 0x12] := by decide +kernel
example : encode { address := 0x1000 } ⟨"lda", .s0, .ind .none 0x12⟩ = .ok [0xb2, 0x12] := by decide +kernel

end NakenVerif.M6502.Asm
