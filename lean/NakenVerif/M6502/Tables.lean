/-
  Table obligations of the 6502 part of C01 / C06 / C07 / C08, decided over the REGENERATED tables
  (`Generated.M6502Asm.names` = table_6502[], `Generated.SimTables.table6502Opcodes` = table_6502_opcodes[256],
  `Generated.SimTables.disasm6502Len` = the real disasm_6502's return value per first byte,
  `Generated.M6502Asm.opBytes` = the assembler's op_bytes[]).  A changed table entry breaks one of these.
-/
import NakenVerif.M6502.Spec
import NakenVerif.M6502.Disasm
namespace NakenVerif.M6502
open NakenVerif.Generated.SimTables NakenVerif.Generated.M6502Asm NakenVerif.M6502.Asm NakenVerif.M6502.Arch
  NakenVerif.M6502.Spec

/-- the architecture's addressing mode of an `OP_*` enumerator -/
def archMode (op : Nat) : Option Mode :=
  if op = M6502_OP_NONE then some .imp
  else if op = M6502_OP_IMMEDIATE then some .imm
  else if op = M6502_OP_ADDRESS8 then some .zp
  else if op = M6502_OP_ADDRESS16 then some .abs
  else if op = M6502_OP_INDEXED8_X then some .zpx
  else if op = M6502_OP_INDEXED8_Y then some .zpy
  else if op = M6502_OP_INDEXED16_X then some .absx
  else if op = M6502_OP_INDEXED16_Y then some .absy
  else if op = M6502_OP_INDIRECT16 then some .ind
  else if op = M6502_OP_X_INDIRECT8 then some .indx
  else if op = M6502_OP_INDIRECT8_Y then some .indy
  else if op = M6502_OP_INDIRECT8 then some .zpind
  else if op = M6502_OP_X_INDIRECT16 then some .absindx
  else if op = M6502_OP_RELATIVE then some .rel
  else if op = M6502_OP_ADDRESS8_RELATIVE then some .zprel
  else none

def rowN (c : Nat) : Row6502 := table6502Opcodes.toList.getD c ⟨M65XX_ERROR, 0, 0, 0⟩
def nameN (i : Nat) : Name := names.getD i ⟨"", 0, 0⟩

/-- the architecture's mnemonic of each row of table_6502[], in table order (checked against the names by
    `table_names_mnem`; the table obligations below then work on this list instead of comparing strings) -/
def mnemList : List Mnem := [
  .adc, .and, .asl, .bbr 0, .bbr 1, .bbr 2, .bbr 3, .bbr 4, .bbr 5, .bbr 6, .bbr 7, .bbs 0, .bbs 1, .bbs 2, .bbs 3,
  .bbs 4, .bbs 5, .bbs 6, .bbs 7, .bcc, .bcs, .beq, .bit, .bmi, .bne, .bpl, .brk, .bvc, .bvs, .bra, .clc, .cld,
  .cli, .clv, .cmp, .cpx, .cpy, .dec, .dex, .dey, .eor, .inc, .inx, .iny, .jmp, .jsr, .lda, .ldx, .ldy, .lsr, .nop,
  .ora, .pha, .php, .phx, .phy, .pla, .plp, .plx, .ply, .rmb 0, .rmb 1, .rmb 2, .rmb 3, .rmb 4, .rmb 5, .rmb 6,
  .rmb 7, .rol, .ror, .rti, .rts, .sbc, .sec, .sed, .sei, .smb 0, .smb 1, .smb 2, .smb 3, .smb 4, .smb 5, .smb 6,
  .smb 7, .sta, .stp, .stx, .sty, .stz, .tax, .tay, .trb, .tsb, .tsx, .txa, .txs, .tya, .wai]
def mnemIdx (i : Nat) : Option Mnem := mnemList[i]?

theorem table_sizes : table6502Opcodes.size = 256 ∧ disasm6502Len.size = 256 ∧ names.length = 98 ∧ opBytes.length = 15 ∧
    M65XX_ERROR = 98 := by decide +kernel

/-- every mnemonic of table_6502[] is, by its NAME, the mnemonic of the architecture listed in `mnemList` -/
theorem table_names_mnem : ∀ i < 98, mnemOf (nameN i).name = mnemIdx i ∧ (mnemIdx i).isSome = true := by decide +kernel

/-- `table_6502[i].instr = i`: the row index the assembler compares is the enumerator the opcode table holds -/
theorem table_names_index : ∀ i < 98, (nameN i).instr = i := by decide +kernel

/-- the name loop finds row `i` for the name of row `i` (no mnemonic is listed twice) -/
theorem table_names_unique : ∀ i < 98, findName (nameN i).name = some (i, nameN i) := by decide +kernel

/-- the default mode of a row is OP_RELATIVE exactly for the branches, and otherwise OP_NONE, OP_ADDRESS8 (rmb/smb)
    or OP_ADDRESS8_RELATIVE (bbr/bbs) -/
def nameOK (i : Nat) : Bool :=
  let n := nameN i
  match mnemIdx i with
  | none => false
  | some mn =>
    (n.op == M6502_OP_RELATIVE) == isBranch mn &&
    (n.op == M6502_OP_NONE || n.op == M6502_OP_ADDRESS8 || n.op == M6502_OP_ADDRESS8_RELATIVE || n.op == M6502_OP_RELATIVE)
theorem table_names_arch : ∀ i < 98, nameOK i = true := by decide +kernel

/-- the opcode table IS the architecture's opcode matrix: entry `c` carries the mnemonic and the addressing mode
    the manual gives opcode `c`, and M65XX_ERROR exactly for the 44 undefined opcodes -/
def rowOK (c : Nat) : Bool :=
  let r := rowN c
  match ofOpcode (BitVec.ofNat 8 c) with
  | none => r.instr == M65XX_ERROR
  | some (mn, md) => r.instr < 98 && mnemIdx r.instr == some mn && archMode r.op == some md
theorem table_matches_arch : ∀ c < 256, rowOK c = true := by decide +kernel

/-- the length the real disassembler returns is 1 + the operand bytes of the mode (`op_bytes[op]`, the array the
    assembler uses too), and 1 for an undefined opcode -/
def lenOK (c : Nat) : Bool :=
  let r := rowN c
  let l := (disasm6502Len.toList.getD c 0).toNat
  if r.instr = M65XX_ERROR then l == 1
  else l == opBytes.getD r.op 0 && (match archMode r.op with | some md => l == 1 + md.operandBytes | none => false)
theorem table_len_consistent : ∀ c < 256, lenOK c = true := by decide +kernel

/-- mnemonics are at most 4 characters -/
theorem table_names_short : ∀ n ∈ names, n.name.toList.length ≤ 4 := by decide +kernel

/-- every (mnemonic, mode) pair has at most one opcode (and, the table being indexed by the opcode, no opcode is
    listed twice) -/
theorem table_forms_unique :
    ((table6502Opcodes.toList.filter (fun r => r.instr != M65XX_ERROR)).map (fun r => (r.instr, r.op))).Nodup := by
  decide +kernel

/-! ### the opcode search -/

/-- the mode an entry is taken with is the entry's own mode: the requested one or its fall-back -/
def fallback (op op' : Nat) : Bool :=
  op' == op || (op == M6502_OP_INDIRECT16 && op' == M6502_OP_INDIRECT8) ||
  (op == M6502_OP_X_INDIRECT8 && op' == M6502_OP_X_INDIRECT16) || (op == M6502_OP_ADDRESS8 && op' == M6502_OP_ADDRESS16) ||
  (op == M6502_OP_INDEXED8_Y && op' == M6502_OP_INDEXED16_Y)

/-- generic (no table needed): a hit of the search is an entry `c` of row index `idx` that `takes` accepts -/
theorem searchFrom_hit (idx op : Nat) : ∀ (l : List Row6502) (i c op' : Nat), searchFrom idx op i l = some (c, op') →
    i ≤ c ∧ c - i < l.length ∧ (l.getD (c - i) ⟨M65XX_ERROR, 0, 0, 0⟩).instr = idx ∧
      takes op (l.getD (c - i) ⟨M65XX_ERROR, 0, 0, 0⟩) = some op' := by
  intro l
  induction l with
  | nil => intro i c op' h; simp [searchFrom] at h
  | cons r rest ih =>
    intro i c op' h
    unfold searchFrom at h
    by_cases hi : r.instr = idx
    · simp only [hi, if_true] at h
      cases ht : takes op r with
      | some o =>
        simp only [ht, Option.some.injEq, Prod.mk.injEq] at h
        obtain ⟨rfl, rfl⟩ := h
        simp [hi, ht]
      | none =>
        simp only [ht] at h
        obtain ⟨h1, h2, h3, h4⟩ := ih (i + 1) c op' h
        have e : c - i = (c - (i + 1)) + 1 := by omega
        refine ⟨by omega, by simp only [List.length_cons]; omega, ?_, ?_⟩ <;> rw [e, List.getD_cons_succ] <;> assumption
    · simp only [hi, if_false] at h
      obtain ⟨h1, h2, h3, h4⟩ := ih (i + 1) c op' h
      have e : c - i = (c - (i + 1)) + 1 := by omega
      refine ⟨by omega, by simp only [List.length_cons]; omega, ?_, ?_⟩ <;> rw [e, List.getD_cons_succ] <;> assumption

theorem takes_spec {op op' : Nat} {r : Row6502} (h : takes op r = some op') : r.op = op' ∧ fallback op op' = true := by
  unfold takes at h
  unfold fallback
  split at h
  · simp only [Option.some.injEq] at h; subst h; simp [*]
  split at h
  · rename_i h1; simp only [Option.some.injEq] at h; subst h; simp [h1.1, h1.2]
  split at h
  · rename_i h1; simp only [Option.some.injEq] at h; subst h; simp [h1.1, h1.2]
  split at h
  · rename_i h1; simp only [Option.some.injEq] at h; subst h; simp [h1.1, h1.2]
  split at h
  · rename_i h1; simp only [Option.some.injEq] at h; subst h; simp [h1.1, h1.2]
  · cases h

theorem table_take : table6502Opcodes.toList.take 256 = table6502Opcodes.toList := by decide +kernel

/-- a hit of the search is entry `c` < 256 of row index `idx` and mode `op'`, and `op'` is `op` or its fall-back -/
theorem search_hit {idx op c op' : Nat} (h : search idx op = some (c, op')) :
    c < 256 ∧ (rowN c).instr = idx ∧ (rowN c).op = op' ∧ fallback op op' = true := by
  unfold search at h
  rw [table_take] at h
  obtain ⟨_, h2, h3, h4⟩ := searchFrom_hit idx op _ 0 c op' h
  simp only [Nat.sub_zero] at h2 h3 h4
  have hs : table6502Opcodes.toList.length = 256 := by decide +kernel
  obtain ⟨h5, h6⟩ := takes_spec h4
  exact ⟨by omega, h3, h5, h6⟩

end NakenVerif.M6502
