/-
  C06 (6502): operand values are encoded exactly or rejected.

  * `m6502_encode_rejects_unfit`: a statement whose operand values fit no field of any form the instruction has
    (`Spec.fits = false`: immediate outside -128 … 255, address above 0xffff or negative, address above 0xff where
    only a zero-page form exists, branch target further than -128 … +127 from the next instruction, a form the
    mnemonic does not have) is not assembled.
  * the explicit ranges, as corollaries: `m6502_imm_range`, `m6502_addr_range`, `m6502_zp_only_range`,
    `m6502_branch_range`, `m6502_bbr_range`.
  * `m6502_encode_injective_mod_field`: two accepted statements with the same bytes denote a common instruction;
    instances: two immediates agree modulo 2^8 (`m6502_encode_injective_imm8`), two addresses are EQUAL
    (`m6502_encode_injective_addr`), two branch targets are equal (`m6502_encode_injective_branch`).
  * `m6502_encode_exact_field`: the operand bytes of an accepted `#v` / address statement are the value's bytes.
-/
import NakenVerif.M6502.AsmMain
namespace NakenVerif.M6502
open NakenVerif.Generated.SimTables NakenVerif.Generated.M6502Asm NakenVerif.M6502.Asm NakenVerif.M6502.Arch
  NakenVerif.M6502.Spec

theorem m6502_encode_rejects_unfit (ctx : Ctx) (hp : ctx.pass1 = false) (s : Stmt)
    (hfit : fits ctx.address s = false) (bs : List (BitVec 8)) : encode ctx s ≠ .ok bs := by
  intro h
  obtain ⟨i, hi, _⟩ := m6502_encode_sound ctx hp s bs h
  unfold fits at hfit
  simp only [Bool.not_eq_eq_eq_not, Bool.not_false, List.isEmpty_iff] at hfit
  rw [hfit] at hi
  cases hi

theorem mem_form_iff {ok : Bool} {i j : Instr} : j ∈ form ok i ↔ (ok = true ∧ (opcodeOf i.mn i.mode).isSome = true ∧ j = i) := by
  unfold form
  constructor
  · intro h
    split at h
    · rename_i hc
      simp only [Bool.and_eq_true] at hc
      simp only [List.mem_singleton] at h
      exact ⟨hc.1, hc.2, h⟩
    · cases h
  · rintro ⟨h1, h2, rfl⟩
    simp [h1, h2]

theorem mem_twoForms {mn : Mnem} {short : Mode} {long : Option Mode} {x : BitVec 32} {j : Instr}
    (h : j ∈ twoForms mn short long x) :
    (within 0 0xff x = true ∧ j = ⟨mn, short, t16 x, 0⟩) ∨
      (∃ l, long = some l ∧ within 0 0xffff x = true ∧ j = ⟨mn, l, t16 x, 0⟩) := by
  unfold twoForms at h
  rw [List.mem_append] at h
  rcases h with h | h
  · exact Or.inl ⟨(mem_form_iff.mp h).1, (mem_form_iff.mp h).2.2⟩
  · cases long with
    | none => cases h
    | some l => exact Or.inr ⟨l, rfl, (mem_form_iff.mp h).1, (mem_form_iff.mp h).2.2⟩

/-- every reading of an address notation has the value below 0x10000 -/
theorem twoForms_range {mn : Mnem} {short : Mode} {long : Option Mode} {x : BitVec 32} {j : Instr}
    (h : j ∈ twoForms mn short long x) : within 0 0xffff x = true ∧ j.val = t16 x := by
  rcases mem_twoForms h with ⟨h1, rfl⟩ | ⟨l, _, h1, rfl⟩
  · refine ⟨?_, rfl⟩
    unfold within at h1 ⊢
    bv_decide
  · exact ⟨h1, rfl⟩

/-! ### explicit ranges -/

/-- `#v`: -128 … 255 -/
theorem m6502_imm_range (ctx : Ctx) (hp : ctx.pass1 = false) (m : String) (sz : Size) (v : BitVec 32) (bs : List (BitVec 8))
    (h : encode ctx ⟨m, sz, .imm .none v⟩ = .ok bs) : within (-128) 255 v = true := by
  obtain ⟨i, hi, _⟩ := m6502_encode_sound ctx hp _ bs h
  unfold readings at hi
  cases hm : mnemOf m with
  | none => simp [hm] at hi
  | some mn =>
    simp only [hm, value] at hi
    split at hi <;> exact (mem_form_iff.mp hi).1

/-- an address (plain, `,x`, `,y`, `( )`, `( ,x)`): 0 … 0xffff -/
theorem m6502_addr_range (ctx : Ctx) (hp : ctx.pass1 = false) (m : String) (sz : Size) (v : BitVec 32) (bs : List (BitVec 8))
    (o : Operand) (ho : o = .addr .none v ∨ o = .addrX .none v ∨ o = .addrY .none v ∨ o = .ind .none v ∨ o = .indX .none v)
    (hb : ∀ mn, mnemOf m = some mn → isBranch mn = false)
    (h : encode ctx ⟨m, sz, o⟩ = .ok bs) : within 0 0xffff v = true := by
  obtain ⟨i, hi, _⟩ := m6502_encode_sound ctx hp _ bs h
  unfold readings at hi
  cases hm : mnemOf m with
  | none => simp [hm] at hi
  | some mn =>
    simp only [hm, hb mn hm, Bool.false_eq_true, if_false] at hi
    rcases ho with rfl | rfl | rfl | rfl | rfl <;> simp only [value] at hi <;> exact (twoForms_range hi).1

/-- `(v),y` and the zero-page operand of bbr / bbs: 0 … 0xff -/
theorem m6502_zp_only_range (ctx : Ctx) (hp : ctx.pass1 = false) (m : String) (sz : Size) (v t : BitVec 32)
    (bs : List (BitVec 8)) (o : Operand) (ho : o = .indY .none v ∨ o = .addrRel .none v t)
    (hb : ∀ mn, mnemOf m = some mn → isBranch mn = false)
    (h : encode ctx ⟨m, sz, o⟩ = .ok bs) : within 0 0xff v = true := by
  obtain ⟨i, hi, _⟩ := m6502_encode_sound ctx hp _ bs h
  unfold readings at hi
  cases hm : mnemOf m with
  | none => simp [hm] at hi
  | some mn =>
    simp only [hm, hb mn hm, Bool.false_eq_true, if_false] at hi
    rcases ho with rfl | rfl <;> simp only [value] at hi
    · rcases mem_twoForms hi with ⟨h1, _⟩ | ⟨l, hl, _, _⟩
      · exact h1
      · cases hl
    · have := (mem_form_iff.mp hi).1
      rw [Bool.and_eq_true] at this
      exact this.1

/-- an address of a mnemonic that has no absolute form for the notation: 0 … 0xff (e.g. `stx v,y`, `rmb0 v`) -/
theorem m6502_zp_form_only_range (ctx : Ctx) (hp : ctx.pass1 = false) (m : String) (mn : Mnem) (sz : Size) (v : BitVec 32)
    (bs : List (BitVec 8)) (hm : mnemOf m = some mn) (hb : isBranch mn = false)
    (o : Operand) (long : Mode)
    (ho : (o = .addr .none v ∧ long = .abs) ∨ (o = .addrX .none v ∧ long = .absx) ∨ (o = .addrY .none v ∧ long = .absy) ∨
      (o = .ind .none v ∧ long = .ind) ∨ (o = .indX .none v ∧ long = .absindx))
    (hno : opcodeOf mn long = none)
    (h : encode ctx ⟨m, sz, o⟩ = .ok bs) : within 0 0xff v = true := by
  obtain ⟨i, hi, _⟩ := m6502_encode_sound ctx hp _ bs h
  unfold readings at hi
  simp only [hm, hb, Bool.false_eq_true, if_false] at hi
  rcases ho with ⟨rfl, rfl⟩ | ⟨rfl, rfl⟩ | ⟨rfl, rfl⟩ | ⟨rfl, rfl⟩ | ⟨rfl, rfl⟩ <;> simp only [value] at hi <;>
    (unfold twoForms at hi
     rw [List.mem_append] at hi
     rcases hi with h1 | h1
     · exact (mem_form_iff.mp h1).1
     · have := (mem_form_iff.mp h1).2.1
       simp only [hno] at this
       cases this)

/-- a branch target: -128 … +127 from the address of the next instruction -/
theorem m6502_branch_range (ctx : Ctx) (hp : ctx.pass1 = false) (m : String) (mn : Mnem) (sz : Size) (t : BitVec 32)
    (bs : List (BitVec 8)) (hm : mnemOf m = some mn) (hb : isBranch mn = true)
    (h : encode ctx ⟨m, sz, .addr .none t⟩ = .ok bs) : within (-128) 127 (t - (ctx.address + 2)) = true := by
  obtain ⟨i, hi, _⟩ := m6502_encode_sound ctx hp _ bs h
  unfold readings at hi
  simp only [hm, hb, if_true, value] at hi
  exact (mem_form_iff.mp hi).1

/-- the branch target of bbr / bbs: -128 … +127 from the address of the next instruction (address + 3) -/
theorem m6502_bbr_range (ctx : Ctx) (hp : ctx.pass1 = false) (m : String) (mn : Mnem) (sz : Size) (v t : BitVec 32)
    (bs : List (BitVec 8)) (hm : mnemOf m = some mn) (hb : isBranch mn = false)
    (h : encode ctx ⟨m, sz, .addrRel .none v t⟩ = .ok bs) : within (-128) 127 (t - (ctx.address + 3)) = true := by
  obtain ⟨i, hi, _⟩ := m6502_encode_sound ctx hp _ bs h
  unfold readings at hi
  simp only [hm, hb, Bool.false_eq_true, if_false, value] at hi
  have := (mem_form_iff.mp hi).1
  rw [Bool.and_eq_true] at this
  exact this.2

/-! ### injectivity -/

/-- the same bytes at the same address: the two statements denote a common instruction of the architecture -/
theorem m6502_encode_injective_mod_field (ctx : Ctx) (hp : ctx.pass1 = false) (s1 s2 : Stmt) (bs : List (BitVec 8))
    (h1 : encode ctx s1 = .ok bs) (h2 : encode ctx s2 = .ok bs) :
    ∃ i, i ∈ readings ctx.address s1 ∧ i ∈ readings ctx.address s2 := by
  obtain ⟨i, hi, hd⟩ := m6502_encode_sound ctx hp s1 bs h1
  obtain ⟨j, hj, hd'⟩ := m6502_encode_sound ctx hp s2 bs h2
  rw [hd] at hd'
  simp only [Option.some.injEq, Prod.mk.injEq, and_true] at hd'
  subst hd'
  exact ⟨i, hi, hj⟩

/-- two immediates with the same bytes agree modulo 2^8 (-1 and 0xff are the two spellings of one field value) -/
theorem m6502_encode_injective_imm8 (ctx : Ctx) (hp : ctx.pass1 = false) (m : String) (sz1 sz2 : Size) (v1 v2 : BitVec 32)
    (hb : ∀ mn, mnemOf m = some mn → isBranch mn = false)
    (bs : List (BitVec 8)) (h1 : encode ctx ⟨m, sz1, .imm .none v1⟩ = .ok bs) (h2 : encode ctx ⟨m, sz2, .imm .none v2⟩ = .ok bs) :
    (v1.truncate 8 : BitVec 8) = v2.truncate 8 := by
  obtain ⟨i, hi, hj⟩ := m6502_encode_injective_mod_field ctx hp _ _ bs h1 h2
  unfold readings at hi hj
  cases hm : mnemOf m with
  | none => simp [hm] at hi
  | some mn =>
    simp only [hm, hb mn hm, Bool.false_eq_true, if_false, value] at hi hj
    have e1 := (mem_form_iff.mp hi).2.2
    have e2 := (mem_form_iff.mp hj).2.2
    rw [e1] at e2
    simp only [Instr.mk.injEq, true_and, and_true] at e2
    have : ∀ a b : BitVec 8, a.zeroExtend 16 = b.zeroExtend 16 → a = b := by intro a b h; bv_decide
    exact this _ _ e2

theorem bv_addr_inj (v1 v2 : BitVec 32) (h1 : within 0 0xffff v1 = true) (h2 : within 0 0xffff v2 = true)
    (h : t16 v1 = t16 v2) : v1 = v2 := by
  unfold within at h1 h2; unfold t16 at h
  bv_decide

/-- two addresses (same notation) with the same bytes are EQUAL: nothing is wrapped into the field -/
theorem m6502_encode_injective_addr (ctx : Ctx) (hp : ctx.pass1 = false) (m : String) (sz1 sz2 : Size) (v1 v2 : BitVec 32)
    (hb : ∀ mn, mnemOf m = some mn → isBranch mn = false) (o1 o2 : Operand)
    (ho : (o1 = .addr .none v1 ∧ o2 = .addr .none v2) ∨ (o1 = .addrX .none v1 ∧ o2 = .addrX .none v2) ∨
      (o1 = .addrY .none v1 ∧ o2 = .addrY .none v2) ∨ (o1 = .ind .none v1 ∧ o2 = .ind .none v2) ∨
      (o1 = .indX .none v1 ∧ o2 = .indX .none v2) ∨ (o1 = .indY .none v1 ∧ o2 = .indY .none v2))
    (bs : List (BitVec 8)) (h1 : encode ctx ⟨m, sz1, o1⟩ = .ok bs) (h2 : encode ctx ⟨m, sz2, o2⟩ = .ok bs) : v1 = v2 := by
  obtain ⟨i, hi, hj⟩ := m6502_encode_injective_mod_field ctx hp _ _ bs h1 h2
  unfold readings at hi hj
  cases hm : mnemOf m with
  | none => simp [hm] at hi
  | some mn =>
    simp only [hm, hb mn hm, Bool.false_eq_true, if_false] at hi hj
    rcases ho with ⟨rfl, rfl⟩ | ⟨rfl, rfl⟩ | ⟨rfl, rfl⟩ | ⟨rfl, rfl⟩ | ⟨rfl, rfl⟩ | ⟨rfl, rfl⟩ <;>
      simp only [value] at hi hj <;>
      (obtain ⟨r1, e1⟩ := twoForms_range hi
       obtain ⟨r2, e2⟩ := twoForms_range hj
       exact bv_addr_inj v1 v2 r1 r2 (e1.symm.trans e2))

theorem bv_branch_inj (a t1 t2 : BitVec 32) (h1 : within (-128) 127 (t1 - (a + 2)) = true)
    (h2 : within (-128) 127 (t2 - (a + 2)) = true) (h : t16 t1 = t16 t2) : t1 = t2 := by
  unfold within at h1 h2; unfold t16 at h
  bv_decide

/-- two branch targets with the same bytes are equal -/
theorem m6502_encode_injective_branch (ctx : Ctx) (hp : ctx.pass1 = false) (m : String) (mn : Mnem) (sz1 sz2 : Size)
    (t1 t2 : BitVec 32) (hm : mnemOf m = some mn) (hb : isBranch mn = true) (bs : List (BitVec 8))
    (h1 : encode ctx ⟨m, sz1, .addr .none t1⟩ = .ok bs) (h2 : encode ctx ⟨m, sz2, .addr .none t2⟩ = .ok bs) : t1 = t2 := by
  obtain ⟨i, hi, hj⟩ := m6502_encode_injective_mod_field ctx hp _ _ bs h1 h2
  unfold readings at hi hj
  simp only [hm, hb, if_true, value] at hi hj
  obtain ⟨r1, _, e1⟩ := mem_form_iff.mp hi
  obtain ⟨r2, _, e2⟩ := mem_form_iff.mp hj
  rw [e1] at e2
  simp only [Instr.mk.injEq, true_and, and_true] at e2
  exact bv_branch_inj _ _ _ r1 r2 e2

/-! ### exact fields -/

/-- the operand bytes of an accepted address statement are the value's own bytes: one byte only if the value is
    below 0x100, two bytes (low byte first) only if it is below 0x10000 — nothing is masked into the field -/
theorem m6502_encode_exact_field (ctx : Ctx) (hp : ctx.pass1 = false) (m : String) (sz : Size) (v : BitVec 32)
    (bs : List (BitVec 8)) (o : Operand)
    (ho : o = .addr .none v ∨ o = .addrX .none v ∨ o = .addrY .none v ∨ o = .ind .none v ∨ o = .indX .none v ∨
      o = .indY .none v)
    (hb : ∀ mn, mnemOf m = some mn → isBranch mn = false)
    (h : encode ctx ⟨m, sz, o⟩ = .ok bs) :
    ∃ c, (bs = [c, lo8 v] ∧ within 0 0xff v = true) ∨ (bs = [c, lo8 v, hi8 v] ∧ within 0 0xffff v = true) := by
  unfold encode at h
  cases hf : findName m with
  | none => simp [hf] at h
  | some pr =>
    obtain ⟨idx, row⟩ := pr
    simp only [hf] at h
    obtain ⟨mn, hmo, hmi, hi, hbr, hrow⟩ := name_mnem hf
    have hrel : ¬ row.op = M6502_OP_RELATIVE := by
      intro e
      have := hbr.mp e
      rw [hb mn hmo] at this
      cases this
    simp only [hrel, if_false] at h
    cases hpr : parseGen ctx row.op sz o with
    | err => simp [hpr] at h
    | unmodelled => simp [hpr] at h
    | ok p =>
      simp only [hpr] at h
      obtain ⟨c, op', hs, _, he⟩ := finish_ok hp h
      obtain ⟨_, _, _, hfb⟩ := search_hit hs
      have hfacts := parseGen_facts hpr
      refine ⟨BitVec.ofNat 8 c, ?_⟩
      have key : p.num = v ∧ (op' = 2 ∨ op' = 3 ∨ op' = 4 ∨ op' = 5 ∨ op' = 6 ∨ op' = 7 ∨ op' = 8 ∨ op' = 9 ∨ op' = 10 ∨
          op' = 11 ∨ op' = 12) := by
        rcases ho with rfl | rfl | rfl | rfl | rfl | rfl <;> simp only [GenFacts, value] at hfacts <;>
          obtain ⟨x, hx, hnum, hop⟩ := hfacts <;> simp only [Option.some.injEq] at hx <;> subst hx <;>
          refine ⟨hnum, ?_⟩ <;> rcases fallback_cases hfb with e | e | e | e | e <;> omega
      obtain ⟨hnum, hops⟩ := key
      rcases hops with e | e | e | e | e | e | e | e | e | e | e <;> subst e <;>
        simp [emit, is8, is16, opConsts, outside_within, hnum] at he <;>
        split at he <;> cases he <;> simp_all

example : fits 0x1000 ⟨"lda", .s0, .imm .none 0x100⟩ = false := by decide +kernel
example : fits 0x1000 ⟨"lda", .s0, .imm .none (-129)⟩ = false := by decide +kernel
example : fits 0x1000 ⟨"lda", .s0, .addr .none 0x10000⟩ = false := by decide +kernel
example : fits 0x1000 ⟨"lda", .s0, .indY .none 0x100⟩ = false := by decide +kernel
example : fits 0x1000 ⟨"stx", .s0, .addrY .none 0x100⟩ = false := by decide +kernel
example : fits 0x1000 ⟨"bne", .s0, .addr .none 0xf81⟩ = false := by decide +kernel
example : fits 0x1000 ⟨"lda", .s0, .addr .none 0xffff⟩ = true := by decide +kernel

end NakenVerif.M6502
