/-
  Specification of constant expressions (property C04), independent of the
  evaluator's stack machine: an expression *tree* has the obvious value under
  64-bit two's-complement arithmetic, and `render` writes a tree in
  conventional notation, inserting parentheses exactly where the conventional
  precedence (unary - ~  >  * / %  >  + -  >  << >>  >  &  >  ^  >  |) and
  left-to-right association require them.  Redundant parentheses are the
  `par` node.
-/
import NakenVerif.Expr.Impl

namespace NakenVerif.Expr

open NakenVerif.Generated (BinOp)

inductive E where
  | num (v : BitVec 64)
  | neg (e : E)            -- unary minus
  | not (e : E)            -- ~
  | par (e : E)            -- ( e )
  | bin (o : BinOp) (l r : E)
  deriving Repr, DecidableEq, Inhabited

/-- The conventional precedence level of the statement of C04, written down
    here independently of the code (1 binds tightest). -/
def specLevel : BinOp → Nat
  | .mul | .div | .mod => 1
  | .add | .sub => 2
  | .shl | .shr => 3
  | .and => 4
  | .xor => 5
  | .or  => 6

/-- 64-bit two's-complement meaning of the operators; `none` = no value. -/
def specOp (o : BinOp) (a b : BitVec 64) : Option (BitVec 64) :=
  match o with
  | .mul => some (a * b)
  | .div => if b = 0 then none else some (BitVec.sdiv a b)      -- truncating signed division
  | .mod => if b = 0 then none else some (BitVec.srem a b)
  | .add => some (a + b)
  | .sub => some (a - b)
  | .shl => some (a <<< (b.toNat % 64))
  | .shr => some (BitVec.sshiftRight a (b.toNat % 64))
  | .and => some (a &&& b)
  | .xor => some (a ^^^ b)
  | .or  => some (a ||| b)

def E.eval : E → Option (BitVec 64)
  | .num v => some v
  | .neg e => (e.eval).map (fun v => -v)
  | .not e => (e.eval).map (fun v => ~~~ v)
  | .par e => e.eval
  | .bin o l r =>
      match l.eval, r.eval with
      | some a, some b => specOp o a b
      | _, _ => none

/-- level of the root of a tree: 0 for operands (literal, unary, parenthesised) -/
def E.level : E → Nat
  | .bin o _ _ => specLevel o
  | _ => 0

mutual
/-- conventional notation -/
def E.render : E → List Tok
  | .num v => [.num v]
  | .neg e => .op .sub :: e.renderOperand
  | .not e => .tilde :: e.renderOperand
  | .par e => .lparen :: (e.render ++ [.rparen])
  | .bin o l r =>
      (if l.level ≤ specLevel o then l.render else .lparen :: (l.render ++ [.rparen]))
      ++ .op o ::
      (if r.level < specLevel o then r.render else .lparen :: (r.render ++ [.rparen]))

/-- operand of a unary operator: binary expressions need parentheses -/
def E.renderOperand : E → List Tok
  | .bin o l r => .lparen :: ((E.bin o l r).render ++ [.rparen])
  | .num v => [.num v]
  | .neg e => .op .sub :: e.renderOperand
  | .not e => .tilde :: e.renderOperand
  | .par e => .lparen :: (e.render ++ [.rparen])
end

/-- tokens after which a top-level expression ends (the caller reads them next) -/
def Terminator : List Tok → Prop
  | [] => True
  | .eol :: _ => True
  | .sep _ :: _ => True
  | .rparen :: _ => True
  | _ => False

end NakenVerif.Expr
