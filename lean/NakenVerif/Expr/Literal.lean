/-
  Literal conversion: the number post-processing of `tokens_get` (core/tokens.cpp)
  for a token made of letters, digits and '_' that starts with a digit, followed by
  Var::set_int (strtoull base 10 of the re-printed value).

  `lexWord` is what the character loop leaves in `token[]` (underscores are dropped
  only while the token is still a TOKEN_NUMBER); `convert` is the if-chain after the loop.
-/
namespace NakenVerif.Expr.Literal

inductive Kind where
  | number (v : BitVec 64)     -- TOKEN_NUMBER with this value
  | word                       -- stays TOKEN_STRING (not a literal; an expression rejects it)
  deriving DecidableEq, Repr

def isDigit (c : Char) : Bool := '0' ≤ c ∧ c ≤ '9'
def isLetter (c : Char) : Bool := ('a' ≤ c ∧ c ≤ 'z') ∨ ('A' ≤ c ∧ c ≤ 'Z')

/-- character loop of tokens_get on a word starting with a digit: returns
    (still a pure number?, token text) -/
def lexWord : List Char → Bool → List Char → Bool × List Char
  | [], isNum, acc => (isNum, acc.reverse)
  | c :: cs, isNum, acc =>
      if isNum ∧ c = '_' then lexWord cs isNum acc
      else if isLetter c ∨ c = '_' then lexWord cs false (c :: acc)
      else lexWord cs isNum (c :: acc)

def hexDigit? (c : Char) : Option Nat :=
  if '0' ≤ c ∧ c ≤ '9' then some (c.toNat - '0'.toNat)
  else if 'a' ≤ c ∧ c ≤ 'f' then some (c.toNat - 'a'.toNat + 10)
  else if 'A' ≤ c ∧ c ≤ 'F' then some (c.toNat - 'A'.toNat + 10)
  else none

/-- tokens_hex_string_to_int -/
def hexStr (prefixed : Bool) : List Char → BitVec 64 → Option (BitVec 64)
  | [], n => some n
  | c :: cs, n =>
      if c = 'h' ∨ c = 'H' then (if prefixed then none else some n)
      else match hexDigit? c with
        | some d => hexStr prefixed cs ((n <<< 4) ||| BitVec.ofNat 64 d)
        | none => if c = '_' then hexStr prefixed cs n else none

/-- tokens_octal_string_to_int -/
def octStr : List Char → BitVec 64 → Option (BitVec 64)
  | [], n => some n
  | c :: cs, n =>
      if c = 'q' ∨ c = 'Q' then some n
      else if '0' ≤ c ∧ c ≤ '7' then octStr cs ((n <<< 3) ||| BitVec.ofNat 64 (c.toNat - '0'.toNat))
      else if c = '_' then octStr cs n else none

/-- tokens_binary_string_to_int (after the fix: 64-bit accumulator) -/
def binStr (prefixed : Bool) : List Char → BitVec 64 → Option (BitVec 64)
  | [], n => some n
  | c :: cs, n =>
      if c = 'b' ∨ c = 'B' then (if prefixed then none else some n)
      else if c = '0' then binStr prefixed cs (n <<< 1)
      else if c = '1' then binStr prefixed cs ((n <<< 1) ||| 1)
      else if c = '_' then binStr prefixed cs n else none

/-- strtoull(text, NULL, 10) on a string of decimal digits: saturates at 2^64-1 -/
def decStr : List Char → Nat → Nat
  | [], n => n
  | c :: cs, n => if isDigit c then decStr cs (n * 10 + (c.toNat - '0'.toNat)) else n

def strtoull (cs : List Char) : BitVec 64 :=
  let n := decStr cs 0
  if n ≥ 2 ^ 64 then BitVec.ofNat 64 (2 ^ 64 - 1) else BitVec.ofNat 64 n

def lower (c : Char) : Char := if 'A' ≤ c ∧ c ≤ 'Z' then Char.ofNat (c.toNat + 32) else c

/-- the post-processing chain; `noPostfix` = ignore_number_postfix of the CPU -/
def convert (noPostfix : Bool) (word : List Char) : Kind :=
  match lexWord word true [] with
  | (true, t) =>
      -- TOKEN_NUMBER: a leading 0 (and more than one character) means octal
      match t with
      | '0' :: _ :: _ =>
          match octStr t 0 with
          | some v => .number v
          | none => .number (strtoull t)       -- e.g. 089: falls through as decimal text
      | _ => .number (strtoull t)
  | (false, t) =>
      let last := lower (t.getLast?.getD ' ')
      match t with
      | '0' :: 'x' :: r => match hexStr true r 0 with | some v => .number v | none => .word
      | '0' :: 'b' :: r => match binStr true r 0 with | some v => .number v | none => .word
      | c0 :: _ =>
          if isDigit c0 ∧ last = 'h' ∧ !noPostfix then
            match hexStr false t 0 with | some v => .number v | none => .word
          else if ('0' ≤ c0 ∧ c0 ≤ '7') ∧ last = 'q' ∧ !noPostfix then
            match octStr t 0 with | some v => .number v | none => .word
          else if (c0 = '0' ∨ c0 = '1') ∧ last = 'b' then
            match binStr false t 0 with | some v => .number v | none => .word
          else .word
      | [] => .word

end NakenVerif.Expr.Literal
