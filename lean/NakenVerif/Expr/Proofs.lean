/-
  Helper lemmas for property C04 (constant expressions).  Split over
  `Proofs/Basic` (monadic view, step lemmas), `Proofs/Stack` (stack invariants, chains),
  `Proofs/Safety` (no fault, no fuel), `Proofs/Render` (stack machine = tree value on
  rendered trees), `Proofs/Final` (whole-`eval` consequences) and
  `Proofs/Literal*` (literal conversion).
-/
import NakenVerif.Expr.Proofs.Final
import NakenVerif.Expr.Proofs.LiteralPostfix

namespace NakenVerif.Expr

/-- evaluate the model on a concrete input by unfolding (the recursive definitions are
    compiled by well-founded recursion, so `decide` cannot run them) -/
macro "eval_model" : tactic =>
  `(tactic| simp [E.render, E.renderOperand, E.level, E.eval, specLevel, specOp, eval, eval32, fits32, run,
      loop, unary, finish, reduceAll, reduceFor, pushVal, pushOp, execTop, applyOp, prec,
      NakenVerif.Generated.precOf, valCap, opCap, NakenVerif.Generated.varStackLen,
      NakenVerif.Generated.operStackLen, Terminator])

end NakenVerif.Expr
