/-
  Correctness of the stack machine on rendered trees.

  `Chains bound val n fuel isParen s atStart ts rest` describes what `loop` does when it
  reads, in operand position and from stack `s`, tokens `ts` that consist of a
  (sub)expression of value `val` followed by `rest`: either it fails (and then
  `val = none`), or it arrives in front of `rest` with a *pending chain*
  `v0 o1 v1 … ok vk` on top of `s` whose operators are strictly tightening, all of
  precedence `≤ bound`, and whose right-nested collapse is `val`.
-/
import NakenVerif.Expr.Proofs.Safety

namespace NakenVerif.Expr

open NakenVerif.Generated (BinOp)

def Chains (bound : Nat) (val : Option (BitVec 64)) (n fuel : Nat) (isParen : Bool) (s : Stk)
    (atStart : Bool) (ts rest : List Tok) : Prop :=
  (val = none ∧ loop fuel isParen s false atStart ts = .err) ∨
  ∃ (co : List BinOp) (cv : List (BitVec 64)) (fuel' : Nat),
    fuel ≤ fuel' + n ∧ co.length + 1 = cv.length ∧ Tight co ∧ (∀ x ∈ co, prec x ≤ bound) ∧
    collapse co cv = val ∧
    loop fuel isParen s false atStart ts =
      loop fuel' isParen { vals := cv ++ s.vals, ops := co ++ s.ops } true false rest

/-- the stack below a sub-expression of level `bound`: strictly tightening, as many values
    as operators (an operand is expected), everything looser than `bound` -/
def Ctx (s : Stk) (bound : Nat) : Prop :=
  Tight s.ops ∧ s.vals.length = s.ops.length ∧ ∀ x ∈ s.ops, bound < prec x

theorem Ctx.mono {s : Stk} {b b' : Nat} (h : Ctx s b) (hb : b' ≤ b) : Ctx s b' :=
  ⟨h.1, h.2.1, fun x hx => Nat.lt_of_le_of_lt hb (h.2.2 x hx)⟩

theorem Ctx.empty (b : Nat) : Ctx { vals := [], ops := [] } b :=
  ⟨Tight.nil, rfl, by simp⟩

theorem Chains.mono {b b' : Nat} {val n fuel isParen s atStart ts rest}
    (h : Chains b val n fuel isParen s atStart ts rest) (hb : b ≤ b') :
    Chains b' val n fuel isParen s atStart ts rest := by
  rcases h with h | ⟨co, cv, fuel', h1, h2, h3, h4, h5, h6⟩
  · exact Or.inl h
  · exact Or.inr ⟨co, cv, fuel', h1, h2, h3, fun x hx => Nat.le_trans (h4 x hx) hb, h5, h6⟩

/-- an operand (one value pushed) is a chain of length 0 -/
theorem chains_of_operand {b : Nat} {val : Option (BitVec 64)} {n fuel f : Nat} {isParen : Bool}
    {s : Stk} {atStart : Bool} {ts rest : List Tok} (hf : fuel ≤ f + n)
    (h : loop fuel isParen s false atStart ts =
      match val with
      | some v => loop f isParen { vals := v :: s.vals, ops := s.ops } true false rest
      | none => .err) :
    Chains b val n fuel isParen s atStart ts rest := by
  cases val with
  | none => exact Or.inl ⟨rfl, h⟩
  | some v =>
    refine Or.inr ⟨[], [v], f, hf, rfl, Tight.nil, by simp, rfl, ?_⟩
    simpa using h

/-- reading an operand by a sub-parser `x`, transforming it with `g`, pushing it -/
theorem operand_step {val : Option (BitVec 64)} {x : Res (BitVec 64 × List Tok)}
    {rest : List Tok} {s : Stk} {b : Nat} (hctx : Ctx s b) (g : BitVec 64 → BitVec 64)
    (f : Nat) (isParen : Bool)
    (hx : x = match val with | some v => .ok (v, rest) | none => .err) :
    (x.bind fun p => (pushVal s (g p.1)).bind fun s' => loop f isParen s' true false p.2) =
      match val.map g with
      | some v => loop f isParen { vals := v :: s.vals, ops := s.ops } true false rest
      | none => .err := by
  subst hx
  cases val with
  | none => rfl
  | some v =>
    have := hctx.1.length_le
    simp only [Res.bind_ok, Option.map_some]
    rw [pushVal_ok s (g v) (by rw [hctx.2.1]; exact this)]
    rfl

/-- `finish` on a stack that is exactly one chain -/
theorem finish_chain (isParen : Bool) (co : List BinOp) (cv : List (BitVec 64)) (rest : List Tok)
    (atEnd : Bool) (hl : co.length + 1 = cv.length) (hpe : ¬ (isParen = true ∧ atEnd = true)) :
    finish isParen { vals := cv, ops := co } true rest atEnd =
      match collapse co cv with
      | some v => .ok (v, rest)
      | none => .err := by
  rw [finish_eq, if_neg hpe]
  have hne : cv.isEmpty = false := by
    cases cv with
    | nil => simp at hl
    | cons _ _ => rfl
  simp only [hne, Bool.false_eq_true, if_false, Bool.not_true]
  rw [reduceAll_chain co cv co hl (Nat.le_refl _)]
  cases collapse co cv <;> rfl

/-! ### the three statements proved together by induction on the tree -/

/-- `loop` on a rendered tree in operand position -/
def L (e : E) : Prop :=
  ∀ fuel isParen s atStart rest, e.render.length + rest.length < fuel → Ctx s e.level →
    Chains e.level e.eval e.render.length fuel isParen s atStart (e.render ++ rest) rest

/-- `run … true` on a rendered tree followed by `)` -/
def P (e : E) : Prop :=
  ∀ fuel rest, e.render.length + 1 + rest.length < fuel →
    run fuel true (e.render ++ .rparen :: rest) =
      match e.eval with
      | some v => .ok (v, rest)
      | none => .err

/-- `unary` on a tree rendered as operand of a unary operator -/
def U (e : E) : Prop :=
  ∀ fuel rest, e.renderOperand.length + rest.length < fuel →
    unary fuel (e.renderOperand ++ rest) =
      match e.eval with
      | some v => .ok (v, rest)
      | none => .err

theorem P_of_L {e : E} (h : L e) : P e := by
  intro fuel rest hfuel
  rw [run_eq]
  rcases h fuel true _ true (.rparen :: rest) (by simp only [List.length_cons]; omega)
    (Ctx.empty _) with ⟨hv, he⟩ | ⟨co, cv, fuel', h1, h2, _, _, h5, h6⟩
  · rw [he, hv]
  · rw [h6]
    obtain ⟨k, rfl⟩ : ∃ k, fuel' = k + 1 := ⟨fuel' - 1, by omega⟩
    rw [loop_rparen]
    simp only [if_true, List.append_nil]
    rw [finish_chain true co cv rest false h2 (by simp), h5]

/-- a parenthesised tree in operand position -/
theorem Lpar_of_P {e : E} (h : P e) (b : Nat) :
    ∀ fuel isParen s atStart rest, e.render.length + 2 + rest.length < fuel → Ctx s b →
      Chains b e.eval (e.render.length + 2) fuel isParen s atStart
        (.lparen :: (e.render ++ .rparen :: rest)) rest := by
  intro fuel isParen s atStart rest hfuel hctx
  obtain ⟨f, rfl⟩ : ∃ k, fuel = k + 1 := ⟨fuel - 1, by omega⟩
  apply chains_of_operand (f := f) (by omega)
  rw [loop_lparen]
  have := operand_step hctx id f isParen (h f rest (by omega))
  simpa using this

theorem render_ne_nil (e : E) : e.render ≠ [] := by
  cases e <;> simp [E.render]

/-! ### combining the two sides of a binary node -/

/-- value of a binary node from the values of its sides -/
def binVal (o : BinOp) (va vb : Option (BitVec 64)) : Option (BitVec 64) :=
  match va, vb with
  | some a, some b => applyOp o a b
  | _, _ => none

theorem chains_bin {o : BinOp} {va vb : Option (BitVec 64)} {TL TR rest : List Tok} {fuel : Nat}
    {isParen : Bool} {s : Stk} {atStart : Bool} (hctx : Ctx s (prec o))
    (hL : Chains (prec o) va TL.length fuel isParen s atStart
            (TL ++ .op o :: (TR ++ rest)) (.op o :: (TR ++ rest)))
    (hfuel : TL.length + 1 + TR.length + rest.length < fuel)
    (hR : ∀ a f, TR.length + rest.length < f →
            Chains (prec o - 1) vb TR.length f isParen
              { vals := a :: s.vals, ops := o :: s.ops } false (TR ++ rest) rest) :
    Chains (prec o) (binVal o va vb)
      (TL.length + 1 + TR.length) fuel isParen s atStart (TL ++ .op o :: (TR ++ rest)) rest := by
  rcases hL with ⟨hv, he⟩ | ⟨co, cv, fuel', h1, h2, h3, h4, h5, h6⟩
  · left; subst hv; exact ⟨rfl, he⟩
  · obtain ⟨f, rfl⟩ : ∃ k, fuel' = k + 1 := ⟨fuel' - 1, by omega⟩
    rw [loop_op_needOp] at h6
    simp only at h6
    rw [reduceFor_chain (prec o) s.vals s.ops hctx.2.2 co cv (co ++ s.ops) h2 h4
      (by simp)] at h6
    rw [h5] at h6
    cases va with
    | none => left; exact ⟨rfl, h6⟩
    | some a =>
      simp only [Res.bind_ok] at h6
      rw [pushOp_ok { vals := a :: s.vals, ops := s.ops } o hctx.1 hctx.2.2] at h6
      simp only [Res.bind_ok] at h6
      rcases hR a f (by omega) with ⟨hv, he⟩ | ⟨cro, crv, fuel'', g1, g2, g3, g4, g5, g6⟩
      · left; subst hv; exact ⟨rfl, by rw [h6, he]⟩
      · right
        have hpos := prec_pos o
        refine ⟨cro ++ [o], crv ++ [a], fuel'', by omega, by simp; omega, ?_, ?_, ?_, ?_⟩
        · unfold Tight
          rw [List.pairwise_append]
          refine ⟨g3, List.pairwise_singleton _ _, ?_⟩
          intro x hx y hy
          have := g4 x hx
          simp only [List.mem_singleton] at hy
          subst hy; omega
        · intro x hx
          rcases List.mem_append.mp hx with hx | hx
          · have := g4 x hx; omega
          · simp only [List.mem_singleton] at hx; subst hx; exact Nat.le_refl _
        · rw [collapse_snoc o a cro crv g2, g5]
          cases vb <;> rfl
        · rw [h6, g6]
          simp

/-! ### the induction -/

theorem L_num (v : BitVec 64) : L (.num v) := by
  intro fuel isParen s atStart rest hfuel hctx
  simp only [E.render, List.length_cons, List.length_nil] at hfuel
  obtain ⟨f, rfl⟩ : ∃ k, fuel = k + 1 := ⟨fuel - 1, by omega⟩
  apply chains_of_operand (f := f) (by simp [E.render])
  simp only [E.render, List.cons_append, List.nil_append, E.eval]
  rw [loop_num, pushVal_ok s v (by rw [hctx.2.1]; exact hctx.1.length_le)]
  rfl

theorem U_num (v : BitVec 64) : U (.num v) := by
  intro fuel rest hfuel
  simp only [E.renderOperand, List.length_cons, List.length_nil] at hfuel
  obtain ⟨f, rfl⟩ : ∃ k, fuel = k + 1 := ⟨fuel - 1, by omega⟩
  simp only [E.renderOperand, List.cons_append, List.nil_append, E.eval]
  rw [unary_num]

theorem L_neg {e : E} (hU : U e) : L (.neg e) := by
  intro fuel isParen s atStart rest hfuel hctx
  simp only [E.render, List.length_cons] at hfuel
  obtain ⟨f, rfl⟩ : ∃ k, fuel = k + 1 := ⟨fuel - 1, by omega⟩
  apply chains_of_operand (f := f) (by simp [E.render])
  simp only [E.render, List.cons_append, E.eval]
  rw [loop_op_minus]
  exact operand_step hctx _ f isParen (hU f rest (by omega))

theorem U_neg {e : E} (hU : U e) : U (.neg e) := by
  intro fuel rest hfuel
  simp only [E.renderOperand, List.length_cons] at hfuel
  obtain ⟨f, rfl⟩ : ∃ k, fuel = k + 1 := ⟨fuel - 1, by omega⟩
  simp only [E.renderOperand, List.cons_append, E.eval]
  rw [unary_minus, hU f rest (by omega)]
  cases e.eval <;> rfl

theorem L_not {e : E} (hU : U e) : L (.not e) := by
  intro fuel isParen s atStart rest hfuel hctx
  simp only [E.render, List.length_cons] at hfuel
  obtain ⟨f, rfl⟩ : ∃ k, fuel = k + 1 := ⟨fuel - 1, by omega⟩
  apply chains_of_operand (f := f) (by simp [E.render])
  simp only [E.render, List.cons_append, E.eval]
  rw [loop_tilde]
  exact operand_step hctx _ f isParen (hU f rest (by omega))

theorem U_not {e : E} (hU : U e) : U (.not e) := by
  intro fuel rest hfuel
  simp only [E.renderOperand, List.length_cons] at hfuel
  obtain ⟨f, rfl⟩ : ∃ k, fuel = k + 1 := ⟨fuel - 1, by omega⟩
  simp only [E.renderOperand, List.cons_append, E.eval]
  rw [unary_tilde, hU f rest (by omega)]
  cases e.eval <;> rfl

theorem L_par {e : E} (hP : P e) : L (.par e) := by
  intro fuel isParen s atStart rest hfuel hctx
  simp only [E.render, List.length_cons, List.length_append, List.length_nil] at hfuel
  have := Lpar_of_P hP 0 fuel isParen s atStart rest (by omega) (hctx.mono (Nat.zero_le _))
  simpa [E.render, E.eval, E.level] using this

theorem U_paren {e : E} (hP : P e) (rest : List Tok) (fuel : Nat)
    (hfuel : e.render.length + 2 + rest.length < fuel) :
    unary fuel (.lparen :: (e.render ++ .rparen :: rest)) =
      match e.eval with
      | some v => .ok (v, rest)
      | none => .err := by
  obtain ⟨f, rfl⟩ : ∃ k, fuel = k + 1 := ⟨fuel - 1, by omega⟩
  rw [unary_lparen, hP f rest (by omega)]

theorem U_par {e : E} (hP : P e) : U (.par e) := by
  intro fuel rest hfuel
  simp only [E.renderOperand, List.length_cons, List.length_append, List.length_nil] at hfuel
  have := U_paren hP rest fuel (by omega)
  simpa [E.renderOperand, E.eval] using this

theorem U_bin {o : BinOp} {l r : E} (hP : P (.bin o l r)) : U (.bin o l r) := by
  intro fuel rest hfuel
  simp only [E.renderOperand, List.length_cons, List.length_append, List.length_nil] at hfuel
  have := U_paren hP rest fuel (by omega)
  simpa [E.renderOperand] using this

theorem L_bin {o : BinOp} {l r : E} (hl : L l) (hr : L r) : L (.bin o l r) := by
  intro fuel isParen s atStart rest hfuel hctx
  have hlev : (E.bin o l r).level = prec o := by simp [E.level, prec_eq_specLevel]
  rw [hlev] at hctx ⊢
  have hpos := prec_pos o
  -- the two sides, with or without parentheses
  have sideL : ∀ (TL : List Tok),
      TL = (if l.level ≤ specLevel o then l.render else .lparen :: (l.render ++ [.rparen])) →
      ∀ rest', TL.length + rest'.length < fuel →
        Chains (prec o) l.eval TL.length fuel isParen s atStart (TL ++ rest') rest' := by
    intro TL hTL rest' hf
    split at hTL
    · rename_i hle
      subst hTL
      rw [← prec_eq_specLevel] at hle
      exact (hl fuel isParen s atStart rest' hf (hctx.mono hle)).mono hle
    · subst hTL
      have := Lpar_of_P (P_of_L hl) (prec o) fuel isParen s atStart rest'
        (by simp at hf; omega) hctx
      simpa using this
  have sideR : ∀ (TR : List Tok),
      TR = (if r.level < specLevel o then r.render else .lparen :: (r.render ++ [.rparen])) →
      ∀ a f, TR.length + rest.length < f →
        Chains (prec o - 1) r.eval TR.length f isParen
          { vals := a :: s.vals, ops := o :: s.ops } false (TR ++ rest) rest := by
    intro TR hTR a f hf
    have hctx' : Ctx { vals := a :: s.vals, ops := o :: s.ops } (prec o - 1) := by
      refine ⟨Tight.cons hctx.1 hctx.2.2, by simp [hctx.2.1], ?_⟩
      intro x hx
      rcases List.mem_cons.mp hx with rfl | hx
      · omega
      · have := hctx.2.2 x hx; omega
    split at hTR
    · rename_i hlt
      subst hTR
      rw [← prec_eq_specLevel] at hlt
      have hle : r.level ≤ prec o - 1 := by omega
      exact (hr f isParen _ false rest hf (hctx'.mono hle)).mono hle
    · subst hTR
      have := Lpar_of_P (P_of_L hr) (prec o - 1) f isParen _ false rest
        (by simp at hf; omega) hctx'
      simpa using this
  generalize hTL : (if l.level ≤ specLevel o then l.render
    else .lparen :: (l.render ++ [.rparen])) = TL at sideL
  generalize hTR : (if r.level < specLevel o then r.render
    else .lparen :: (r.render ++ [.rparen])) = TR at sideR
  have hrender : (E.bin o l r).render = TL ++ .op o :: TR := by
    rw [E.render, hTL, hTR]
  rw [hrender] at hfuel ⊢
  simp only [List.length_append, List.length_cons] at hfuel
  have hlist : (TL ++ .op o :: TR) ++ rest = TL ++ .op o :: (TR ++ rest) := by simp
  have hlen : (TL ++ .op o :: TR).length = TL.length + 1 + TR.length := by
    simp only [List.length_append, List.length_cons]; omega
  have heval : (E.bin o l r).eval = binVal o l.eval r.eval := by
    rw [E.eval]
    cases l.eval <;> cases r.eval <;> simp [binVal, applyOp_eq_specOp]
  rw [hlist, hlen, heval]
  apply chains_bin hctx
  · exact sideL TL rfl _ (by simp only [List.length_cons, List.length_append]; omega)
  · omega
  · exact sideR TR rfl

theorem L_and_U (e : E) : L e ∧ U e := by
  induction e with
  | num v => exact ⟨L_num v, U_num v⟩
  | neg e ih => exact ⟨L_neg ih.2, U_neg ih.2⟩
  | not e ih => exact ⟨L_not ih.2, U_not ih.2⟩
  | par e ih => exact ⟨L_par (P_of_L ih.1), U_par (P_of_L ih.1)⟩
  | bin o l r ihl ihr =>
    have hL := L_bin (o := o) ihl.1 ihr.1
    exact ⟨hL, U_bin (P_of_L hL)⟩

theorem L_all (e : E) : L e := (L_and_U e).1

/-- what `eval` does on a rendered tree followed by anything: it reaches `rest` with a chain
    for the tree on an otherwise empty stack (or has already failed) -/
theorem eval_render_chain (e : E) (rest : List Tok) :
    (e.eval = none ∧ eval (e.render ++ rest) = .err) ∨
    ∃ (co : List BinOp) (cv : List (BitVec 64)) (fuel' : Nat),
      rest.length + 1 < fuel' ∧ co.length + 1 = cv.length ∧ Tight co ∧
      collapse co cv = e.eval ∧
      eval (e.render ++ rest) = loop fuel' false { vals := cv, ops := co } true false rest := by
  unfold eval
  rw [run_eq]
  rcases L_all e (2 * (e.render ++ rest).length + 2) false _ true rest
    (by simp only [List.length_append]; omega) (Ctx.empty _)
    with h | ⟨co, cv, fuel', h1, h2, h3, _, h5, h6⟩
  · exact Or.inl h
  · refine Or.inr ⟨co, cv, fuel', ?_, h2, h3, h5, by simpa using h6⟩
    have : e.render.length ≠ 0 := fun h => render_ne_nil e (List.eq_nil_of_length_eq_zero h)
    simp only [List.length_append] at h1
    omega

end NakenVerif.Expr
