/-
  `convert` on well-formed literals of each prefix form.
-/
import NakenVerif.Expr.Proofs.Literal

namespace NakenVerif.Expr.Literal

theorem isLetter_underscore : isLetter '_' = false := by decide

theorem mem_filter_dec {cs : List Char} (h : ∀ c ∈ cs, isDecDigit c = true ∨ c = '_') :
    ∀ c ∈ cs.filter (· ≠ '_'), isDecDigit c = true := by
  intro c hc
  rw [List.mem_filter] at hc
  rcases h c hc.1 with h | h
  · exact h
  · exact absurd h (by simpa using hc.2)

theorem mem_filter_oct {cs : List Char} (h : ∀ c ∈ cs, isOctDigit c = true ∨ c = '_') :
    ∀ c ∈ cs.filter (· ≠ '_'), isOctDigit c = true := by
  intro c hc
  rw [List.mem_filter] at hc
  rcases h c hc.1 with h | h
  · exact h
  · exact absurd h (by simpa using hc.2)

/-- a word of decimal digits and separators stays a TOKEN_NUMBER; the separators vanish -/
theorem lexWord_number (word : List Char) (h : ∀ c ∈ word, isDecDigit c = true ∨ c = '_') :
    lexWord word true [] = (true, word.filter (· ≠ '_')) := by
  rw [lexWord_true word]
  · simp
  · intro c hc
    rcases h c hc with h | h
    · exact isLetter_of_dec h
    · subst h; exact isLetter_underscore

/-- decimal: first digit not `0`, separators allowed afterwards -/
theorem convert_decimal_sep (np : Bool) (d0 : Char) (ds : List Char)
    (hd0 : isDecDigit d0 = true) (hnz : d0 ≠ '0')
    (hd : ∀ c ∈ ds, isDecDigit c = true ∨ c = '_')
    (hv : positional 10 (digits (d0 :: ds)) < 2 ^ 64) :
    convert np (d0 :: ds) = .number (BitVec.ofNat 64 (positional 10 (digits (d0 :: ds)))) := by
  have hall : ∀ c ∈ d0 :: ds, isDecDigit c = true ∨ c = '_' := by
    intro c hc
    rcases List.mem_cons.mp hc with rfl | hc
    · exact Or.inl hd0
    · exact hd c hc
  unfold convert
  rw [lexWord_number _ hall]
  have hne := ne_underscore_of_dec hd0
  have hf : (d0 :: ds).filter (· ≠ '_') = d0 :: ds.filter (· ≠ '_') := by simp [hne]
  have hst := strtoull_eq _ (mem_filter_dec hall) hv
  simp only
  rw [hf] at hst ⊢
  split
  · rename_i heq
    simp only [List.cons.injEq] at heq
    exact absurd heq.1 hnz
  · rw [hst]; simp only [digits, hf]

theorem filter_id_of_dec {ds : List Char} (hd : ∀ c ∈ ds, isDecDigit c = true) :
    ds.filter (· ≠ '_') = ds := by
  rw [List.filter_eq_self]
  intro c hc
  simpa using ne_underscore_of_dec (hd c hc)

theorem digits_of_dec {ds : List Char} (hd : ∀ c ∈ ds, isDecDigit c = true) :
    digits ds = ds.map digitVal := by
  unfold digits; rw [filter_id_of_dec hd]

theorem convert_zero (np : Bool) : convert np ['0'] = .number 0 := by cases np <;> decide

/-- decimal without separators -/
theorem convert_decimal (np : Bool) (ds : List Char) (hne : ds ≠ [])
    (hd : ∀ c ∈ ds, isDecDigit c = true) (h0 : ds.head? ≠ some '0' ∨ ds = ['0'])
    (hv : positional 10 (ds.map digitVal) < 2 ^ 64) :
    convert np ds = .number (BitVec.ofNat 64 (positional 10 (ds.map digitVal))) := by
  rcases h0 with h0 | h0
  · match ds, hne with
    | d0 :: ds', _ =>
      have hnz : d0 ≠ '0' := by intro h; subst h; simp at h0
      have hd' : ∀ c ∈ ds', isDecDigit c = true ∨ c = '_' :=
        fun c hc => Or.inl (hd c (List.mem_cons_of_mem _ hc))
      rw [← digits_of_dec hd] at hv ⊢
      exact convert_decimal_sep np d0 ds' (hd d0 List.mem_cons_self) hnz hd' hv
  · subst h0
    rw [convert_zero]; rfl

/-- octal by leading zero; separators allowed (they are dropped by the lexer), at least
    one digit after the `0` -/
theorem convert_octal_sep (np : Bool) (os : List Char)
    (ho : ∀ c ∈ os, isOctDigit c = true ∨ c = '_') (hne : digits os ≠ []) :
    convert np ('0' :: os) = .number (BitVec.ofNat 64 (positional 8 (digits os))) := by
  have hall : ∀ c ∈ '0' :: os, isDecDigit c = true ∨ c = '_' := by
    intro c hc
    rcases List.mem_cons.mp hc with rfl | hc
    · exact Or.inl (by decide)
    · rcases ho c hc with h | h
      · exact Or.inl (isDecDigit_of_oct h)
      · exact Or.inr h
  have hallo : ∀ c ∈ ('0' :: os).filter (· ≠ '_'), isOctDigit c = true := by
    apply mem_filter_oct
    intro c hc
    rcases List.mem_cons.mp hc with rfl | hc
    · exact Or.inl (by decide)
    · exact ho c hc
  unfold convert
  rw [lexWord_number _ hall]
  have hf : ('0' :: os).filter (· ≠ '_') = '0' :: os.filter (· ≠ '_') := by
    rw [List.filter_cons_of_pos (by decide)]
  have hoct := octStr_eq _ hallo 0
  rw [hf] at hoct ⊢
  have hne' : os.filter (· ≠ '_') ≠ [] := by
    intro h; apply hne; unfold digits; rw [h]; rfl
  match hfo : os.filter (· ≠ '_'), hne' with
  | o1 :: t, _ =>
    rw [hfo] at hoct
    simp only
    rw [show (0 : BitVec 64) = BitVec.ofNat 64 0 from rfl, hoct]
    have : digitVal '0' = 0 := by decide
    unfold positional digits
    rw [hfo]
    simp only [List.map_cons, List.foldl_cons, this, Nat.zero_mul, Nat.zero_add, Nat.add_zero]

theorem filter_id_of_oct {os : List Char} (ho : ∀ c ∈ os, isOctDigit c = true) :
    os.filter (· ≠ '_') = os :=
  filter_id_of_dec (fun c hc => isDecDigit_of_oct (ho c hc))

/-- octal by leading zero, no separators -/
theorem convert_octal (np : Bool) (os : List Char) (hne : os ≠ [])
    (ho : ∀ c ∈ os, isOctDigit c = true) :
    convert np ('0' :: os) = .number (BitVec.ofNat 64 (positional 8 (os.map digitVal))) := by
  have hdig : digits os = os.map digitVal := by unfold digits; rw [filter_id_of_oct ho]
  rw [← hdig]
  apply convert_octal_sep np os (fun c hc => Or.inl (ho c hc))
  rw [hdig]; simpa using hne

theorem lexWord_prefix (p : Char) (hp : isLetter p = true) (cs : List Char) :
    lexWord ('0' :: p :: cs) true [] = (false, '0' :: p :: cs) := by
  have hp_ : ¬ (true = true ∧ p = '_') := by
    intro h; rw [h.2] at hp; revert hp; decide
  rw [lexWord, if_neg (by decide), if_neg (by decide), lexWord, if_neg hp_,
    if_pos (Or.inl hp), lexWord_false]
  rfl

/-- `0x…` ; separators allowed; value modulo 2^64 -/
theorem convert_hex_prefix_sep (np : Bool) (hs : List Char)
    (hh : ∀ c ∈ hs, isHexDigit c = true ∨ c = '_') :
    convert np ('0' :: 'x' :: hs) = .number (BitVec.ofNat 64 (positional 16 (digits hs))) := by
  unfold convert
  rw [lexWord_prefix 'x' (by decide)]
  simp only
  rw [show (0 : BitVec 64) = BitVec.ofNat 64 0 from rfl, hexStr_eq hs hh 0]
  rfl

/-- `0b…` ; separators allowed; value modulo 2^64 -/
theorem convert_bin_prefix_sep (np : Bool) (bs : List Char)
    (hb : ∀ c ∈ bs, isBinDigit c = true ∨ c = '_') :
    convert np ('0' :: 'b' :: bs) = .number (BitVec.ofNat 64 (positional 2 (digits bs))) := by
  unfold convert
  rw [lexWord_prefix 'b' (by decide)]
  simp only
  rw [show (0 : BitVec 64) = BitVec.ofNat 64 0 from rfl, binStr_eq bs hb 0]
  rfl

theorem digits_of_no_sep {cs : List Char} (h : ∀ c ∈ cs, c ≠ '_') : digits cs = cs.map digitVal := by
  unfold digits
  rw [List.filter_eq_self.mpr]
  intro c hc
  simpa using h c hc

theorem convert_hex_prefix (np : Bool) (hs : List Char) (hh : ∀ c ∈ hs, isHexDigit c = true) :
    convert np ('0' :: 'x' :: hs) =
      .number (BitVec.ofNat 64 (positional 16 (hs.map digitVal))) := by
  rw [← digits_of_no_sep (cs := hs)]
  · exact convert_hex_prefix_sep np hs (fun c hc => Or.inl (hh c hc))
  · intro c hc hu; subst hu; have := hh _ hc; revert this; decide

theorem convert_bin_prefix (np : Bool) (bs : List Char) (hb : ∀ c ∈ bs, isBinDigit c = true) :
    convert np ('0' :: 'b' :: bs) =
      .number (BitVec.ofNat 64 (positional 2 (bs.map digitVal))) := by
  rw [← digits_of_no_sep (cs := bs)]
  · exact convert_bin_prefix_sep np bs (fun c hc => Or.inl (hb c hc))
  · intro c hc hu; subst hu; have := hb _ hc; revert this; decide

end NakenVerif.Expr.Literal
