/-
  Lemmas about the two stacks: the "strictly tightening" invariant of the
  operator stack, capacity bounds that follow from it, and the behaviour of
  `reduceFor` / `reduceAll` (never a fault, never out of fuel; on a pending
  chain they compute its right-nested collapse).
-/
import NakenVerif.Expr.Proofs.Basic

namespace NakenVerif.Expr

open NakenVerif.Generated (BinOp)

/-- operator stack (top first) strictly tightening towards the top -/
def Tight (ops : List BinOp) : Prop := List.Pairwise (fun a b => prec a < prec b) ops

theorem Tight.nil : Tight [] := List.Pairwise.nil

theorem Tight.tail {o : BinOp} {ops : List BinOp} (h : Tight (o :: ops)) : Tight ops :=
  (List.pairwise_cons.mp h).2

theorem Tight.head_lt {o : BinOp} {ops : List BinOp} (h : Tight (o :: ops)) :
    ∀ x ∈ ops, prec o < prec x :=
  (List.pairwise_cons.mp h).1

theorem Tight.cons {o : BinOp} {ops : List BinOp} (h : Tight ops)
    (hlt : ∀ x ∈ ops, prec o < prec x) : Tight (o :: ops) :=
  List.pairwise_cons.mpr ⟨hlt, h⟩

/-- a strictly tightening stack whose entries are all `≥ m` has at most `7 - m` entries -/
theorem Tight.length_add_le {ops : List BinOp} (h : Tight ops) :
    ∀ m, m ≤ 7 → (∀ x ∈ ops, m ≤ prec x) → ops.length + m ≤ 7 := by
  induction ops with
  | nil => intro m hm7 _; simpa using hm7
  | cons o ops ih =>
    intro m _ hm
    have h6 := prec_le_six o
    have h1 := ih h.tail (prec o + 1) (by omega) (fun x hx => h.head_lt x hx)
    have h2 := hm o (List.mem_cons_self)
    simp only [List.length_cons]; omega

theorem Tight.length_le {ops : List BinOp} (h : Tight ops) : ops.length ≤ 6 := by
  have := h.length_add_le 1 (by omega) (fun x _ => prec_pos x)
  omega

/-- all entries of a tight stack are above `p` as soon as the top one is -/
theorem Tight.all_gt {o : BinOp} {ops : List BinOp} (h : Tight (o :: ops)) {p : Nat}
    (hp : p < prec o) : ∀ x ∈ o :: ops, p < prec x := by
  intro x hx
  rcases List.mem_cons.mp hx with rfl | hx
  · exact hp
  · have := h.head_lt x hx; omega

/-! ### pushes never overflow under the invariant -/

theorem pushVal_ok (s : Stk) (v : BitVec 64) (h : s.vals.length ≤ 6) :
    pushVal s v = .ok { s with vals := v :: s.vals } := by
  unfold pushVal
  rw [if_pos]
  rw [valCap_eq]; omega

theorem pushOp_ok (s : Stk) (o : BinOp) (h : Tight s.ops) (hgt : ∀ x ∈ s.ops, prec o < prec x) :
    pushOp s o = .ok { s with ops := o :: s.ops } := by
  unfold pushOp
  rw [if_pos]
  rw [opCap_eq]
  have := (Tight.cons h hgt).length_le
  simp only [List.length_cons] at this; omega

/-! ### `reduceFor` / `reduceAll` on arbitrary stacks (for no-fault / no-fuel) -/

/-- stack invariant when an operator is expected: one value more than operators -/
def InvOp (s : Stk) : Prop := Tight s.ops ∧ s.vals.length = s.ops.length + 1

theorem execTop_inv {s : Stk} (h : InvOp s) {o : BinOp} {ops : List BinOp} (ho : s.ops = o :: ops) :
    execTop s = .err ∨ ∃ s', execTop s = .ok s' ∧ InvOp s' ∧ s'.ops = ops := by
  obtain ⟨vals, sops⟩ := s
  simp only at ho
  subst ho
  obtain ⟨ht, hl⟩ := h
  simp only [List.length_cons] at hl
  match vals, hl with
  | sv :: dv :: vals, hl =>
    unfold execTop
    simp only
    cases happ : applyOp o dv sv with
    | none => left; rfl
    | some r =>
      right
      refine ⟨_, rfl, ⟨ht.tail, ?_⟩, rfl⟩
      simp only [List.length_cons] at hl ⊢
      omega

theorem reduceFor_inv (p : Nat) : ∀ (fl : List BinOp) (s : Stk), InvOp s → s.ops.length ≤ fl.length →
    reduceFor p fl s = .err ∨
      ∃ s', reduceFor p fl s = .ok s' ∧ InvOp s' ∧ ∀ x ∈ s'.ops, p < prec x := by
  intro fl
  induction fl with
  | nil =>
    intro s h hl
    right
    refine ⟨s, rfl, h, ?_⟩
    have : s.ops = [] := List.eq_nil_of_length_eq_zero (by simpa using hl)
    simp [this]
  | cons a fl ih =>
    intro s h hl
    cases hops : s.ops with
    | nil =>
      right
      refine ⟨s, ?_, h, by simp [hops]⟩
      unfold reduceFor; simp [hops]
    | cons o ops =>
      by_cases hp : prec o ≤ p
      · have hstep : reduceFor p (a :: fl) s = (execTop s).bind (reduceFor p fl) := by
          rw [reduceFor]; simp only [hops, hp, if_true]
          cases execTop s <;> rfl
        rcases execTop_inv h hops with he | ⟨s', he, hinv, hops'⟩
        · left; rw [hstep, he]; rfl
        · have hl' : s'.ops.length ≤ fl.length := by
            rw [hops']; rw [hops] at hl; simp only [List.length_cons] at hl; omega
          rw [hstep, he]
          exact ih s' hinv hl'
      · right
        refine ⟨s, ?_, h, ?_⟩
        · rw [reduceFor]; simp only [hops, hp, if_false]
        · rw [hops]
          have ht : Tight (o :: ops) := hops ▸ h.1
          exact ht.all_gt (by omega)

theorem reduceAll_inv : ∀ (fl : List BinOp) (s : Stk), InvOp s →
    reduceAll fl s = .err ∨ ∃ s', reduceAll fl s = .ok s' ∧ InvOp s' := by
  intro fl
  induction fl with
  | nil => intro s h; right; exact ⟨s, rfl, h⟩
  | cons a fl ih =>
    intro s h
    cases hops : s.ops with
    | nil =>
      right
      refine ⟨s, ?_, h⟩
      rw [reduceAll]; simp [hops]
    | cons o ops =>
      have hl := h.2
      rw [hops] at hl
      simp only [List.length_cons] at hl
      match hv : s.vals, hl with
      | sv :: dv :: vals, _ =>
        have hstep : reduceAll (a :: fl) s = (execTop s).bind (reduceAll fl) := by
          rw [reduceAll]; simp only [hops, hv]
          cases execTop s <;> rfl
        rcases execTop_inv h hops with he | ⟨s', he, hinv, _⟩
        · left; rw [hstep, he]; rfl
        · rw [hstep, he]; exact ih s' hinv

/-! ### pending chains -/

/-- value of a pending chain `v0 o1 v1 … ok vk` (both lists top first: `ops = [ok,…,o1]`,
    `vals = [vk,…,v0]`), evaluated the way the stack machine does: from the top,
    i.e. right-nested `v0 o1 (v1 o2 (… vk))`. -/
def collapse : List BinOp → List (BitVec 64) → Option (BitVec 64)
  | [], [v] => some v
  | o :: ops, sv :: dv :: vals => (applyOp o dv sv).bind fun r => collapse ops (r :: vals)
  | _, _ => none

@[simp] theorem collapse_single (v : BitVec 64) : collapse [] [v] = some v := rfl

theorem collapse_cons (o : BinOp) (ops : List BinOp) (sv dv : BitVec 64) (vals : List (BitVec 64)) :
    collapse (o :: ops) (sv :: dv :: vals) =
      (applyOp o dv sv).bind fun r => collapse ops (r :: vals) := rfl

/-- putting a chain on top of a pending `a o □` -/
theorem collapse_snoc (o : BinOp) (a : BitVec 64) :
    ∀ (co : List BinOp) (cv : List (BitVec 64)), co.length + 1 = cv.length →
      collapse (co ++ [o]) (cv ++ [a]) = (collapse co cv).bind fun b => applyOp o a b := by
  intro co
  induction co with
  | nil =>
    intro cv hl
    match cv, hl with
    | [v], _ =>
      simp only [List.nil_append, List.cons_append, collapse_single, Option.bind_some]
      rw [collapse_cons]
      cases applyOp o a v <;> rfl
  | cons o' co ih =>
    intro cv hl
    match cv, hl with
    | sv :: dv :: vals, hl =>
      simp only [List.cons_append, collapse_cons]
      cases applyOp o' dv sv with
      | none => rfl
      | some r =>
        simp only [Option.bind_some]
        have := ih (r :: vals) (by simp only [List.length_cons] at hl ⊢; omega)
        simpa using this

/-- `reduceFor p` collapses a chain whose operators all have `prec ≤ p` and stops at
    the stack below when that is looser than `p`. -/
theorem reduceFor_chain (p : Nat) (sv : List (BitVec 64)) (so : List BinOp)
    (hso : ∀ x ∈ so, p < prec x) :
    ∀ (co : List BinOp) (cv : List (BitVec 64)) (fl : List BinOp),
      co.length + 1 = cv.length → (∀ x ∈ co, prec x ≤ p) → co.length ≤ fl.length →
      reduceFor p fl { vals := cv ++ sv, ops := co ++ so } =
        match collapse co cv with
        | some v => .ok { vals := v :: sv, ops := so }
        | none => .err := by
  intro co
  induction co with
  | nil =>
    intro cv fl hl _ _
    match cv, hl with
    | [v], _ =>
      simp only [collapse_single, List.nil_append, List.cons_append]
      cases fl with
      | nil => rfl
      | cons a fl =>
        rw [reduceFor]
        cases so with
        | nil => rfl
        | cons o so =>
          have := hso o List.mem_cons_self
          simp only
          rw [if_neg (by omega)]
  | cons o co ih =>
    intro cv fl hl hle hfl
    match cv, hl, fl, hfl with
    | sv' :: dv :: vals, hl, a :: fl, hfl =>
      have hp : prec o ≤ p := hle o List.mem_cons_self
      rw [reduceFor]
      simp only [List.cons_append, hp, if_true, collapse_cons]
      unfold execTop
      simp only
      cases applyOp o dv sv' with
      | none => rfl
      | some r =>
        simp only [Option.bind_some]
        have := ih (r :: vals) fl (by simp only [List.length_cons] at hl ⊢; omega)
          (fun x hx => hle x (List.mem_cons_of_mem _ hx))
          (by simp only [List.length_cons] at hfl; omega)
        simpa using this

/-- the final loop collapses a whole chain -/
theorem reduceAll_chain :
    ∀ (co : List BinOp) (cv : List (BitVec 64)) (fl : List BinOp),
      co.length + 1 = cv.length → co.length ≤ fl.length →
      reduceAll fl { vals := cv, ops := co } =
        match collapse co cv with
        | some v => .ok { vals := [v], ops := [] }
        | none => .err := by
  intro co
  induction co with
  | nil =>
    intro cv fl hl _
    match cv, hl with
    | [v], _ =>
      simp only [collapse_single]
      cases fl with
      | nil => rfl
      | cons a fl => rw [reduceAll]
  | cons o co ih =>
    intro cv fl hl hfl
    match cv, hl, fl, hfl with
    | sv' :: dv :: vals, hl, a :: fl, hfl =>
      rw [reduceAll]
      simp only [collapse_cons]
      unfold execTop
      simp only
      cases applyOp o dv sv' with
      | none => rfl
      | some r =>
        simp only [Option.bind_some]
        exact ih (r :: vals) fl (by simp only [List.length_cons] at hl ⊢; omega)
          (by simp only [List.length_cons] at hfl; omega)

end NakenVerif.Expr
