/-
  Safety of the evaluator on EVERY token list: no stack over/underflow
  (`.fault`), and enough fuel never runs out (`.fuel`).
-/
import NakenVerif.Expr.Proofs.Stack

namespace NakenVerif.Expr

open NakenVerif.Generated (BinOp)

/-! ### small facts about the helpers -/

theorem execTop_ne_fuel (s : Stk) : execTop s ≠ .fuel := by
  unfold execTop
  split
  · split <;> simp
  · simp

theorem reduceFor_ne_fuel (p : Nat) : ∀ (fl : List BinOp) (s : Stk), reduceFor p fl s ≠ .fuel := by
  intro fl
  induction fl with
  | nil => intro s; simp [reduceFor]
  | cons a fl ih =>
    intro s
    rw [reduceFor]
    split
    · simp
    · split
      · have := execTop_ne_fuel s
        split
        · exact ih _
        · rename_i r hr _ _; intro h; exact this h
      · simp

theorem reduceAll_ne_fuel : ∀ (fl : List BinOp) (s : Stk), reduceAll fl s ≠ .fuel := by
  intro fl
  induction fl with
  | nil => intro s; simp [reduceAll]
  | cons a fl ih =>
    intro s
    rw [reduceAll]
    split
    · have := execTop_ne_fuel s
      split
      · exact ih _
      · intro h; exact this h
    · simp

theorem pushVal_ne_fuel (s : Stk) (v : BitVec 64) : pushVal s v ≠ .fuel := by
  unfold pushVal; split <;> simp

theorem pushOp_ne_fuel (s : Stk) (o : BinOp) : pushOp s o ≠ .fuel := by
  unfold pushOp; split <;> simp

theorem finish_ne_fuel (isParen : Bool) (s : Stk) (needOp : Bool) (rest : List Tok) (atEnd : Bool) :
    finish isParen s needOp rest atEnd ≠ .fuel := by
  rw [finish_eq]
  split
  · simp
  · split
    · simp
    · split
      · simp
      · apply Res.bind_ne_fuel (reduceAll_ne_fuel _ _)
        intro s' _
        split <;> simp

theorem finish_ok_rest {isParen : Bool} {s : Stk} {needOp : Bool} {rest : List Tok} {atEnd : Bool}
    {v : BitVec 64} {r : List Tok} (h : finish isParen s needOp rest atEnd = .ok (v, r)) :
    r = rest := by
  rw [finish_eq] at h
  split at h
  · simp at h
  · split at h
    · simp at h
    · split at h
      · simp at h
      · obtain ⟨s', _, h2⟩ := Res.bind_eq_ok h
        split at h2
        · simp at h2; exact h2.2.symm
        · simp at h2

/-! ### the unread rest is never longer than the input -/

theorem rest_le (fuel : Nat) :
    (∀ isParen s needOp atStart ts v r, loop fuel isParen s needOp atStart ts = .ok (v, r) →
        r.length ≤ ts.length) ∧
    (∀ ts v r, unary fuel ts = .ok (v, r) → r.length ≤ ts.length) := by
  induction fuel with
  | zero => constructor <;> (intros; simp_all)
  | succ f ih =>
    obtain ⟨ihL, ihU⟩ := ih
    have ihR : ∀ isParen ts v r, run f isParen ts = .ok (v, r) → r.length ≤ ts.length := by
      intro isParen ts v r h; rw [run_eq] at h; exact ihL _ _ _ _ _ _ _ h
    -- the common continuation: an operand was read by `x`, pushed, and the loop goes on
    have cont : ∀ (x : Res (BitVec 64 × List Tok)) (g : BitVec 64 → BitVec 64) isParen s v r
        (n : Nat), (∀ v' r', x = .ok (v', r') → r'.length ≤ n) →
        (x.bind fun p => (pushVal s (g p.1)).bind fun s' => loop f isParen s' true false p.2)
          = .ok (v, r) → r.length ≤ n := by
      intro x g isParen s v r n hx h
      obtain ⟨⟨v', r'⟩, h1, h2⟩ := Res.bind_eq_ok h
      obtain ⟨s', _, h3⟩ := Res.bind_eq_ok h2
      have := ihL _ _ _ _ _ _ _ h3
      have := hx v' r' h1
      simp only at *; omega
    constructor
    · intro isParen s needOp atStart ts v r h
      cases ts with
      | nil => rw [loop_nil] at h; rw [finish_ok_rest h]; exact Nat.le_refl _
      | cons t rest =>
        cases t with
        | num w =>
          cases needOp with
          | true => rw [loop_num_needOp] at h; simp at h
          | false =>
            rw [loop_num] at h
            obtain ⟨s', _, h3⟩ := Res.bind_eq_ok h
            have := ihL _ _ _ _ _ _ _ h3
            simp only [List.length_cons]; omega
        | op o =>
          cases needOp with
          | true =>
            rw [loop_op_needOp] at h
            obtain ⟨s1, _, h2⟩ := Res.bind_eq_ok h
            obtain ⟨s2, _, h3⟩ := Res.bind_eq_ok h2
            have := ihL _ _ _ _ _ _ _ h3
            simp only [List.length_cons]; omega
          | false =>
            by_cases hadd : o = .add ∧ atStart = true
            · obtain ⟨rfl, rfl⟩ := hadd
              rw [loop_op_plus_start] at h
              obtain ⟨s1, _, h2⟩ := Res.bind_eq_ok h
              obtain ⟨s2, _, h3⟩ := Res.bind_eq_ok h2
              have := ihL _ _ _ _ _ _ _ h3
              simp only [List.length_cons]; omega
            · by_cases hsub : o = .sub
              · subst hsub
                rw [loop_op_minus] at h
                have := cont _ _ _ _ _ _ rest.length (fun v' r' hx => ihU _ _ _ hx) h
                simp only [List.length_cons]; omega
              · rw [loop_op_other _ _ _ _ _ _ hadd hsub] at h; simp at h
        | tilde =>
          cases needOp with
          | true => rw [loop_tilde_needOp] at h; simp at h
          | false =>
            rw [loop_tilde] at h
            have := cont _ _ _ _ _ _ rest.length (fun v' r' hx => ihU _ _ _ hx) h
            simp only [List.length_cons]; omega
        | lparen =>
          cases needOp with
          | true =>
            rw [loop_lparen_needOp] at h
            split at h
            · simp at h
            · rw [finish_ok_rest h]; exact Nat.le_refl _
          | false =>
            rw [loop_lparen] at h
            have := cont _ id _ _ _ _ rest.length (fun v' r' hx => ihR _ _ _ _ hx) h
            simp only [List.length_cons]; omega
        | rparen =>
          rw [loop_rparen] at h
          split at h
          · rw [finish_ok_rest h]; simp
          · rw [finish_ok_rest h]; exact Nat.le_refl _
        | sep k =>
          rw [loop_sep] at h
          split at h
          · simp at h
          · rw [finish_ok_rest h]; exact Nat.le_refl _
        | eol => rw [loop_eol] at h; rw [finish_ok_rest h]; exact Nat.le_refl _
        | other k => rw [loop_other] at h; simp at h
    · intro ts v r h
      cases ts with
      | nil => rw [unary_err _ _ (by simp) (by simp) (by simp) (by simp)] at h; simp at h
      | cons t rest =>
        cases t with
        | num w =>
          rw [unary_num] at h
          simp only [Res.ok.injEq, Prod.mk.injEq] at h
          rw [← h.2]; simp
        | lparen =>
          rw [unary_lparen] at h
          have := ihR _ _ _ _ h
          simp only [List.length_cons]; omega
        | tilde =>
          rw [unary_tilde] at h
          obtain ⟨⟨v', r'⟩, h1, h2⟩ := Res.bind_eq_ok h
          have := ihU _ _ _ h1
          simp only [Res.ok.injEq, Prod.mk.injEq] at h2
          rw [← h2.2]; simp only [List.length_cons]; omega
        | op o =>
          by_cases hsub : o = .sub
          · subst hsub
            rw [unary_minus] at h
            obtain ⟨⟨v', r'⟩, h1, h2⟩ := Res.bind_eq_ok h
            have := ihU _ _ _ h1
            simp only [Res.ok.injEq, Prod.mk.injEq] at h2
            rw [← h2.2]; simp only [List.length_cons]; omega
          · rw [unary_err _ _ (by simp) (by simp) (by simp) (by simpa using hsub)] at h
            simp at h
        | rparen => rw [unary_err _ _ (by simp) (by simp) (by simp) (by simp)] at h; simp at h
        | sep k => rw [unary_err _ _ (by simp) (by simp) (by simp) (by simp)] at h; simp at h
        | eol => rw [unary_err _ _ (by simp) (by simp) (by simp) (by simp)] at h; simp at h
        | other k => rw [unary_err _ _ (by simp) (by simp) (by simp) (by simp)] at h; simp at h

theorem run_rest_le {fuel : Nat} {isParen : Bool} {ts : List Tok} {v : BitVec 64} {r : List Tok}
    (h : run fuel isParen ts = .ok (v, r)) : r.length ≤ ts.length := by
  rw [run_eq] at h; exact (rest_le fuel).1 _ _ _ _ _ _ _ h

theorem unary_rest_le {fuel : Nat} {ts : List Tok} {v : BitVec 64} {r : List Tok}
    (h : unary fuel ts = .ok (v, r)) : r.length ≤ ts.length :=
  (rest_le fuel).2 _ _ _ h

/-! ### enough fuel never runs out -/

theorem no_fuel (fuel : Nat) :
    (∀ isParen s needOp atStart ts, ts.length < fuel →
        loop fuel isParen s needOp atStart ts ≠ .fuel) ∧
    (∀ ts, ts.length < fuel → unary fuel ts ≠ .fuel) := by
  induction fuel with
  | zero => constructor <;> (intros; omega)
  | succ f ih =>
    obtain ⟨ihL, ihU⟩ := ih
    have ihR : ∀ isParen ts, ts.length < f → run f isParen ts ≠ .fuel := by
      intro isParen ts h; rw [run_eq]; exact ihL _ _ _ _ _ h
    have cont : ∀ (x : Res (BitVec 64 × List Tok)) (g : BitVec 64 → BitVec 64) isParen s,
        x ≠ .fuel → (∀ v' r', x = .ok (v', r') → r'.length < f) →
        (x.bind fun p => (pushVal s (g p.1)).bind fun s' => loop f isParen s' true false p.2)
          ≠ .fuel := by
      intro x g isParen s hx hr
      apply Res.bind_ne_fuel hx
      intro ⟨v', r'⟩ h1
      apply Res.bind_ne_fuel (pushVal_ne_fuel _ _)
      intro s' _
      exact ihL _ _ _ _ _ (hr v' r' h1)
    constructor
    · intro isParen s needOp atStart ts hlen
      cases ts with
      | nil => rw [loop_nil]; exact finish_ne_fuel _ _ _ _ _
      | cons t rest =>
        simp only [List.length_cons] at hlen
        have hlen' : rest.length < f := by omega
        cases t with
        | num w =>
          cases needOp with
          | true => rw [loop_num_needOp]; simp
          | false =>
            rw [loop_num]
            apply Res.bind_ne_fuel (pushVal_ne_fuel _ _)
            intro s' _; exact ihL _ _ _ _ _ hlen'
        | op o =>
          cases needOp with
          | true =>
            rw [loop_op_needOp]
            apply Res.bind_ne_fuel (reduceFor_ne_fuel _ _ _)
            intro s1 _
            apply Res.bind_ne_fuel (pushOp_ne_fuel _ _)
            intro s2 _; exact ihL _ _ _ _ _ hlen'
          | false =>
            by_cases hadd : o = .add ∧ atStart = true
            · obtain ⟨rfl, rfl⟩ := hadd
              rw [loop_op_plus_start]
              apply Res.bind_ne_fuel (pushVal_ne_fuel _ _)
              intro s1 _
              apply Res.bind_ne_fuel (pushOp_ne_fuel _ _)
              intro s2 _; exact ihL _ _ _ _ _ hlen'
            · by_cases hsub : o = .sub
              · subst hsub
                rw [loop_op_minus]
                apply cont _ _ _ _ (ihU _ hlen')
                intro v' r' hx; have := unary_rest_le hx; omega
              · rw [loop_op_other _ _ _ _ _ _ hadd hsub]; simp
        | tilde =>
          cases needOp with
          | true => rw [loop_tilde_needOp]; simp
          | false =>
            rw [loop_tilde]
            apply cont _ _ _ _ (ihU _ hlen')
            intro v' r' hx; have := unary_rest_le hx; omega
        | lparen =>
          cases needOp with
          | true =>
            rw [loop_lparen_needOp]
            split
            · simp
            · exact finish_ne_fuel _ _ _ _ _
          | false =>
            rw [loop_lparen]
            apply cont _ id _ _ (ihR _ _ hlen')
            intro v' r' hx; have := run_rest_le hx; omega
        | rparen =>
          rw [loop_rparen]
          split <;> exact finish_ne_fuel _ _ _ _ _
        | sep k =>
          rw [loop_sep]
          split
          · simp
          · exact finish_ne_fuel _ _ _ _ _
        | eol => rw [loop_eol]; exact finish_ne_fuel _ _ _ _ _
        | other k => rw [loop_other]; simp
    · intro ts hlen
      cases ts with
      | nil => rw [unary_err _ _ (by simp) (by simp) (by simp) (by simp)]; simp
      | cons t rest =>
        simp only [List.length_cons] at hlen
        have hlen' : rest.length < f := by omega
        cases t with
        | num w => rw [unary_num]; simp
        | lparen => rw [unary_lparen]; exact ihR _ _ hlen'
        | tilde =>
          rw [unary_tilde]
          apply Res.bind_ne_fuel (ihU _ hlen')
          intro p _; simp
        | op o =>
          by_cases hsub : o = .sub
          · subst hsub
            rw [unary_minus]
            apply Res.bind_ne_fuel (ihU _ hlen')
            intro p _; simp
          · rw [unary_err _ _ (by simp) (by simp) (by simp) (by simpa using hsub)]; simp
        | rparen => rw [unary_err _ _ (by simp) (by simp) (by simp) (by simp)]; simp
        | sep k => rw [unary_err _ _ (by simp) (by simp) (by simp) (by simp)]; simp
        | eol => rw [unary_err _ _ (by simp) (by simp) (by simp) (by simp)]; simp
        | other k => rw [unary_err _ _ (by simp) (by simp) (by simp) (by simp)]; simp

theorem run_ne_fuel {fuel : Nat} {isParen : Bool} {ts : List Tok} (h : ts.length < fuel) :
    run fuel isParen ts ≠ .fuel := by
  rw [run_eq]; exact (no_fuel fuel).1 _ _ _ _ _ h

/-! ### no fault -/

/-- stack invariant of `loop` -/
def Inv (s : Stk) (needOp atStart : Bool) : Prop :=
  Tight s.ops ∧ s.vals.length = s.ops.length + (if needOp then 1 else 0) ∧
    (atStart = true → s.ops = [])

theorem Inv.pushVal {s : Stk} {atStart : Bool} (h : Inv s false atStart) (v : BitVec 64) :
    pushVal s v = .ok { s with vals := v :: s.vals } ∧
      Inv { s with vals := v :: s.vals } true false := by
  obtain ⟨ht, hl, _⟩ := h
  have := ht.length_le
  simp only [Bool.false_eq_true, if_false, Nat.add_zero] at hl
  refine ⟨pushVal_ok s v (by omega), ht, ?_, by simp⟩
  simp only [List.length_cons, if_true]; omega

theorem finish_ne_fault {isParen : Bool} {s : Stk} {needOp atStart : Bool} (h : Inv s needOp atStart)
    (rest : List Tok) (atEnd : Bool) : finish isParen s needOp rest atEnd ≠ .fault := by
  rw [finish_eq]
  split
  · simp
  · split
    · simp
    · split
      · simp
      · rename_i hn
        have hn' : needOp = true := by simpa using hn
        subst hn'
        have hinv : InvOp s := ⟨h.1, by simpa using h.2.1⟩
        rcases reduceAll_inv s.ops s hinv with he | ⟨s', he, hinv'⟩
        · rw [he]; simp
        · rw [he]
          simp only [Res.bind_ok]
          have := hinv'.2
          split
          · simp
          · rename_i hnil; rw [hnil] at this; simp at this

theorem no_fault (fuel : Nat) :
    (∀ isParen s needOp atStart ts, Inv s needOp atStart →
        loop fuel isParen s needOp atStart ts ≠ .fault) ∧
    (∀ ts, unary fuel ts ≠ .fault) := by
  induction fuel with
  | zero => constructor <;> (intros; simp)
  | succ f ih =>
    obtain ⟨ihL, ihU⟩ := ih
    have ihR : ∀ isParen ts, run f isParen ts ≠ .fault := by
      intro isParen ts; rw [run_eq]
      exact ihL _ _ _ _ _ ⟨Tight.nil, rfl, fun _ => rfl⟩
    have cont : ∀ (x : Res (BitVec 64 × List Tok)) (g : BitVec 64 → BitVec 64) isParen s atStart,
        Inv s false atStart → x ≠ .fault →
        (x.bind fun p => (pushVal s (g p.1)).bind fun s' => loop f isParen s' true false p.2)
          ≠ .fault := by
      intro x g isParen s atStart hinv hx
      apply Res.bind_ne_fault hx
      intro ⟨v', r'⟩ _
      obtain ⟨hp, hinv'⟩ := hinv.pushVal (g v')
      simp only
      rw [hp]
      exact ihL _ _ _ _ _ hinv'
    constructor
    · intro isParen s needOp atStart ts hinv
      cases ts with
      | nil => rw [loop_nil]; exact finish_ne_fault hinv _ _
      | cons t rest =>
        cases t with
        | num w =>
          cases needOp with
          | true => rw [loop_num_needOp]; simp
          | false =>
            rw [loop_num]
            obtain ⟨hp, hinv'⟩ := hinv.pushVal w
            rw [hp]
            exact ihL _ _ _ _ _ hinv'
        | op o =>
          cases needOp with
          | true =>
            rw [loop_op_needOp]
            have hinvOp : InvOp s := ⟨hinv.1, by simpa using hinv.2.1⟩
            rcases reduceFor_inv (prec o) s.ops s hinvOp (Nat.le_refl _) with he | ⟨s1, he, hi1, hgt⟩
            · rw [he]; simp
            · rw [he]
              simp only [Res.bind_ok]
              rw [pushOp_ok s1 o hi1.1 hgt]
              simp only [Res.bind_ok]
              apply ihL
              refine ⟨Tight.cons hi1.1 hgt, ?_, by simp⟩
              simp only [List.length_cons, Bool.false_eq_true, if_false, Nat.add_zero]
              exact hi1.2
          | false =>
            by_cases hadd : o = .add ∧ atStart = true
            · obtain ⟨rfl, rfl⟩ := hadd
              rw [loop_op_plus_start]
              obtain ⟨hp, hinv'⟩ := hinv.pushVal 0
              rw [hp]
              simp only [Res.bind_ok]
              have hops : s.ops = [] := hinv.2.2 rfl
              rw [pushOp_ok _ _ (by simpa [hops] using Tight.nil) (by simp [hops])]
              simp only [Res.bind_ok]
              apply ihL
              refine ⟨by simp [hops, Tight], ?_, by simp⟩
              have := hinv.2.1
              simp [hops] at this ⊢
              exact this
            · by_cases hsub : o = .sub
              · subst hsub
                rw [loop_op_minus]
                exact cont _ _ _ _ _ hinv (ihU _)
              · rw [loop_op_other _ _ _ _ _ _ hadd hsub]; simp
        | tilde =>
          cases needOp with
          | true => rw [loop_tilde_needOp]; simp
          | false => rw [loop_tilde]; exact cont _ _ _ _ _ hinv (ihU _)
        | lparen =>
          cases needOp with
          | true =>
            rw [loop_lparen_needOp]
            split
            · simp
            · exact finish_ne_fault hinv _ _
          | false => rw [loop_lparen]; exact cont _ id _ _ _ hinv (ihR _ _)
        | rparen =>
          rw [loop_rparen]
          split <;> exact finish_ne_fault hinv _ _
        | sep k =>
          rw [loop_sep]
          split
          · simp
          · exact finish_ne_fault hinv _ _
        | eol => rw [loop_eol]; exact finish_ne_fault hinv _ _
        | other k => rw [loop_other]; simp
    · intro ts
      cases ts with
      | nil => rw [unary_err _ _ (by simp) (by simp) (by simp) (by simp)]; simp
      | cons t rest =>
        cases t with
        | num w => rw [unary_num]; simp
        | lparen => rw [unary_lparen]; exact ihR _ _
        | tilde =>
          rw [unary_tilde]
          apply Res.bind_ne_fault (ihU _)
          intro p _; simp
        | op o =>
          by_cases hsub : o = .sub
          · subst hsub
            rw [unary_minus]
            apply Res.bind_ne_fault (ihU _)
            intro p _; simp
          · rw [unary_err _ _ (by simp) (by simp) (by simp) (by simpa using hsub)]; simp
        | rparen => rw [unary_err _ _ (by simp) (by simp) (by simp) (by simp)]; simp
        | sep k => rw [unary_err _ _ (by simp) (by simp) (by simp) (by simp)]; simp
        | eol => rw [unary_err _ _ (by simp) (by simp) (by simp) (by simp)]; simp
        | other k => rw [unary_err _ _ (by simp) (by simp) (by simp) (by simp)]; simp

end NakenVerif.Expr
