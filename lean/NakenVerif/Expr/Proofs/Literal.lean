/-
  Lemmas about the literal conversion model.
-/
import NakenVerif.Expr.LiteralSpec

namespace NakenVerif.Expr.Literal

/-! ### characters and bit vectors -/

theorem char_le_iff (a b : Char) : a ≤ b ↔ a.toNat ≤ b.toNat := by
  rw [Char.le_def]; exact UInt32.le_iff_toNat_le

theorem shl4_or_ofNat (m d : Nat) (hd : d < 16) :
    (BitVec.ofNat 64 m <<< 4) ||| BitVec.ofNat 64 d = BitVec.ofNat 64 (m * 16 + d) := by
  apply BitVec.eq_of_toNat_eq
  simp only [BitVec.toNat_or, BitVec.toNat_shiftLeft, BitVec.toNat_ofNat]
  have e1 : ((m % 2 ^ 64) <<< 4) % 2 ^ 64 = (m % 2 ^ 60) <<< 4 := by
    simp only [Nat.shiftLeft_eq]; omega
  have e2 : d % 2 ^ 64 = d := by omega
  rw [e1, e2, ← Nat.shiftLeft_add_eq_or_of_lt (i := 4) (by omega), Nat.shiftLeft_eq]
  omega

theorem shl3_or_ofNat (m d : Nat) (hd : d < 8) :
    (BitVec.ofNat 64 m <<< 3) ||| BitVec.ofNat 64 d = BitVec.ofNat 64 (m * 8 + d) := by
  apply BitVec.eq_of_toNat_eq
  simp only [BitVec.toNat_or, BitVec.toNat_shiftLeft, BitVec.toNat_ofNat]
  have e1 : ((m % 2 ^ 64) <<< 3) % 2 ^ 64 = (m % 2 ^ 61) <<< 3 := by
    simp only [Nat.shiftLeft_eq]; omega
  have e2 : d % 2 ^ 64 = d := by omega
  rw [e1, e2, ← Nat.shiftLeft_add_eq_or_of_lt (i := 3) (by omega), Nat.shiftLeft_eq]
  omega

theorem shl1_or_ofNat (m d : Nat) (hd : d < 2) :
    (BitVec.ofNat 64 m <<< 1) ||| BitVec.ofNat 64 d = BitVec.ofNat 64 (m * 2 + d) := by
  apply BitVec.eq_of_toNat_eq
  simp only [BitVec.toNat_or, BitVec.toNat_shiftLeft, BitVec.toNat_ofNat]
  have e1 : ((m % 2 ^ 64) <<< 1) % 2 ^ 64 = (m % 2 ^ 63) <<< 1 := by
    simp only [Nat.shiftLeft_eq]; omega
  have e2 : d % 2 ^ 64 = d := by omega
  rw [e1, e2, ← Nat.shiftLeft_add_eq_or_of_lt (i := 1) (by omega), Nat.shiftLeft_eq]
  omega

theorem shl1_ofNat (m : Nat) : (BitVec.ofNat 64 m <<< 1) = BitVec.ofNat 64 (m * 2 + 0) := by
  have := shl1_or_ofNat m 0 (by omega)
  simpa using this

/-! ### facts about digit characters -/

theorem isLetter_of_dec {c : Char} (h : isDecDigit c = true) : isLetter c = false := by
  simp only [isDecDigit, decide_eq_true_eq, char_le_iff] at h
  simp only [isLetter, char_le_iff, decide_eq_false_iff_not]
  have : '0'.toNat = 48 := rfl
  have : '9'.toNat = 57 := rfl
  have : 'a'.toNat = 97 := rfl
  have : 'z'.toNat = 122 := rfl
  have : 'A'.toNat = 65 := rfl
  have : 'Z'.toNat = 90 := rfl
  omega

theorem isDecDigit_of_oct {c : Char} (h : isOctDigit c = true) : isDecDigit c = true := by
  simp only [isOctDigit, decide_eq_true_eq, char_le_iff] at h
  simp only [isDecDigit, char_le_iff, decide_eq_true_eq]
  have : '7'.toNat = 55 := rfl
  have : '9'.toNat = 57 := rfl
  omega

theorem ne_underscore_of_dec {c : Char} (h : isDecDigit c = true) : c ≠ '_' := by
  intro hc; subst hc; revert h; decide

theorem digitVal_dec {c : Char} (h : isDecDigit c = true) : digitVal c = c.toNat - '0'.toNat := by
  simp only [isDecDigit, decide_eq_true_eq] at h
  simp only [digitVal, h, and_self, if_true]
  rfl

theorem digitVal_oct_lt {c : Char} (h : isOctDigit c = true) : c.toNat - '0'.toNat < 8 := by
  simp only [isOctDigit, decide_eq_true_eq, char_le_iff] at h
  have : '0'.toNat = 48 := rfl
  have : '7'.toNat = 55 := rfl
  omega

theorem hexDigit?_eq {c : Char} (h : isHexDigit c = true) :
    hexDigit? c = some (digitVal c) ∧ digitVal c < 16 := by
  simp only [isHexDigit, Bool.decide_or, Bool.or_eq_true, decide_eq_true_eq] at h
  unfold hexDigit? digitVal
  have : '0'.toNat = 48 := rfl
  have : '9'.toNat = 57 := rfl
  have : 'a'.toNat = 97 := rfl
  have : 'f'.toNat = 102 := rfl
  have : 'A'.toNat = 65 := rfl
  have : 'F'.toNat = 70 := rfl
  by_cases h1 : '0' ≤ c ∧ c ≤ '9'
  · simp only [h1, and_self, if_true]
    simp only [char_le_iff] at h1
    refine ⟨rfl, ?_⟩; omega
  · by_cases h2 : 'a' ≤ c ∧ c ≤ 'f'
    · simp only [h1, h2, and_self, if_true, if_false]
      simp only [char_le_iff] at h2
      constructor
      · congr 1; omega
      · omega
    · have h3 : 'A' ≤ c ∧ c ≤ 'F' := by
        rcases h with h | h | h
        · exact absurd h h1
        · exact absurd h h2
        · exact h
      simp only [h1, h2, h3, and_self, if_true, if_false]
      simp only [char_le_iff] at h3
      constructor
      · congr 1; omega
      · omega

theorem not_h_of_hex {c : Char} (h : isHexDigit c = true) : ¬ (c = 'h' ∨ c = 'H') := by
  intro hc
  rcases hc with hc | hc <;> (subst hc; revert h; decide)

/-! ### the character loop -/

theorem lexWord_false (cs : List Char) : ∀ acc, lexWord cs false acc = (false, acc.reverse ++ cs) := by
  induction cs with
  | nil => intro acc; simp [lexWord]
  | cons c cs ih =>
    intro acc
    unfold lexWord
    simp only [Bool.false_eq_true, false_and, if_false]
    split <;> (rw [ih]; simp)

theorem lexWord_true (cs : List Char) (h : ∀ c ∈ cs, isLetter c = false) :
    ∀ acc, lexWord cs true acc = (true, acc.reverse ++ cs.filter (· ≠ '_')) := by
  induction cs with
  | nil => intro acc; simp [lexWord]
  | cons c cs ih =>
    intro acc
    have ih' := ih (fun c hc => h c (List.mem_cons_of_mem _ hc))
    have hl := h c List.mem_cons_self
    unfold lexWord
    by_cases hc : c = '_'
    · simp only [hc, and_self, if_true]
      rw [ih']; simp
    · simp only [hc, and_false, if_false, hl, Bool.false_eq_true, or_self]
      rw [ih']; simp [hc]

/-! ### the digit-string converters -/

theorem decStr_eq (cs : List Char) (h : ∀ c ∈ cs, isDecDigit c = true) :
    ∀ n, decStr cs n = (cs.map digitVal).foldl (fun acc d => acc * 10 + d) n := by
  induction cs with
  | nil => intro n; rfl
  | cons c cs ih =>
    intro n
    have hc := h c List.mem_cons_self
    have hc' : isDigit c = true := hc
    simp only [decStr, hc', if_true, List.map_cons, List.foldl_cons]
    rw [ih (fun c hc => h c (List.mem_cons_of_mem _ hc)), digitVal_dec hc]

theorem strtoull_eq (cs : List Char) (h : ∀ c ∈ cs, isDecDigit c = true)
    (hv : positional 10 (cs.map digitVal) < 2 ^ 64) :
    strtoull cs = BitVec.ofNat 64 (positional 10 (cs.map digitVal)) := by
  unfold strtoull
  simp only [decStr_eq cs h 0]
  unfold positional at hv ⊢
  rw [if_neg (by omega)]

theorem octStr_eq (cs : List Char) (h : ∀ c ∈ cs, isOctDigit c = true) :
    ∀ m, octStr cs (BitVec.ofNat 64 m) =
      some (BitVec.ofNat 64 ((cs.map digitVal).foldl (fun acc d => acc * 8 + d) m)) := by
  induction cs with
  | nil => intro m; rfl
  | cons c cs ih =>
    intro m
    have hc := h c List.mem_cons_self
    have hq : ¬ (c = 'q' ∨ c = 'Q') := by
      intro hq; rcases hq with hq | hq <;> (subst hq; revert hc; decide)
    have hr : '0' ≤ c ∧ c ≤ '7' := by simpa [isOctDigit] using hc
    simp only [octStr, hq, hr, and_self, if_true, if_false, List.map_cons, List.foldl_cons]
    rw [shl3_or_ofNat m _ (digitVal_oct_lt hc), ih (fun c hc => h c (List.mem_cons_of_mem _ hc)),
      digitVal_dec (isDecDigit_of_oct hc)]

theorem hexStr_eq (cs : List Char) (h : ∀ c ∈ cs, isHexDigit c = true ∨ c = '_') :
    ∀ m, hexStr true cs (BitVec.ofNat 64 m) =
      some (BitVec.ofNat 64 ((digits cs).foldl (fun acc d => acc * 16 + d) m)) := by
  induction cs with
  | nil => intro m; rfl
  | cons c cs ih =>
    intro m
    have ih' := ih (fun c hc => h c (List.mem_cons_of_mem _ hc))
    rcases h c List.mem_cons_self with hc | hc
    · have hne : c ≠ '_' := by intro hu; subst hu; revert hc; decide
      obtain ⟨hd, hlt⟩ := hexDigit?_eq hc
      simp only [hexStr, not_h_of_hex hc, if_false, hd]
      rw [shl4_or_ofNat m _ hlt, ih']
      simp [digits, hne]
    · subst hc
      have h1 : ¬ ('_' = 'h' ∨ '_' = 'H') := by decide
      have h2 : hexDigit? '_' = none := by decide
      simp only [hexStr, h1, if_false, h2, if_true]
      rw [ih']
      simp [digits]

theorem binStr_eq (cs : List Char) (h : ∀ c ∈ cs, isBinDigit c = true ∨ c = '_') :
    ∀ m, binStr true cs (BitVec.ofNat 64 m) =
      some (BitVec.ofNat 64 ((digits cs).foldl (fun acc d => acc * 2 + d) m)) := by
  induction cs with
  | nil => intro m; rfl
  | cons c cs ih =>
    intro m
    have ih' := ih (fun c hc => h c (List.mem_cons_of_mem _ hc))
    have hb : ¬ ('0' = 'b' ∨ '0' = 'B') := by decide
    have hb1 : ¬ ('1' = 'b' ∨ '1' = 'B') := by decide
    have hbu : ¬ ('_' = 'b' ∨ '_' = 'B') := by decide
    have h10 : ¬ ('1' = '0') := by decide
    have hu0 : ¬ ('_' = '0') := by decide
    have hu1 : ¬ ('_' = '1') := by decide
    rcases h c List.mem_cons_self with hc | hc
    · simp only [isBinDigit, Bool.decide_or, Bool.or_eq_true, decide_eq_true_eq] at hc
      rcases hc with hc | hc
      · subst hc
        simp only [binStr, hb, if_false, if_true]
        rw [shl1_ofNat, ih']
        have : digitVal '0' = 0 := by decide
        simp [digits, this]
      · subst hc
        simp only [binStr, hb1, h10, if_false, if_true]
        rw [show (1 : BitVec 64) = BitVec.ofNat 64 1 from rfl, shl1_or_ofNat m 1 (by omega), ih']
        have : digitVal '1' = 1 := by decide
        simp [digits, this]
    · subst hc
      simp only [binStr, hbu, hu0, hu1, if_false, if_true]
      rw [ih']
      simp [digits]

end NakenVerif.Expr.Literal
