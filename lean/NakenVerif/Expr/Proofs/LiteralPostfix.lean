/-
  `convert` on literals with a radix postfix: `…h`, `…q`, `…b` (no separators).
-/
import NakenVerif.Expr.Proofs.LiteralConvert

namespace NakenVerif.Expr.Literal

/-- without separators the lexer keeps the word; it stays a number iff it has no letter -/
theorem lexWord_no_sep (cs : List Char) (h : ∀ c ∈ cs, c ≠ '_') :
    ∀ isNum acc, lexWord cs isNum acc = (isNum && cs.all (fun c => !isLetter c), acc.reverse ++ cs) := by
  induction cs with
  | nil => intro isNum acc; simp [lexWord]
  | cons c cs ih =>
    intro isNum acc
    have hc : c ≠ '_' := h c List.mem_cons_self
    have ih' := ih (fun c hc => h c (List.mem_cons_of_mem _ hc))
    unfold lexWord
    simp only [hc, and_false, or_false, if_false]
    cases hl : isLetter c
    · simp only [Bool.false_eq_true, if_false]
      rw [ih']; simp [hl]
    · simp only [if_true]
      rw [ih']; simp [hl]

theorem lexWord_postfix (body : List Char) (pc : Char) (hb : ∀ c ∈ body, c ≠ '_')
    (hpc : isLetter pc = true) :
    lexWord (body ++ [pc]) true [] = (false, body ++ [pc]) := by
  rw [lexWord_no_sep]
  · simp [hpc]
  · intro c hc
    rcases List.mem_append.mp hc with hc | hc
    · exact hb c hc
    · simp only [List.mem_singleton] at hc
      subst hc; intro hu; subst hu; revert hpc; decide

/-- the chain of postfix tests, once the `0x` / `0b` prefix patterns are out of the way -/
theorem convert_postfix_core (np : Bool) (word : List Char) (c0 : Char) (rest : List Char)
    (hlex : lexWord word true [] = (false, c0 :: rest))
    (hx : ∀ r, c0 :: rest ≠ '0' :: 'x' :: r) (hb : ∀ r, c0 :: rest ≠ '0' :: 'b' :: r) :
    convert np word =
      if isDigit c0 ∧ lower ((c0 :: rest).getLast?.getD ' ') = 'h' ∧ !np then
        match hexStr false (c0 :: rest) 0 with | some v => .number v | none => .word
      else if ('0' ≤ c0 ∧ c0 ≤ '7') ∧ lower ((c0 :: rest).getLast?.getD ' ') = 'q' ∧ !np then
        match octStr (c0 :: rest) 0 with | some v => .number v | none => .word
      else if (c0 = '0' ∨ c0 = '1') ∧ lower ((c0 :: rest).getLast?.getD ' ') = 'b' then
        match binStr false (c0 :: rest) 0 with | some v => .number v | none => .word
      else .word := by
  unfold convert
  rw [hlex]
  simp only
  split
  · rename_i r heq; exact absurd heq (hx r)
  · rename_i r heq; exact absurd heq (hb r)
  · rename_i c0' tl _ _ heq
    simp only [List.cons.injEq] at heq
    obtain ⟨rfl, rfl⟩ := heq
    rfl
  · rename_i heq; simp at heq

theorem getLast_postfix (body : List Char) (pc : Char) :
    (body ++ [pc]).getLast?.getD ' ' = pc := by simp

/-- a word `body ++ [pc]` starts with `'0' :: p :: …` only if `body` does, or `pc = p` -/
theorem prefix_of_postfix {body : List Char} {pc p : Char} {r : List Char}
    (h : body ++ [pc] = '0' :: p :: r) : pc = p ∨ ∃ r', body = '0' :: p :: r' := by
  match body with
  | [] => simp at h
  | [c] =>
    simp only [List.cons_append, List.nil_append, List.cons.injEq] at h
    exact Or.inl h.2.1
  | c1 :: c2 :: b =>
    simp only [List.cons_append, List.cons.injEq] at h
    exact Or.inr ⟨b, by rw [h.1, h.2.1]⟩

theorem hexStr_postfix (pc : Char) (hpc : pc = 'h' ∨ pc = 'H') (tail : List Char) :
    ∀ (body : List Char), (∀ c ∈ body, isHexDigit c = true) →
    ∀ m, hexStr false (body ++ pc :: tail) (BitVec.ofNat 64 m) =
      some (BitVec.ofNat 64 ((body.map digitVal).foldl (fun acc d => acc * 16 + d) m)) := by
  intro body
  induction body with
  | nil => intro _ m; simp [hexStr, hpc]
  | cons c cs ih =>
    intro h m
    have hc := h c List.mem_cons_self
    obtain ⟨hd, hlt⟩ := hexDigit?_eq hc
    simp only [List.cons_append, hexStr, not_h_of_hex hc, if_false, hd, List.map_cons,
      List.foldl_cons]
    rw [shl4_or_ofNat m _ hlt, ih (fun c hc => h c (List.mem_cons_of_mem _ hc))]

theorem octStr_postfix (pc : Char) (hpc : pc = 'q' ∨ pc = 'Q') (tail : List Char) :
    ∀ (body : List Char), (∀ c ∈ body, isOctDigit c = true) →
    ∀ m, octStr (body ++ pc :: tail) (BitVec.ofNat 64 m) =
      some (BitVec.ofNat 64 ((body.map digitVal).foldl (fun acc d => acc * 8 + d) m)) := by
  intro body
  induction body with
  | nil => intro _ m; simp [octStr, hpc]
  | cons c cs ih =>
    intro h m
    have hc := h c List.mem_cons_self
    have hq : ¬ (c = 'q' ∨ c = 'Q') := by
      intro hq; rcases hq with hq | hq <;> (subst hq; revert hc; decide)
    have hr : '0' ≤ c ∧ c ≤ '7' := by simpa [isOctDigit] using hc
    simp only [List.cons_append, octStr, hq, hr, and_self, if_true, if_false, List.map_cons,
      List.foldl_cons]
    rw [shl3_or_ofNat m _ (digitVal_oct_lt hc), ih (fun c hc => h c (List.mem_cons_of_mem _ hc)),
      digitVal_dec (isDecDigit_of_oct hc)]

theorem binStr_postfix (pc : Char) (hpc : pc = 'b' ∨ pc = 'B') (tail : List Char) :
    ∀ (body : List Char), (∀ c ∈ body, isBinDigit c = true) →
    ∀ m, binStr false (body ++ pc :: tail) (BitVec.ofNat 64 m) =
      some (BitVec.ofNat 64 ((body.map digitVal).foldl (fun acc d => acc * 2 + d) m)) := by
  intro body
  induction body with
  | nil => intro _ m; simp [binStr, hpc]
  | cons c cs ih =>
    intro h m
    have ih' := ih (fun c hc => h c (List.mem_cons_of_mem _ hc))
    have hb : ¬ ('0' = 'b' ∨ '0' = 'B') := by decide
    have hb1 : ¬ ('1' = 'b' ∨ '1' = 'B') := by decide
    have h10 : ¬ ('1' = '0') := by decide
    have hc := h c List.mem_cons_self
    simp only [isBinDigit, Bool.decide_or, Bool.or_eq_true, decide_eq_true_eq] at hc
    rcases hc with hc | hc
    · subst hc
      simp only [List.cons_append, binStr, hb, if_false, if_true, List.map_cons, List.foldl_cons]
      rw [shl1_ofNat, ih']
      have : digitVal '0' = 0 := by decide
      rw [this]
    · subst hc
      simp only [List.cons_append, binStr, hb1, h10, if_false, if_true, List.map_cons,
        List.foldl_cons]
      rw [show (1 : BitVec 64) = BitVec.ofNat 64 1 from rfl, shl1_or_ofNat m 1 (by omega), ih']
      have : digitVal '1' = 1 := by decide
      rw [this]

theorem hex_ne_sep {body : List Char} (h : ∀ c ∈ body, isHexDigit c = true) :
    ∀ c ∈ body, c ≠ '_' := by
  intro c hc hu; subst hu; have := h _ hc; revert this; decide

/-- `…h` / `…H` when the CPU allows number postfixes: hexadecimal.  The first character must be
    a decimal digit and the word must not look like a `0b` literal. -/
theorem convert_hex_postfix (c0 : Char) (body : List Char) (pc : Char)
    (hpc : pc = 'h' ∨ pc = 'H') (hc0 : isDecDigit c0 = true)
    (hh : ∀ c ∈ body, isHexDigit c = true) (hnb : ∀ r, body ≠ 'b' :: r ∨ c0 ≠ '0') :
    convert false (c0 :: body ++ [pc]) =
      .number (BitVec.ofNat 64 (positional 16 ((c0 :: body).map digitVal))) := by
  have hc0h : isHexDigit c0 = true := by
    simp only [isDecDigit, decide_eq_true_eq] at hc0
    simp [isHexDigit, hc0]
  have hall : ∀ c ∈ c0 :: body, isHexDigit c = true := by
    intro c hc
    rcases List.mem_cons.mp hc with rfl | hc
    · exact hc0h
    · exact hh c hc
  have hlet : isLetter pc = true := by rcases hpc with rfl | rfl <;> decide
  have hlex := lexWord_postfix (c0 :: body) pc (hex_ne_sep hall) hlet
  have hlast : lower (((c0 :: body) ++ [pc]).getLast?.getD ' ') = 'h' := by
    rw [getLast_postfix]; rcases hpc with rfl | rfl <;> decide
  simp only [List.cons_append] at hlex hlast ⊢
  rw [convert_postfix_core false _ c0 (body ++ [pc]) hlex]
  · have hd : isDigit c0 = true := hc0
    rw [if_pos ⟨hd, hlast, by rfl⟩]
    have := hexStr_postfix pc hpc [] (c0 :: body) hall 0
    simp only [List.cons_append] at this
    rw [show (0 : BitVec 64) = BitVec.ofNat 64 0 from rfl, this]
    rfl
  · intro r heq
    rcases prefix_of_postfix (body := c0 :: body) heq with h | ⟨r', h⟩
    · rcases hpc with rfl | rfl <;> (revert h; decide)
    · simp only [List.cons.injEq] at h
      have := hall 'x' (by rw [h.2]; exact List.mem_cons_of_mem _ List.mem_cons_self)
      revert this; decide
  · intro r heq
    rcases prefix_of_postfix (body := c0 :: body) heq with h | ⟨r', h⟩
    · rcases hpc with rfl | rfl <;> (revert h; decide)
    · simp only [List.cons.injEq] at h
      rcases hnb r' with h' | h'
      · exact h' h.2
      · exact h' h.1

/-- `…q` / `…Q` when the CPU allows number postfixes: octal -/
theorem convert_oct_postfix (c0 : Char) (body : List Char) (pc : Char)
    (hpc : pc = 'q' ∨ pc = 'Q') (ho : ∀ c ∈ c0 :: body, isOctDigit c = true) :
    convert false (c0 :: body ++ [pc]) =
      .number (BitVec.ofNat 64 (positional 8 ((c0 :: body).map digitVal))) := by
  have hlet : isLetter pc = true := by rcases hpc with rfl | rfl <;> decide
  have hsep : ∀ c ∈ c0 :: body, c ≠ '_' :=
    fun c hc => ne_underscore_of_dec (isDecDigit_of_oct (ho c hc))
  have hlex := lexWord_postfix (c0 :: body) pc hsep hlet
  have hlast : lower (((c0 :: body) ++ [pc]).getLast?.getD ' ') = 'q' := by
    rw [getLast_postfix]; rcases hpc with rfl | rfl <;> decide
  simp only [List.cons_append] at hlex hlast ⊢
  rw [convert_postfix_core false _ c0 (body ++ [pc]) hlex]
  · have hc0 : '0' ≤ c0 ∧ c0 ≤ '7' := by simpa [isOctDigit] using ho c0 List.mem_cons_self
    rw [if_neg (by rw [hlast]; intro h; exact absurd h.2.1 (by decide)), if_pos ⟨hc0, hlast, by rfl⟩]
    have := octStr_postfix pc hpc [] (c0 :: body) ho 0
    simp only [List.cons_append] at this
    rw [show (0 : BitVec 64) = BitVec.ofNat 64 0 from rfl, this]
    rfl
  · intro r heq
    rcases prefix_of_postfix (body := c0 :: body) heq with h | ⟨r', h⟩
    · rcases hpc with rfl | rfl <;> (revert h; decide)
    · simp only [List.cons.injEq] at h
      have := ho 'x' (by rw [h.2]; exact List.mem_cons_of_mem _ List.mem_cons_self)
      revert this; decide
  · intro r heq
    rcases prefix_of_postfix (body := c0 :: body) heq with h | ⟨r', h⟩
    · rcases hpc with rfl | rfl <;> (revert h; decide)
    · simp only [List.cons.injEq] at h
      have := ho 'b' (by rw [h.2]; exact List.mem_cons_of_mem _ List.mem_cons_self)
      revert this; decide

/-- `…b` / `…B`: binary (for every CPU) -/
theorem convert_bin_postfix (np : Bool) (c0 : Char) (body : List Char) (pc : Char)
    (hpc : pc = 'b' ∨ pc = 'B') (hb : ∀ c ∈ c0 :: body, isBinDigit c = true) :
    convert np (c0 :: body ++ [pc]) =
      .number (BitVec.ofNat 64 (positional 2 ((c0 :: body).map digitVal))) := by
  have hlet : isLetter pc = true := by rcases hpc with rfl | rfl <;> decide
  have hsep : ∀ c ∈ c0 :: body, c ≠ '_' := by
    intro c hc hu; subst hu; have := hb _ hc; revert this; decide
  have hlex := lexWord_postfix (c0 :: body) pc hsep hlet
  have hlast : lower (((c0 :: body) ++ [pc]).getLast?.getD ' ') = 'b' := by
    rw [getLast_postfix]; rcases hpc with rfl | rfl <;> decide
  have hc0 : c0 = '0' ∨ c0 = '1' := by simpa [isBinDigit] using hb c0 List.mem_cons_self
  simp only [List.cons_append] at hlex hlast ⊢
  -- the word `0b` itself is caught by the prefix rule (and is worth 0 either way)
  by_cases h0b : ∃ r, c0 :: (body ++ [pc]) = '0' :: 'b' :: r
  · obtain ⟨r, heq⟩ := h0b
    rcases prefix_of_postfix (body := c0 :: body) heq with h | ⟨r', h⟩
    · subst h
      match body, heq with
      | [], heq =>
        simp only [List.nil_append, List.cons.injEq] at heq
        rw [heq.1]
        cases np <;> decide
      | c :: b, heq =>
        simp only [List.cons_append, List.cons.injEq] at heq
        have := hb c (List.mem_cons_of_mem _ List.mem_cons_self)
        rw [heq.2.1] at this
        exact absurd this (by decide)
    · simp only [List.cons.injEq] at h
      have := hb 'b' (by rw [h.2]; exact List.mem_cons_of_mem _ List.mem_cons_self)
      exact absurd this (by decide)
  · rw [convert_postfix_core np _ c0 (body ++ [pc]) hlex]
    · rw [if_neg (by rw [hlast]; intro h; exact absurd h.2.1 (by decide)), if_neg (by rw [hlast]; intro h; exact absurd h.2.1 (by decide)), if_pos ⟨hc0, hlast⟩]
      have := binStr_postfix pc hpc [] (c0 :: body) hb 0
      simp only [List.cons_append] at this
      rw [show (0 : BitVec 64) = BitVec.ofNat 64 0 from rfl, this]
      rfl
    · intro r heq
      rcases prefix_of_postfix (body := c0 :: body) heq with h | ⟨r', h⟩
      · rcases hpc with rfl | rfl <;> (revert h; decide)
      · simp only [List.cons.injEq] at h
        have := hb 'x' (by rw [h.2]; exact List.mem_cons_of_mem _ List.mem_cons_self)
        revert this; decide
    · intro r heq; exact h0b ⟨r, heq⟩

end NakenVerif.Expr.Literal
