/-
  Consequences of the chain lemma for whole `eval` calls: the value of a rendered
  tree, and rejection of the standard malformed continuations.
-/
import NakenVerif.Expr.Proofs.Render

namespace NakenVerif.Expr

open NakenVerif.Generated (BinOp)

/-- `loop` standing on a terminator with exactly one chain on the stack (top level) -/
theorem loop_terminator_chain (f : Nat) (co : List BinOp) (cv : List (BitVec 64))
    (rest : List Tok) (hl : co.length + 1 = cv.length) (h : Terminator rest) :
    loop (f + 1) false { vals := cv, ops := co } true false rest =
      match collapse co cv with
      | some v => .ok (v, rest)
      | none => .err := by
  match rest, h with
  | [], _ => rw [loop_nil]; exact finish_chain false co cv [] true hl (by simp)
  | .eol :: r, _ => rw [loop_eol]; exact finish_chain false co cv _ true hl (by simp)
  | .sep k :: r, _ =>
    rw [loop_sep]; simp only [Bool.false_eq_true, if_false]
    exact finish_chain false co cv _ false hl (by simp)
  | .rparen :: r, _ =>
    rw [loop_rparen]; simp only [Bool.false_eq_true, if_false]
    exact finish_chain false co cv _ false hl (by simp)

theorem eval_render_main (e : E) (rest : List Tok) (h : Terminator rest) :
    eval (e.render ++ rest) =
      match e.eval with
      | some v => .ok (v, rest)
      | none => .err := by
  rcases eval_render_chain e rest with ⟨hv, he⟩ | ⟨co, cv, fuel', h1, h2, _, h5, h6⟩
  · rw [he, hv]
  · obtain ⟨f, rfl⟩ : ∃ k, fuel' = k + 1 := ⟨fuel' - 1, by omega⟩
    rw [h6, loop_terminator_chain f co cv rest h2 h, h5]

theorem finish_operand_expected (isParen : Bool) (s : Stk) (rest : List Tok) (atEnd : Bool) :
    finish isParen s false rest atEnd = .err := by
  rw [finish_eq]
  split
  · rfl
  · split
    · rfl
    · rfl

/-- `loop` standing on a terminator while an operand is expected (top level) -/
theorem loop_terminator_operand_expected (f : Nat) (s : Stk) (atStart : Bool) (rest : List Tok)
    (h : Terminator rest) : loop (f + 1) false s false atStart rest = .err := by
  match rest, h with
  | [], _ => rw [loop_nil]; exact finish_operand_expected _ _ _ _
  | .eol :: r, _ => rw [loop_eol]; exact finish_operand_expected _ _ _ _
  | .sep k :: r, _ =>
    rw [loop_sep]; simp only [Bool.false_eq_true, if_false]
    exact finish_operand_expected _ _ _ _
  | .rparen :: r, _ =>
    rw [loop_rparen]; simp only [Bool.false_eq_true, if_false]
    exact finish_operand_expected _ _ _ _

theorem trailing_operator_main (e : E) (o : BinOp) (rest : List Tok) (h : Terminator rest) :
    eval (e.render ++ .op o :: rest) = .err := by
  rcases eval_render_chain e (.op o :: rest) with ⟨_, he⟩ | ⟨co, cv, fuel', h1, h2, h3, _, h6⟩
  · exact he
  · simp only [List.length_cons] at h1
    obtain ⟨f, rfl⟩ : ∃ k, fuel' = k + 1 := ⟨fuel' - 1, by omega⟩
    rw [h6, loop_op_needOp]
    have hinv : InvOp { vals := cv, ops := co } := ⟨h3, h2.symm⟩
    rcases reduceFor_inv (prec o) co _ hinv (Nat.le_refl _) with he | ⟨s1, he, hi1, hgt⟩
    · simp only at he ⊢; rw [he]; rfl
    · simp only at he ⊢
      rw [he]
      simp only [Res.bind_ok]
      rw [pushOp_ok s1 o hi1.1 hgt]
      simp only [Res.bind_ok]
      obtain ⟨k, rfl⟩ : ∃ k, f = k + 1 := ⟨f - 1, by omega⟩
      exact loop_terminator_operand_expected k _ false rest h

/-- inside parentheses, end of line / end of input after a complete expression is an error -/
theorem run_paren_unclosed (e : E) (rest : List Tok) (fuel : Nat)
    (hrest : rest = [] ∨ ∃ r, rest = .eol :: r) (hfuel : e.render.length + rest.length + 1 < fuel) :
    run fuel true (e.render ++ rest) = .err := by
  rw [run_eq]
  rcases L_all e fuel true _ true rest (by omega) (Ctx.empty _)
    with ⟨_, he⟩ | ⟨co, cv, fuel', h1, h2, _, _, _, h6⟩
  · exact he
  · obtain ⟨f, rfl⟩ : ∃ k, fuel' = k + 1 := ⟨fuel' - 1, by omega⟩
    rw [h6]
    rcases hrest with rfl | ⟨r, rfl⟩
    · rw [loop_nil, finish_eq, if_pos (by simp)]
    · rw [loop_eol, finish_eq, if_pos (by simp)]

theorem unclosed_paren_main (e : E) (rest : List Tok) (hrest : rest = [] ∨ ∃ r, rest = .eol :: r) :
    eval (.lparen :: (e.render ++ rest)) = .err := by
  unfold eval
  rw [run_eq]
  simp only [List.length_cons, List.length_append]
  rw [show 2 * (e.render.length + rest.length + 1) + 2
        = (2 * (e.render.length + rest.length + 1) + 1) + 1 from rfl]
  rw [loop_lparen, run_paren_unclosed e rest _ hrest (by omega)]
  rfl

theorem adjacent_operands_main (e : E) (v : BitVec 64) (rest : List Tok) :
    eval (e.render ++ .num v :: rest) = .err := by
  rcases eval_render_chain e (.num v :: rest) with ⟨_, he⟩ | ⟨co, cv, fuel', h1, _, _, _, h6⟩
  · exact he
  · obtain ⟨f, rfl⟩ : ∃ k, fuel' = k + 1 := ⟨fuel' - 1, by omega⟩
    rw [h6, loop_num_needOp]

theorem run_no_fault_main (fuel : Nat) (isParen : Bool) (ts : List Tok) :
    run fuel isParen ts ≠ .fault := by
  rw [run_eq]
  exact (no_fault fuel).1 _ _ _ _ _ ⟨Tight.nil, rfl, fun _ => rfl⟩

theorem unary_no_fault_main (fuel : Nat) (ts : List Tok) : unary fuel ts ≠ .fault :=
  (no_fault fuel).2 ts

theorem eval_no_fuel_main (ts : List Tok) : eval ts ≠ .fuel := by
  unfold eval
  exact run_ne_fuel (by omega)

end NakenVerif.Expr
