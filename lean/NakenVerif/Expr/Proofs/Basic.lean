/-
  Basic lemmas about the evaluator model: a monadic view of the
  `match … | .err => .err | .fault => .fault | .fuel => .fuel` cascades,
  one-step rewriting lemmas for `loop`/`unary`, and the two easy table facts
  (`prec = specLevel`, `applyOp = specOp`).
-/
import NakenVerif.Expr.Spec

namespace NakenVerif.Expr

open NakenVerif.Generated (BinOp)

/-! ### table facts -/

theorem prec_eq_specLevel (o : BinOp) : prec o = specLevel o := by
  cases o <;> rfl

theorem applyOp_eq_specOp (o : BinOp) (a b : BitVec 64) : applyOp o a b = specOp o a b := by
  cases o <;> rfl

theorem prec_pos (o : BinOp) : 1 ≤ prec o := by cases o <;> decide

theorem prec_le_six (o : BinOp) : prec o ≤ 6 := by cases o <;> decide

theorem valCap_eq : valCap = 7 := rfl
theorem opCap_eq : opCap = 6 := rfl

/-! ### monadic view of `Res` -/

/-- the error-propagating sequencing that the model writes out by hand -/
def Res.bind {α β : Type} (x : Res α) (f : α → Res β) : Res β :=
  match x with
  | .ok a => f a
  | .err => .err
  | .fault => .fault
  | .fuel => .fuel

@[simp] theorem Res.bind_ok {α β : Type} (a : α) (f : α → Res β) : (Res.ok a).bind f = f a := rfl
@[simp] theorem Res.bind_err {α β : Type} (f : α → Res β) : (Res.err : Res α).bind f = .err := rfl
@[simp] theorem Res.bind_fault {α β : Type} (f : α → Res β) : (Res.fault : Res α).bind f = .fault := rfl
@[simp] theorem Res.bind_fuel {α β : Type} (f : α → Res β) : (Res.fuel : Res α).bind f = .fuel := rfl

theorem Res.bind_ne_fault {α β : Type} {x : Res α} {f : α → Res β}
    (hx : x ≠ .fault) (hf : ∀ a, x = .ok a → f a ≠ .fault) : x.bind f ≠ .fault := by
  cases x with
  | ok a => exact hf a rfl
  | err => simp
  | fault => exact absurd rfl hx
  | fuel => simp

theorem Res.bind_ne_fuel {α β : Type} {x : Res α} {f : α → Res β}
    (hx : x ≠ .fuel) (hf : ∀ a, x = .ok a → f a ≠ .fuel) : x.bind f ≠ .fuel := by
  cases x with
  | ok a => exact hf a rfl
  | err => simp
  | fault => simp
  | fuel => exact absurd rfl hx

theorem Res.bind_eq_ok {α β : Type} {x : Res α} {f : α → Res β} {b : β}
    (h : x.bind f = .ok b) : ∃ a, x = .ok a ∧ f a = .ok b := by
  cases x with
  | ok a => exact ⟨a, rfl, h⟩
  | err => simp at h
  | fault => simp at h
  | fuel => simp at h

/-! ### `finish` in monadic form -/

theorem finish_eq (isParen : Bool) (s : Stk) (needOp : Bool) (rest : List Tok) (atEnd : Bool) :
    finish isParen s needOp rest atEnd =
      if isParen ∧ atEnd then .err
      else if s.vals.isEmpty then .err
      else if !needOp then .err
      else (reduceAll s.ops s).bind fun s' =>
        match s'.vals with
        | v :: _ => .ok (v, rest)
        | [] => .fault := by
  unfold finish
  cases reduceAll s.ops s <;> rfl

/-! ### one-step lemmas for `loop`, `unary`, `run` -/

theorem run_eq (fuel : Nat) (isParen : Bool) (ts : List Tok) :
    run fuel isParen ts = loop fuel isParen { vals := [], ops := [] } false true ts := by
  rw [run]

@[simp] theorem loop_zero (isParen : Bool) (s : Stk) (needOp atStart : Bool) (ts : List Tok) :
    loop 0 isParen s needOp atStart ts = .fuel := by
  rw [loop]

theorem loop_nil (f : Nat) (isParen : Bool) (s : Stk) (needOp atStart : Bool) :
    loop (f + 1) isParen s needOp atStart [] = finish isParen s needOp [] true := by
  rw [loop]

theorem loop_eol (f : Nat) (isParen : Bool) (s : Stk) (needOp atStart : Bool) (rest : List Tok) :
    loop (f + 1) isParen s needOp atStart (.eol :: rest) =
      finish isParen s needOp (.eol :: rest) true := by
  rw [loop]

theorem loop_lparen_needOp (f : Nat) (isParen : Bool) (s : Stk) (atStart : Bool) (rest : List Tok) :
    loop (f + 1) isParen s true atStart (.lparen :: rest) =
      if isParen then .err else finish isParen s true (.lparen :: rest) false := by
  rw [loop]; simp

theorem loop_lparen (f : Nat) (isParen : Bool) (s : Stk) (atStart : Bool) (rest : List Tok) :
    loop (f + 1) isParen s false atStart (.lparen :: rest) =
      (run f true rest).bind fun p =>
        (pushVal s p.1).bind fun s' => loop f isParen s' true false p.2 := by
  rw [loop]; simp only [Bool.false_eq_true, if_false]
  cases run f true rest with
  | ok p =>
    obtain ⟨v, r⟩ := p
    simp only [Res.bind_ok]
    cases pushVal s v <;> rfl
  | _ => rfl

theorem loop_rparen (f : Nat) (isParen : Bool) (s : Stk) (needOp atStart : Bool) (rest : List Tok) :
    loop (f + 1) isParen s needOp atStart (.rparen :: rest) =
      if isParen then finish isParen s needOp rest false
      else finish isParen s needOp (.rparen :: rest) false := by
  rw [loop]

theorem loop_sep (f : Nat) (isParen : Bool) (s : Stk) (needOp atStart : Bool) (k : Nat)
    (rest : List Tok) :
    loop (f + 1) isParen s needOp atStart (.sep k :: rest) =
      if isParen then .err else finish isParen s needOp (.sep k :: rest) false := by
  rw [loop]

theorem loop_num_needOp (f : Nat) (isParen : Bool) (s : Stk) (atStart : Bool) (v : BitVec 64)
    (rest : List Tok) :
    loop (f + 1) isParen s true atStart (.num v :: rest) = .err := by
  rw [loop]; simp

theorem loop_num (f : Nat) (isParen : Bool) (s : Stk) (atStart : Bool) (v : BitVec 64)
    (rest : List Tok) :
    loop (f + 1) isParen s false atStart (.num v :: rest) =
      (pushVal s v).bind fun s' => loop f isParen s' true false rest := by
  rw [loop]; simp only [Bool.false_eq_true, if_false]
  cases pushVal s v <;> rfl

theorem loop_tilde_needOp (f : Nat) (isParen : Bool) (s : Stk) (atStart : Bool)
    (rest : List Tok) :
    loop (f + 1) isParen s true atStart (.tilde :: rest) = .err := by
  rw [loop]; simp

theorem loop_tilde (f : Nat) (isParen : Bool) (s : Stk) (atStart : Bool) (rest : List Tok) :
    loop (f + 1) isParen s false atStart (.tilde :: rest) =
      (unary f rest).bind fun p =>
        (pushVal s (~~~ p.1)).bind fun s' => loop f isParen s' true false p.2 := by
  rw [loop]; simp only [Bool.false_eq_true, if_false]
  cases unary f rest with
  | ok p =>
    obtain ⟨v, r⟩ := p
    simp only [Res.bind_ok]
    cases pushVal s (~~~ v) <;> rfl
  | _ => rfl

theorem loop_op_needOp (f : Nat) (isParen : Bool) (s : Stk) (atStart : Bool) (o : BinOp)
    (rest : List Tok) :
    loop (f + 1) isParen s true atStart (.op o :: rest) =
      (reduceFor (prec o) s.ops s).bind fun s1 =>
        (pushOp s1 o).bind fun s2 => loop f isParen s2 false false rest := by
  rw [loop]; simp only [if_true]
  cases reduceFor (prec o) s.ops s with
  | ok s1 =>
    simp only [Res.bind_ok]
    cases pushOp s1 o <;> rfl
  | _ => rfl

theorem loop_op_plus_start (f : Nat) (isParen : Bool) (s : Stk) (rest : List Tok) :
    loop (f + 1) isParen s false true (.op .add :: rest) =
      (pushVal s 0).bind fun s1 =>
        (pushOp s1 .add).bind fun s2 => loop f isParen s2 false false rest := by
  rw [loop]; simp only [Bool.false_eq_true, if_false, and_self, if_true]
  cases pushVal s 0 with
  | ok s1 =>
    simp only [Res.bind_ok]
    cases pushOp s1 .add <;> rfl
  | _ => rfl

theorem loop_op_minus (f : Nat) (isParen : Bool) (s : Stk) (atStart : Bool) (rest : List Tok) :
    loop (f + 1) isParen s false atStart (.op .sub :: rest) =
      (unary f rest).bind fun p =>
        (pushVal s (-p.1)).bind fun s' => loop f isParen s' true false p.2 := by
  rw [loop]
  simp only [Bool.false_eq_true, if_false, reduceCtorEq, false_and, if_true]
  cases unary f rest with
  | ok p =>
    obtain ⟨v, r⟩ := p
    simp only [Res.bind_ok]
    cases pushVal s (-v) <;> rfl
  | _ => rfl

theorem loop_op_other (f : Nat) (isParen : Bool) (s : Stk) (atStart : Bool) (o : BinOp)
    (rest : List Tok) (h1 : ¬ (o = .add ∧ atStart = true)) (h2 : o ≠ .sub) :
    loop (f + 1) isParen s false atStart (.op o :: rest) = .err := by
  rw [loop]
  simp only [Bool.false_eq_true, if_false, h1, h2]

theorem loop_other (f : Nat) (isParen : Bool) (s : Stk) (needOp atStart : Bool) (k : Nat)
    (rest : List Tok) :
    loop (f + 1) isParen s needOp atStart (.other k :: rest) = .err := by
  rw [loop]

@[simp] theorem unary_zero (ts : List Tok) : unary 0 ts = .fuel := by
  rw [unary]

theorem unary_num (f : Nat) (v : BitVec 64) (rest : List Tok) :
    unary (f + 1) (.num v :: rest) = .ok (v, rest) := by
  rw [unary]

theorem unary_lparen (f : Nat) (rest : List Tok) :
    unary (f + 1) (.lparen :: rest) = run f true rest := by
  rw [unary]

theorem unary_tilde (f : Nat) (rest : List Tok) :
    unary (f + 1) (.tilde :: rest) = (unary f rest).bind fun p => .ok (~~~ p.1, p.2) := by
  rw [unary]
  cases unary f rest with
  | ok p => obtain ⟨v, r⟩ := p; rfl
  | _ => rfl

theorem unary_minus (f : Nat) (rest : List Tok) :
    unary (f + 1) (.op .sub :: rest) = (unary f rest).bind fun p => .ok (-p.1, p.2) := by
  rw [unary]
  cases unary f rest with
  | ok p => obtain ⟨v, r⟩ := p; rfl
  | _ => rfl

/-- every other first token makes `unary` fail -/
theorem unary_err (f : Nat) (ts : List Tok)
    (h1 : ∀ v r, ts ≠ .num v :: r) (h2 : ∀ r, ts ≠ .lparen :: r)
    (h3 : ∀ r, ts ≠ .tilde :: r) (h4 : ∀ r, ts ≠ .op .sub :: r) :
    unary (f + 1) ts = .err := by
  rw [unary]
  · intro v r h; exact h1 v r h
  · intro r h; exact h2 r h
  · intro r h; exact h3 r h
  · intro r h; exact h4 r h

end NakenVerif.Expr
