/-
  Implementation model of core/eval_expression.cpp (EvalExpression::run,
  execute_stack, parse_unary_new), core/Operator.cpp (set_operator, execute)
  and the integer part of core/Var.cpp.

  The model works on the token stream that `tokens_get` hands to the
  evaluator.  Literal conversion is modelled separately (Expr/Literal.lean).
  Floats are outside the property (C04 speaks of integer expressions).

  Every C array is a list with its capacity checked explicitly
  (`valCap`, `opCap`): an overflow is the outcome `fault`, so that
  "no fault" is a theorem and not an artefact of using lists.
-/
import NakenVerif.Generated.Operators

namespace NakenVerif.Expr

open NakenVerif.Generated (BinOp)

/-- What the evaluator can see of one token. -/
inductive Tok where
  | num (v : BitVec 64)        -- TOKEN_NUMBER (value after atoll / literal conversion)
  | op (o : BinOp)             -- TOKEN_SYMBOL accepted by Operator::set_operator
  | tilde                      -- '~'
  | lparen | rparen
  | sep (k : Nat)              -- ',' ']' '[' '.'   (end of expression outside parentheses)
  | eol                        -- TOKEN_EOL / TOKEN_EOF
  | other (k : Nat)            -- identifier, '#', any other symbol: not part of an expression
  deriving DecidableEq, Repr, Inhabited

inductive Res (α : Type) where
  | ok (a : α)
  | err                        -- the C++ returned -1
  | fault                      -- the C++ would have left its arrays or divided by zero
  | fuel                       -- model ran out of fuel (never for fuel > number of tokens)
  deriving DecidableEq, Repr

/-- Operator::execute on integers (Var::mul … Var::logical_or).  `none` = the
    function returns -1 (division or modulo by zero after the fix). -/
def applyOp (o : BinOp) (d s : BitVec 64) : Option (BitVec 64) :=
  match o with
  | .mul => some (d * s)
  | .div => if s = 0 then none else some (BitVec.sdiv d s)
  | .mod => if s = 0 then none else some (BitVec.srem d s)
  | .add => some (d + s)
  | .sub => some (d - s)
  | .shl => some (d <<< (s.toNat % 64))      -- x86-64 `shl`/`sar` mask the count to 6 bits
  | .shr => some (BitVec.sshiftRight d (s.toNat % 64))
  | .and => some (d &&& s)
  | .xor => some (d ^^^ s)
  | .or  => some (d ||| s)

/-- Precedence index of an operator, from the regenerated table
    (smaller binds tighter).  -/
def prec (o : BinOp) : Nat := NakenVerif.Generated.precOf o

/-- capacities of VarStack / OperStack in eval_expression.h (regenerated) -/
def valCap : Nat := NakenVerif.Generated.varStackLen
def opCap  : Nat := NakenVerif.Generated.operStackLen

/-- value stack and operator stack, top of stack first -/
structure Stk where
  vals : List (BitVec 64)
  ops  : List BinOp
  deriving Repr, DecidableEq

/-- execute_stack: apply the operator on top of the operator stack to the
    two topmost values. -/
def execTop (s : Stk) : Res Stk :=
  match s.ops, s.vals with
  | o :: ops, sv :: dv :: vals =>
      match applyOp o dv sv with
      | some r => .ok { vals := r :: vals, ops := ops }
      | none   => .err
  | _, _ => .fault            -- assert(ptr > 0) in pop()

/-- the `while (!oper_stack.is_empty() && top.precedence <= oper.precedence)` loop
    that runs before an operator is pushed.  Structural on the operator stack. -/
def reduceFor (p : Nat) : List BinOp → Stk → Res Stk
  | [], s => .ok s
  | _ :: rest, s =>
      match s.ops with
      | [] => .ok s
      | o :: _ =>
          if prec o ≤ p then
            match execTop s with
            | .ok s' => reduceFor p rest s'
            | r => r
          else .ok s

/-- final `while (var_stack.size() > 1 && !oper_stack.is_empty())` loop -/
def reduceAll : List BinOp → Stk → Res Stk
  | [], s => .ok s
  | _ :: rest, s =>
      match s.ops, s.vals with
      | _ :: _, _ :: _ :: _ =>
          match execTop s with
          | .ok s' => reduceAll rest s'
          | r => r
      | _, _ => .ok s

def pushVal (s : Stk) (v : BitVec 64) : Res Stk :=
  if s.vals.length < valCap then .ok { s with vals := v :: s.vals } else .fault

def pushOp (s : Stk) (o : BinOp) : Res Stk :=
  if s.ops.length < opCap then .ok { s with ops := o :: s.ops } else .fault

/-- code after the token loop.  `atEnd` = stopped on EOL/EOF (which is an
    error inside parentheses after the fix). -/
def finish (isParen : Bool) (s : Stk) (needOp : Bool) (rest : List Tok) (atEnd : Bool) :
    Res (BitVec 64 × List Tok) :=
  if isParen ∧ atEnd then .err            -- missing ')'
  else if s.vals.isEmpty then .err
  else if !needOp then .err               -- expression ends where an operand is expected
  else
    match reduceAll s.ops s with
    | .ok s' =>
        match s'.vals with
        | v :: _ => .ok (v, rest)
        | [] => .fault
    | .err => .err | .fault => .fault | .fuel => .fuel

mutual
/-- EvalExpression::run.  `count` of the C++ is kept only through its parity
    (`needOp`: an operator is expected) and "count == 0" (`atStart`). -/
def run (fuel : Nat) (isParen : Bool) (ts : List Tok) : Res (BitVec 64 × List Tok) :=
  loop fuel isParen { vals := [], ops := [] } false true ts

def loop (fuel : Nat) (isParen : Bool) (s : Stk) (needOp atStart : Bool) (ts : List Tok) :
    Res (BitVec 64 × List Tok) :=
  match fuel with
  | 0 => .fuel
  | fuel + 1 =>
    match ts with
    | [] => finish isParen s needOp [] true          -- EOF
    | .eol :: rest => finish isParen s needOp (.eol :: rest) true
    | .lparen :: rest =>
        if needOp then
          (if isParen then .err                                   -- no instruction syntax inside parentheses
           else finish isParen s needOp (.lparen :: rest) false)  -- the x(r12) case
        else
          match run fuel true rest with
          | .ok (v, rest') =>
              match pushVal s v with
              | .ok s' => loop fuel isParen s' true false rest'
              | .err => .err | .fault => .fault | .fuel => .fuel
          | .err => .err | .fault => .fault | .fuel => .fuel
    | .rparen :: rest =>
        if isParen then finish isParen s needOp rest false
        else finish isParen s needOp (.rparen :: rest) false
    | .sep k :: rest =>
        if isParen then .err else finish isParen s needOp (.sep k :: rest) false
    | .num v :: rest =>
        if needOp then .err
        else
          match pushVal s v with
          | .ok s' => loop fuel isParen s' true false rest
          | .err => .err | .fault => .fault | .fuel => .fuel
    | .tilde :: rest =>
        if needOp then .err          -- set_operator("~") fails
        else
          match unary fuel rest with
          | .ok (v, rest') =>
              match pushVal s (~~~ v) with
              | .ok s' => loop fuel isParen s' true false rest'
              | .err => .err | .fault => .fault | .fuel => .fuel
          | .err => .err | .fault => .fault | .fuel => .fuel
    | .op o :: rest =>
        if needOp then
          match reduceFor (prec o) s.ops s with
          | .ok s1 =>
              match pushOp s1 o with
              | .ok s2 => loop fuel isParen s2 false false rest
              | .err => .err | .fault => .fault | .fuel => .fuel
          | .err => .err | .fault => .fault | .fuel => .fuel
        else if o = .add ∧ atStart then
          -- expression starts with '+': push 0 and '+'
          match pushVal s 0 with
          | .ok s1 =>
              match pushOp s1 .add with
              | .ok s2 => loop fuel isParen s2 false false rest
              | .err => .err | .fault => .fault | .fuel => .fuel
          | .err => .err | .fault => .fault | .fuel => .fuel
        else if o = .sub then
          match unary fuel rest with
          | .ok (v, rest') =>
              match pushVal s (-v) with
              | .ok s' => loop fuel isParen s' true false rest'
              | .err => .err | .fault => .fault | .fuel => .fuel
          | .err => .err | .fault => .fault | .fuel => .fuel
        else .err
    | .other _ :: _ => .err

/-- EvalExpression::parse_unary_new -/
def unary (fuel : Nat) (ts : List Tok) : Res (BitVec 64 × List Tok) :=
  match fuel with
  | 0 => .fuel
  | fuel + 1 =>
    match ts with
    | .num v :: rest => .ok (v, rest)
    | .lparen :: rest => run fuel true rest
    | .tilde :: rest =>
        match unary fuel rest with
        | .ok (v, rest') => .ok (~~~ v, rest')
        | r => r
    | .op .sub :: rest =>
        match unary fuel rest with
        | .ok (v, rest') => .ok (-v, rest')
        | r => r
    | _ => .err

end

/-- eval_expression(AsmContext*, Var&) with enough fuel for any input -/
def eval (ts : List Tok) : Res (BitVec 64 × List Tok) := run (2 * ts.length + 2) false ts

/-- the range test of eval_expression(AsmContext*, int*): the 64-bit result must be
    representable as a signed or as an unsigned 32-bit number -/
def fits32 (v : BitVec 64) : Bool :=
  decide (-2147483648 ≤ v.toInt ∧ v.toInt ≤ 4294967295)

/-- eval_expression(AsmContext*, int*) : Var::get_int32 keeps the low 32 bits; a value
    that does not fit is an error ("Constant does not fit in 32 bits") -/
def eval32 (ts : List Tok) : Res (BitVec 32 × List Tok) :=
  match eval ts with
  | .ok (v, r) => if fits32 v then .ok (v.truncate 32, r) else .err
  | .err => .err | .fault => .fault | .fuel => .fuel

end NakenVerif.Expr
