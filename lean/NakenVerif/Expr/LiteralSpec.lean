/-
  Specification side of integer literals: which characters are digits, what a digit is
  worth, and the positional value of a digit string.  Written independently of the
  conversion code in `Literal.lean`.
-/
import NakenVerif.Expr.Literal

namespace NakenVerif.Expr.Literal

/-- positional value of a digit sequence, most significant digit first -/
def positional (base : Nat) (digits : List Nat) : Nat :=
  digits.foldl (fun acc d => acc * base + d) 0

def isDecDigit (c : Char) : Bool := '0' ≤ c ∧ c ≤ '9'
def isOctDigit (c : Char) : Bool := '0' ≤ c ∧ c ≤ '7'
def isBinDigit (c : Char) : Bool := c = '0' ∨ c = '1'
def isHexDigit (c : Char) : Bool :=
  ('0' ≤ c ∧ c ≤ '9') ∨ ('a' ≤ c ∧ c ≤ 'f') ∨ ('A' ≤ c ∧ c ≤ 'F')

/-- worth of a digit character (ASCII): '0'..'9' ↦ 0..9, 'a'..'f' and 'A'..'F' ↦ 10..15 -/
def digitVal (c : Char) : Nat :=
  if '0' ≤ c ∧ c ≤ '9' then c.toNat - 48
  else if 'a' ≤ c ∧ c ≤ 'f' then c.toNat - 87
  else if 'A' ≤ c ∧ c ≤ 'F' then c.toNat - 55
  else 0

/-- the digits of a literal body: `_` separators are not digits -/
def digits (cs : List Char) : List Nat := (cs.filter (· ≠ '_')).map digitVal

end NakenVerif.Expr.Literal
