-- Root of the NakenVerif library: models, specifications and property theorems.
import NakenVerif.Props.C04
import NakenVerif.Props.C12
import NakenVerif.Props.C01
import NakenVerif.Props.C06
import NakenVerif.Props.C07
import NakenVerif.Props.C08
import NakenVerif.Props.C10
import NakenVerif.Props.C11
import NakenVerif.Props.C02
import NakenVerif.Props.C14
import NakenVerif.Props.C15
import NakenVerif.Props.C05
import NakenVerif.Props.C03
import NakenVerif.Props.C13
import NakenVerif.Props.C18
import NakenVerif.Props.C09
import NakenVerif.Props.C20
