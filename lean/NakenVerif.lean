-- Root of the NakenVerif library: models, specifications and property theorems.
import NakenVerif.Props.C04
import NakenVerif.Props.C12
