// Simulator commands (C14 / C15).
//
// sim msp430 <break_io hex|-> <r0,...,r15 hex> <cells addr:byte,...|->
//     one step of the REAL SimulateMsp430 exactly as naken_util's `step` command runs it
//     (enable_step_mode(); run(-1, 1)) from the given registers / memory cells.
//     -> ret=<0|-1> regs=<16 hex> cyc=<cycle_count> mem=<addr:byte,...|->      (normal return)
//     -> exit=<status>                                                          (Simulate::ram_write* called exit())
//     mem lists every cell that is non-zero afterwards or was given, sorted by address.
//     break_io '-' leaves an address no MSP430 write can reach (0x20000); any other value arms
//     it, and the step then runs in a forked child because the simulator calls exit().
// simrun msp430 <break_io hex|-> <max_cycles> <regs> <cells>
//     the `-run` loop: auto_run on, delay 1 us, run(max_cycles, 0).
//     -> ret=<r> end=<ret|stopped|illegal> regs=... cyc=... mem=...   | exit=<status>
// dislen msp430 <addr hex> <bytes hex>
//     -> len=<n> cyc=<cycles_min>    from the real disasm_msp430
// simstep <cpu> <pc hex> <name=hex,...|-> <addr:hexbytes;...|-> [break_io hex|default]
//     any simulator of cpu_list: two fresh objects, identical start, one step each.  The two objects are
//     allocated from memory pre-filled with DIFFERENT bytes (0x00 / 0xff / 0x01: three objects, see operator new below), so a data
//     member that no constructor/reset initialises and that the step reads shows up as a difference.
//     -> same ret=<r> fp=<fingerprint of dump_registers()+memory> top=<highest address of a non-zero cell that was
//        not given, or -> | DIFF <what>
//     break_io: omitted or `-` = 0xfffffff0 (never hit); `default` = leave the constructor's value; the step then runs in
//     a forked child and `exit=<status>` is the answer if the simulator called exit().
//     A sixth argument <n> makes each object execute n steps (stopping at the first that does not return 0).
#include <sys/wait.h>
#include <functional>
#include <set>
#include "simulate/Simulate.h"
#include "simulate/msp430.h"
#include "disasm/msp430.h"

// Every `new` of the harness process is filled with nv_new_fill first (the simulators are created with plain
// `new SimulateXxx(memory)`): an uninitialised data member then has a value the harness controls.
static unsigned char nv_new_fill = 0x00;
void *operator new(size_t n)
{
  void *p = malloc(n ? n : 1);
  if (p == nullptr) { abort(); }
  memset(p, nv_new_fill, n);
  return p;
}
void operator delete(void *p) noexcept { free(p); }
void operator delete(void *p, size_t) noexcept { free(p); }

static std::string sim_dump_cells(Memory *memory, const std::set<uint32_t> &given)
{
  std::vector<MemoryPage *> pages;
  for (MemoryPage *p = memory->pages; p != nullptr; p = p->next) { pages.push_back(p); }
  std::sort(pages.begin(), pages.end(), [](MemoryPage *a, MemoryPage *b) { return a->address < b->address; });
  std::map<uint32_t, int> cells;
  for (uint32_t a : given) { cells[a] = memory->read8(a); }
  for (MemoryPage *p : pages)
  {
    for (uint32_t off = 0; off < PAGE_SIZE; off++)
    {
      if (p->bin[off] != 0) { cells[p->address + off] = p->bin[off]; }
    }
  }
  std::string out;
  char buf[32];
  for (auto &kv : cells)
  {
    snprintf(buf, sizeof(buf), "%s%x:%02x", out.empty() ? "" : ",", kv.first, kv.second);
    out += buf;
  }
  return out.empty() ? "-" : out;
}

static bool sim_parse_cells(const std::string &s, std::vector<std::pair<uint32_t, int> > &cells)
{
  if (s == "-") { return true; }
  size_t i = 0;
  while (i < s.size())
  {
    size_t j = s.find(',', i);
    if (j == std::string::npos) { j = s.size(); }
    std::string item = s.substr(i, j - i);
    size_t c = item.find(':');
    if (c == std::string::npos) { return false; }
    cells.push_back(std::make_pair((uint32_t)strtoul(item.substr(0, c).c_str(), NULL, 16),
                                   (int)strtoul(item.substr(c + 1).c_str(), NULL, 16)));
    i = j + 1;
  }
  return true;
}

static bool sim_parse_regs(const std::string &s, std::vector<uint32_t> &regs)
{
  size_t i = 0;
  while (i <= s.size())
  {
    size_t j = s.find(',', i);
    if (j == std::string::npos) { j = s.size(); }
    regs.push_back((uint32_t)strtoul(s.substr(i, j - i).c_str(), NULL, 16));
    i = j + 1;
  }
  return regs.size() == 16;
}

static int sim_cycles_from_dump(const std::string &dump)
{
  size_t p = dump.find(" clock cycles have passed");
  if (p == std::string::npos) { return -1; }
  size_t q = p;
  while (q > 0 && ((dump[q - 1] >= '0' && dump[q - 1] <= '9') || dump[q - 1] == '-')) { q--; }
  return atoi(dump.substr(q, p - q).c_str());
}

static int sim_exit_marker_fd = -1;
static void sim_exit_marker()
{
  if (sim_exit_marker_fd >= 0) { if (write(sim_exit_marker_fd, "X", 1) != 1) { } }
}

// Runs body() in a forked child; the answer comes back through a pipe.  If the child ends
// through exit() (the simulator's break_io) the answer is "exit=<status>".
static std::string sim_forked(const std::function<std::string()> &body)
{
  int fds[2];
  if (pipe(fds) != 0) { return "bad-pipe"; }
  fflush(stdout);
  fflush(ans);
  pid_t pid = fork();
  if (pid < 0) { return "bad-fork"; }
  if (pid == 0)
  {
    close(fds[0]);
    sim_exit_marker_fd = fds[1];
    atexit(sim_exit_marker);
    std::string out = "A" + body();
    sim_exit_marker_fd = -1;
    if (write(fds[1], out.c_str(), out.size()) < 0) { }
    _exit(0);
  }
  close(fds[1]);
  std::string got;
  char buf[4096];
  ssize_t n;
  while ((n = read(fds[0], buf, sizeof(buf))) > 0) { got.append(buf, n); }
  close(fds[0]);
  int status = 0;
  waitpid(pid, &status, 0);
  if (!got.empty() && got[0] == 'A') { return got.substr(1); }
  if (got == "X" && WIFEXITED(status))
  {
    snprintf(buf, sizeof(buf), "exit=%d", WEXITSTATUS(status));
    return buf;
  }
  snprintf(buf, sizeof(buf), "DIED-CHILD status=0x%x", status);
  return buf;
}

static std::string sim_msp430_body(bool run_mode, uint32_t break_io, int max_cycles,
                                   const std::vector<uint32_t> &regs,
                                   const std::vector<std::pair<uint32_t, int> > &cells)
{
  Memory *memory = new Memory();
  std::set<uint32_t> given;
  for (auto &c : cells) { memory->write8(c.first, c.second); given.insert(c.first); }
  Simulate *sim = SimulateMsp430::init(memory);
  char name[8];
  for (int n = 0; n < 16; n++)
  {
    snprintf(name, sizeof(name), "r%d", n);
    sim->set_reg(name, regs[n]);
  }
  sim->set_break_io(break_io);
  sim->set_show(false);
  int ret;
  std::string end = "";
  if (!run_mode)
  {
    sim->enable_step_mode();
    ret = sim->run(-1, 1);
    capture_take();
  }
  else
  {
    sim->set_delay(1);
    sim->enable_auto_run();
    ret = sim->run(max_cycles, 0);
    std::string text = capture_take();
    if (text.find("Illegal instruction") != std::string::npos) { end = " end=illegal"; }
    else if (text.find("Stopped.") != std::string::npos) { end = " end=stopped"; }
    else if (text.find("Function ended") != std::string::npos) { end = " end=ffff"; }
    else { end = " end=ret"; }
  }
  std::string out;
  char buf[64];
  snprintf(buf, sizeof(buf), "ret=%d%s regs=", ret, end.c_str());
  out = buf;
  for (int n = 0; n < 16; n++)
  {
    snprintf(name, sizeof(name), "r%d", n);
    snprintf(buf, sizeof(buf), "%s%x", n == 0 ? "" : ",", sim->get_reg(name));
    out += buf;
  }
  sim->dump_registers();
  snprintf(buf, sizeof(buf), " cyc=%d mem=", sim_cycles_from_dump(capture_take()));
  out += buf;
  out += sim_dump_cells(memory, given);
  delete sim;
  delete memory;
  return out;
}

static std::string cmd_sim(const std::vector<std::string> &args)
{
  if (args.size() != 4 || args[0] != "msp430") { return "bad-op"; }
  std::vector<uint32_t> regs;
  std::vector<std::pair<uint32_t, int> > cells;
  if (!sim_parse_regs(args[2], regs) || !sim_parse_cells(args[3], cells)) { return "bad-op"; }
  if (args[1] == "-")
  {
    return sim_msp430_body(false, 0x20000, -1, regs, cells);
  }
  uint32_t bio = (uint32_t)strtoul(args[1].c_str(), NULL, 16);
  return sim_forked([&]() { return sim_msp430_body(false, bio, -1, regs, cells); });
}

static std::string cmd_simrun(const std::vector<std::string> &args)
{
  if (args.size() != 5 || args[0] != "msp430") { return "bad-op"; }
  std::vector<uint32_t> regs;
  std::vector<std::pair<uint32_t, int> > cells;
  if (!sim_parse_regs(args[3], regs) || !sim_parse_cells(args[4], cells)) { return "bad-op"; }
  int max_cycles = atoi(args[2].c_str());
  if (args[1] == "-")
  {
    return sim_msp430_body(true, 0x20000, max_cycles, regs, cells);
  }
  uint32_t bio = (uint32_t)strtoul(args[1].c_str(), NULL, 16);
  return sim_forked([&]() { return sim_msp430_body(true, bio, max_cycles, regs, cells); });
}

static std::string cmd_dislen(const std::vector<std::string> &args)
{
  if (args.size() != 3 || args[0] != "msp430") { return "bad-op"; }
  uint32_t addr = (uint32_t)strtoul(args[1].c_str(), NULL, 16);
  std::string bytes = unhex(args[2]);
  Memory *memory = new Memory();
  for (size_t i = 0; i < bytes.size(); i++) { memory->write8(addr + i, (uint8_t)bytes[i]); }
  char instruction[128];
  int cmin = 0, cmax = 0;
  int len = disasm_msp430(memory, addr, instruction, sizeof(instruction), 0, &cmin, &cmax);
  delete memory;
  char buf[64];
  snprintf(buf, sizeof(buf), "len=%d cyc=%d", len, cmin);
  return buf;
}

// ---- any simulator: determinism / survival of one step --------------------------------------

static uint64_t sim_fnv(uint64_t h, const std::string &s)
{
  for (unsigned char c : s) { h ^= c; h *= 1099511628211ULL; }
  return h;
}

struct SimStepOut
{
  int ret;
  std::string dump;
  std::string mem;
  long long top;
};

static bool simstep_once(CpuList *cpu, uint32_t pc,
                         const std::vector<std::pair<std::string, uint32_t> > &regs,
                         const std::vector<std::pair<uint32_t, std::string> > &runs,
                         SimStepOut &out, const std::string &bio, unsigned char fill, int steps)
{
  nv_new_fill = 0x00;
  Memory *memory = new Memory();
  memory->endian = cpu->default_endian;
  for (auto &r : runs)
  {
    for (size_t i = 0; i < r.second.size(); i++) { memory->write8(r.first + i, (uint8_t)r.second[i]); }
  }
  nv_new_fill = fill;
  Simulate *sim = cpu->simulate_init(memory);
  nv_new_fill = 0x00;
  if (sim == nullptr) { delete memory; return false; }
  if (bio.empty() || bio == "-") { sim->set_break_io(0xfffffff0); }
  else if (bio != "default") { sim->set_break_io((int)strtoul(bio.c_str(), NULL, 16)); }
  sim->set_show(false);
  sim->set_clear(false);
  for (auto &r : regs) { sim->set_reg(r.first.c_str(), r.second); }
  sim->set_pc(pc);
  capture_take();
  sim->enable_step_mode();
  for (int n = 0; n < steps; n++)
  {
    out.ret = sim->run(-1, 1);
    capture_take();
    if (out.ret != 0) { break; }
  }
  sim->dump_registers();
  out.dump = capture_take();
  // memory: hash of (address, byte) over the non-zero cells in address order; top = highest non-zero cell outside the given runs
  std::vector<MemoryPage *> pages;
  for (MemoryPage *p = memory->pages; p != nullptr; p = p->next) { pages.push_back(p); }
  std::sort(pages.begin(), pages.end(), [](MemoryPage *a, MemoryPage *b) { return a->address < b->address; });
  uint64_t h = 1469598103934665603ULL;
  out.top = -1;
  for (MemoryPage *p : pages)
  {
    for (uint32_t off = 0; off < PAGE_SIZE; off++)
    {
      if (p->bin[off] == 0) { continue; }
      uint32_t a = p->address + off;
      for (int k = 0; k < 4; k++) { h ^= (a >> (8 * k)) & 0xff; h *= 1099511628211ULL; }
      h ^= p->bin[off]; h *= 1099511628211ULL;
      bool was_given = false;
      for (auto &r : runs) { if (a >= r.first && (uint64_t)a < (uint64_t)r.first + r.second.size()) { was_given = true; break; } }
      if (!was_given && (long long)a > out.top) { out.top = a; }
    }
  }
  char hb[32];
  snprintf(hb, sizeof(hb), "%016llx", (unsigned long long)h);
  out.mem = hb;
  delete sim;
  delete memory;
  return true;
}

static std::string simstep_body(const std::vector<std::string> &args, const std::string &bio, int steps);

static std::string cmd_simstep(const std::vector<std::string> &args)
{
  if (args.size() < 4 || args.size() > 6) { return "bad-op"; }
  int steps = args.size() == 6 ? atoi(args[5].c_str()) : 1;
  if (args.size() >= 5 && args[4] != "-")
  {
    std::vector<std::string> four(args.begin(), args.begin() + 4);
    std::string bio = args[4];
    return sim_forked([&]() { return simstep_body(four, bio, steps); });
  }
  return simstep_body(args, "", steps);
}

static std::string simstep_body(const std::vector<std::string> &args, const std::string &bio, int steps)
{
  CpuList *cpu = nullptr;
  for (int n = 0; cpu_list[n].name != NULL; n++)
  {
    if (args[0] == cpu_list[n].name) { cpu = &cpu_list[n]; break; }
  }
  if (cpu == nullptr || cpu->simulate_init == NULL) { return "no-simulator"; }
  uint32_t pc = (uint32_t)strtoul(args[1].c_str(), NULL, 16);
  std::vector<std::pair<std::string, uint32_t> > regs;
  if (args[2] != "-")
  {
    size_t i = 0;
    const std::string &s = args[2];
    while (i < s.size())
    {
      size_t j = s.find(',', i);
      if (j == std::string::npos) { j = s.size(); }
      std::string item = s.substr(i, j - i);
      size_t c = item.find('=');
      if (c == std::string::npos) { return "bad-op"; }
      regs.push_back(std::make_pair(item.substr(0, c), (uint32_t)strtoul(item.substr(c + 1).c_str(), NULL, 16)));
      i = j + 1;
    }
  }
  std::vector<std::pair<uint32_t, std::string> > runs;
  if (args[3] != "-")
  {
    size_t i = 0;
    const std::string &s = args[3];
    while (i < s.size())
    {
      size_t j = s.find(';', i);
      if (j == std::string::npos) { j = s.size(); }
      std::string item = s.substr(i, j - i);
      size_t c = item.find(':');
      if (c == std::string::npos) { return "bad-op"; }
      runs.push_back(std::make_pair((uint32_t)strtoul(item.substr(0, c).c_str(), NULL, 16), unhex(item.substr(c + 1))));
      i = j + 1;
    }
  }
  SimStepOut a, b, c;
  nv_cpu_alarm(20);
  bool ok = simstep_once(cpu, pc, regs, runs, a, bio, 0x00, steps) && simstep_once(cpu, pc, regs, runs, b, bio, 0xff, steps) &&
            simstep_once(cpu, pc, regs, runs, c, bio, 0x01, steps);
  nv_cpu_alarm(0);
  if (!ok) { return "no-simulator"; }
  char buf[128];
  if (a.ret == c.ret && a.dump == c.dump && a.mem == c.mem) { c = b; }      // report the 0x01 run if it differs, else the 0xff run
  b = c;
  if (a.ret != b.ret) { snprintf(buf, sizeof(buf), "DIFF ret %d %d", a.ret, b.ret); return buf; }
  if (a.dump != b.dump) { return "DIFF registers " + tohex(a.dump.substr(0, 200)) + " " + tohex(b.dump.substr(0, 200)); }
  if (a.mem != b.mem) { return "DIFF memory " + a.mem.substr(0, 200) + " | " + b.mem.substr(0, 200); }
  uint64_t h = sim_fnv(sim_fnv(1469598103934665603ULL, a.dump), a.mem);
  if (a.top < 0) { snprintf(buf, sizeof(buf), "same ret=%d fp=%016llx top=-", a.ret, (unsigned long long)h); }
  else { snprintf(buf, sizeof(buf), "same ret=%d fp=%016llx top=%llx", a.ret, (unsigned long long)h, a.top); }
  return buf;
}

static void register_sim()
{
  handlers["sim"] = cmd_sim;
  handlers["simrun"] = cmd_simrun;
  handlers["dislen"] = cmd_dislen;
  handlers["simstep"] = cmd_simstep;
}
