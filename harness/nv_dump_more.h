// Sections added per property (instruction tables etc.).
#ifndef NV_DUMP_MORE_H
#define NV_DUMP_MORE_H
static void dump_more()
{
}
#endif
