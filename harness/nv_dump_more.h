// Sections added per property (instruction tables etc.).  Each lives in its own
// translation unit harness/nv_dump_<name>.cpp and exports void dump_more_<name>().
#ifndef NV_DUMP_MORE_H
#define NV_DUMP_MORE_H
void dump_more_cond();
void dump_more_fileio();
void dump_more_memory();
void dump_more_msp430asm();
void dump_more_msp430dis();
void dump_more_riscv();
void dump_more_simtables();
void dump_more_symbols();
void dump_more_safe();
void dump_more_det();
void dump_more_util();
void dump_more_macro();
void dump_more_link();
void dump_more_reader();
void dump_more_m6502();
static void dump_more()
{
  dump_more_cond();
  dump_more_fileio();
  dump_more_memory();
  dump_more_msp430asm();
  dump_more_msp430dis();
  dump_more_riscv();
  dump_more_simtables();
  dump_more_symbols();
  dump_more_safe();
  dump_more_det();
  dump_more_util();
  dump_more_macro();
  dump_more_link();
  dump_more_reader();
  dump_more_m6502();
}
#endif
