// Sections added per property (instruction tables etc.).
#ifndef NV_DUMP_MORE_H
#define NV_DUMP_MORE_H
#include "nv_dump_riscv.h"
#include "nv_dump_cond.h"
#include "nv_dump_symbols.h"
static void dump_more()
{
  dump_more_symbols();
  dump_more_cond();
  dump_more_riscv();
}
#endif
