// prog <opts> <hex source> [<hex include-file-name> <hex include-file-content>]...
//   In-process two-pass assembly exactly as main() of naken_asm does it (without writing a file).
//   opts: '-' or letters: o = -optimize, 1 = also report symbols after pass 1,
//         L = also report lines=<source line>:<lowest address carrying that line's debug marker>:<count>,...
//             (Memory::debug_line holds, for the opcode byte(s) an instruction statement wrote in pass 2,
//             the number of the source line that wrote it: where the code of a statement really is)
//   -> st=<0|1> err=<#Error lines> low=<hex> high=<hex> entry=<hex> bpa=<n> end=<l|b>
//      img=<addr:hexbytes;...> dbg=<addr:kinds;...> syms=<name=addr@scope[!],...> [p1=<...>]
//   img lists every byte whose debug marker is not DL_EMPTY, in address order, grouped in runs;
//   the pages are walked directly so extreme addresses cost nothing.
#include <dirent.h>
#include <sys/stat.h>

struct ProgResult
{
  int status;
  int errors;
  std::string text;       // captured stdout
  std::string p1syms;
};

static std::string dump_symbols(AsmContext *ctx)
{
  SymbolsIter iter;
  std::vector<std::string> v;
  char buf[600];
  while (ctx->symbols.iterate(&iter) != -1)
  {
    snprintf(buf, sizeof(buf), "%s=%x@%d%s", iter.name, iter.address, iter.scope, iter.flag_export ? "!" : "");
    v.push_back(buf);
  }
  std::string s;
  for (size_t i = 0; i < v.size(); i++) { if (i) { s += ","; } s += v[i]; }
  return s.empty() ? "-" : s;
}

static std::string dump_image(Memory *memory, bool debug_kinds)
{
  // collect pages sorted by address
  std::vector<MemoryPage *> pages;
  for (MemoryPage *p = memory->pages; p != nullptr; p = p->next) { pages.push_back(p); }
  std::sort(pages.begin(), pages.end(), [](MemoryPage *a, MemoryPage *b) { return a->address < b->address; });
  std::string out;
  char buf[32];
  static const char *hexd = "0123456789abcdef";
  bool open = false;
  uint64_t next = 0;
  for (MemoryPage *p : pages)
  {
    for (uint32_t off = 0; off < PAGE_SIZE; off++)
    {
      int dl = p->debug_line[off];
      if (dl == DL_EMPTY) { open = false; continue; }
      uint64_t a = (uint64_t)p->address + off;
      if (!open || a != next)
      {
        if (!out.empty()) { out += ";"; }
        snprintf(buf, sizeof(buf), "%llx:", (unsigned long long)a);
        out += buf;
        open = true;
      }
      if (debug_kinds)
      {
        out.push_back(dl == DL_DATA ? 'd' : dl == DL_NO_CG ? 'n' : 'c');
      }
      else
      {
        out.push_back(hexd[p->bin[off] >> 4]);
        out.push_back(hexd[p->bin[off] & 15]);
      }
      next = a + 1;
    }
  }
  return out.empty() ? "-" : out;
}

// for every source line that marked at least one byte of the image: the lowest marked address
static std::string dump_lines(Memory *memory)
{
  std::map<int, std::pair<uint64_t, int>> m;
  for (MemoryPage *p = memory->pages; p != nullptr; p = p->next)
  {
    for (uint32_t off = 0; off < PAGE_SIZE; off++)
    {
      int dl = p->debug_line[off];
      if (dl < 0) { continue; }
      uint64_t a = (uint64_t)p->address + off;
      auto it = m.find(dl);
      if (it == m.end()) { m[dl] = std::make_pair(a, 1); }
      else { if (a < it->second.first) { it->second.first = a; } it->second.second++; }
    }
  }
  std::string out;
  char buf[64];
  for (auto &kv : m)
  {
    if (!out.empty()) { out += ","; }
    snprintf(buf, sizeof(buf), "%d:%llx:%d", kv.first, (unsigned long long)kv.second.first, kv.second.second);
    out += buf;
  }
  return out.empty() ? "-" : out;
}

static std::string cmd_prog(const std::vector<std::string> &args)
{
  if (args.size() < 2) { return "bad-op"; }
  const std::string &opts = args[0];
  std::string source = unhex(args[1]);
  // include files are written to a private scratch directory and found through -I
  char dir[] = "/tmp/nvprogXXXXXX";
  bool have_dir = false;
  std::vector<std::string> files;
  if (args.size() > 2)
  {
    if (mkdtemp(dir) == NULL) { return "bad-op"; }
    have_dir = true;
    for (size_t i = 2; i + 1 < args.size(); i += 2)
    {
      std::string path = std::string(dir) + "/" + unhex(args[i]);
      FILE *f = fopen(path.c_str(), "wb");
      if (f != NULL)
      {
        std::string c = unhex(args[i + 1]);
        fwrite(c.data(), 1, c.size(), f);
        fclose(f);
        files.push_back(path);
      }
    }
  }

  AsmContext *ctx = new AsmContext();
  ctx->quiet_output = 1;
  if (opts.find('o') != std::string::npos) { ctx->optimize = 1; }
  if (have_dir) { include_add_path(ctx, dir); }
  // The source is read through a FILE (as naken_asm does) so that .include can switch files.
  FILE *src_fp = tmpfile();
  if (src_fp == NULL) { delete ctx; return "bad-op"; }
  fwrite(source.data(), 1, source.size(), src_fp);
  fflush(src_fp);
  fseek(src_fp, 0, SEEK_SET);
  ctx->tokens.in = src_fp;
  ctx->tokens.filename = "prog";
  ctx->init();
  int error_flag = ctx->assemble();
  std::string p1;
  if (opts.find('1') != std::string::npos) { p1 = dump_symbols(ctx); }
  do
  {
    if (error_flag == 0 && ctx->link() != 0) { error_flag = 1; }
    if (error_flag != 0) { break; }
    ctx->symbols.lock();
    ctx->symbols.scope_reset();
    ctx->pass = 2;
    ctx->init();
    error_flag = ctx->assemble();
    if (error_flag != 0) { break; }
    if (ctx->link() != 0) { error_flag = 1; break; }
  } while (0);

  std::string printed = capture_take();
  char head[256];
  snprintf(head, sizeof(head), "st=%d err=%d low=%x high=%x entry=%x bpa=%d end=%c ic=%d",
    error_flag == 0 ? 0 : 1, count_errors(printed), ctx->memory.low_address, ctx->memory.high_address,
    ctx->memory.entry_point, ctx->bytes_per_address, ctx->memory.endian == ENDIAN_BIG ? 'b' : 'l',
    ctx->instruction_count);
  std::string out = head;
  out += " img=" + dump_image(&ctx->memory, false);
  out += " dbg=" + dump_image(&ctx->memory, true);
  out += " syms=" + dump_symbols(ctx);
  if (!p1.empty()) { out += " p1=" + p1; }
  if (opts.find('L') != std::string::npos) { out += " lines=" + dump_lines(&ctx->memory); }
  if (ctx->tokens.in != NULL) { fclose(ctx->tokens.in); ctx->tokens.in = NULL; }
  delete ctx;
  for (auto &f : files) { unlink(f.c_str()); }
  if (have_dir) { rmdir(dir); }
  return out;
}

// asmq <cpu> <hex statement(s)> : two-pass assembly of ".<cpu>\n<statements>\n" at address 0
//   -> ok <hex bytes low..high (gaps as 00)> | err
static std::string cmd_asmq(const std::vector<std::string> &args)
{
  if (args.size() != 2) { return "bad-op"; }
  std::string source = "." + args[0] + "\n" + unhex(args[1]) + "\n";
  AsmContext *ctx = new AsmContext();
  ctx->quiet_output = 1;
  tokens_open_buffer(ctx, source.c_str());
  ctx->tokens.filename = "asmq";
  ctx->init();
  int error_flag = ctx->assemble();
  if (error_flag == 0)
  {
    ctx->symbols.lock();
    ctx->symbols.scope_reset();
    ctx->pass = 2;
    ctx->init();
    error_flag = ctx->assemble();
  }
  std::string printed = capture_take();
  std::string out;
  if (error_flag != 0 || ctx->error_count != 0 || count_errors(printed) != 0)
  {
    out = "err";
  }
  else
  {
    static const char *hexd = "0123456789abcdef";
    out = "ok ";
    uint32_t low = ctx->memory.low_address, high = ctx->memory.high_address;
    if (low <= high && high - low < 4096)
    {
      for (uint32_t a = low; ; a++)
      {
        uint8_t b = ctx->memory.read8(a);
        out.push_back(hexd[b >> 4]); out.push_back(hexd[b & 15]);
        if (a == high) { break; }
      }
    }
    else { out += "-"; }
  }
  delete ctx;
  return out;
}

static void register_prog()
{
  handlers["prog"] = cmd_prog;
  handlers["asmq"] = cmd_asmq;
}
