// naken_util's memory commands on the real code (C19).
//
// util <cpu> <syms|-> <hex script> [<asm result>]...
//     One UtilContext exactly as main() of naken_util sets it up for `naken_util -<cpu>` (set_cpu_by_name, reset of
//     the simulator), then the script line by line through the body of main()'s command loop: trim, interactive asm
//     mode, split at the first blank, the REAL is_command_valid() (main/naken_util.cpp is compiled into the harness
//     with its main() renamed), dispatch to the REAL UtilContext::print8/16/32, write8/16/32, disasm, sim_show_info,
//     sim_set_register, Simulate::run/reset/dump_registers and assemble_code().  UtilContext::disasm_range (a
//     function pointer member) is pointed at a recorder, so a `disasm` shows which byte range it selected.
//     syms: name=hexaddr,... appended to util.symbols.  The <asm result> words are what `uasm` answered for the
//     blocks of the script, in order (the model consumes them; the harness checks each against a second assembly).
//     -> hex of the transcript: for every script line "@@\n" followed by everything the real code printed.
//        (`step` prints a screen full of simulator display: replaced by "STEP ret=<r>".)
// uasm <cpu> <org hex> <hex source>
//     the two assembler passes of assemble_code() -> ok:<bpa>:<low>:<high>:<hex of read8(low..high)> | err
// unum <kind> <hex text>
//     kind n: UtilContext::get_num, a<bpa>: get_address (no symbols) -> ok <value hex> <offset of the returned pointer> | null
//     kind r<bpa>: get_range(text, &start, &end) with the image ending at 0x12345 -> ok <start> <end> | null
//     " ill" is appended when "Illegal number" was printed.  (get_hex and get_token are private: reached through these.)
#include "common/String.h"
#include "core/UtilContext.h"
#include "core/version.h"
#include "fileio/file.h"
#include "simulate/null.h"

namespace nu
{
#define main naken_util_main
#include "main/naken_util.cpp"
#undef main
}

static void util_record_disasm_range(Memory *memory, uint32_t flags, uint32_t start, uint32_t end)
{
  printf("DISASMRANGE %x %x\n", start, end);
}

static std::string util_assemble(const char *cpu_name, uint32_t org, const std::string &code)
{
  // the first half of assemble_code()
  AsmContext asm_context;
  asm_context.init();
  asm_context.set_cpu(cpu_name);
  asm_context.set_org(org);
  asm_context.pass = 1;
  tokens_open_buffer(&asm_context, code.c_str());
  tokens_reset(&asm_context);
  if (asm_context.assemble() != 0) { tokens_close(&asm_context); return "err"; }
  asm_context.pass = 2;
  asm_context.init();
  asm_context.set_cpu(cpu_name);
  asm_context.set_org(org);
  if (asm_context.assemble() != 0) { tokens_close(&asm_context); return "err"; }
  char buf[64];
  snprintf(buf, sizeof(buf), "ok:%d:%x:%x:", asm_context.bytes_per_address, asm_context.memory.low_address,
    asm_context.memory.high_address);
  std::string out = buf;
  std::string bytes;
  if (asm_context.memory.low_address <= asm_context.memory.high_address &&
      asm_context.memory.high_address - asm_context.memory.low_address < 0x100000)
  {
    for (uint64_t a = asm_context.memory.low_address; a <= asm_context.memory.high_address; a++)
    {
      bytes.push_back((char)asm_context.memory.read8((uint32_t)a));
    }
  }
  out += tohex(bytes);
  tokens_close(&asm_context);
  return out;
}

static std::string cmd_uasm(const std::vector<std::string> &args)
{
  if (args.size() != 3) { return "bad-op"; }
  std::string r = util_assemble(args[0].c_str(), (uint32_t)strtoul(args[1].c_str(), NULL, 16), unhex(args[2]));
  capture_take();
  return r;
}

static std::string cmd_util(const std::vector<std::string> &args)
{
  if (args.size() < 3) { return "bad-op"; }
  const char *cpu_name = args[0].c_str();
  if (UtilContext::is_supported_cpu(cpu_name) != 1) { return "bad-cpu"; }
  std::string script = unhex(args[2]);
  size_t next_asm = 3;

  UtilContext *util = new UtilContext();
  util->set_cpu_by_name(cpu_name);
  util->disasm_range = util_record_disasm_range;
  if (args[1] != "-")
  {
    size_t i = 0;
    const std::string &s = args[1];
    while (i < s.size())
    {
      size_t j = s.find(',', i);
      if (j == std::string::npos) { j = s.size(); }
      std::string item = s.substr(i, j - i);
      size_t e = item.find('=');
      if (e == std::string::npos) { delete util; return "bad-op"; }
      util->symbols.append(item.substr(0, e).c_str(), (uint32_t)strtoul(item.substr(e + 1).c_str(), NULL, 16));
      i = j + 1;
    }
  }
  util->simulate->reset();
  util->simulate->set_break_io(-1);
  capture_take();

  std::string transcript;
  String code;
  bool in_code = false;
  bool was_pc_set = false;
  uint32_t org = 0;

  size_t pos = 0;
  while (pos <= script.size())
  {
    size_t nl = script.find('\n', pos);
    if (nl == std::string::npos) { nl = script.size(); }
    std::string line = script.substr(pos, nl - pos);
    pos = nl + 1;
    if (nl == script.size() && line.empty()) { break; }
    transcript += "@@\n";

    // ---- body of the while (true) loop of main(), mode == MODE_INTERACTIVE ----
    String command;
    command = line.c_str();
    command.trim();

    if (in_code)
    {
      if (command.len() == 0)
      {
        if (code.len() > 0)
        {
          printf("Assembling to 0x%04x\n", org);
          if (! was_pc_set)
          {
            if (org != 0)
            {
              util->simulate->set_pc(org);
              util->simulate->set_org(org);
            }
            was_pc_set = true;
          }
          // the harness's own check of the prepared assembler result
          std::string expect = next_asm < args.size() ? args[next_asm] : std::string("none");
          next_asm++;
          fflush(stdout);
          std::string before = capture_take();
          std::string again = util_assemble(cpu_name, org, code.value());
          capture_take();
          printf("%s", before.c_str());
          if (again != expect) { printf("ASM-RESULT-MISMATCH %s\n", again.substr(0, 200).c_str()); }
          nu::assemble_code(*util, cpu_name, code.value(), org);
          code.clear();
        }
        in_code = false;
      }
        else
      {
        code += command.value();
        code += "\n";
      }
      transcript += capture_take();
      continue;
    }

    String arg;
    int space = command.find(' ');

    if (space != -1)
    {
      arg = command.value() + space;
      arg.trim();
      command.replace_at(space, 0);
      command.rtrim();
    }

    if (nu::is_command_valid(command, arg) == false) { transcript += capture_take(); continue; }

    bool has_arg = arg.len() != 0;

    if (command.len() == 0) { transcript += capture_take(); continue; }

    if (command == "print") { util->print8(arg.value()); }
    else if (command == "print16") { util->print16(arg.value()); }
    else if (command == "print32") { util->print32(arg.value()); }
    else if (command == "write") { util->write8(arg.value()); }
    else if (command == "write16") { util->write16(arg.value()); }
    else if (command == "write32") { util->write32(arg.value()); }
    else if (command == "disasm")
    {
      if (has_arg) { util->disasm(arg.value()); }
      else if (util->memory.low_address != 0xffffffff)
      {
        util->disasm(util->memory.low_address, util->memory.high_address);
      }
    }
    else if (command == "info") { util->sim_show_info(); }
    else if (command == "set") { util->sim_set_register(arg); }
    else if (command == "reset") { util->simulate->reset(); }
    else if (command == "registers" || command == "reg") { util->simulate->dump_registers(); }
    else if (command == "step")
    {
      transcript += capture_take();
      util->simulate->enable_step_mode();
      int r = util->simulate->run(-1, 1);
      capture_take();
      printf("STEP ret=%d\n", r);
    }
    else if (command == "asm")
    {
      if (has_arg) { org = arg.as_int(); }
      in_code = true;
    }
    else { printf("NOT-MODELLED\n"); }
    if (!(command == "step")) { util->simulate->disable_step_mode(); }    // `step` leaves the loop body with `continue`
    transcript += capture_take();
  }
  delete util;
  return tohex(transcript);
}

static std::string cmd_unum(const std::vector<std::string> &args)
{
  if (args.size() != 2) { return "bad-op"; }
  std::string text = unhex(args[1]);
  char buf[96];
  UtilContext *util = new UtilContext();
  std::string out;
  uint32_t num = 0x5a5a5a5a;
  if (args[0] == "n")
  {
    const char *r = util->get_num(text.c_str(), &num);
    if (r == nullptr) { out = "null"; }
    else { snprintf(buf, sizeof(buf), "ok %x %d", num, (int)(r - text.c_str())); out = buf; }
  }
  else if (args[0][0] == 'a')
  {
    util->bytes_per_address = atoi(args[0].c_str() + 1);
    const char *r = util->get_address(text.c_str(), &num);
    if (r == nullptr) { out = "null"; }
    else { snprintf(buf, sizeof(buf), "ok %x %d", num, (int)(r - text.c_str())); out = buf; }
  }
  else if (args[0][0] == 'r')
  {
    // get_range on an image whose last byte is at 0x12345
    util->bytes_per_address = atoi(args[0].c_str() + 1);
    util->memory.write8(0x12345, 1);
    uint32_t start = 0x5a5a5a5a, end = 0x5a5a5a5a;
    int r = util->get_range(text.c_str(), &start, &end);
    if (r != 0) { out = "null"; }
    else { snprintf(buf, sizeof(buf), "ok %x %x", start, end); out = buf; }
  }
  else { delete util; return "bad-op"; }
  std::string printed = capture_take();
  if (printed.find("Illegal number") != std::string::npos) { out += " ill"; }
  delete util;
  return out;
}

static void register_util()
{
  handlers["util"] = cmd_util;
  handlers["uasm"] = cmd_uasm;
  handlers["unum"] = cmd_unum;
}
