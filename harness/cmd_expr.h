// expr <noPostfix> tok tok ...   -> ok <hex64> <next token> | err
// lit  <noPostfix> word          -> num <hex64> | word
static std::string render_token(int token_type, const char *token)
{
  char buf[64];
  if (token_type == TOKEN_EOL || token_type == TOKEN_EOF) { return "<eol>"; }
  if (token_type == TOKEN_NUMBER)
  {
    Var v; v.set_int(token);
    snprintf(buf, sizeof(buf), "n%016llx", (unsigned long long)v.get_int64());
    return buf;
  }
  if (token_type == TOKEN_SYMBOL)
  {
    Operator o;
    if (o.set_operator(token) || strcmp(token, "~") == 0 || strcmp(token, "(") == 0 ||
        strcmp(token, ")") == 0 || strcmp(token, ",") == 0 || strcmp(token, "]") == 0 ||
        strcmp(token, "[") == 0 || strcmp(token, ".") == 0) { return token; }
  }
  return "<other>";
}

static std::string cmd_expr(const std::vector<std::string> &args)
{
  if (args.size() < 1) { return "bad-op"; }
  std::string text;
  for (size_t i = 1; i < args.size(); i++) { text += args[i]; text += " "; }
  text += "\n";
  AsmContext *ctx = new AsmContext();
  ctx->pass = 2;
  ctx->ignore_number_postfix = args[0] == "1";
  tokens_open_buffer(ctx, text.c_str());
  tokens_reset(ctx);
  Var var;
  int ret = eval_expression(ctx, var);
  std::string out;
  if (ret != 0 || ctx->error_count != 0)
  {
    out = "err";
  }
  else
  {
    char token[TOKENLEN];
    char buf[64];
    int token_type = tokens_get(ctx, token, TOKENLEN);
    std::string next = render_token(token_type, token);
    int remaining = 0;
    while (token_type != TOKEN_EOL && token_type != TOKEN_EOF && remaining < 100000)
    {
      remaining++;
      token_type = tokens_get(ctx, token, TOKENLEN);
    }
    snprintf(buf, sizeof(buf), "ok %016llx %d ", (unsigned long long)var.get_int64(), remaining);
    out = buf + next;
  }
  delete ctx;
  return out;
}

// expr32 <noPostfix> tok ... : the int overload (32-bit narrowing with range test)
static std::string cmd_expr32(const std::vector<std::string> &args)
{
  if (args.size() < 1) { return "bad-op"; }
  std::string text;
  for (size_t i = 1; i < args.size(); i++) { text += args[i]; text += " "; }
  text += "\n";
  AsmContext *ctx = new AsmContext();
  ctx->pass = 2;
  ctx->ignore_number_postfix = args[0] == "1";
  tokens_open_buffer(ctx, text.c_str());
  tokens_reset(ctx);
  int num = 0;
  int ret = eval_expression(ctx, &num);
  std::string out;
  if (ret != 0 || ctx->error_count != 0)
  {
    out = "err";
  }
  else
  {
    char buf[64];
    snprintf(buf, sizeof(buf), "ok %08x", (unsigned int)num);
    out = buf;
  }
  delete ctx;
  return out;
}

static std::string cmd_lit(const std::vector<std::string> &args)
{
  if (args.size() != 2) { return "bad-op"; }
  if (!(args[1][0] >= '0' && args[1][0] <= '9')) { return "bad-op"; }
  std::string text = args[1] + "\n";
  AsmContext *ctx = new AsmContext();
  ctx->pass = 2;
  ctx->ignore_number_postfix = args[0] == "1";
  tokens_open_buffer(ctx, text.c_str());
  tokens_reset(ctx);
  char token[TOKENLEN];
  int token_type = tokens_get(ctx, token, TOKENLEN);
  std::string out = "word";
  if (token_type == TOKEN_NUMBER)
  {
    char buf[64];
    Var v; v.set_int(token);
    snprintf(buf, sizeof(buf), "num %016llx", (unsigned long long)v.get_int64());
    out = buf;
  }
  delete ctx;
  return out;
}

static void register_expr()
{
  handlers["expr"] = cmd_expr;
  handlers["lit"] = cmd_lit;
  handlers["expr32"] = cmd_expr32;
}
