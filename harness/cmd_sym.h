// sym <op> <op> ...
//   Drives one real `Symbols` object (core/Symbols.cpp) with an operation sequence and prints the
//   result of every operation, separated by blanks:
//     a:<name>:<addr>   append            -> a<ret>
//     s:<name>:<val>    set               -> s<ret>
//     e:<name>          export_symbol     -> e<ret>
//     l:<name>          lookup            -> l<ret>:<addr hex>
//     f:<name>          find              -> f- | f<addr hex>@<scope>[w][!]
//     S  scope_start -> S<ret>     E  scope_end -> E     R  scope_reset -> R     L  lock -> L
//     T:<n>             n times (scope_start; scope_end)                   -> T
//     B:<prefix>:<n>:<pad>:<addr>  append n names <prefix><i> padded with '_' to length pad,
//                       addresses addr+i  -> B<number of appends that returned 0>
//     I  iterate to the end -> I[name=addr@scope[!],...]   (the SymbolsIter protocol, incl. count)
//     C  count -> C<n>      X  export_count -> X<n>
//   <addr>/<val> are decimal or 0x-hex, 32 bit.
// progd <opts> <hex source>
//   As `prog`, but pass 2 runs with Symbols::set_debug() instead of lock() (the device of
//   tests/symbol_address): every label is re-bound to the address it has in pass 2, so that
//   p1= (after pass 1) and syms= (after pass 2) can be compared label by label.

static std::string sym_name(const std::string &prefix, int i, int pad)
{
  std::string s = prefix + std::to_string(i);
  while ((int)s.size() < pad) { s.push_back('_'); }
  return s;
}

static std::vector<std::string> split_colon(const std::string &s)
{
  std::vector<std::string> v;
  size_t i = 0;
  while (true)
  {
    size_t j = s.find(':', i);
    if (j == std::string::npos) { v.push_back(s.substr(i)); break; }
    v.push_back(s.substr(i, j - i));
    i = j + 1;
  }
  return v;
}

static std::string cmd_sym(const std::vector<std::string> &args)
{
  Symbols *symbols = new Symbols();
  std::string out;
  char buf[700];
  for (size_t n = 0; n < args.size(); n++)
  {
    std::vector<std::string> p = split_colon(args[n]);
    const std::string &op = p[0];
    if (!out.empty()) { out += " "; }
    if (op == "a" && p.size() == 3)
    {
      int r = symbols->append(p[1].c_str(), (uint32_t)strtoull(p[2].c_str(), NULL, 0));
      snprintf(buf, sizeof(buf), "a%d", r); out += buf;
    }
    else if (op == "s" && p.size() == 3)
    {
      int r = symbols->set(p[1].c_str(), (uint32_t)strtoull(p[2].c_str(), NULL, 0));
      snprintf(buf, sizeof(buf), "s%d", r); out += buf;
    }
    else if (op == "e" && p.size() == 2)
    {
      int r = symbols->export_symbol(p[1].c_str());
      snprintf(buf, sizeof(buf), "e%d", r); out += buf;
    }
    else if (op == "l" && p.size() == 2)
    {
      uint32_t address = 0xdeadbeef;
      int r = symbols->lookup(p[1].c_str(), &address);
      snprintf(buf, sizeof(buf), "l%d:%x", r, address); out += buf;
    }
    else if (op == "f" && p.size() == 2)
    {
      Symbols::Entry *e = symbols->find(p[1].c_str());
      if (e == nullptr) { out += "f-"; }
      else
      {
        snprintf(buf, sizeof(buf), "f%x@%d%s%s", e->address, e->scope, e->flag_rw ? "w" : "",
          e->flag_export ? "!" : "");
        out += buf;
      }
    }
    else if (op == "S") { snprintf(buf, sizeof(buf), "S%d", symbols->scope_start()); out += buf; }
    else if (op == "E") { symbols->scope_end(); out += "E"; }
    else if (op == "R") { symbols->scope_reset(); out += "R"; }
    else if (op == "L") { symbols->lock(); out += "L"; }
    else if (op == "T" && p.size() == 2)
    {
      long cnt = strtol(p[1].c_str(), NULL, 0);
      for (long i = 0; i < cnt; i++) { symbols->scope_start(); symbols->scope_end(); }
      out += "T";
    }
    else if (op == "B" && p.size() == 5)
    {
      int cnt = atoi(p[2].c_str()), pad = atoi(p[3].c_str()), ok = 0;
      uint32_t base = (uint32_t)strtoull(p[4].c_str(), NULL, 0);
      for (int i = 0; i < cnt; i++)
      {
        if (symbols->append(sym_name(p[1], i, pad).c_str(), base + i) == 0) { ok++; }
      }
      snprintf(buf, sizeof(buf), "B%d", ok); out += buf;
    }
    else if (op == "I")
    {
      SymbolsIter iter;
      out += "I[";
      bool first = true;
      while (symbols->iterate(&iter) != -1)
      {
        if (!first) { out += ","; }
        first = false;
        out += iter.name;
        snprintf(buf, sizeof(buf), "=%x@%d%s", iter.address, iter.scope, iter.flag_export ? "!" : "");
        out += buf;
      }
      snprintf(buf, sizeof(buf), "]#%d", iter.count); out += buf;
    }
    else if (op == "C") { snprintf(buf, sizeof(buf), "C%d", symbols->count()); out += buf; }
    else if (op == "X") { snprintf(buf, sizeof(buf), "X%d", symbols->export_count()); out += buf; }
    else { out += "bad-op"; }
    capture_take();
  }
  delete symbols;
  return out.empty() ? "-" : out;
}

static std::string cmd_progd(const std::vector<std::string> &args)
{
  if (args.size() < 2) { return "bad-op"; }
  const std::string &opts = args[0];
  std::string source = unhex(args[1]);
  AsmContext *ctx = new AsmContext();
  ctx->quiet_output = 1;
  if (opts.find('o') != std::string::npos) { ctx->optimize = 1; }
  tokens_open_buffer(ctx, source.c_str());
  ctx->tokens.filename = "prog";
  ctx->init();
  int error_flag = ctx->assemble();
  std::string p1 = dump_symbols(ctx);
  do
  {
    if (error_flag == 0 && ctx->link() != 0) { error_flag = 1; }
    if (error_flag != 0) { break; }
    ctx->symbols.set_debug();
    ctx->symbols.scope_reset();
    ctx->pass = 2;
    ctx->init();
    error_flag = ctx->assemble();
    if (error_flag != 0) { break; }
    if (ctx->link() != 0) { error_flag = 1; break; }
  } while (0);
  std::string printed = capture_take();
  char head[256];
  snprintf(head, sizeof(head), "st=%d err=%d low=%x high=%x entry=%x bpa=%d end=%c ic=%d",
    error_flag == 0 ? 0 : 1, count_errors(printed), ctx->memory.low_address, ctx->memory.high_address,
    ctx->memory.entry_point, ctx->bytes_per_address, ctx->memory.endian == ENDIAN_BIG ? 'b' : 'l',
    ctx->instruction_count);
  std::string out = head;
  out += " img=" + dump_image(&ctx->memory, false);
  out += " dbg=" + dump_image(&ctx->memory, true);
  out += " syms=" + dump_symbols(ctx);
  out += " p1=" + p1;
  if (opts.find('L') != std::string::npos) { out += " lines=" + dump_lines(&ctx->memory); }
  delete ctx;
  return out;
}

static void register_sym()
{
  handlers["sym"] = cmd_sym;
  handlers["progd"] = cmd_progd;
}
