// mem <l|b> <op> <op> ...
//   Drives one real `Memory` object (core/Memory.cpp) with a sequence of operations:
//     w8:<addr>:<val>  w16:<addr>:<val>  w32:<addr>:<val>      Memory::write8/16/32
//     wd:<addr>:<val>:<line>                                   Memory::write(address, data, line)
//     wg:<addr>:<line>                                         Memory::write_debug
//     r8:<addr>  r16:<addr>  r32:<addr>  rd:<addr>             Memory::read8/16/32, read_debug
//     e:<l|b>                                                  memory.endian = ...
//   all numbers hexadecimal (line: 32-bit two's complement).
//   -> r=<hex>,<hex>,... low=<hex> high=<hex> pages=<n> pg=<addr>:<min>:<max>;...
//   r lists the results of the read operations in order ('-' when there were none); pg lists the pages in
//   list order with their offset_min/offset_max.
static std::string cmd_mem(const std::vector<std::string> &args)
{
  if (args.size() < 1) { return "bad-op"; }
  Memory *memory = new Memory();
  memory->endian = args[0] == "b" ? ENDIAN_BIG : ENDIAN_LITTLE;
  std::string reads;
  char buf[64];
  for (size_t i = 1; i < args.size(); i++)
  {
    const std::string &op = args[i];
    std::vector<std::string> f;
    size_t pos = 0;
    while (true)
    {
      size_t c = op.find(':', pos);
      if (c == std::string::npos) { f.push_back(op.substr(pos)); break; }
      f.push_back(op.substr(pos, c - pos));
      pos = c + 1;
    }
    uint32_t v[3] = { 0, 0, 0 };
    for (size_t k = 1; k < f.size() && k < 4; k++) { v[k - 1] = (uint32_t)strtoull(f[k].c_str(), NULL, 16); }
    bool is_read = false;
    uint32_t r = 0;
    if (f[0] == "w8" && f.size() == 3) { memory->write8(v[0], (uint8_t)v[1]); }
    else if (f[0] == "w16" && f.size() == 3) { memory->write16(v[0], (uint16_t)v[1]); }
    else if (f[0] == "w32" && f.size() == 3) { memory->write32(v[0], v[1]); }
    else if (f[0] == "wd" && f.size() == 4) { memory->write(v[0], (uint8_t)v[1], (int)v[2]); }
    else if (f[0] == "wg" && f.size() == 3) { memory->write_debug(v[0], (int)v[1]); }
    else if (f[0] == "r8" && f.size() == 2) { r = memory->read8(v[0]); is_read = true; }
    else if (f[0] == "r16" && f.size() == 2) { r = memory->read16(v[0]); is_read = true; }
    else if (f[0] == "r32" && f.size() == 2) { r = memory->read32(v[0]); is_read = true; }
    else if (f[0] == "rd" && f.size() == 2) { r = (uint32_t)memory->read_debug(v[0]); is_read = true; }
    else if (f[0] == "e" && f.size() == 2) { memory->endian = f[1] == "b" ? ENDIAN_BIG : ENDIAN_LITTLE; }
    else { delete memory; return "bad-op"; }
    if (is_read)
    {
      snprintf(buf, sizeof(buf), "%s%x", reads.empty() ? "" : ",", r);
      reads += buf;
    }
  }
  std::string out = "r=" + (reads.empty() ? std::string("-") : reads);
  int count = 0;
  std::string pg;
  for (MemoryPage *p = memory->pages; p != nullptr; p = p->next)
  {
    snprintf(buf, sizeof(buf), "%s%x:%x:%x", count == 0 ? "" : ";", p->address, p->offset_min, p->offset_max);
    pg += buf;
    count++;
  }
  snprintf(buf, sizeof(buf), " low=%x high=%x pages=%d pg=", memory->low_address, memory->high_address, count);
  out += buf;
  out += pg.empty() ? "-" : pg;
  delete memory;
  return out;
}

static void register_mem()
{
  handlers["mem"] = cmd_mem;
}
