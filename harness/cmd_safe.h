// C17: the real object file readers and the naken_util command layer, in-process, for the safety property.
//
// srd <fmt|auto> <ext|-> <file hex> <start hex> <maxoff hex>
//   writes the bytes to /tmp/nvsrXXXXXX.<ext> and calls the real file_read() on a fresh UtilContext
//   (what naken_util does).  fmt = hex bin elf srec wdc amiga ti_txt macho uf2 | auto (get_file_type() decides).
//   maxoff is for the model only (largest offset fseek accepts here, see `seekmax`).
//   -> ret=<n> type=<name> low=<hex> high=<hex> nz=<addr:hexbytes;...> syms=<hex(name)=value,...>
// seekmax
//   -> largest offset fseek(SEEK_SET) accepts on a file in /tmp (hex)
// sname <file name hex|->
//   file_read(name, FILE_TYPE_AUTO) with the name in a heap block of exactly strlen+1 bytes -> ret=<n>

static std::string cmd_srd(const std::vector<std::string> &args)
{
  if (args.size() < 4) { return "bad-op"; }
  int file_type = args[0] == "ti_txt" ? FILE_TYPE_TI_TXT : fileio_type_of(args[0]);
  if (file_type == -100) { return "bad-op"; }
  std::string data = unhex(args[2]);
  uint32_t start_address = (uint32_t)strtoull(args[3].c_str(), NULL, 16);

  char base[] = "/tmp/nvsrXXXXXX";
  int fd = mkstemp(base);
  if (fd < 0) { return "bad-tmp"; }
  close(fd);
  unlink(base);
  std::string path = std::string(base) + "." + (args[1] == "-" ? "dat" : args[1]);
  FILE *f = fopen(path.c_str(), "wb");
  if (f == NULL) { return "bad-tmp"; }
  fwrite(data.data(), 1, data.size(), f);
  fclose(f);

  UtilContext *util = new UtilContext();
  int ret = file_read(path.c_str(), util, &file_type, NULL, start_address);
  unlink(path.c_str());
  capture_take();

  char head[256];
  snprintf(head, sizeof(head), "ret=%d type=%s low=%x high=%x",
    ret, file_get_file_type_name(file_type), util->memory.low_address, util->memory.high_address);
  std::string out = head;
  out += " nz=" + dump_nonzero(&util->memory);
  {
    SymbolsIter iter;
    std::string s;
    char buf[32];
    while (util->symbols.iterate(&iter) != -1)
    {
      if (!s.empty()) { s += ","; }
      s += tohex(iter.name);
      snprintf(buf, sizeof(buf), "=%x", iter.address);
      s += buf;
    }
    out += " syms=" + (s.empty() ? std::string("-") : s);
  }
  delete util;
  return out;
}

static std::string cmd_seekmax(const std::vector<std::string> &args)
{
  char base[] = "/tmp/nvskXXXXXX";
  int fd = mkstemp(base);
  if (fd < 0) { return "bad-tmp"; }
  FILE *f = fdopen(fd, "rb");
  unlink(base);
  if (f == NULL) { return "bad-tmp"; }
  uint64_t lo = 0, hi = 0x7fffffffffffffffULL;      // lo accepted, find the largest accepted
  if (fseek(f, (long)hi, SEEK_SET) == 0) { lo = hi; }
  while (lo < hi)
  {
    uint64_t mid = lo + (hi - lo + 1) / 2;
    if (fseek(f, (long)mid, SEEK_SET) == 0) { lo = mid; } else { hi = mid - 1; }
  }
  fclose(f);
  char buf[32];
  snprintf(buf, sizeof(buf), "%llx", (unsigned long long)lo);
  return buf;
}

static std::string cmd_sname(const std::vector<std::string> &args)
{
  if (args.size() < 1) { return "bad-op"; }
  std::string name = unhex(args[0]);
  name = name.substr(0, strlen(name.c_str()));
  // a block of exactly strlen + 1 bytes, so that reading before or after the string is seen by ASan
  char *heap = (char *)malloc(name.size() + 1);
  memcpy(heap, name.c_str(), name.size() + 1);
  int file_type = FILE_TYPE_AUTO;
  UtilContext *util = new UtilContext();
  int ret = file_read(heap, util, &file_type, NULL, 0);
  capture_take();
  delete util;
  free(heap);
  char buf[64];
  snprintf(buf, sizeof(buf), "ret=%d", ret);
  return buf;
}

// ---- command layer -----------------------------------------------------------------------------------------
// snum <hex>                                     -> null | off=<k> num=<hex>
// saddr <cpu> <syms> <hex>                       -> null addr=<hex> | off=<k> addr=<hex>
// srange <cpu> <syms> <high hex> <hex>           -> ret=-1 | ret=0 start=<hex> end=<hex>
// swrite <8|16|32> <cpu> <syms> <hex>            -> bad-address | not-aligned | count=<n> first=<hex> nz=<dump>
// sprint <8|16|32> <cpu> <syms> <high hex> <hex> -> none | items=<n> lines=<n> first=<hex> last=<hex>
// swalk <cpu> <cells> <start hex> <end hex>      -> r=<min>-<max>,...    (arguments of the disasm_range calls)
// svalid <command hex> <arg hex>                 -> ok | no-arg | need-arg | unknown
// The string is handed over in a heap block of exactly strlen + 1 bytes (ASan sees a read past the NUL).

#include <string>
#include "common/String.h"
#include "core/AsmContext.h"
#include "core/UtilContext.h"
#include "core/version.h"
#include "fileio/file.h"
namespace nsafe
{
#define main naken_util_main
#include "main/naken_util.cpp"
#undef main
}

static char *safe_heap_str(const std::string &hex)
{
  std::string v = unhex(hex);
  size_t n = strlen(v.c_str());
  char *p = (char *)malloc(n + 1);
  memcpy(p, v.c_str(), n);
  p[n] = 0;
  return p;
}

static UtilContext *safe_util(const std::string &cpu, const std::string &syms)
{
  UtilContext *util = new UtilContext();
  util->set_cpu_by_name(cpu.c_str());
  if (syms != "-")
  {
    size_t pos = 0;
    while (pos < syms.size())
    {
      size_t end = syms.find(',', pos);
      if (end == std::string::npos) { end = syms.size(); }
      std::string kv = syms.substr(pos, end - pos);
      size_t eq = kv.find('=');
      if (eq != std::string::npos)
      {
        util->symbols.append(unhex(kv.substr(0, eq)).c_str(), (uint32_t)strtoull(kv.substr(eq + 1).c_str(), NULL, 16));
      }
      pos = end + 1;
    }
  }
  capture_take();
  return util;
}

static std::string cmd_snum(const std::vector<std::string> &args)
{
  if (args.size() != 1) { return "bad-op"; }
  char *s = safe_heap_str(args[0]);
  uint32_t num = 0x5a5a5a5a;
  const char *r = UtilContext::get_num(s, &num);
  char buf[64];
  if (r == nullptr) { snprintf(buf, sizeof(buf), "null"); }
  else { snprintf(buf, sizeof(buf), "off=%ld num=%x", (long)(r - s), num); }
  free(s);
  return buf;
}

static std::string cmd_saddr(const std::vector<std::string> &args)
{
  if (args.size() != 3) { return "bad-op"; }
  UtilContext *util = safe_util(args[0], args[1]);
  char *s = safe_heap_str(args[2]);
  uint32_t a = 0x5a5a5a5a;
  const char *r = util->get_address(s, &a);
  char buf[64];
  if (r == nullptr) { snprintf(buf, sizeof(buf), "null addr=%x", a); }
  else { snprintf(buf, sizeof(buf), "off=%ld addr=%x", (long)(r - s), a); }
  free(s);
  delete util;
  return buf;
}

static std::string cmd_srange(const std::vector<std::string> &args)
{
  if (args.size() != 4) { return "bad-op"; }
  UtilContext *util = safe_util(args[0], args[1]);
  util->memory.high_address = (uint32_t)strtoull(args[2].c_str(), NULL, 16);
  char *s = safe_heap_str(args[3]);
  uint32_t a = 0, b = 0;
  int r = util->get_range(s, &a, &b);
  char buf[96];
  if (r != 0) { snprintf(buf, sizeof(buf), "ret=-1"); }
  else { snprintf(buf, sizeof(buf), "ret=0 start=%x end=%x", a, b); }
  free(s);
  delete util;
  return buf;
}

static std::string cmd_swrite(const std::vector<std::string> &args)
{
  if (args.size() != 4) { return "bad-op"; }
  UtilContext *util = safe_util(args[1], args[2]);
  char *s = safe_heap_str(args[3]);
  if (args[0] == "8") { util->write8(s); } else if (args[0] == "16") { util->write16(s); } else { util->write32(s); }
  std::string out = capture_take();
  free(s);
  std::string res;
  if (out.find("bad address") != std::string::npos) { res = "bad-address"; }
  else if (out.find("aligned") != std::string::npos) { res = "not-aligned"; }
  else
  {
    int count = -1;
    unsigned first = 0;
    const char *w = strstr(out.c_str(), "Wrote ");
    if (w != NULL) { count = atoi(w + 6); }
    const char *x = strstr(out.c_str(), "address 0x");
    if (x != NULL) { first = (unsigned)strtoul(x + 10, NULL, 16); }
    char buf[64];
    // first = what the message prints: address / bytes_per_address
    snprintf(buf, sizeof(buf), "count=%d first=%x", count, first);
    res = std::string(buf) + " nz=" + dump_nonzero(&util->memory);
  }
  delete util;
  return res;
}

static std::string cmd_sprint(const std::vector<std::string> &args)
{
  if (args.size() != 5) { return "bad-op"; }
  UtilContext *util = safe_util(args[1], args[2]);
  util->memory.high_address = (uint32_t)strtoull(args[3].c_str(), NULL, 16);
  char *s = safe_heap_str(args[4]);
  if (args[0] == "8") { util->print8(s); } else if (args[0] == "16") { util->print16(s); } else { util->print32(s); }
  std::string out = capture_take();
  free(s);
  delete util;
  // lines "0x<addr>: <items...> <chars>"; the memory is empty, so the character column is dots only
  size_t digits = args[0] == "8" ? 2 : args[0] == "16" ? 4 : 8;
  long items = 0, lines = 0;
  std::string first = "-", last = "-";
  size_t pos = 0;
  while (pos < out.size())
  {
    size_t nl = out.find('\n', pos);
    if (nl == std::string::npos) { nl = out.size(); }
    std::string line = out.substr(pos, nl - pos);
    pos = nl + 1;
    if (line.compare(0, 2, "0x") != 0) { continue; }
    size_t colon = line.find(':');
    if (colon == std::string::npos) { continue; }
    lines++;
    char buf[32];
    snprintf(buf, sizeof(buf), "%lx", strtoul(line.substr(2, colon - 2).c_str(), NULL, 16));
    if (first == "-") { first = buf; }
    last = buf;
    std::vector<std::string> toks = split(line.substr(colon + 1));
    for (const std::string &t : toks)
    {
      if (t.size() == digits && t.find_first_not_of("0123456789abcdef") == std::string::npos) { items++; }
    }
  }
  if (lines == 0) { return "none"; }
  char buf[128];
  snprintf(buf, sizeof(buf), "items=%ld lines=%ld first=%s last=%s", items, lines, first.c_str(), last.c_str());
  return buf;
}

static std::string safe_walk_record;
static void safe_walk_recorder(Memory *memory, uint32_t flags, uint32_t start, uint32_t end)
{
  char buf[64];
  snprintf(buf, sizeof(buf), "%s%x-%x", safe_walk_record.empty() ? "" : ",", start, end);
  safe_walk_record += buf;
}

static std::string cmd_swalk(const std::vector<std::string> &args)
{
  if (args.size() != 4) { return "bad-op"; }
  UtilContext *util = safe_util(args[0], "-");
  if (args[1] != "-")
  {
    const std::string &cells = args[1];
    size_t pos = 0;
    while (pos < cells.size())
    {
      size_t end = cells.find(';', pos);
      if (end == std::string::npos) { end = cells.size(); }
      std::string seg = cells.substr(pos, end - pos);
      size_t colon = seg.find(':');
      if (colon != std::string::npos)
      {
        uint32_t addr = (uint32_t)strtoull(seg.substr(0, colon).c_str(), NULL, 16);
        for (unsigned char c : unhex(seg.substr(colon + 1))) { util->memory.write8(addr++, c); }
      }
      pos = end + 1;
    }
  }
  safe_walk_record.clear();
  util->disasm_range = safe_walk_recorder;
  util->disasm((uint32_t)strtoull(args[2].c_str(), NULL, 16), (uint32_t)strtoull(args[3].c_str(), NULL, 16));
  capture_take();
  delete util;
  return "r=" + (safe_walk_record.empty() ? std::string("-") : safe_walk_record);
}

static std::string cmd_svalid(const std::vector<std::string> &args)
{
  if (args.size() != 2) { return "bad-op"; }
  char *c = safe_heap_str(args[0]);
  char *a = safe_heap_str(args[1]);
  String command(c);
  String arg(a);
  bool ok = nsafe::is_command_valid(command, arg);
  std::string out = capture_take();
  free(c);
  free(a);
  if (ok) { return "ok"; }
  if (out.find("doesn't take an argument") != std::string::npos) { return "no-arg"; }
  if (out.find("requires argument") != std::string::npos) { return "need-arg"; }
  return "unknown";
}

static void register_safe()
{
  handlers["snum"] = cmd_snum;
  handlers["saddr"] = cmd_saddr;
  handlers["srange"] = cmd_srange;
  handlers["swrite"] = cmd_swrite;
  handlers["sprint"] = cmd_sprint;
  handlers["swalk"] = cmd_swalk;
  handlers["svalid"] = cmd_svalid;
  handlers["srd"] = cmd_srd;
  handlers["seekmax"] = cmd_seekmax;
  handlers["sname"] = cmd_sname;
}
