// C17: the real object file readers and the naken_util command layer, in-process, for the safety property.
//
// srd <fmt|auto> <ext|-> <file hex> <start hex> <maxoff hex>
//   writes the bytes to /tmp/nvsrXXXXXX.<ext> and calls the real file_read() on a fresh UtilContext
//   (what naken_util does).  fmt = hex bin elf srec wdc amiga ti_txt macho uf2 | auto (get_file_type() decides).
//   maxoff is for the model only (largest offset fseek accepts here, see `seekmax`).
//   -> ret=<n> type=<name> low=<hex> high=<hex> nz=<addr:hexbytes;...> syms=<hex(name)=value,...>
// seekmax
//   -> largest offset fseek(SEEK_SET) accepts on a file in /tmp (hex)
// sname <file name hex|->
//   file_read(name, FILE_TYPE_AUTO) with the name in a heap block of exactly strlen+1 bytes -> ret=<n>

static std::string cmd_srd(const std::vector<std::string> &args)
{
  if (args.size() < 4) { return "bad-op"; }
  int file_type = args[0] == "ti_txt" ? FILE_TYPE_TI_TXT : fileio_type_of(args[0]);
  if (file_type == -100) { return "bad-op"; }
  std::string data = unhex(args[2]);
  uint32_t start_address = (uint32_t)strtoull(args[3].c_str(), NULL, 16);

  char base[] = "/tmp/nvsrXXXXXX";
  int fd = mkstemp(base);
  if (fd < 0) { return "bad-tmp"; }
  close(fd);
  unlink(base);
  std::string path = std::string(base) + "." + (args[1] == "-" ? "dat" : args[1]);
  FILE *f = fopen(path.c_str(), "wb");
  if (f == NULL) { return "bad-tmp"; }
  fwrite(data.data(), 1, data.size(), f);
  fclose(f);

  UtilContext *util = new UtilContext();
  int ret = file_read(path.c_str(), util, &file_type, NULL, start_address);
  unlink(path.c_str());
  capture_take();

  char head[256];
  snprintf(head, sizeof(head), "ret=%d type=%s low=%x high=%x",
    ret, file_get_file_type_name(file_type), util->memory.low_address, util->memory.high_address);
  std::string out = head;
  out += " nz=" + dump_nonzero(&util->memory);
  {
    SymbolsIter iter;
    std::string s;
    char buf[32];
    while (util->symbols.iterate(&iter) != -1)
    {
      if (!s.empty()) { s += ","; }
      s += tohex(iter.name);
      snprintf(buf, sizeof(buf), "=%x", iter.address);
      s += buf;
    }
    out += " syms=" + (s.empty() ? std::string("-") : s);
  }
  delete util;
  return out;
}

static std::string cmd_seekmax(const std::vector<std::string> &args)
{
  char base[] = "/tmp/nvskXXXXXX";
  int fd = mkstemp(base);
  if (fd < 0) { return "bad-tmp"; }
  FILE *f = fdopen(fd, "rb");
  unlink(base);
  if (f == NULL) { return "bad-tmp"; }
  uint64_t lo = 0, hi = 0x7fffffffffffffffULL;      // lo accepted, find the largest accepted
  if (fseek(f, (long)hi, SEEK_SET) == 0) { lo = hi; }
  while (lo < hi)
  {
    uint64_t mid = lo + (hi - lo + 1) / 2;
    if (fseek(f, (long)mid, SEEK_SET) == 0) { lo = mid; } else { hi = mid - 1; }
  }
  fclose(f);
  char buf[32];
  snprintf(buf, sizeof(buf), "%llx", (unsigned long long)lo);
  return buf;
}

static std::string cmd_sname(const std::vector<std::string> &args)
{
  if (args.size() < 1) { return "bad-op"; }
  std::string name = unhex(args[0]);
  name = name.substr(0, strlen(name.c_str()));
  // a block of exactly strlen + 1 bytes, so that reading before or after the string is seen by ASan
  char *heap = (char *)malloc(name.size() + 1);
  memcpy(heap, name.c_str(), name.size() + 1);
  int file_type = FILE_TYPE_AUTO;
  UtilContext *util = new UtilContext();
  int ret = file_read(heap, util, &file_type, NULL, 0);
  capture_take();
  delete util;
  free(heap);
  char buf[64];
  snprintf(buf, sizeof(buf), "ret=%d", ret);
  return buf;
}

static void register_safe()
{
  handlers["srd"] = cmd_srd;
  handlers["seekmax"] = cmd_seekmax;
  handlers["sname"] = cmd_sname;
}
