// Listing commands (C18).
//
// lstiso <cpu> <addr hex> <hex bytes>
//     A fresh AsmContext for <cpu> (cpu_list: byte order, flags, list_output), a Memory that holds ONLY the given
//     bytes at <addr>, and one call of the CPU's real list_output(asm_context, addr, addr + n) with the list file
//     captured.  -> hex of the text it wrote ("-" if nothing), "bad-op" for an unknown CPU.
//     Used by the oracle: a listing line's text must be what the formatter prints for exactly the bytes shown on
//     it, so whatever the disassembler read beyond them (zero here) must not matter.
// lstmarks <opts> <hex source> [<hex include-file-name> <hex include-file-content>]...
//     two-pass assembly as `prog`; -> st=<0|1> marks=<addr:v,v,v;...> where v is the raw debug_line value of every
//     address whose marker is not DL_EMPTY (decimal, runs grouped) -- the per-address marks of the listing model.
#ifndef NV_CMD_LISTING_H
#define NV_CMD_LISTING_H

static std::string cmd_lstiso(const std::vector<std::string> &args)
{
  if (args.size() != 3) { return "bad-op"; }
  uint32_t addr = (uint32_t)strtoul(args[1].c_str(), NULL, 16);
  std::string bytes = unhex(args[2]);
  AsmContext *ctx = new AsmContext();
  ctx->quiet_output = 1;
  if (ctx->set_cpu(args[0].c_str()) != 0) { delete ctx; return "bad-op"; }
  for (size_t i = 0; i < bytes.size(); i++)
  {
    ctx->memory.write8(addr + (uint32_t)i, (uint8_t)bytes[i]);
  }
  char *buf = NULL;
  size_t len = 0;
  FILE *f = open_memstream(&buf, &len);
  if (f == NULL) { delete ctx; return "bad-op"; }
  ctx->list = f;
  ctx->write_list_file = 1;
  ctx->pass = 2;
  ctx->list_output(ctx, addr, addr + (uint32_t)bytes.size());
  fflush(f);
  std::string out(buf, len);
  fclose(f);
  free(buf);
  ctx->list = NULL;
  delete ctx;
  return tohex(out);
}

static std::string dump_marks(Memory *memory)
{
  std::vector<MemoryPage *> pages;
  for (MemoryPage *p = memory->pages; p != nullptr; p = p->next) { pages.push_back(p); }
  std::sort(pages.begin(), pages.end(), [](MemoryPage *a, MemoryPage *b) { return a->address < b->address; });
  std::string out;
  char buf[40];
  bool open = false;
  uint64_t next = 0;
  for (MemoryPage *p : pages)
  {
    for (uint32_t off = 0; off < PAGE_SIZE; off++)
    {
      int dl = p->debug_line[off];
      if (dl == DL_EMPTY) { open = false; continue; }
      uint64_t a = (uint64_t)p->address + off;
      if (!open || a != next)
      {
        if (!out.empty()) { out += ";"; }
        snprintf(buf, sizeof(buf), "%llx:", (unsigned long long)a);
        out += buf;
        open = true;
      }
      else
      {
        out += ",";
      }
      snprintf(buf, sizeof(buf), "%d", dl);
      out += buf;
      next = a + 1;
    }
  }
  return out.empty() ? "-" : out;
}

static std::string cmd_lstmarks(const std::vector<std::string> &args)
{
  if (args.size() < 2) { return "bad-op"; }
  const std::string &opts = args[0];
  std::string source = unhex(args[1]);
  char dir[] = "/tmp/nvlstXXXXXX";
  bool have_dir = false;
  std::vector<std::string> files;
  if (args.size() > 2)
  {
    if (mkdtemp(dir) == NULL) { return "bad-op"; }
    have_dir = true;
    for (size_t i = 2; i + 1 < args.size(); i += 2)
    {
      std::string path = std::string(dir) + "/" + unhex(args[i]);
      FILE *f = fopen(path.c_str(), "wb");
      if (f != NULL)
      {
        std::string c = unhex(args[i + 1]);
        fwrite(c.data(), 1, c.size(), f);
        fclose(f);
        files.push_back(path);
      }
    }
  }
  AsmContext *ctx = new AsmContext();
  ctx->quiet_output = 1;
  if (opts.find('o') != std::string::npos) { ctx->optimize = 1; }
  if (have_dir) { include_add_path(ctx, dir); }
  FILE *src_fp = tmpfile();
  if (src_fp == NULL) { delete ctx; return "bad-op"; }
  fwrite(source.data(), 1, source.size(), src_fp);
  fflush(src_fp);
  fseek(src_fp, 0, SEEK_SET);
  ctx->tokens.in = src_fp;
  ctx->tokens.filename = "lstmarks";
  ctx->init();
  int error_flag = ctx->assemble();
  do
  {
    if (error_flag == 0 && ctx->link() != 0) { error_flag = 1; }
    if (error_flag != 0) { break; }
    ctx->symbols.lock();
    ctx->symbols.scope_reset();
    ctx->pass = 2;
    ctx->init();
    error_flag = ctx->assemble();
    if (error_flag != 0) { break; }
    if (ctx->link() != 0) { error_flag = 1; break; }
  } while (0);
  std::string printed = capture_take();
  char head[64];
  snprintf(head, sizeof(head), "st=%d err=%d", error_flag == 0 ? 0 : 1, count_errors(printed));
  std::string out = head;
  out += " marks=" + dump_marks(&ctx->memory);
  if (ctx->tokens.in != NULL) { fclose(ctx->tokens.in); ctx->tokens.in = NULL; }
  delete ctx;
  for (auto &f : files) { unlink(f.c_str()); }
  if (have_dir) { rmdir(dir); }
  return out;
}

static void register_listing()
{
  handlers["lstiso"] = cmd_lstiso;
  handlers["lstmarks"] = cmd_lstmarks;
}

#endif
