// Listing commands (C18).
//
// lstiso <cpu> <addr hex> <hex bytes>
//     A fresh AsmContext for <cpu> (cpu_list: byte order, flags, list_output), a Memory that holds ONLY the given
//     bytes at <addr>, and one call of the CPU's real list_output(asm_context, addr, addr + n) with the list file
//     captured.  -> hex of the text it wrote ("-" if nothing), "bad-op" for an unknown CPU.
//     Used by the oracle: a listing line's text must be what the formatter prints for exactly the bytes shown on
//     it, so whatever the disassembler read beyond them (zero here) must not matter.
#ifndef NV_CMD_LISTING_H
#define NV_CMD_LISTING_H

static std::string cmd_lstiso(const std::vector<std::string> &args)
{
  if (args.size() != 3) { return "bad-op"; }
  uint32_t addr = (uint32_t)strtoul(args[1].c_str(), NULL, 16);
  std::string bytes = unhex(args[2]);
  AsmContext *ctx = new AsmContext();
  ctx->quiet_output = 1;
  if (ctx->set_cpu(args[0].c_str()) != 0) { delete ctx; return "bad-op"; }
  for (size_t i = 0; i < bytes.size(); i++)
  {
    ctx->memory.write8(addr + (uint32_t)i, (uint8_t)bytes[i]);
  }
  char *buf = NULL;
  size_t len = 0;
  FILE *f = open_memstream(&buf, &len);
  if (f == NULL) { delete ctx; return "bad-op"; }
  ctx->list = f;
  ctx->write_list_file = 1;
  ctx->pass = 2;
  ctx->list_output(ctx, addr, addr + (uint32_t)bytes.size());
  fflush(f);
  std::string out(buf, len);
  fclose(f);
  free(buf);
  ctx->list = NULL;
  delete ctx;
  return tohex(out);
}

static void register_listing()
{
  handlers["lstiso"] = cmd_lstiso;
}

#endif
