// C13 — assembly is a function of the source alone.
//
// prog13 <flags> <fill hex byte> <hex source> <hex prior source | -> [<hex include-name> <hex include-content>]...
//   In-process assembly exactly as main() of naken_asm.cpp does it (constructor, options, init(), pass 1, lock,
//   pass = 2, init(), write_list_file, pass 2, data-section dump, print_info), with the history / dirt named by
//   the flag letters ('-' = none):
//     l  -l            : asm_context.list = a scratch FILE, write_list_file = 1 in pass 2, listing tail written
//     v  not -q        : quiet_output = 0 (the default of naken_asm; without the letter -q is in effect)
//     s  -dump_symbols   m  -dump_macros
//     d  dirt          : the AsmContext is constructed (placement new) in a buffer filled with <fill>, the stack below
//                        the call is filled with <fill> first (members / locals nobody initialises keep that value)
//     p  prior         : <prior source> is assembled completely in its own AsmContext first, in the same process
//     t  track         : between the passes every image mark (debug_line) is replaced by a sentinel; cells that still
//                        carry it after pass 2 were not written by pass 2 -> reported as left=<runs>; marks restored
//     x  scrub         : between the passes every byte marked DL_DATA (output of a data directive; never one of the
//                        pass-1 flag bytes of the instruction parsers, which are marked with a line number, with
//                        DL_NO_CG (6800: the placeholder bytes are the flag) or not at all) is replaced by <fill>
//   -> the line of `prog` (st= err= low= high= entry= bpa= end= ic= img= dbg= syms=) + cnt=<data>,<code> lst=<fnv of the
//      listing | -> out=<fnv of what was printed> [left=<addr+len;...>]
//
// util13 <cpu> <org hex> <hex source> : assemble_code() of main/naken_util.cpp, statement by statement
//   -> st=<0|1|2> org=<next org> img=<cells copied into the UtilContext-style memory>
#include <new>

static uint64_t fnv1a(const std::string &s)
{
  uint64_t h = 1469598103934665603ULL;
  for (unsigned char c : s) { h ^= c; h *= 1099511628211ULL; }
  return h;
}

static std::string slurp(FILE *f)
{
  std::string s;
  if (f == NULL) { return s; }
  fflush(f);
  long end = ftell(f);
  if (end <= 0) { return s; }
  s.resize(end);
  fseek(f, 0, SEEK_SET);
  size_t r = fread(&s[0], 1, end, f);
  s.resize(r);
  fseek(f, end, SEEK_SET);
  return s;
}

static __attribute__((noinline)) void dirty_stack(int fill)
{
  volatile char buf[256 * 1024];
  for (size_t i = 0; i < sizeof(buf); i++) { buf[i] = (char)fill; }
}

#define DET_SENTINEL (-77)

struct DetOptions
{
  bool list, verbose, dump_symbols, dump_macros, dirt, track, scrub;
  int fill;
};

// one complete assembly as main() performs it; returns the answer line
static std::string det_assemble(const DetOptions &o, const std::string &source, const char *incdir)
{
  void *raw = NULL;
  AsmContext *ctx;
  if (o.dirt)
  {
    dirty_stack(o.fill);
    raw = aligned_alloc(alignof(AsmContext) < 16 ? 16 : alignof(AsmContext), (sizeof(AsmContext) + 63) / 64 * 64);
    memset(raw, o.fill, sizeof(AsmContext));
    ctx = new (raw) AsmContext();
  }
  else
  {
    ctx = new AsmContext();
  }
  // option parsing of main()
  ctx->quiet_output = o.verbose ? 0 : 1;
  if (o.dump_symbols) { ctx->dump_symbols = 1; }
  if (o.dump_macros) { ctx->dump_macros = 1; }
  if (incdir != NULL) { include_add_path(ctx, incdir); }
  include_add_path(ctx, "include");
  FILE *src_fp = tmpfile();
  if (src_fp == NULL) { return "bad-op"; }
  fwrite(source.data(), 1, source.size(), src_fp);
  fflush(src_fp);
  fseek(src_fp, 0, SEEK_SET);
  ctx->tokens.in = src_fp;
  ctx->tokens.filename = "prog";
  if (o.list) { ctx->list = tmpfile(); }
  if (ctx->quiet_output == 0) { printf("\nPass 1...\n"); }

  ctx->init();
  int error_flag = ctx->assemble();
  std::string left;
  do
  {
    if (error_flag == 0 && ctx->link() != 0) { error_flag = 1; }
    if (error_flag != 0) { printf("** Errors... bailing out\n"); break; }

    std::vector<std::pair<int *, int>> saved;
    if (o.track || o.scrub)
    {
      for (MemoryPage *p = ctx->memory.pages; p != nullptr; p = p->next)
      {
        for (uint32_t off = 0; off < PAGE_SIZE; off++)
        {
          int dl = p->debug_line[off];
          if (o.scrub && dl == DL_DATA) { p->bin[off] = (uint8_t)o.fill; }
          if (o.track && dl != DL_EMPTY)
          {
            saved.push_back(std::make_pair(&p->debug_line[off], dl));
            p->debug_line[off] = DET_SENTINEL;
          }
        }
      }
    }

    ctx->symbols.lock();
    ctx->symbols.scope_reset();
    if (ctx->quiet_output == 0) { printf("Pass 2...\n"); }
    ctx->pass = 2;
    ctx->init();
    if (o.list) { ctx->write_list_file = 1; }
    error_flag = ctx->assemble();

    if (o.track)
    {
      // cells pass 2 did not write still carry the sentinel
      char buf[48];
      std::vector<std::pair<uint64_t, int>> cells;
      for (MemoryPage *p = ctx->memory.pages; p != nullptr; p = p->next)
      {
        for (uint32_t off = 0; off < PAGE_SIZE; off++)
        {
          if (p->debug_line[off] == DET_SENTINEL) { cells.push_back(std::make_pair((uint64_t)p->address + off, 0)); }
        }
      }
      for (auto &s : saved) { if (*s.first == DET_SENTINEL) { *s.first = s.second; } }
      std::sort(cells.begin(), cells.end());
      size_t i = 0;
      while (i < cells.size())
      {
        size_t j = i;
        while (j + 1 < cells.size() && cells[j + 1].first == cells[j].first + 1) { j++; }
        snprintf(buf, sizeof(buf), "%s%llx+%zu", left.empty() ? "" : ";", (unsigned long long)cells[i].first, j - i + 1);
        left += buf;
        i = j + 1;
      }
      if (left.empty()) { left = "-"; }
    }
    if (error_flag != 0) { break; }
    if (ctx->link() != 0) { error_flag = 1; break; }
  } while (0);

  if (o.list)
  {
    // the "data sections:" dump of main(): reads the image only
    fprintf(ctx->list, "data sections:");
    int ch = 0;
    if (ctx->memory.low_address <= ctx->memory.high_address &&
        ctx->memory.high_address - ctx->memory.low_address < (1u << 22))
    {
      for (uint64_t i = ctx->memory.low_address; i <= ctx->memory.high_address; i++)
      {
        if (ctx->read_debug((uint32_t)i) == -2)
        {
          if (ch == 0) { fprintf(ctx->list, "\n%04x:", (uint32_t)i / ctx->bytes_per_address); }
          fprintf(ctx->list, " %02x", ctx->memory_read((uint32_t)i));
          ch++;
          if (ch == 16) { ch = 0; }
        }
        else { ch = 0; }
      }
    }
    fprintf(ctx->list, "\n\n");
    ctx->print_info(ctx->list);
  }
  ctx->print_info(stdout);
  if (error_flag != 0) { printf("*** Failed ***\n\n"); }

  std::string printed = capture_take();
  std::string listing = o.list ? slurp(ctx->list) : std::string();
  if (incdir != NULL)
  {
    // the scratch directory of the include files has a random name: keep it out of the hashes
    for (std::string *t : { &printed, &listing })
    {
      size_t pos;
      while ((pos = t->find(incdir)) != std::string::npos) { t->replace(pos, strlen(incdir), "INCDIR"); }
    }
  }
  char head[320];
  snprintf(head, sizeof(head), "st=%d err=%d low=%x high=%x entry=%x bpa=%d end=%c ic=%d",
    error_flag == 0 ? 0 : 1, count_errors(printed), ctx->memory.low_address, ctx->memory.high_address,
    ctx->memory.entry_point, ctx->bytes_per_address, ctx->memory.endian == ENDIAN_BIG ? 'b' : 'l',
    ctx->instruction_count);
  std::string out = head;
  out += " img=" + dump_image(&ctx->memory, false);
  out += " dbg=" + dump_image(&ctx->memory, true);
  out += " syms=" + dump_symbols(ctx);
  snprintf(head, sizeof(head), " cnt=%d,%d lst=", ctx->data_count, ctx->code_count);
  out += head;
  if (o.list) { snprintf(head, sizeof(head), "%016llx", (unsigned long long)fnv1a(listing)); out += head; }
  else { out += "-"; }
  snprintf(head, sizeof(head), " out=%016llx", (unsigned long long)fnv1a(printed));
  out += head;
  if (o.track) { out += " left=" + left; }

  if (ctx->list != NULL) { fclose(ctx->list); ctx->list = NULL; }
  if (ctx->tokens.in != NULL) { fclose(ctx->tokens.in); ctx->tokens.in = NULL; }
  if (raw != NULL) { ctx->~AsmContext(); free(raw); }
  else { delete ctx; }
  return out;
}

static std::string cmd_prog13(const std::vector<std::string> &args)
{
  if (args.size() < 4) { return "bad-op"; }
  const std::string &f = args[0];
  DetOptions o;
  o.list = f.find('l') != std::string::npos;
  o.verbose = f.find('v') != std::string::npos;
  o.dump_symbols = f.find('s') != std::string::npos;
  o.dump_macros = f.find('m') != std::string::npos;
  o.dirt = f.find('d') != std::string::npos;
  o.track = f.find('t') != std::string::npos;
  o.scrub = f.find('x') != std::string::npos;
  bool prior = f.find('p') != std::string::npos;
  o.fill = (int)strtol(args[1].c_str(), NULL, 16) & 0xff;
  std::string source = unhex(args[2]);
  std::string prior_source = unhex(args[3]);

  char dir[] = "/tmp/nvdetXXXXXX";
  bool have_dir = false;
  std::vector<std::string> files;
  if (args.size() > 4)
  {
    if (mkdtemp(dir) == NULL) { return "bad-op"; }
    have_dir = true;
    for (size_t i = 4; i + 1 < args.size(); i += 2)
    {
      std::string path = std::string(dir) + "/" + unhex(args[i]);
      FILE *fp = fopen(path.c_str(), "wb");
      if (fp != NULL)
      {
        std::string c = unhex(args[i + 1]);
        fwrite(c.data(), 1, c.size(), fp);
        fclose(fp);
        files.push_back(path);
      }
    }
  }

  if (prior)
  {
    DetOptions po = o;
    po.track = false; po.scrub = false;
    det_assemble(po, prior_source, have_dir ? dir : NULL);
    capture_take();
  }
  std::string out = det_assemble(o, source, have_dir ? dir : NULL);
  for (auto &p : files) { unlink(p.c_str()); }
  if (have_dir) { rmdir(dir); }
  return out;
}

// assemble_code() of main/naken_util.cpp (the interactive `asm` command), the image copied the same way
static std::string cmd_util13(const std::vector<std::string> &args)
{
  if (args.size() != 3) { return "bad-op"; }
  const char *cpu_name = args[0].c_str();
  uint32_t org = (uint32_t)strtoul(args[1].c_str(), NULL, 16);
  std::string code = unhex(args[2]);
  Memory util_memory;
  int status = 0;
  {
    AsmContext asm_context;
    int i;
    asm_context.init();
    asm_context.set_cpu(cpu_name);
    asm_context.set_org(org);
    asm_context.pass = 1;
    tokens_open_buffer(&asm_context, code.c_str());
    tokens_reset(&asm_context);
    i = asm_context.assemble();
    if (i != 0) { status = 1; }
    else
    {
      asm_context.pass = 2;
      asm_context.init();
      asm_context.set_cpu(cpu_name);
      asm_context.set_org(org);
      i = asm_context.assemble();
      if (i != 0) { status = 2; }
      else
      {
        if (asm_context.memory.low_address <= asm_context.memory.high_address &&
            asm_context.memory.high_address - asm_context.memory.low_address < (1u << 20))
        {
          for (uint64_t a = asm_context.memory.low_address; a <= asm_context.memory.high_address; a++)
          {
            util_memory.write((uint32_t)a, asm_context.memory.read8((uint32_t)a), DL_DATA);
          }
        }
        org = asm_context.memory.high_address + 1;
      }
    }
    tokens_close(&asm_context);
  }
  capture_take();
  char head[64];
  snprintf(head, sizeof(head), "st=%d org=%x", status, org);
  return std::string(head) + " img=" + dump_image(&util_memory, false);
}

static void register_det()
{
  handlers["prog13"] = cmd_prog13;
  handlers["util13"] = cmd_util13;
}
