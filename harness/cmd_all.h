// Further command groups are included and registered here.
#include "core/directives_include.h"
#include "cmd_prog.h"
#include "cmd_isa.h"
#include "cmd_isa_all.h"
#include "cmd_cond.h"
#include "cmd_sym.h"
#include "cmd_sim.h"
#include "cmd_simx.h"
#include "cmd_mem.h"
#include "cmd_fileio.h"
#include "cmd_safe.h"
#include "cmd_det.h"
#include "cmd_util.h"
#include "cmd_listing.h"
#include "cmd_macro.h"
#include "cmd_link.h"
#include "cmd_reader.h"

static void register_all()
{
  register_prog();
  register_isa();
  register_isa_all();
  register_cond();
  register_sym();
  register_sim();
  register_simx();
  register_mem();
  register_fileio();
  register_safe();
  register_det();
  register_util();
  register_listing();
  register_macro();
  register_link();
  register_reader();
}
