// Further command groups are included and registered here.
#include "core/directives_include.h"
#include "cmd_prog.h"

static void register_all()
{
  register_prog();
}
