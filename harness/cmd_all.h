// Further command groups are included and registered here.
static void register_all()
{
}
