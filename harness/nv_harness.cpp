// In-process driver of the real naken_asm code (compiled from /repo's working tree with
// sanitizers).  Reads one operation per line on stdin, answers one line per operation on
// the original stdout.  Everything the library prints with printf() is captured per
// operation (so "Error" diagnostics can be counted) and never mixes with the answers.

#include <stdio.h>
#include <stdlib.h>
#include <string.h>
#include <stdint.h>
#include <unistd.h>
#include <fcntl.h>
#include <sys/mman.h>
#include <string>
#include <vector>
#include <map>
#include <algorithm>

#include "core/AsmContext.h"
#include "core/eval_expression.h"
#include "core/tokens.h"
#include "core/Operator.h"
#include "core/cpu_list.h"

static FILE *ans;          // answers go here
static int cap_fd = -1;    // captured stdout of the library

static void capture_init()
{
  int out_fd = dup(1);
  ans = fdopen(out_fd, "w");
  cap_fd = memfd_create("nvcap", 0);
  fflush(stdout);
  dup2(cap_fd, 1);
}

// returns what the library printed since the last call
static std::string capture_take()
{
  fflush(stdout);
  off_t len = lseek(cap_fd, 0, SEEK_CUR);
  std::string s;
  if (len > 0)
  {
    s.resize(len);
    lseek(cap_fd, 0, SEEK_SET);
    ssize_t r = read(cap_fd, &s[0], len);
    if (r < 0) { s.clear(); } else { s.resize(r); }
  }
  if (ftruncate(cap_fd, 0) != 0) { }
  lseek(cap_fd, 0, SEEK_SET);
  return s;
}

static int count_errors(const std::string &s)
{
  int n = 0;
  size_t pos = 0;
  while ((pos = s.find("Error", pos)) != std::string::npos) { n++; pos += 5; }
  return n;
}

static std::vector<std::string> split(const std::string &line)
{
  std::vector<std::string> v;
  size_t i = 0;
  while (i < line.size())
  {
    while (i < line.size() && line[i] == ' ') { i++; }
    size_t j = i;
    while (j < line.size() && line[j] != ' ') { j++; }
    if (j > i) { v.push_back(line.substr(i, j - i)); }
    i = j;
  }
  return v;
}

static std::string unhex(const std::string &h)
{
  std::string s;
  if (h == "-") { return s; }
  for (size_t i = 0; i + 1 < h.size(); i += 2)
  {
    s.push_back((char)strtol(h.substr(i, 2).c_str(), NULL, 16));
  }
  return s;
}

static std::string tohex(const std::string &s)
{
  if (s.empty()) { return "-"; }
  static const char *d = "0123456789abcdef";
  std::string h;
  for (unsigned char c : s) { h.push_back(d[c >> 4]); h.push_back(d[c & 15]); }
  return h;
}


// Time limits of the in-process commands are in CPU time of this process (ITIMER_PROF -> SIGPROF), not wall time:
// on a loaded machine a harness that waits for a core is not a hang.
#include <sys/time.h>
#include <signal.h>
static void nv_cpu_alarm(int seconds)
{
  struct itimerval tv;
  memset(&tv, 0, sizeof(tv));
  tv.it_value.tv_sec = seconds;
  setitimer(ITIMER_PROF, &tv, NULL);
}

typedef std::string (*handler_t)(const std::vector<std::string> &args);
static std::map<std::string, handler_t> handlers;

#include "cmd_expr.h"
#include "cmd_all.h"

int main(int argc, char *argv[])
{
  capture_init();
  register_expr();
  register_all();

  char *line = NULL;
  size_t cap = 0;
  ssize_t n;
  while ((n = getline(&line, &cap, stdin)) > 0)
  {
    while (n > 0 && (line[n - 1] == '\n' || line[n - 1] == '\r')) { line[--n] = 0; }
    std::vector<std::string> args = split(line);
    std::string out = "bad-op";
    if (!args.empty())
    {
      auto it = handlers.find(args[0]);
      if (it != handlers.end())
      {
        args.erase(args.begin());
        out = it->second(args);
      }
    }
    capture_take();
    fprintf(ans, "%s\n", out.c_str());
    fflush(ans);
  }
  return 0;
}
