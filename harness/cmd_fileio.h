// C03: the real file writers and readers, in-process.
//
// wr <fmt> <cpu|-> <opts> <cells> <entry hex|-> [syms]
//   fmt   : hex bin elf srec wdc amiga macho uf2
//   cpu   : a cpu_list name (AsmContext::set_cpu) or '-' (cpu_list index 0, as AsmContext() leaves it)
//   opts  : '-' or letters: b = memory.endian big, l = little (default: the CPU's default endian)
//   cells : addr:hexbytes;addr:hexbytes...   written with Memory::write(addr, byte, line>0)
//           exactly as the assembler's memory_write_inc does (debug line != DL_EMPTY, low/high updated)
//           a segment prefixed with '~' is written with Memory::write8 only (no debug line)
//   entry : memory.entry_point (hex) or '-' (left at 0xffffffff)
//   syms  : name=hexaddr[!],...   '!' = exported (.export)
//   -> ok low=<hex> high=<hex> s0=<hex of the S0 line, srec only, else -> file=<hex of the file, S0 line dropped>
//   The file is produced by the real file_write() into a temp file under /tmp (removed afterwards).
//
// rd <fmt|auto> <ext> <file hex> [start address hex]
//   writes the bytes to /tmp/nvrdXXXXXX.<ext> and calls the real file_read() on a fresh UtilContext
//   (what naken_util does), fmt = auto lets get_file_type() decide.
//   -> ret=<n> type=<name> low=<hex> high=<hex> end=<l|b> cpu=<name> nz=<addr:hexbytes;...> syms=<...>
//   syms: name=hexvalue,... (bytes outside 0x21..0x7e and , = % as %XX)
//   nz lists every non-zero byte of the loaded memory pages (readers use write8, so the debug markers stay empty).

#include "core/UtilContext.h"
#include "fileio/file.h"

static int fileio_type_of(const std::string &fmt)
{
  if (fmt == "hex") { return FILE_TYPE_HEX; }
  if (fmt == "bin") { return FILE_TYPE_BIN; }
  if (fmt == "elf") { return FILE_TYPE_ELF; }
  if (fmt == "srec") { return FILE_TYPE_SREC; }
  if (fmt == "wdc") { return FILE_TYPE_WDC; }
  if (fmt == "amiga") { return FILE_TYPE_AMIGA; }
  if (fmt == "ti_txt") { return FILE_TYPE_TI_TXT; }
  if (fmt == "macho") { return FILE_TYPE_MACHO; }
  if (fmt == "uf2") { return FILE_TYPE_UF2; }
  if (fmt == "auto") { return FILE_TYPE_AUTO; }
  return -100;
}

static bool read_whole(const char *path, std::string &out)
{
  FILE *f = fopen(path, "rb");
  if (f == NULL) { return false; }
  char buf[65536];
  size_t n;
  while ((n = fread(buf, 1, sizeof(buf), f)) > 0) { out.append(buf, n); }
  fclose(f);
  return true;
}

static std::string dump_nonzero(Memory *memory)
{
  std::vector<MemoryPage *> pages;
  for (MemoryPage *p = memory->pages; p != nullptr; p = p->next) { pages.push_back(p); }
  std::sort(pages.begin(), pages.end(), [](MemoryPage *a, MemoryPage *b) { return a->address < b->address; });
  std::string out;
  char buf[32];
  static const char *hexd = "0123456789abcdef";
  bool open = false;
  uint64_t next = 0;
  for (MemoryPage *p : pages)
  {
    for (uint32_t off = 0; off < PAGE_SIZE; off++)
    {
      if (p->bin[off] == 0) { open = false; continue; }
      uint64_t a = (uint64_t)p->address + off;
      if (!open || a != next)
      {
        if (!out.empty()) { out += ";"; }
        snprintf(buf, sizeof(buf), "%llx:", (unsigned long long)a);
        out += buf;
        open = true;
      }
      out.push_back(hexd[p->bin[off] >> 4]);
      out.push_back(hexd[p->bin[off] & 15]);
      next = a + 1;
    }
  }
  return out.empty() ? "-" : out;
}

static std::string cmd_wr(const std::vector<std::string> &args)
{
  if (args.size() < 5) { return "bad-op"; }
  int file_type = fileio_type_of(args[0]);
  if (file_type < 0) { return "bad-op"; }

  AsmContext *ctx = new AsmContext();
  ctx->quiet_output = 1;
  if (args[1] != "-")
  {
    if (ctx->set_cpu(args[1].c_str()) != 0) { delete ctx; return "bad-cpu"; }
  }
  if (args[2].find('b') != std::string::npos) { ctx->memory.endian = ENDIAN_BIG; }
  if (args[2].find('l') != std::string::npos) { ctx->memory.endian = ENDIAN_LITTLE; }
  ctx->tokens.filename = "image.asm";

  if (args[3] != "-")
  {
    size_t pos = 0;
    const std::string &cells = args[3];
    int line = 1;
    while (pos < cells.size())
    {
      size_t end = cells.find(';', pos);
      if (end == std::string::npos) { end = cells.size(); }
      std::string seg = cells.substr(pos, end - pos);
      bool raw = false;
      if (!seg.empty() && seg[0] == '~') { raw = true; seg = seg.substr(1); }
      size_t colon = seg.find(':');
      if (colon == std::string::npos) { delete ctx; return "bad-op"; }
      uint32_t addr = (uint32_t)strtoull(seg.substr(0, colon).c_str(), NULL, 16);
      std::string bytes = unhex(seg.substr(colon + 1));
      for (unsigned char c : bytes)
      {
        if (raw) { ctx->memory.write8(addr, c); } else { ctx->memory.write(addr, c, line); }
        addr++;
      }
      line++;
      pos = end + 1;
    }
  }
  if (args[4] != "-") { ctx->memory.entry_point = (uint32_t)strtoull(args[4].c_str(), NULL, 16); }
  if (args.size() > 5 && args[5] != "-")
  {
    size_t pos = 0;
    const std::string &syms = args[5];
    while (pos < syms.size())
    {
      size_t end = syms.find(',', pos);
      if (end == std::string::npos) { end = syms.size(); }
      std::string s = syms.substr(pos, end - pos);
      bool exported = false;
      if (!s.empty() && s[s.size() - 1] == '!') { exported = true; s.resize(s.size() - 1); }
      size_t eq = s.rfind('=');
      if (eq != std::string::npos)
      {
        std::string name = s.substr(0, eq);
        uint32_t addr = (uint32_t)strtoull(s.substr(eq + 1).c_str(), NULL, 16);
        ctx->symbols.append(name.c_str(), addr);
        if (exported) { ctx->symbols.export_symbol(name.c_str()); }
      }
      pos = end + 1;
    }
  }

  char path[] = "/tmp/nvwrXXXXXX";
  int fd = mkstemp(path);
  if (fd < 0) { delete ctx; return "bad-tmp"; }
  close(fd);
  int ret = file_write(path, ctx, file_type);
  std::string data;
  bool got = read_whole(path, data);
  unlink(path);
  char head[96];
  snprintf(head, sizeof(head), "low=%x high=%x", ctx->memory.low_address, ctx->memory.high_address);
  delete ctx;
  if (ret != 0 || !got) { return "err"; }

  std::string s0 = "-";
  if (file_type == FILE_TYPE_SREC && data.size() >= 2 && data[0] == 'S' && data[1] == '0')
  {
    size_t nl = data.find('\n');
    if (nl != std::string::npos)
    {
      s0 = tohex(data.substr(0, nl + 1));
      data = data.substr(nl + 1);
    }
  }
  return std::string("ok ") + head + " s0=" + s0 + " file=" + tohex(data);
}

static std::string cmd_rd(const std::vector<std::string> &args)
{
  if (args.size() < 3) { return "bad-op"; }
  int file_type = fileio_type_of(args[0]);
  if (file_type == -100) { return "bad-op"; }
  std::string data = unhex(args[2]);
  uint32_t start_address = 0;
  if (args.size() > 3) { start_address = (uint32_t)strtoull(args[3].c_str(), NULL, 16); }

  char base[] = "/tmp/nvrdXXXXXX";
  int fd = mkstemp(base);
  if (fd < 0) { return "bad-tmp"; }
  close(fd);
  unlink(base);
  std::string path = std::string(base) + "." + (args[1] == "-" ? "dat" : args[1]);
  FILE *f = fopen(path.c_str(), "wb");
  if (f == NULL) { return "bad-tmp"; }
  fwrite(data.data(), 1, data.size(), f);
  fclose(f);

  UtilContext *util = new UtilContext();
  int ret = file_read(path.c_str(), util, &file_type, NULL, start_address);
  unlink(path.c_str());
  capture_take();

  char head[256];
  snprintf(head, sizeof(head), "ret=%d type=%s low=%x high=%x end=%c cpu=%s",
    ret, file_get_file_type_name(file_type), util->memory.low_address, util->memory.high_address,
    util->memory.endian == ENDIAN_BIG ? 'b' : 'l', util->cpu_name == nullptr ? "-" : util->cpu_name);
  std::string out = head;
  out += " nz=" + dump_nonzero(&util->memory);
  // symbols
  {
    SymbolsIter iter;
    std::string s;
    char buf[600];
    while (util->symbols.iterate(&iter) != -1)
    {
      // bytes outside the printable ASCII range (and the separators , = %) are written as %XX
      std::string nm;
      for (const unsigned char *q = (const unsigned char *)iter.name; *q != 0; q++)
      {
        if (*q < 0x21 || *q > 0x7e || *q == ',' || *q == '=' || *q == '%')
        {
          snprintf(buf, sizeof(buf), "%%%02X", *q);
          nm += buf;
        }
          else
        {
          nm.push_back((char)*q);
        }
      }
      snprintf(buf, sizeof(buf), "=%x", iter.address);
      s += (s.empty() ? "" : ",") + nm + buf;
    }
    out += " syms=" + (s.empty() ? std::string("-") : s);
  }
  delete util;
  return out;
}

static void register_fileio()
{
  handlers["wr"] = cmd_wr;
  handlers["rd"] = cmd_rd;
}
