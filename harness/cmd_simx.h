// simx <cpu> <state> <cells addr:byte,...|->                                   (C15)
//     One step (enable_step_mode(); run(-1, 1)) of the REAL simulator of <cpu> from a COMPLETE
//     state: every data member of the simulator class (private ones included), the static
//     Simulate::stop_running, cycle_count and the show flag are set directly, the sparse Memory
//     image is built from the cells.
//     <state> is key=hex,key=hex,...; arrays are one hex string (fixed digits per element).
//     -> ret=<r> <state, same keys> mem=<addr:byte,...|->
//     mem lists every cell that is non-zero afterwards or was given, sorted by address.
//     The private members are reached by compiling the simulator headers with the access
//     specifiers read as `public` (no change to /repo, same object layout).
#ifndef NV_CMD_SIMX_H
#define NV_CMD_SIMX_H
#include <sys/wait.h>
#include <functional>
#include <set>
#include "simulate/Simulate.h"
#define private public
#define protected public
#include "simulate/tms1000.h"
#include "simulate/8008.h"
#include "simulate/lc3.h"
#include "simulate/6502.h"
#include "simulate/tms9900.h"
#include "simulate/ebpf.h"
#include "simulate/1802.h"
#undef private
#undef protected

typedef std::map<std::string, std::string> SimxKV;

// protected members of the base class (Simulate.h was included long before this header)
struct SimxPeek : public Simulate
{
  static bool &stop() { return stop_running; }
  static int &cyc(Simulate *s) { return s->*(&SimxPeek::cycle_count); }
  static int &ncc(Simulate *s) { return s->*(&SimxPeek::nested_call_count); }
};

static uint32_t simx_u(const SimxKV &kv, const char *k)
{
  auto it = kv.find(k);
  if (it == kv.end()) { return 0; }
  return (uint32_t)strtoul(it->second.c_str(), NULL, 16);
}

// element n of an array given as a hex string with `digits` hex digits per element
static uint32_t simx_el(const SimxKV &kv, const char *k, int n, int digits)
{
  auto it = kv.find(k);
  if (it == kv.end() || it->second.size() < (size_t)((n + 1) * digits)) { return 0; }
  return (uint32_t)strtoul(it->second.substr(n * digits, digits).c_str(), NULL, 16);
}

struct SimxOut
{
  std::string s;
  void add(const char *k, uint32_t v)
  {
    char buf[64];
    snprintf(buf, sizeof(buf), "%s%s=%x", s.empty() ? "" : ",", k, v);
    s += buf;
  }
  template <typename T> void arr(const char *k, const T *a, int n, int digits)
  {
    char buf[32];
    s += (s.empty() ? "" : ",");
    s += k;
    s += "=";
    for (int i = 0; i < n; i++)
    {
      snprintf(buf, sizeof(buf), "%0*x", digits, (unsigned)a[i]);
      s += buf;
    }
  }
};

static void simx_common_in(Simulate *sim, const SimxKV &kv)
{
  sim->set_break_io(kv.count("bio") ? (int)simx_u(kv, "bio") : (int)0xfffffff0);
  sim->set_show(simx_u(kv, "show") != 0);
  sim->set_clear(false);
  SimxPeek::cyc(sim) = (int)simx_u(kv, "cyc");
  SimxPeek::stop() = simx_u(kv, "stop") != 0;
}

static void simx_common_out(Simulate *sim, const SimxKV &kv, SimxOut &o)
{
  o.add("cyc", (uint32_t)SimxPeek::cyc(sim));
  o.add("stop", SimxPeek::stop() ? 1 : 0);
  o.add("show", simx_u(kv, "show") != 0 ? 1 : 0);
  SimxPeek::stop() = false;
}

static int simx_run(Simulate *sim)
{
  capture_take();
  sim->enable_step_mode();
  int ret = sim->run(-1, 1);
  capture_take();
  return ret;
}

static std::string simx_tms1000(const SimxKV &kv, Memory *memory, int &ret)
{
  SimulateTms1000 *sim = new SimulateTms1000(memory);
  simx_common_in(sim, kv);
  sim->pc = simx_u(kv, "pc"); sim->pa = simx_u(kv, "pa"); sim->pb = simx_u(kv, "pb");
  sim->cl = simx_u(kv, "cl"); sim->sr = simx_u(kv, "sr"); sim->s_flag = simx_u(kv, "s");
  sim->reg_a = simx_u(kv, "a"); sim->reg_x = simx_u(kv, "x"); sim->reg_y = simx_u(kv, "y");
  sim->r_pins = simx_u(kv, "r"); sim->o_pins = simx_u(kv, "o"); sim->k_pins = simx_u(kv, "k");
  for (int n = 0; n < 64; n++) { sim->ram[n] = simx_el(kv, "ram", n, 2); }
  ret = simx_run(sim);
  SimxOut o;
  o.add("pc", sim->pc); o.add("pa", sim->pa); o.add("pb", sim->pb); o.add("cl", sim->cl);
  o.add("sr", sim->sr); o.add("s", sim->s_flag); o.add("a", sim->reg_a); o.add("x", sim->reg_x);
  o.add("y", sim->reg_y); o.add("r", sim->r_pins); o.add("o", sim->o_pins); o.add("k", sim->k_pins);
  simx_common_out(sim, kv, o);
  o.arr("ram", sim->ram, 64, 2);
  delete sim;
  return o.s;
}

static std::string simx_8008(const SimxKV &kv, Memory *memory, int &ret)
{
  Simulate8008 *sim = new Simulate8008(memory);
  simx_common_in(sim, kv);
  sim->pc = simx_u(kv, "pc"); sim->sp = simx_u(kv, "sp");
  sim->flags.p = simx_u(kv, "fp"); sim->flags.s = simx_u(kv, "fs");
  sim->flags.c = simx_u(kv, "fc"); sim->flags.z = simx_u(kv, "fz");
  for (int n = 0; n < 8; n++) { sim->reg[n] = simx_el(kv, "reg", n, 2); }
  for (int n = 0; n < 8; n++) { sim->stack[n] = simx_el(kv, "stack", n, 4); }
  ret = simx_run(sim);
  SimxOut o;
  o.add("pc", sim->pc); o.add("sp", sim->sp);
  o.add("fp", sim->flags.p); o.add("fs", sim->flags.s); o.add("fc", sim->flags.c); o.add("fz", sim->flags.z);
  simx_common_out(sim, kv, o);
  o.arr("reg", sim->reg, 8, 2);
  o.arr("stack", sim->stack, 8, 4);
  delete sim;
  return o.s;
}

static std::string simx_lc3(const SimxKV &kv, Memory *memory, int &ret)
{
  SimulateLc3 *sim = new SimulateLc3(memory);
  simx_common_in(sim, kv);
  sim->pc = simx_u(kv, "pc"); sim->psr = simx_u(kv, "psr");
  for (int n = 0; n < 8; n++) { sim->reg[n] = simx_el(kv, "reg", n, 4); }
  ret = simx_run(sim);
  SimxOut o;
  o.add("pc", sim->pc); o.add("psr", sim->psr);
  simx_common_out(sim, kv, o);
  o.arr("reg", sim->reg, 8, 4);
  delete sim;
  return o.s;
}

static std::string simx_6502(const SimxKV &kv, Memory *memory, int &ret)
{
  Simulate6502 *sim = new Simulate6502(memory);
  simx_common_in(sim, kv);
  sim->reg_a = (int)simx_u(kv, "a"); sim->reg_x = (int)simx_u(kv, "x"); sim->reg_y = (int)simx_u(kv, "y");
  sim->reg_sr = (int)simx_u(kv, "sr"); sim->reg_pc = (int)simx_u(kv, "pc"); sim->reg_sp = (int)simx_u(kv, "sp");
  ret = simx_run(sim);
  SimxOut o;
  o.add("a", sim->reg_a); o.add("x", sim->reg_x); o.add("y", sim->reg_y); o.add("sr", sim->reg_sr);
  o.add("pc", sim->reg_pc); o.add("sp", sim->reg_sp);
  simx_common_out(sim, kv, o);
  delete sim;
  return o.s;
}

static std::string simx_tms9900(const SimxKV &kv, Memory *memory, int &ret)
{
  SimulateTms9900 *sim = new SimulateTms9900(memory);
  simx_common_in(sim, kv);
  sim->pc = simx_u(kv, "pc"); sim->wp = simx_u(kv, "wp"); sim->st = simx_u(kv, "st");
  ret = simx_run(sim);
  SimxOut o;
  o.add("pc", sim->pc); o.add("wp", sim->wp); o.add("st", sim->st);
  simx_common_out(sim, kv, o);
  delete sim;
  return o.s;
}

static std::string simx_ebpf(const SimxKV &kv, Memory *memory, int &ret)
{
  SimulateEbpf *sim = new SimulateEbpf(memory);
  simx_common_in(sim, kv);
  sim->pc = simx_u(kv, "pc");
  for (int n = 0; n < 16; n++) { sim->reg[n] = (int64_t)simx_el(kv, "reg", n, 8); }
  ret = simx_run(sim);
  SimxOut o;
  o.add("pc", sim->pc);
  simx_common_out(sim, kv, o);
  uint32_t lo[16];
  for (int n = 0; n < 16; n++) { lo[n] = (uint32_t)sim->reg[n]; }
  o.arr("reg", lo, 16, 8);
  delete sim;
  return o.s;
}

static std::string simx_1802(const SimxKV &kv, Memory *memory, int &ret)
{
  Simulate1802 *sim = new Simulate1802(memory);
  simx_common_in(sim, kv);
  sim->reg_d = simx_u(kv, "d"); sim->reg_p = simx_u(kv, "p"); sim->reg_x = simx_u(kv, "x"); sim->reg_t = simx_u(kv, "t");
  sim->reg_n = simx_u(kv, "n"); sim->reg_i = simx_u(kv, "i"); sim->reg_b = simx_u(kv, "b");
  sim->reg_cntr = simx_u(kv, "cntr"); sim->reg_cn = simx_u(kv, "cn");
  sim->flag_df = simx_u(kv, "df"); sim->flag_q = simx_u(kv, "q"); sim->flag_mie = simx_u(kv, "mie"); sim->flag_cie = simx_u(kv, "cie");
  sim->flag_xie = simx_u(kv, "xie"); sim->flag_cil = simx_u(kv, "cil"); sim->flag_etq = simx_u(kv, "etq");
  for (int n = 0; n < 16; n++) { sim->reg_r[n] = simx_el(kv, "r", n, 4); }
  ret = simx_run(sim);
  SimxOut o;
  o.add("d", sim->reg_d); o.add("p", sim->reg_p); o.add("x", sim->reg_x); o.add("t", sim->reg_t); o.add("n", sim->reg_n);
  o.add("i", sim->reg_i); o.add("b", sim->reg_b); o.add("cntr", sim->reg_cntr); o.add("cn", sim->reg_cn);
  o.add("df", sim->flag_df); o.add("q", sim->flag_q); o.add("mie", sim->flag_mie); o.add("cie", sim->flag_cie);
  o.add("xie", sim->flag_xie); o.add("cil", sim->flag_cil); o.add("etq", sim->flag_etq);
  simx_common_out(sim, kv, o);
  o.arr("r", sim->reg_r, 16, 4);
  delete sim;
  return o.s;
}

static std::string simx_body(const std::vector<std::string> &args, const SimxKV &kv, CpuList *cpu);

static std::string cmd_simx(const std::vector<std::string> &args)
{
  if (args.size() != 3) { return "bad-op"; }
  CpuList *cpu = nullptr;
  for (int n = 0; cpu_list[n].name != NULL; n++)
  {
    if (args[0] == cpu_list[n].name) { cpu = &cpu_list[n]; break; }
  }
  if (cpu == nullptr || cpu->simulate_init == NULL) { return "no-simulator"; }
  SimxKV kv;
  {
    const std::string &s = args[1];
    size_t i = 0;
    while (i < s.size())
    {
      size_t j = s.find(',', i);
      if (j == std::string::npos) { j = s.size(); }
      std::string item = s.substr(i, j - i);
      size_t c = item.find('=');
      if (c == std::string::npos) { return "bad-op"; }
      kv[item.substr(0, c)] = item.substr(c + 1);
      i = j + 1;
    }
  }
  // an armed break_io makes the simulator call exit(): run in a forked child, answer exit=<status>
  if (kv.count("bio")) { return sim_forked([&]() { return simx_body(args, kv, cpu); }); }
  return simx_body(args, kv, cpu);
}

static std::string simx_body(const std::vector<std::string> &args, const SimxKV &kv, CpuList *cpu)
{
  std::vector<std::pair<uint32_t, int> > cells;
  if (!sim_parse_cells(args[2], cells)) { return "bad-op"; }
  Memory *memory = new Memory();
  memory->endian = cpu->default_endian;
  std::set<uint32_t> given;
  for (auto &c : cells) { memory->write8(c.first, c.second); given.insert(c.first); }
  int ret = 0;
  std::string st;
  nv_cpu_alarm(20);
  if (args[0] == "tms1000") { st = simx_tms1000(kv, memory, ret); }
  else if (args[0] == "8008") { st = simx_8008(kv, memory, ret); }
  else if (args[0] == "lc3") { st = simx_lc3(kv, memory, ret); }
  else if (args[0] == "6502") { st = simx_6502(kv, memory, ret); }
  else if (args[0] == "tms9900") { st = simx_tms9900(kv, memory, ret); }
  else if (args[0] == "ebpf") { st = simx_ebpf(kv, memory, ret); }
  else if (args[0] == "1802") { st = simx_1802(kv, memory, ret); }
  else { nv_cpu_alarm(0); delete memory; return "not-modelled"; }
  nv_cpu_alarm(0);
  char buf[32];
  snprintf(buf, sizeof(buf), "ret=%d ", ret);
  std::string out = buf + st + " mem=" + sim_dump_cells(memory, given);
  delete memory;
  return out;
}

static void register_simx()
{
  handlers["simx"] = cmd_simx;
}
#endif
