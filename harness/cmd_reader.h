// C16: the real reader / macro code, driven in-process on hostile texts.
//
// tk <flags6> <len> <defs> <hex text>
//     flags6: can_tick_end_string, strings_have_dots, strings_have_slashes, is_dollar_hex,
//             numbers_dont_have_dots, ignore_number_postfix (each 0/1)
//     len:    length of the caller's token buffer (malloc'ed with exactly that size, so that the
//             sanitizer sees a write behind it)
//     defs:   '-' or name:param_count:hexvalue;...  entered with macros_append()
//     -> t=<type>:<hex text>,...  u=<unget_ptr> sp=<unget_stack_ptr> ms=<stack_ptr> ac=<arena count>
//        ec=<error_count>          (number tokens carry no text: their value belongs to C04)
// mp <isDefine> <hex text>
//     macros_parse() on the text that follows ".define" / ".macro"
//     -> ret=<0|-1> [def=<hex name>:<param_count>:<hex value> | undef] u=.. ec=..
// mx <k> <param_count> <hex define text> <hex source>
//     k successive macros_expand_params() calls on the same context (the arena fills up)
//     -> per call  null | <hex expanded>/<def_param_stack_count>/<top of def_param_stack_ptr>

static FILE *reader_open(AsmContext *ctx, const std::string &text, std::string &keep)
{
  keep = text;
  FILE *in = keep.empty() ? fopen("/dev/null", "rb") : fmemopen((void *)keep.data(), keep.size(), "rb");
  ctx->tokens.in = in;
  ctx->tokens.filename = "reader";
  return in;
}

static std::string reader_state(AsmContext *ctx)
{
  char buf[160];
  snprintf(buf, sizeof(buf), "u=%d sp=%d ms=%d ac=%d ec=%d",
    ctx->tokens.unget_ptr, ctx->tokens.unget_stack_ptr, ctx->macros.get_stack_ptr(),
    ctx->def_param_stack_count, ctx->error_count);
  return buf;
}

static std::string cmd_tk(const std::vector<std::string> &args)
{
  if (args.size() != 4 || args[0].size() != 6) { return "bad-op"; }
  int len = atoi(args[1].c_str());
  if (len < 1 || len > 100000) { return "bad-op"; }
  AsmContext *ctx = new AsmContext();
  ctx->quiet_output = 1;
  ctx->init();
  ctx->can_tick_end_string = args[0][0] == '1';
  ctx->strings_have_dots = args[0][1] == '1';
  ctx->strings_have_slashes = args[0][2] == '1';
  ctx->is_dollar_hex = args[0][3] == '1';
  ctx->numbers_dont_have_dots = args[0][4] == '1';
  ctx->ignore_number_postfix = args[0][5] == '1';
  // macros
  std::vector<std::string> keep_defs;
  if (args[2] != "-")
  {
    size_t i = 0;
    const std::string &d = args[2];
    while (i < d.size())
    {
      size_t j = d.find(';', i);
      if (j == std::string::npos) { j = d.size(); }
      std::string one = d.substr(i, j - i);
      size_t a = one.find(':');
      size_t b = one.find(':', a + 1);
      if (a != std::string::npos && b != std::string::npos)
      {
        std::string name = one.substr(0, a);
        int pc = atoi(one.substr(a + 1, b - a - 1).c_str());
        std::string value = unhex(one.substr(b + 1));
        keep_defs.push_back(name);
        keep_defs.push_back(value);
        macros_append(ctx, (char *)keep_defs[keep_defs.size() - 2].c_str(),
                      (char *)keep_defs[keep_defs.size() - 1].c_str(), pc);
      }
      i = j + 1;
    }
  }
  std::string keep;
  FILE *in = reader_open(ctx, unhex(args[3]), keep);
  tokens_reset(ctx);
  char *token = (char *)malloc(len);
  std::string out = "t=";
  int limit = (int)keep.size() * 3 + 40;
  bool first = true;
  for (int n = 0; n < limit; n++)
  {
    int type = tokens_get(ctx, token, len);
    if (!first) { out += ","; }
    first = false;
    char buf[32];
    snprintf(buf, sizeof(buf), "%d:", type);
    out += buf;
    if (type != TOKEN_NUMBER && type != TOKEN_EOF) { out += tohex(std::string(token)); } else { out += "-"; }
    if (type == TOKEN_EOF) { break; }
  }
  out += " " + reader_state(ctx);
  free(token);
  if (in != NULL) { fclose(in); }
  ctx->tokens.in = NULL;
  delete ctx;
  return out;
}

static std::string cmd_mp(const std::vector<std::string> &args)
{
  if (args.size() != 2) { return "bad-op"; }
  AsmContext *ctx = new AsmContext();
  ctx->quiet_output = 1;
  ctx->init();
  std::string keep;
  FILE *in = reader_open(ctx, unhex(args[1]), keep);
  tokens_reset(ctx);
  int ret = macros_parse(ctx, args[0] == "1" ? IS_DEFINE : IS_MACRO);
  std::string out = ret == 0 ? "ret=0 " : "ret=-1 ";
  MacrosIter iter(ctx->macros);
  if (iter.next() != -1)
  {
    char buf[32];
    snprintf(buf, sizeof(buf), ":%d:", (int)iter.param_count);
    out += "def=" + tohex(std::string(iter.name)) + buf + tohex(std::string(iter.value));
  }
  else
  {
    out += "undef";
  }
  out += " " + reader_state(ctx);
  if (in != NULL) { fclose(in); }
  ctx->tokens.in = NULL;
  delete ctx;
  return out;
}

static std::string cmd_mx(const std::vector<std::string> &args)
{
  if (args.size() != 4) { return "bad-op"; }
  int k = atoi(args[0].c_str());
  int pc = atoi(args[1].c_str());
  AsmContext *ctx = new AsmContext();
  ctx->quiet_output = 1;
  ctx->init();
  std::string define = unhex(args[2]);
  std::string keep;
  FILE *in = reader_open(ctx, unhex(args[3]), keep);
  tokens_reset(ctx);
  std::string out;
  for (int n = 0; n < k; n++)
  {
    char *e = macros_expand_params(ctx, (char *)define.c_str(), pc);
    if (n != 0) { out += ","; }
    if (e == NULL) { out += "null"; }
    else
    {
      char buf[64];
      snprintf(buf, sizeof(buf), "/%d/%d", ctx->def_param_stack_count,
        ctx->def_param_stack_ptr[ctx->def_param_stack_count]);
      out += tohex(std::string(e)) + buf;
    }
  }
  out += " " + reader_state(ctx);
  if (in != NULL) { fclose(in); }
  ctx->tokens.in = NULL;
  delete ctx;
  return out;
}

// c16asm <hex source> : the two passes of main() in-process on a source without include files.
//   -> st=<0|1> diag=<0|1>   (diag: something that reads like a diagnostic was printed)
static std::string cmd_c16asm(const std::vector<std::string> &args)
{
  if (args.size() != 1) { return "bad-op"; }
  AsmContext *ctx = new AsmContext();
  ctx->quiet_output = 1;
  std::string keep;
  FILE *in = reader_open(ctx, unhex(args[0]), keep);
  ctx->init();
  int error_flag = ctx->assemble();
  do
  {
    if (error_flag == 0 && ctx->link() != 0) { error_flag = 1; }
    if (error_flag != 0) { break; }
    ctx->symbols.lock();
    ctx->symbols.scope_reset();
    ctx->pass = 2;
    ctx->init();
    error_flag = ctx->assemble();
    if (error_flag != 0) { break; }
    if (ctx->link() != 0) { error_flag = 1; }
  } while (0);
  std::string printed = capture_take();
  bool diag = printed.find("rror") != std::string::npos || printed.find("annot") != std::string::npos ||
              printed.find("nknown") != std::string::npos || printed.find("nexpected") != std::string::npos ||
              printed.find("xpect") != std::string::npos || printed.find("nvalid") != std::string::npos ||
              printed.find(" at ") != std::string::npos;
  char buf[64];
  snprintf(buf, sizeof(buf), "st=%d diag=%d", error_flag == 0 ? 0 : 1, diag ? 1 : 0);
  if (in != NULL) { fclose(in); }
  ctx->tokens.in = NULL;
  delete ctx;
  return buf;
}

static void register_reader()
{
  handlers["c16asm"] = cmd_c16asm;
  handlers["tk"] = cmd_tk;
  handlers["mp"] = cmd_mp;
  handlers["mx"] = cmd_mx;
}
