// link <opts> <view> <hex source> [<hex file name> <hex file content>]...
//   In-process run of what main() of naken_asm does when .o / .a files are given on the command line:
//   every file goes through AsmContext::link_file() in the order given, then pass 1, AsmContext::link(),
//   pass 2, AsmContext::link().
//   opts : '-' (reserved)
//   view : the program view computed by the generator (read by the Lean driver only; the harness ignores it and
//          reports the same facts from the real assembler, so a wrong view shows as a disagreement)
//   -> st=0 p1end=<hex> en=<l|b> p1list=<hexname,...|-> list=<hexname,...|-> syms=<hexname:addr,...|->
//        app=<hex addr>:<hex bytes>|- img=<whole image as in `prog`>
//      st=1 stage=<addfile|notimport|pass1|link1|pass2|link2>
//   p1end  : asm_context.address when link() is entered in pass 1
//   p1list : the linker's needed-symbol list after pass 1 of the source (before link())
//   list   : the same list at the end (after link() of pass 1 grew it)
//   syms   : the whole symbol table at the end, in table order (global scope only is expected)
//   app    : memory from the address of the first imported symbol up to asm_context.address after link() of pass 2
#include "core/Linker.h"

static std::string link_names(AsmContext *ctx)
{
  std::string s;
  if (ctx->linker == nullptr) { return "-"; }
  int n = ctx->linker->get_symbol_count();
  for (int i = 0; i < n; i++)
  {
    const char *name = ctx->linker->get_symbol_at_index(i);
    if (name == nullptr) { break; }
    if (i) { s += ","; }
    std::string h = tohex(name);
    s += h == "-" ? "00" : h;      // an empty name cannot be written as '-' inside a list
  }
  return s.empty() ? "-" : s;
}

static std::string link_symbols(AsmContext *ctx)
{
  SymbolsIter iter;
  std::string s;
  char buf[32];
  while (ctx->symbols.iterate(&iter) != -1)
  {
    if (!s.empty()) { s += ","; }
    std::string h = tohex(iter.name);
    s += h == "-" ? "00" : h;
    snprintf(buf, sizeof(buf), ":%x", iter.address);
    s += buf;
    if (iter.scope != 0) { snprintf(buf, sizeof(buf), "@%d", iter.scope); s += buf; }
  }
  return s.empty() ? "-" : s;
}

static std::string cmd_link(const std::vector<std::string> &args)
{
  if (args.size() < 3) { return "bad-op"; }
  std::string source = unhex(args[2]);
  char dir[] = "/tmp/nvlinkXXXXXX";
  if (mkdtemp(dir) == NULL) { return "bad-op"; }
  std::vector<std::string> files;
  for (size_t i = 3; i + 1 < args.size(); i += 2)
  {
    std::string path = std::string(dir) + "/" + unhex(args[i]);
    FILE *f = fopen(path.c_str(), "wb");
    if (f != NULL)
    {
      std::string c = unhex(args[i + 1]);
      fwrite(c.data(), 1, c.size(), f);
      fclose(f);
    }
    files.push_back(path);
  }

  AsmContext *ctx = new AsmContext();
  ctx->quiet_output = 1;
  std::string out;
  const char *stage = NULL;
  FILE *src_fp = NULL;
  char buf[128];

  do
  {
    // main(): every argument that is not an option is offered to link_file()
    for (auto &f : files)
    {
      int n = ctx->link_file(f.c_str());
      if (n == 0) { continue; }
      stage = n != -1 ? "addfile" : "notimport";
      break;
    }
    if (stage != NULL) { break; }

    src_fp = tmpfile();
    if (src_fp == NULL) { stage = "harness"; break; }
    fwrite(source.data(), 1, source.size(), src_fp);
    fflush(src_fp);
    fseek(src_fp, 0, SEEK_SET);
    ctx->tokens.in = src_fp;
    ctx->tokens.filename = "prog";
    ctx->init();
    if (ctx->assemble() != 0) { stage = "pass1"; break; }
    std::string p1list = link_names(ctx);
    uint32_t p1end = ctx->address;
    if (ctx->link() != 0) { stage = "link1"; break; }
    ctx->symbols.lock();
    ctx->symbols.scope_reset();
    ctx->pass = 2;
    ctx->init();
    if (ctx->assemble() != 0) { stage = "pass2"; break; }
    if (ctx->link() != 0) { stage = "link2"; break; }

    snprintf(buf, sizeof(buf), "st=0 p1end=%x en=%c", p1end, ctx->memory.endian == ENDIAN_BIG ? 'b' : 'l');
    out = buf;
    out += " p1list=" + p1list;
    out += " list=" + link_names(ctx);
    out += " syms=" + link_symbols(ctx);
    // appended region
    std::string app = "-";
    const char *first = ctx->linker != nullptr ? ctx->linker->get_symbol_at_index(0) : nullptr;
    uint32_t start = 0;
    if (first != nullptr && ctx->symbols.lookup(first, &start) == 0)
    {
      uint32_t count = (uint32_t)ctx->address - start;
      if (count > (1u << 20)) { count = 1u << 20; }
      static const char *hexd = "0123456789abcdef";
      snprintf(buf, sizeof(buf), "%x:", start);
      app = buf;
      for (uint32_t k = 0; k < count; k++)
      {
        uint8_t b = ctx->memory.read8(start + k);
        app.push_back(hexd[b >> 4]); app.push_back(hexd[b & 15]);
      }
      if (count == 0) { app += "-"; }
    }
    out += " app=" + app;
    // everything below is for the property oracle only (the model does not produce it)
    out += " img=" + dump_image(&ctx->memory, false);
  } while (0);

  if (stage != NULL)
  {
    out = std::string("st=1 stage=") + stage;
  }
  capture_take();
  if (ctx->tokens.in != NULL) { fclose(ctx->tokens.in); ctx->tokens.in = NULL; }
  delete ctx;
  for (auto &f : files) { unlink(f.c_str()); }
  rmdir(dir);
  return out;
}

static void register_link()
{
  handlers["link"] = cmd_link;
}
