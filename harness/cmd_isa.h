// Instruction-level commands, generic over the CPU name (cpu_list[].name).
//
// asm1 <cpu> <addr hex> <opts> <hex text of ONE statement>
//     real two-pass assembly of ".<cpu>\n.org 0x<addr>\n<statement>\n" through the same code path as `prog`
//     -> ok <hex bytes>            the emitted bytes form one run that starts at <addr>
//        ok@ <addr:hex;addr:hex>   anything else that was emitted (padding, several runs, nothing = "-")
//        err                       a pass failed or an "Error" line was printed
//     opts: '-' or letters: o = -optimize
// dis <cpu> <addr hex> <hex bytes>
//     loads the bytes into a Memory at <addr> (endianness of the CPU from cpu_list) and calls the CPU's
//     single-instruction disassembler with a 128-byte buffer (the size every disasm_range_* uses)
//     -> <len> <hex of text>   |   nonul <len>   (no NUL inside the 128 bytes)
// walk <cpu> <start hex> <end hex> <hex bytes>
//     loads the bytes at <start> and runs the real disasm_range_<cpu>(memory, flags, start, end) from cpu_list
//     with stdout captured -> comma separated hex addresses of the address column, in print order
//     ('+' is appended to continuation lines that carry only an address and a word); "-" if none
#ifndef NV_CMD_ISA_H
#define NV_CMD_ISA_H

#include <signal.h>
#include "core/Memory.h"
#include "disasm/riscv.h"
#include "disasm/msp430.h"
#include "disasm/6502.h"

typedef int (*disasm_one_t)(Memory *, uint32_t, char *, int, int, int *, int *);

struct IsaCpu
{
  const char *name;        // name in cpu_list
  disasm_one_t disasm;     // single-instruction disassembler
};

// cpu name -> single-instruction disassembler (extend here for further CPUs)
static IsaCpu isa_cpus[] =
{
  { "riscv",   disasm_riscv },
  { "msp430",  disasm_msp430 },
  { "6502",    disasm_6502 },
  { NULL, NULL }
};

static CpuList *isa_find_cpu(const std::string &name)
{
  for (int n = 0; cpu_list[n].name != NULL; n++)
  {
    if (name == cpu_list[n].name) { return &cpu_list[n]; }
  }
  return NULL;
}

static disasm_one_t isa_find_disasm(const std::string &name)
{
  for (int n = 0; isa_cpus[n].name != NULL; n++)
  {
    if (name == isa_cpus[n].name) { return isa_cpus[n].disasm; }
  }
  return NULL;
}

static std::string cmd_asm1(const std::vector<std::string> &args)
{
  if (args.size() != 4) { return "bad-op"; }
  CpuList *cpu = isa_find_cpu(args[0]);
  if (cpu == NULL) { return "bad-op"; }
  uint32_t addr = (uint32_t)strtoul(args[1].c_str(), NULL, 16);
  const std::string &opts = args[2];
  std::string stmt = unhex(args[3]);
  char head[96];
  snprintf(head, sizeof(head), ".%s\n.org 0x%x\n", cpu->name, addr / (cpu->bytes_per_address ? cpu->bytes_per_address : 1));
  std::string source = std::string(head) + stmt + "\n";

  AsmContext *ctx = new AsmContext();
  ctx->quiet_output = 1;
  if (opts.find('o') != std::string::npos) { ctx->optimize = 1; }
  tokens_open_buffer(ctx, source.c_str());
  ctx->tokens.filename = "asm1";
  ctx->init();
  int error_flag = ctx->assemble();
  do
  {
    if (error_flag == 0 && ctx->link() != 0) { error_flag = 1; }
    if (error_flag != 0) { break; }
    ctx->symbols.lock();
    ctx->symbols.scope_reset();
    ctx->pass = 2;
    ctx->init();
    error_flag = ctx->assemble();
    if (error_flag != 0) { break; }
    if (ctx->link() != 0) { error_flag = 1; break; }
  } while (0);
  std::string printed = capture_take();
  std::string out;
  if (error_flag != 0 || count_errors(printed) != 0)
  {
    out = "err";
  }
  else
  {
    std::string img = dump_image(&ctx->memory, false);
    char pre[32];
    snprintf(pre, sizeof(pre), "%x:", addr);
    if (img.compare(0, strlen(pre), pre) == 0 && img.find(';') == std::string::npos)
    {
      out = "ok " + img.substr(strlen(pre));
    }
    else
    {
      out = "ok@ " + img;
    }
  }
  delete ctx;
  return out;
}

static void isa_load(Memory *memory, CpuList *cpu, uint32_t addr, const std::string &bytes)
{
  memory->endian = cpu->default_endian;
  for (size_t i = 0; i < bytes.size(); i++)
  {
    memory->write8(addr + (uint32_t)i, (uint8_t)bytes[i]);
  }
}

static std::string cmd_dis(const std::vector<std::string> &args)
{
  if (args.size() != 3) { return "bad-op"; }
  CpuList *cpu = isa_find_cpu(args[0]);
  disasm_one_t f = isa_find_disasm(args[0]);
  if (cpu == NULL || f == NULL) { return "bad-op"; }
  uint32_t addr = (uint32_t)strtoul(args[1].c_str(), NULL, 16);
  std::string bytes = unhex(args[2]);
  Memory *memory = new Memory();
  isa_load(memory, cpu, addr, bytes);
  // exactly the caller's buffer size, on the heap so that ASan sees any overrun
  const int size = 128;
  char *text = (char *)malloc(size);
  memset(text, 0x55, size);
  int cycles_min = 0, cycles_max = 0;
  int len = f(memory, addr, text, size, cpu->flags, &cycles_min, &cycles_max);
  std::string out;
  char buf[32];
  if (memchr(text, 0, size) == NULL)
  {
    snprintf(buf, sizeof(buf), "nonul %d", len);
    out = buf;
  }
  else
  {
    snprintf(buf, sizeof(buf), "%d ", len);
    out = buf + tohex(std::string(text));
  }
  free(text);
  delete memory;
  return out;
}

static void isa_alarm(int)
{
  static const char msg[] = "walk: time limit exceeded\n";
  if (write(2, msg, sizeof(msg) - 1) < 0) { }
  _exit(97);
}

static std::string cmd_walk(const std::vector<std::string> &args)
{
  if (args.size() != 4) { return "bad-op"; }
  CpuList *cpu = isa_find_cpu(args[0]);
  if (cpu == NULL || cpu->disasm_range == NULL) { return "bad-op"; }
  uint32_t start = (uint32_t)strtoul(args[1].c_str(), NULL, 16);
  uint32_t end = (uint32_t)strtoul(args[2].c_str(), NULL, 16);
  std::string bytes = unhex(args[3]);
  Memory *memory = new Memory();
  isa_load(memory, cpu, start, bytes);
  capture_take();
  signal(SIGPROF, isa_alarm);
  nv_cpu_alarm(20);
  cpu->disasm_range(memory, cpu->flags, start, end);
  nv_cpu_alarm(0);
  std::string printed = capture_take();
  delete memory;
  std::string out;
  size_t pos = 0;
  while (pos < printed.size())
  {
    size_t eol = printed.find('\n', pos);
    if (eol == std::string::npos) { eol = printed.size(); }
    std::string line = printed.substr(pos, eol - pos);
    pos = eol + 1;
    if (line.size() < 3 || line[0] != '0' || line[1] != 'x') { continue; }
    size_t colon = line.find(':');
    if (colon == std::string::npos) { continue; }
    std::string a = line.substr(2, colon - 2);
    // strip leading zeros
    size_t nz = a.find_first_not_of('0');
    a = nz == std::string::npos ? "0" : a.substr(nz);
    // continuation line: "0xADDR: 0xWORD" and nothing else
    std::vector<std::string> parts = split(line);
    if (!out.empty()) { out += ","; }
    out += a;
    if (parts.size() == 2) { out += "+"; }
  }
  return out.empty() ? "-" : out;
}

static void register_isa()
{
  handlers["asm1"] = cmd_asm1;
  handlers["dis"] = cmd_dis;
  handlers["walk"] = cmd_walk;
}

#endif
