// C10 — conditional assembly.
//
// cond <hex env> tok tok ...   -> r=<int> e=<0|1>
//     evaluates ".if tok tok ..." through the real eval_ifdef_expression exactly as parse_if
//     calls it (parsing_ifdef = 1).  env = ';'-separated entries
//       d:NAME=VALUE   define (macros_append, no parameters; VALUE may be empty)
//       m:NAME         macro with one parameter (macros_append, param_count 1)
//       s:NAME=ADDR    symbol (symbols.append, ADDR unsigned decimal)
//     r = value returned, e = 1 when the call printed an "Error".
// skip w w w ...               -> ret=<int> rest=<#tokens left before EOF>
//     runs the real ifdef_ignore over the words (joined by spaces, "<nl>" = newline).
// blk item item ...            -> st=<0|1> p1=<image after pass 1> p2=<image after pass 2> syms=<n=addr,...>
//     items: db:N lab:NAME def:NAME:VALUE bad if:t,t,t ifdef:NAME ifndef:NAME else endif
//     one item per source line, two passes exactly as main() of naken_asm (see cmd_prog.h).
// evop <token> <a> <b>         -> v=<int> p=<precedence> | none
//     get_operator(token) and eval_operation(op, a, b) called directly (they are static functions of
//     core/ifdef_expression.cpp; a private copy of that translation unit is compiled into a namespace).
//     This reaches '<=' and '>=', which the tokeniser cannot produce at present.
#include "core/ifdef_expression.h"
#include "core/directives_if.h"
#include "core/Macros.h"
#include "core/Symbols.h"
#include "core/print_error.h"
#include <strings.h>
namespace nvcond
{
#include "core/ifdef_expression.cpp"
}

static std::vector<std::string> split_on(const std::string &s, char sep)
{
  std::vector<std::string> v;
  size_t i = 0;
  while (true)
  {
    size_t j = s.find(sep, i);
    if (j == std::string::npos) { v.push_back(s.substr(i)); break; }
    v.push_back(s.substr(i, j - i));
    i = j + 1;
  }
  return v;
}

static std::string cmd_cond(const std::vector<std::string> &args)
{
  if (args.size() < 1) { return "bad-op"; }
  std::string env = unhex(args[0]);
  std::string text;
  for (size_t i = 1; i < args.size(); i++) { text += args[i]; text += " "; }
  text += "\n";
  AsmContext *ctx = new AsmContext();
  ctx->pass = 1;
  tokens_open_buffer(ctx, text.c_str());
  tokens_reset(ctx);
  if (!env.empty())
  {
    for (const std::string &e : split_on(env, ';'))
    {
      if (e.size() < 3 || e[1] != ':') { continue; }
      std::string body = e.substr(2);
      size_t eq = body.find('=');
      std::string name = eq == std::string::npos ? body : body.substr(0, eq);
      std::string value = eq == std::string::npos ? "" : body.substr(eq + 1);
      if (e[0] == 'd')
      {
        macros_append(ctx, (char *)name.c_str(), (char *)value.c_str(), 0);
      }
      else if (e[0] == 'm')
      {
        macros_append(ctx, (char *)name.c_str(), (char *)".db 1\n", 1);
      }
      else if (e[0] == 's')
      {
        ctx->symbols.append(name.c_str(), (uint32_t)strtoull(value.c_str(), NULL, 10));
      }
    }
  }
  capture_take();
  ctx->parsing_ifdef = 1;
  int num = eval_ifdef_expression(ctx);
  ctx->parsing_ifdef = 0;
  std::string printed = capture_take();
  char buf[64];
  snprintf(buf, sizeof(buf), "r=%d e=%d", num, count_errors(printed) > 0 ? 1 : 0);
  delete ctx;
  return buf;
}

static std::string cmd_skip(const std::vector<std::string> &args)
{
  std::string text;
  for (size_t i = 0; i < args.size(); i++)
  {
    if (args[i] == "<nl>") { text += "\n"; } else { text += args[i]; text += " "; }
  }
  AsmContext *ctx = new AsmContext();
  ctx->pass = 1;
  tokens_open_buffer(ctx, text.c_str());
  tokens_reset(ctx);
  int ret = ifdef_ignore(ctx);
  int rest = 0;
  char token[TOKENLEN];
  while (rest < 1000000)
  {
    int token_type = tokens_get(ctx, token, TOKENLEN);
    if (token_type == TOKEN_EOF) { break; }
    rest++;
  }
  char buf[64];
  snprintf(buf, sizeof(buf), "ret=%d rest=%d", ret, rest);
  delete ctx;
  return buf;
}

static std::string blk_source(const std::vector<std::string> &args)
{
  std::string src;
  for (const std::string &a : args)
  {
    std::vector<std::string> p = split_on(a, ':');
    if (p[0] == "db" && p.size() == 2) { src += ".db " + p[1] + "\n"; }
    else if (p[0] == "lab" && p.size() == 2) { src += p[1] + ":\n"; }
    else if (p[0] == "def" && p.size() == 3) { src += ".define " + p[1] + " " + p[2] + "\n"; }
    else if (p[0] == "bad") { src += ".bogus_directive 1\n"; }
    else if (p[0] == "if" && p.size() == 2)
    {
      std::string c = p[1];
      for (char &ch : c) { if (ch == ',') { ch = ' '; } }
      src += ".if " + c + "\n";
    }
    else if (p[0] == "ifdef") { src += ".ifdef " + (p.size() > 1 ? p[1] : std::string()) + "\n"; }
    else if (p[0] == "ifndef") { src += ".ifndef " + (p.size() > 1 ? p[1] : std::string()) + "\n"; }
    else if (p[0] == "else") { src += ".else\n"; }
    else if (p[0] == "endif") { src += ".endif\n"; }
    else { src += "?bad-item\n"; }
  }
  return src;
}

static std::string image_hex(Memory *memory)
{
  return dump_image(memory, false);
}

static std::string cmd_blk(const std::vector<std::string> &args)
{
  std::string source = blk_source(args);
  AsmContext *ctx = new AsmContext();
  ctx->quiet_output = 1;
  tokens_open_buffer(ctx, source.c_str());
  ctx->tokens.filename = "blk";
  ctx->init();
  int error_flag = ctx->assemble();
  std::string p1 = image_hex(&ctx->memory);
  std::string p2 = "-";
  do
  {
    if (error_flag == 0 && ctx->link() != 0) { error_flag = 1; }
    if (error_flag != 0) { break; }
    ctx->symbols.lock();
    ctx->symbols.scope_reset();
    ctx->pass = 2;
    ctx->init();
    error_flag = ctx->assemble();
    p2 = image_hex(&ctx->memory);
    if (error_flag != 0) { break; }
    if (ctx->link() != 0) { error_flag = 1; break; }
  } while (0);
  capture_take();
  std::string out = "st=1";
  if (error_flag == 0) { out = "st=0 p1=" + p1 + " p2=" + p2 + " syms=" + dump_symbols(ctx); }
  delete ctx;
  return out;
}

static std::string cmd_evop(const std::vector<std::string> &args)
{
  if (args.size() != 3) { return "bad-op"; }
  nvcond::Operator oper;
  char token[16];
  snprintf(token, sizeof(token), "%s", args[0].c_str());
  if (nvcond::get_operator(token, &oper) != 0) { return "none"; }
  int a = (int)strtoll(args[1].c_str(), NULL, 10);
  int b = (int)strtoll(args[2].c_str(), NULL, 10);
  char buf[64];
  snprintf(buf, sizeof(buf), "v=%d p=%d", nvcond::eval_operation(oper.operation, a, b), oper.precedence);
  return buf;
}

static void register_cond()
{
  handlers["evop"] = cmd_evop;
  handlers["cond"] = cmd_cond;
  handlers["skip"] = cmd_skip;
  handlers["blk"] = cmd_blk;
}
