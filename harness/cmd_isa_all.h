// Instruction-level commands for EVERY CPU of cpu_list (exploration sweeps of C01/C07/C08 over the
// back ends that have no Lean model).
//
// disx <cpu> <addr hex> <hex bytes>
//     like `dis`, for any CPU: loads the bytes at <addr> (CPU's endianness), calls the single-instruction
//     disassembler that belongs to cpu_list[cpu].disasm_range with a 128-byte heap buffer
//     -> <len> <hex of text> | nonul <len>
#ifndef NV_CMD_ISA_ALL_H
#define NV_CMD_ISA_ALL_H

#include "disasm/1802.h"
#include "disasm/4004.h"
#include "disasm/6502.h"
#include "disasm/65816.h"
#include "disasm/6800.h"
#include "disasm/68000.h"
#include "disasm/6809.h"
#include "disasm/68hc08.h"
#include "disasm/8008.h"
#include "disasm/8048.h"
#include "disasm/8051.h"
#include "disasm/86000.h"
#include "disasm/agc.h"
#include "disasm/arc.h"
#include "disasm/arm.h"
#include "disasm/arm64.h"
#include "disasm/avr8.h"
#include "disasm/cell.h"
#include "disasm/copper.h"
#include "disasm/cp1610.h"
#include "disasm/dotnet.h"
#include "disasm/dspic.h"
#include "disasm/ebpf.h"
#include "disasm/epiphany.h"
#include "disasm/f100_l.h"
#include "disasm/f8.h"
#include "disasm/java.h"
#include "disasm/lc3.h"
#include "disasm/m8c.h"
#include "disasm/mips.h"
#include "disasm/msp430.h"
#include "disasm/pdk13.h"
#include "disasm/pdk14.h"
#include "disasm/pdk15.h"
#include "disasm/pdk16.h"
#include "disasm/pdp11.h"
#include "disasm/pdp8.h"
#include "disasm/pic14.h"
#include "disasm/pic18.h"
#include "disasm/powerpc.h"
#include "disasm/propeller.h"
#include "disasm/propeller2.h"
#include "disasm/ps2_ee_vu.h"
#include "disasm/riscv.h"
#include "disasm/sh4.h"
#include "disasm/sparc.h"
#include "disasm/stm8.h"
#include "disasm/super_fx.h"
#include "disasm/sweet16.h"
#include "disasm/thumb.h"
#include "disasm/tms1000.h"
#include "disasm/tms340.h"
#include "disasm/tms9900.h"
#include "disasm/unsp.h"
#include "disasm/webasm.h"
#include "disasm/xtensa.h"
#include "disasm/z80.h"

// defined in disasm/msp430.cpp, not declared in its header
int disasm_msp430x(Memory *memory, uint32_t address, char *instruction, int length, int flags, int *cycles_min, int *cycles_max);

struct IsaAllCpu { disasm_range_t range; disasm_one_t one; };
static IsaAllCpu isa_all[] =
{
  { disasm_range_1802, disasm_1802 },
  { disasm_range_4004, disasm_4004 },
  { disasm_range_6502, disasm_6502 },
  { disasm_range_65816, disasm_65816 },
  { disasm_range_6800, disasm_6800 },
  { disasm_range_68000, disasm_68000 },
  { disasm_range_6809, disasm_6809 },
  { disasm_range_68hc08, disasm_68hc08 },
  { disasm_range_8008, disasm_8008 },
  { disasm_range_8048, disasm_8048 },
  { disasm_range_8051, disasm_8051 },
  { disasm_range_86000, disasm_86000 },
  { disasm_range_agc, disasm_agc },
  { disasm_range_arc, disasm_arc },
  { disasm_range_arm, disasm_arm },
  { disasm_range_arm64, disasm_arm64 },
  { disasm_range_avr8, disasm_avr8 },
  { disasm_range_cell, disasm_cell },
  { disasm_range_copper, disasm_copper },
  { disasm_range_cp1610, disasm_cp1610 },
  { disasm_range_dotnet, disasm_dotnet },
  { disasm_range_dspic, disasm_dspic },
  { disasm_range_ebpf, disasm_ebpf },
  { disasm_range_epiphany, disasm_epiphany },
  { disasm_range_f100_l, disasm_f100_l },
  { disasm_range_f8, disasm_f8 },
  { disasm_range_java, disasm_java },
  { disasm_range_lc3, disasm_lc3 },
  { disasm_range_m8c, disasm_m8c },
  { disasm_range_mips, disasm_mips },
  { disasm_range_msp430, disasm_msp430 },
  { disasm_range_msp430x, disasm_msp430x },
  { disasm_range_pdk13, disasm_pdk13 },
  { disasm_range_pdk14, disasm_pdk14 },
  { disasm_range_pdk15, disasm_pdk15 },
  { disasm_range_pdk16, disasm_pdk16 },
  { disasm_range_pdp11, disasm_pdp11 },
  { disasm_range_pdp8, disasm_pdp8 },
  { disasm_range_pic14, disasm_pic14 },
  { disasm_range_pic18, disasm_pic18 },
  { disasm_range_powerpc, disasm_powerpc },
  { disasm_range_propeller, disasm_propeller },
  { disasm_range_propeller2, disasm_propeller2 },
  { disasm_range_ps2_ee_vu, disasm_ps2_ee_vu },
  { disasm_range_riscv, disasm_riscv },
  { disasm_range_sh4, disasm_sh4 },
  { disasm_range_sparc, disasm_sparc },
  { disasm_range_stm8, disasm_stm8 },
  { disasm_range_super_fx, disasm_super_fx },
  { disasm_range_sweet16, disasm_sweet16 },
  { disasm_range_thumb, disasm_thumb },
  { disasm_range_tms1000, disasm_tms1000 },
  { disasm_range_tms1100, disasm_tms1100 },
  { disasm_range_tms340, disasm_tms340 },
  { disasm_range_tms9900, disasm_tms9900 },
  { disasm_range_unsp, disasm_unsp },
  { disasm_range_webasm, disasm_webasm },
  { disasm_range_xtensa, disasm_xtensa },
  { disasm_range_z80, disasm_z80 },
  { NULL, NULL }
};

static disasm_one_t isa_all_find(CpuList *cpu)
{
  for (int n = 0; isa_all[n].range != NULL; n++)
  {
    if (isa_all[n].range == cpu->disasm_range) { return isa_all[n].one; }
  }
  return NULL;
}

static std::string cmd_disx(const std::vector<std::string> &args)
{
  if (args.size() != 3) { return "bad-op"; }
  CpuList *cpu = isa_find_cpu(args[0]);
  if (cpu == NULL) { return "bad-op"; }
  disasm_one_t f = isa_all_find(cpu);
  if (f == NULL) { return "bad-op"; }
  uint32_t addr = (uint32_t)strtoul(args[1].c_str(), NULL, 16);
  std::string bytes = unhex(args[2]);
  Memory *memory = new Memory();
  isa_load(memory, cpu, addr, bytes);
  const int size = 128;
  char *text = (char *)malloc(size);
  memset(text, 0x55, size);
  int cycles_min = 0, cycles_max = 0;
  capture_take();
  signal(SIGPROF, isa_alarm);
  nv_cpu_alarm(20);
  int len = f(memory, addr, text, size, cpu->flags, &cycles_min, &cycles_max);
  nv_cpu_alarm(0);
  capture_take();
  std::string out;
  char buf[32];
  if (memchr(text, 0, size) == NULL)
  {
    snprintf(buf, sizeof(buf), "nonul %d", len);
    out = buf;
  }
  else
  {
    snprintf(buf, sizeof(buf), "%d ", len);
    out = buf + tohex(std::string(text));
  }
  free(text);
  delete memory;
  return out;
}


// disxb <cpu> <addr hex> <tail hex> <from> <to> [<off>]
//     batch form for the sweeps: for every 16-bit pattern p in [from, to) the bytes
//     (tail[0..off), p >> 8, p & 0xff, tail[off..]) are placed at <addr> (off = 0 when absent: p leads; off = 2
//     puts p into the upper half-word of a little-endian 32-bit instruction) and disassembled; then every byte
//     after the reported length is complemented and the instruction is disassembled again (locality).  Answer:
//       n=<count> max=<largest length> nbad=<n> unexplored=<n> bad=<p:kind:len;...> lens=<histogram len:count,...>
//     kinds: nonul, short (len < unit), nonlocal, crash (sanitizer report / signal), hang (20 s).
//     `unit` = bytes_per_address of the CPU (1 if 0).
//     The loop runs in a forked child that keeps its results in shared memory: when the child dies on a pattern
//     the pattern is recorded as crash/hang and a new child continues behind it, so a crashing decoder costs one
//     fork per crash and not a restart of the harness; after DISXB_CRASH_CAP crashes the rest of [from, to) is
//     reported as unexplored.
#include <sys/wait.h>
#include <set>
#define DISXB_CRASH_CAP 8
struct DisxbShared
{
  int cur, count, maxlen, nbad, badlen, hn;
  int hist_len[256], hist_cnt[256];
  char bad[1 << 17];
};

static void disxb_bad(DisxbShared *sh, int p, const char *kind, int len)
{
  sh->nbad++;
  if (sh->badlen + 64 < (int)sizeof(sh->bad))
  {
    sh->badlen += snprintf(sh->bad + sh->badlen, 64, "%s%04x:%s:%d", sh->badlen == 0 ? "" : ";", p, kind, len);
  }
}

static void disxb_child(DisxbShared *sh, CpuList *cpu, disasm_one_t f, uint32_t addr, const std::string &tail,
                        size_t off, int from, int to)
{
  int unit = cpu->bytes_per_address > 0 ? cpu->bytes_per_address : 1;
  const int size = 128;
  const int total = 2 + (int)tail.size();
  char *text1 = (char *)malloc(size);
  char *text2 = (char *)malloc(size);
  Memory *memory = new Memory();
  memory->endian = cpu->default_endian;
  signal(SIGPROF, isa_alarm);
  for (int p = from; p < to; p++)
  {
    sh->cur = p;
    std::string bytes = tail.substr(0, off);
    bytes += (char)(p >> 8);
    bytes += (char)(p & 0xff);
    bytes += tail.substr(off);
    for (int i = 0; i < total; i++) { memory->write8(addr + i, (uint8_t)bytes[i]); }
    memset(text1, 0x55, size);
    int c0 = 0, c1 = 0;
    nv_cpu_alarm(20);
    int len1 = f(memory, addr, text1, size, cpu->flags, &c0, &c1);
    nv_cpu_alarm(0);
    const char *kind = NULL;
    if (memchr(text1, 0, size) == NULL) { kind = "nonul"; }
    else if (len1 < unit) { kind = "short"; }
    else if (len1 <= total)
    {
      // locality: the bytes behind the reported length are replaced in five ways (complement, all ones, all
      // zeros, 0xf0, 0x0f); text and length must not change
      for (int alt = 0; alt < 5 && kind == NULL; alt++)
      {
        for (int i = len1; i < total; i++)
        {
          uint8_t b = alt == 0 ? (uint8_t)~bytes[i] : alt == 1 ? 0xff : alt == 2 ? 0x00 : alt == 3 ? 0xf0 : 0x0f;
          memory->write8(addr + i, b);
        }
        memset(text2, 0x55, size);
        nv_cpu_alarm(20);
        int len2 = f(memory, addr, text2, size, cpu->flags, &c0, &c1);
        nv_cpu_alarm(0);
        if (len2 != len1 || memchr(text2, 0, size) == NULL || strcmp(text1, text2) != 0) { kind = "nonlocal"; }
      }
    }
    // results of this pattern (only now: a pattern that kills the child is recorded by the parent)
    sh->count++;
    if (len1 > sh->maxlen) { sh->maxlen = len1; }
    int h;
    for (h = 0; h < sh->hn && sh->hist_len[h] != len1; h++) { }
    if (h == sh->hn && sh->hn < 256) { sh->hist_len[h] = len1; sh->hist_cnt[h] = 0; sh->hn++; }
    if (h < 256) { sh->hist_cnt[h]++; }
    if (kind != NULL) { disxb_bad(sh, p, kind, len1); }
  }
  sh->cur = to;
}

static std::string cmd_disxb(const std::vector<std::string> &args)
{
  if (args.size() != 5 && args.size() != 6) { return "bad-op"; }
  CpuList *cpu = isa_find_cpu(args[0]);
  if (cpu == NULL) { return "bad-op"; }
  disasm_one_t f = isa_all_find(cpu);
  if (f == NULL) { return "bad-op"; }
  uint32_t addr = (uint32_t)strtoul(args[1].c_str(), NULL, 16);
  std::string tail = unhex(args[2]);
  int from = atoi(args[3].c_str()), to = atoi(args[4].c_str());
  size_t off = args.size() == 6 ? (size_t)atoi(args[5].c_str()) : 0;
  if (off > tail.size()) { return "bad-op"; }
  DisxbShared *sh = (DisxbShared *)mmap(NULL, sizeof(DisxbShared), PROT_READ | PROT_WRITE, MAP_SHARED | MAP_ANONYMOUS, -1, 0);
  if (sh == MAP_FAILED) { return "bad-op"; }
  memset(sh, 0, sizeof(DisxbShared));
  sh->cur = from;
  int crashes = 0, unexplored = 0;
  int next = from;
  while (next < to)
  {
    fflush(stdout);
    fflush(ans);
    pid_t pid = fork();
    if (pid < 0) { munmap(sh, sizeof(DisxbShared)); return "bad-op"; }
    if (pid == 0)
    {
      int devnull = open("/dev/null", O_WRONLY);
      if (devnull >= 0) { dup2(devnull, 2); }
      disxb_child(sh, cpu, f, addr, tail, off, next, to);
      _exit(0);
    }
    int status = 0;
    waitpid(pid, &status, 0);
    if (WIFEXITED(status) && WEXITSTATUS(status) == 0 && sh->cur >= to) { break; }
    // the child died while working on pattern sh->cur
    int p = sh->cur;
    if (p < next || p >= to) { p = next; }
    disxb_bad(sh, p, WIFEXITED(status) && WEXITSTATUS(status) == 97 ? "hang" : "crash", 0);
    sh->count++;
    crashes++;
    next = p + 1;
    if (crashes >= DISXB_CRASH_CAP) { unexplored = to - next; break; }
  }
  capture_take();
  char head[128];
  snprintf(head, sizeof(head), "n=%d max=%d nbad=%d unexplored=%d bad=", sh->count, sh->maxlen, sh->nbad, unexplored);
  std::string out = head + (sh->badlen == 0 ? std::string("-") : std::string(sh->bad, sh->badlen)) + " lens=";
  for (int h = 0; h < sh->hn; h++)
  {
    char buf[48];
    snprintf(buf, sizeof(buf), "%s%d:%d", h == 0 ? "" : ",", sh->hist_len[h], sh->hist_cnt[h]);
    out += buf;
  }
  if (sh->hn == 0) { out += "-"; }
  munmap(sh, sizeof(DisxbShared));
  return out;
}


// Two-pass assembly of ONE statement at <addr>, exactly the path of `asm1` (cmd_isa.h).
// returns 0 and the bytes when they form one run that starts at addr, 1 when the assembly succeeded with
// another image (nothing, padding, several runs), -1 when a pass failed or an "Error" line was printed.
static int isa_asm_text(CpuList *cpu, uint32_t addr, const std::string &stmt, std::string &bytes)
{
  char head[96];
  snprintf(head, sizeof(head), ".%s\n.org 0x%x\n", cpu->name, addr / (cpu->bytes_per_address ? cpu->bytes_per_address : 1));
  std::string source = std::string(head) + stmt + "\n";
  AsmContext *ctx = new AsmContext();
  ctx->quiet_output = 1;
  tokens_open_buffer(ctx, source.c_str());
  ctx->tokens.filename = "asm1";
  ctx->init();
  int error_flag = ctx->assemble();
  do
  {
    if (error_flag == 0 && ctx->link() != 0) { error_flag = 1; }
    if (error_flag != 0) { break; }
    ctx->symbols.lock();
    ctx->symbols.scope_reset();
    ctx->pass = 2;
    ctx->init();
    error_flag = ctx->assemble();
    if (error_flag != 0) { break; }
    if (ctx->link() != 0) { error_flag = 1; break; }
  } while (0);
  std::string printed = capture_take();
  int rc = -1;
  bytes.clear();
  if (error_flag == 0 && count_errors(printed) == 0)
  {
    // every byte whose debug marker is not DL_EMPTY (what dump_image of cmd_prog.h lists), found by a scan that
    // skips the empty markers (memset to -1) two at a time
    std::vector<std::pair<uint64_t, uint8_t> > img;
    for (MemoryPage *pg = ctx->memory.pages; pg != nullptr; pg = pg->next)
    {
      for (uint32_t o = 0; o < PAGE_SIZE; o += 2)
      {
        uint64_t two;
        memcpy(&two, &pg->debug_line[o], sizeof(two));
        if (two == ~(uint64_t)0) { continue; }
        for (uint32_t k = o; k < o + 2; k++)
        {
          if (pg->debug_line[k] != DL_EMPTY) { img.push_back(std::make_pair((uint64_t)pg->address + k, pg->bin[k])); }
        }
      }
    }
    std::sort(img.begin(), img.end());
    rc = img.empty() || img[0].first != addr ? 1 : 0;
    for (size_t i = 0; rc == 0 && i < img.size(); i++)
    {
      if (img[i].first != (uint64_t)addr + i) { rc = 1; }
    }
    if (rc == 0)
    {
      for (size_t i = 0; i < img.size(); i++) { bytes.push_back((char)img[i].second); }
    }
  }
  delete ctx;
  return rc;
}

// rtxb <cpu> <addr hex> <tail hex> <from> <to> <off> <k>
//     decode -> encode -> decode over 16-bit patterns (same byte strings as disxb): the instruction at <addr> is
//     disassembled (text T, length n); every distinct instruction bytes[0..n) whose text has no '?' is assembled
//     at <addr> through the path of asm1; when the assembler accepts T with bytes B' != bytes[0..n), B' (followed
//     by the bytes that followed the instruction) is disassembled again (text T').  Answer:
//       n=<patterns> uniq=<instructions assembled> acc=<accepted> same=<same bytes> more=<records dropped>
//       unexplored=<n> rec=<p,hex T,hex B',hex T'|crash|hang;...>
//     Only the cases with other bytes are returned (the caller compares T and T' after numeric normalisation).
//     k > 0 limits the work to the first k instructions of every SHAPE (text with each number replaced by '#') in
//     [from, to), in pattern order; k = 0 takes every distinct instruction.  The k-limited set is a subset of the
//     unlimited one.  Runs in a forked child like disxb (a hang costs 5 s; after 8 crashes/hangs the rest of the
//     range is reported as unexplored).
struct RtxbShared
{
  int cur, count, uniq, acc, same, more, reclen;
  char rec[1 << 20];
};

static void rtxb_rec(RtxbShared *sh, const std::string &r)
{
  if (sh->reclen + (int)r.size() + 2 >= (int)sizeof(sh->rec)) { sh->more++; return; }
  if (sh->reclen != 0) { sh->rec[sh->reclen++] = ';'; }
  memcpy(sh->rec + sh->reclen, r.data(), r.size());
  sh->reclen += (int)r.size();
}

// text with every number (a token that starts with a digit or '$'/'#'-prefixed hex and is not part of an identifier)
// replaced by '#'
static std::string rtxb_shape(const char *t)
{
  std::string out;
  for (size_t i = 0; t[i] != 0; )
  {
    unsigned char c = (unsigned char)t[i];
    bool ident_before = i > 0 && (isalnum((unsigned char)t[i - 1]) || t[i - 1] == '_' || t[i - 1] == '.');
    if (isdigit(c) && !ident_before)
    {
      while (isalnum((unsigned char)t[i])) { i++; }
      out += '#';
      continue;
    }
    out += (char)c;
    i++;
  }
  return out;
}

// the text without a trailing annotation " (14)" / " (offset=-2)" (see ANNOT in tools/cpu_sweep.py: blank-separated,
// purely decimal, behind an operand)
static std::string rtxb_instr_text(const char *t)
{
  std::string s(t);
  size_t e = s.size();
  while (e > 0 && (s[e - 1] == ' ' || s[e - 1] == '\t')) { e--; }
  if (e == 0 || s[e - 1] != ')') { return s; }
  size_t open = s.rfind('(', e - 1);
  if (open == std::string::npos || open == 0) { return s; }
  size_t i = open + 1;
  if (s.compare(i, 7, "offset=") == 0) { i += 7; }
  if (i < e - 1 && s[i] == '-') { i++; }
  if (i >= e - 1) { return s; }
  for (size_t j = i; j < e - 1; j++) { if (!isdigit((unsigned char)s[j])) { return s; } }
  size_t b = open;
  if (s[b - 1] != ' ' && s[b - 1] != '\t') { return s; }
  while (b > 0 && (s[b - 1] == ' ' || s[b - 1] == '\t')) { b--; }
  if (b == 0) { return s; }
  // the token before the annotation is an operand that contains a digit (the target address)
  bool digit = false;
  for (size_t j = b; j > 0; j--)
  {
    unsigned char c = (unsigned char)s[j - 1];
    if (c == ' ' || c == '\t' || c == ',' || c == '(') { break; }
    if (isdigit(c)) { digit = true; }
  }
  if (!digit) { return s; }
  return s.substr(0, b);
}

static void rtxb_child(RtxbShared *sh, CpuList *cpu, disasm_one_t f, uint32_t addr, const std::string &tail,
                       size_t off, int from, int to, int k)
{
  std::map<std::string, int> shapes;
  const int size = 128;
  const int total = 2 + (int)tail.size();
  char *text1 = (char *)malloc(size);
  char *text2 = (char *)malloc(size);
  Memory *memory = new Memory();
  memory->endian = cpu->default_endian;
  std::set<std::string> seen;
  signal(SIGPROF, isa_alarm);
  for (int p = from; p < to; p++)
  {
    sh->cur = p;
    std::string bytes = tail.substr(0, off);
    bytes += (char)(p >> 8);
    bytes += (char)(p & 0xff);
    bytes += tail.substr(off);
    for (int i = 0; i < total; i++) { memory->write8(addr + i, (uint8_t)bytes[i]); }
    memset(text1, 0x55, size);
    int c0 = 0, c1 = 0;
    nv_cpu_alarm(5);
    int len1 = f(memory, addr, text1, size, cpu->flags, &c0, &c1);
    sh->count++;
    if (len1 <= 0 || len1 > total || memchr(text1, 0, size) == NULL) { nv_cpu_alarm(0); continue; }   // C08's business
    if (text1[0] == 0 || strchr(text1, '?') != NULL) { nv_cpu_alarm(0); continue; }
    std::string key = bytes.substr(0, len1);
    if (!seen.insert(key).second) { nv_cpu_alarm(0); continue; }
    if (k > 0 && ++shapes[rtxb_shape(text1)] > k) { nv_cpu_alarm(0); continue; }
    sh->uniq++;
    std::string b2;
    int rc = isa_asm_text(cpu, addr, rtxb_instr_text(text1), b2);
    if (rc != 0) { nv_cpu_alarm(0); continue; }
    sh->acc++;
    if (b2 == key) { sh->same++; nv_cpu_alarm(0); continue; }
    std::string after = b2 + bytes.substr(len1);
    for (size_t i = 0; i < after.size(); i++) { memory->write8(addr + i, (uint8_t)after[i]); }
    memset(text2, 0x55, size);
    f(memory, addr, text2, size, cpu->flags, &c0, &c1);
    nv_cpu_alarm(0);
    // restore what the longer image may have written behind the pattern bytes
    for (size_t i = total; i < after.size(); i++) { memory->write8(addr + i, 0); }
    char pb[16];
    snprintf(pb, sizeof(pb), "%04x,", p);
    std::string t2 = memchr(text2, 0, size) == NULL ? std::string("") : std::string(text2);
    rtxb_rec(sh, std::string(pb) + tohex(std::string(text1)) + "," + tohex(b2) + "," + tohex(t2));
  }
  sh->cur = to;
}

static std::string cmd_rtxb(const std::vector<std::string> &args)
{
  if (args.size() != 7) { return "bad-op"; }
  CpuList *cpu = isa_find_cpu(args[0]);
  if (cpu == NULL) { return "bad-op"; }
  disasm_one_t f = isa_all_find(cpu);
  if (f == NULL) { return "bad-op"; }
  uint32_t addr = (uint32_t)strtoul(args[1].c_str(), NULL, 16);
  std::string tail = unhex(args[2]);
  int from = atoi(args[3].c_str()), to = atoi(args[4].c_str());
  size_t off = (size_t)atoi(args[5].c_str());
  int k = atoi(args[6].c_str());
  if (off > tail.size()) { return "bad-op"; }
  RtxbShared *sh = (RtxbShared *)mmap(NULL, sizeof(RtxbShared), PROT_READ | PROT_WRITE, MAP_SHARED | MAP_ANONYMOUS, -1, 0);
  if (sh == MAP_FAILED) { return "bad-op"; }
  sh->cur = from; sh->count = sh->uniq = sh->acc = sh->same = sh->more = sh->reclen = 0;
  int crashes = 0, unexplored = 0, next = from;
  while (next < to)
  {
    fflush(stdout);
    fflush(ans);
    pid_t pid = fork();
    if (pid < 0) { munmap(sh, sizeof(RtxbShared)); return "bad-op"; }
    if (pid == 0)
    {
      int devnull = open("/dev/null", O_WRONLY);
      if (devnull >= 0) { dup2(devnull, 2); }
      rtxb_child(sh, cpu, f, addr, tail, off, next, to, k);
      _exit(0);
    }
    int status = 0;
    waitpid(pid, &status, 0);
    if (WIFEXITED(status) && WEXITSTATUS(status) == 0 && sh->cur >= to) { break; }
    int p = sh->cur;
    if (p < next || p >= to) { p = next; }
    char pb[32];
    snprintf(pb, sizeof(pb), "%04x,%s", p, WIFEXITED(status) && WEXITSTATUS(status) == 97 ? "hang" : "crash");
    rtxb_rec(sh, pb);
    crashes++;
    next = p + 1;
    if (crashes >= DISXB_CRASH_CAP) { unexplored = to - next; break; }
  }
  capture_take();
  char head[160];
  snprintf(head, sizeof(head), "n=%d uniq=%d acc=%d same=%d more=%d unexplored=%d rec=", sh->count, sh->uniq, sh->acc,
           sh->same, sh->more, unexplored);
  std::string out = head + (sh->reclen == 0 ? std::string("-") : std::string(sh->rec, sh->reclen));
  munmap(sh, sizeof(RtxbShared));
  return out;
}


// walkx <cpu> <start hex> <end hex> <hex bytes>
//     like `walk` (real disasm_range of cpu_list with stdout captured), but format-agnostic: for every printed line
//     that has a ':' within its first 24 characters the text before that ':' is returned (hex encoded, comma
//     separated, print order); the caller knows the address format of the CPU (0x%04x, octal 0%04o, tms1000's
//     linear|pc page/lsfr, ...).  "-" if there is no such line.
static std::string cmd_walkx(const std::vector<std::string> &args)
{
  if (args.size() != 4) { return "bad-op"; }
  CpuList *cpu = isa_find_cpu(args[0]);
  if (cpu == NULL || cpu->disasm_range == NULL) { return "bad-op"; }
  uint32_t start = (uint32_t)strtoul(args[1].c_str(), NULL, 16);
  uint32_t end = (uint32_t)strtoul(args[2].c_str(), NULL, 16);
  std::string bytes = unhex(args[3]);
  Memory *memory = new Memory();
  isa_load(memory, cpu, start, bytes);
  capture_take();
  signal(SIGPROF, isa_alarm);
  nv_cpu_alarm(10);
  cpu->disasm_range(memory, cpu->flags, start, end);
  nv_cpu_alarm(0);
  std::string printed = capture_take();
  delete memory;
  std::string out;
  size_t pos = 0;
  while (pos < printed.size())
  {
    size_t eol = printed.find('\n', pos);
    if (eol == std::string::npos) { eol = printed.size(); }
    std::string line = printed.substr(pos, eol - pos);
    pos = eol + 1;
    size_t colon = line.find(':');
    if (colon == std::string::npos || colon == 0 || colon > 24) { continue; }
    if (!out.empty()) { out += ","; }
    out += tohex(line.substr(0, colon));
  }
  return out.empty() ? "-" : out;
}


// cpus -> name:bytes_per_address:endian,... for every cpu_list entry
static std::string cmd_cpus(const std::vector<std::string> &args)
{
  std::string out;
  for (int n = 0; cpu_list[n].name != NULL; n++)
  {
    char buf[96];
    snprintf(buf, sizeof(buf), "%s%s:%d:%d", n == 0 ? "" : ",", cpu_list[n].name, cpu_list[n].bytes_per_address,
             cpu_list[n].default_endian);
    out += buf;
  }
  return out;
}

static void register_isa_all()
{
  handlers["disx"] = cmd_disx;
  handlers["cpus"] = cmd_cpus;
  handlers["disxb"] = cmd_disxb;
  handlers["walkx"] = cmd_walkx;
  handlers["rtxb"] = cmd_rtxb;
}

#endif
