// mexp <flags> <hex source> [<hex include-file-name> <hex include-file-content>]...
//   Runs the real AsmContext::assemble() (one pass) on the source with a recording
//   parse_instruction: every statement that would go to a CPU back end is recorded as the
//   token stream the real tokens_get delivers for it.  Labels, .define/#define, .macro, .equ/.def,
//   `NAME equ VALUE` and .include are handled by the real code.
//   flags: '-' or letters  t can_tick_end_string, d strings_have_dots, s strings_have_slashes,
//          h is_dollar_hex, n numbers_dont_have_dots, p ignore_number_postfix
//   -> ret=<assemble()> ec=<error_count> ef=<error> toks=<items> defs=<macro table>
//   items: I:<hex word> starts a statement, <type>:<hex text> one token, ';' ends it
//   macro table: <hex name>:<param count>:<hex text>
#include "core/Macros.h"

static std::string mexp_out;

static void mexp_item(const std::string &s)
{
  if (!mexp_out.empty()) { mexp_out += ","; }
  mexp_out += s;
}

static int mexp_recorder(AsmContext *asm_context, char *instr)
{
  char token[TOKENLEN];
  mexp_item("I:" + tohex(instr));
  while (true)
  {
    int token_type = tokens_get(asm_context, token, TOKENLEN);
    if (token_type == TOKEN_EOL || token_type == TOKEN_EOF) { break; }
    mexp_item(std::to_string(token_type) + ":" + tohex(token));
  }
  mexp_item(";");
  return 0;
}

static std::string cmd_mexp(const std::vector<std::string> &args)
{
  if (args.size() < 2) { return "bad-op"; }
  const std::string &flags = args[0];
  std::string source = unhex(args[1]);
  char dir[] = "/tmp/nvmexpXXXXXX";
  bool have_dir = false;
  std::vector<std::string> files;
  if (args.size() > 2)
  {
    if (mkdtemp(dir) == NULL) { return "bad-op"; }
    have_dir = true;
    for (size_t i = 2; i + 1 < args.size(); i += 2)
    {
      std::string path = std::string(dir) + "/" + unhex(args[i]);
      FILE *f = fopen(path.c_str(), "wb");
      if (f != NULL)
      {
        std::string c = unhex(args[i + 1]);
        fwrite(c.data(), 1, c.size(), f);
        fclose(f);
        files.push_back(path);
      }
    }
  }
  AsmContext *ctx = new AsmContext();
  ctx->quiet_output = 1;
  if (have_dir) { include_add_path(ctx, dir); }
  FILE *src_fp = tmpfile();
  if (src_fp == NULL) { delete ctx; return "bad-op"; }
  fwrite(source.data(), 1, source.size(), src_fp);
  fflush(src_fp);
  fseek(src_fp, 0, SEEK_SET);
  ctx->tokens.in = src_fp;
  ctx->tokens.filename = "mexp";
  ctx->init();
  ctx->parse_instruction = mexp_recorder;
  ctx->can_tick_end_string = flags.find('t') != std::string::npos;
  ctx->strings_have_dots = flags.find('d') != std::string::npos;
  ctx->strings_have_slashes = flags.find('s') != std::string::npos;
  ctx->is_dollar_hex = flags.find('h') != std::string::npos;
  ctx->numbers_dont_have_dots = flags.find('n') != std::string::npos;
  ctx->ignore_number_postfix = flags.find('p') != std::string::npos;
  mexp_out.clear();
  int ret = ctx->assemble();
  capture_take();
  std::string defs;
  {
    MacrosIter iter(ctx->macros);
    while (iter.next() != -1)
    {
      if (!defs.empty()) { defs += ","; }
      defs += tohex(iter.name) + ":" + std::to_string((int)iter.param_count) + ":" + tohex(iter.value);
    }
  }
  char head[128];
  snprintf(head, sizeof(head), "ret=%d ec=%d ef=%d", ret, ctx->error_count, ctx->error ? 1 : 0);
  std::string out = head;
  out += " toks=" + (mexp_out.empty() ? std::string("-") : mexp_out);
  out += " defs=" + (defs.empty() ? std::string("-") : defs);
  if (ctx->tokens.in != NULL) { fclose(ctx->tokens.in); ctx->tokens.in = NULL; }
  delete ctx;
  for (auto &f : files) { unlink(f.c_str()); }
  if (have_dir) { rmdir(dir); }
  return out;
}

static void register_macro()
{
  handlers["mexp"] = cmd_mexp;
}
