#!/usr/bin/env python3
"""merge_branch.py <branch> : merge a builder branch (agent/<name>) into the current branch of /verif.

`git merge --no-commit --no-ff`; conflicts in the JSON registries are resolved by their meaning (MANIFEST.json:
checks by property_id — the branch's entry wins for properties it changed relative to the merge base;
known_findings*.json: union of entries by id, the branch's version of an entry it changed wins; seeded/RESULTS.json:
union), conflicts in line-registration files (Main.lean, cmd_all.h, nv_dump_more.h, NakenVerif.lean, nvlib/tools
lists) by `git merge-file --union`.  Everything else is left conflicted for a manual look.  Nothing is committed.
"""
import json, os, subprocess, sys

VERIF = os.path.dirname(os.path.dirname(os.path.abspath(__file__)))
UNION = {"lean/Driver/Main.lean", "harness/cmd_all.h", "harness/nv_dump_more.h", "lean/NakenVerif.lean", ".gitignore"}


def git(*a, check=False):
    r = subprocess.run(["git", "-C", VERIF] + list(a), stdout=subprocess.PIPE, stderr=subprocess.PIPE)
    if check and r.returncode != 0:
        raise SystemExit("git %s failed: %s" % (" ".join(a), r.stderr.decode()))
    return r


def stage(n, path):
    r = git("show", ":%d:%s" % (n, path))
    return r.stdout.decode() if r.returncode == 0 else None


def merge_manifest(base, ours, theirs):
    b, o, t = (json.loads(x) if x else {"checks": [], "not_applicable": []} for x in (base, ours, theirs))
    bc = {c["property_id"]: c for c in b.get("checks", [])}
    oc = {c["property_id"]: c for c in o["checks"]}
    for c in t["checks"]:
        pid = c["property_id"]
        if bc.get(pid) != c:           # the branch added or changed this entry
            oc[pid] = c
    o["checks"] = [oc[k] for k in sorted(oc)]
    o["not_applicable"] = [n for n in o.get("not_applicable", []) if n["property_id"] not in oc]
    for e in o.get("engines", []):
        e["serves_properties"] = sorted(set(e.get("serves_properties", [])) | set(oc))
    # hooks: union of source_commits
    hs = list(o.get("hooks", {}).get("source_commits", []))
    for h in t.get("hooks", {}).get("source_commits", []):
        if h not in hs:
            hs.append(h)
    if hs:
        o["hooks"]["source_commits"] = hs
    return json.dumps(o, indent=1) + "\n"


def merge_entries(base, ours, theirs):
    b, o, t = (json.loads(x) if x else {"entries": []} for x in (base, ours, theirs))
    be = {e["id"]: e for e in b["entries"]}
    ids_t = {e["id"] for e in t["entries"]}
    out, seen = [], set()
    te = {e["id"]: e for e in t["entries"]}
    for e in o["entries"]:
        i = e["id"]
        if i in be and i not in ids_t:
            continue                        # the branch removed it
        if i in te and te[i] != be.get(i):
            e = te[i]                       # the branch changed it
        out.append(e); seen.add(i)
    for e in t["entries"]:
        if e["id"] not in seen and e["id"] not in be:
            out.append(e); seen.add(e["id"])
    o["entries"] = out
    return json.dumps(o, indent=1) + "\n"


def merge_dict(base, ours, theirs):
    o, t = json.loads(ours or "{}"), json.loads(theirs or "{}")
    o.update({k: v for k, v in t.items() if k not in o})
    return json.dumps(o, indent=1, sort_keys=True) + "\n"


def main():
    branch = sys.argv[1]
    r = git("merge", "--no-commit", "--no-ff", branch)
    print(r.stdout.decode()[-1500:], r.stderr.decode()[-500:])
    conf = git("diff", "--name-only", "--diff-filter=U").stdout.decode().split()
    left = []
    for p in conf:
        base, ours, theirs = stage(1, p), stage(2, p), stage(3, p)
        full = os.path.join(VERIF, p)
        if p == "MANIFEST.json":
            open(full, "w").write(merge_manifest(base, ours, theirs))
        elif p in ("known_findings.json", "known_findings_sweep.json"):
            open(full, "w").write(merge_entries(base, ours, theirs))
        elif p == "seeded/RESULTS.json":
            open(full, "w").write(merge_dict(base, ours, theirs))
        elif p in UNION or p.startswith("tools/props/C0"):
            tmp = [full + ".base", full + ".ours", full + ".theirs"]
            for f, c in zip(tmp, (base, ours, theirs)):
                open(f, "w").write(c or "")
            subprocess.run(["git", "merge-file", "--union", tmp[1], tmp[0], tmp[2]])
            os.replace(tmp[1], full)
            os.unlink(tmp[0]); os.unlink(tmp[2])
        elif p.startswith("evidence/"):
            open(full, "w").write(theirs or ours)
        else:
            left.append(p)
            continue
        git("add", p)
        print("resolved", p)
    print("LEFT CONFLICTED:", left)
    # MANIFEST may merge textually without conflict but end up inconsistent: normalise
    m = json.load(open(os.path.join(VERIF, "MANIFEST.json")))
    ids = [c["property_id"] for c in m["checks"]]
    assert len(ids) == len(set(ids)), "duplicate property in MANIFEST"
    m["not_applicable"] = [n for n in m.get("not_applicable", []) if n["property_id"] not in ids]
    json.dump(m, open(os.path.join(VERIF, "MANIFEST.json"), "w"), indent=1)
    print("checks:", ids)


if __name__ == "__main__":
    main()
