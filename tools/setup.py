#!/usr/bin/env python3
"""MANIFEST.setup_cmd: build everything once after a fresh restore (offline)."""
import os, sys, subprocess
sys.path.insert(0, os.path.dirname(os.path.abspath(__file__)))
import nvlib

def main():
    repo = nvlib.build_repo()
    nvlib.build_tool("nv_harness", ["nv_harness.cpp"], repo)
    nvlib.run_translator(repo)
    r = nvlib.lake_build(["NakenVerif", "nvdriver"])
    sys.stdout.write(r["log"][-3000:])
    return 0 if r["ok"] else 1

if __name__ == "__main__":
    sys.exit(main())
