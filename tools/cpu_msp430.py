"""MSP430 (16-bit core, CPU type `.msp430`) part of the instruction-level properties C01, C06, C07, C08.

Exports, per property Cxx:  cxx_correspondence(ctx, corr), cxx_oracle(ctx, orc), CXX_THEOREMS,
plus LEAN_MODULES and replay(ctx, rec).  tools/props/C01.py ... C08.py iterate over CPU modules.

Independent reference ("Arch"): the instruction formats of the MSP430 family user's guides (SLAU049 / SLAU144
chapter 3: double-operand format I, single-operand format II, jump format III, the As/Ad addressing-mode table, the
constant generators CG1/CG2, the table of emulated instructions).  Nothing here is derived from /repo.
"""
import os, re
import nvlib

CPU = "msp430"
M16 = 0xffff
M32 = 0xffffffff

LEAN_MODULES = ["NakenVerif.Msp430.Fixpoint"]      # imports RoundTrip -> AsmSound/AsmRange (encoder), DisLocal/DisRows/DisSound (decoder)
P = "NakenVerif.Msp430."
C01_THEOREMS = [P + n for n in (
    "msp430_encode_sound", "msp430_optimize_only_rewrites_index0", "msp430_encode_len", "msp430_walk_exact",
    "msp430_fixpoint_structured", "encode_core_form", "arch_len", "arch_reading", "table_spec_rows", "table_cmd_codes",
    "table_core_types", "table_no_shadow", "table_core_rows", "table_core_names", "table_dis_kinds", "table_no_sbb_row",
    "table_alias_zero_commented", "msp430_pcinc_counterexample")]
C06_THEOREMS = [P + n for n in (
    "msp430_encode_rejects_unfit", "msp430_encode_injective_mod_field", "msp430_encode_injective_imm16",
    "msp430_encode_exact_field", "msp430_jump_range", "table_alias_rows", "table_jump_rows", "table_spec_rows")]
C07_THEOREMS = [P + n for n in (
    "msp430_decode_encode_decode", "msp430_text_rejected_classes", "arch_reading", "table_no_shadow", "table_core_rows",
    "table_core_names", "table_dis_kinds")]
C08_THEOREMS = [P + n for n in (
    "msp430_len_bounds", "msp430_decode_local", "msp430_text_fits", "msp430_walk_tiles", "msp430_walk_tiles_disasm",
    "table_dis_types", "table_instr_short")]

MODELLED = ("parse_instruction_msp430 for CPU type .msp430 (all VERSION_MSP430 rows: 12 two-operand, 6 single-operand, "
            "reti, 12 jump mnemonics; aliases[] expansion incl. the MSP430X alias rows that fail on this CPU; "
            "operand_to_cg; process_operand; jump range check; -optimize 0(Rn)->@Rn with its pass-1 flag byte; pad byte "
            "at odd addresses); disasm_msp430 exact text and length for EVERY word sequence (MSP430X decode paths, "
            "extension-word prefixes, rpt texts, alias comments included); disasm_range_msp430 loop incl. the "
            "vector-table lines")
NOT_MODELLED = ("MSP430X (20-bit, CPU type .msp430x) ENCODING: rpt prefixes, mova/calla/pushm/popm/rxxm, the ...x "
                "extended forms and OP_X_* row types (the decoder side of these words is modelled: text and length); "
                "symbols/expressions inside operands (C04/C11) and therefore the pass-1 'no constant generator' flag "
                "byte 1 as produced by forward references (its effect on pass 2 is modelled: ctx.flag); the wrap-around "
                "guard of disasm_range_msp430 at the last word of the 32-bit address space (the model walks over Nat)")

# =============================================================================================
# Arch: reference decoder / encoder written from the user's guide
# =============================================================================================
OP2 = {"mov": 4, "add": 5, "addc": 6, "subc": 7, "sub": 8, "cmp": 9, "dadd": 10, "bit": 11, "bic": 12, "bis": 13,
       "xor": 14, "and": 15}
OP1 = {"rrc": 0, "swpb": 1, "rra": 2, "sxt": 3, "push": 4, "call": 5}
OP1_WORD_ONLY = ("swpb", "sxt", "call")
JUMPS = {"jne": 0, "jnz": 0, "jeq": 1, "jz": 1, "jnc": 2, "jlo": 2, "jc": 3, "jhs": 3, "jn": 4, "jge": 5, "jl": 6, "jmp": 7}
COND_NAME = ["jne", "jeq", "jnc", "jc", "jn", "jge", "jl", "jmp"]
# emulated instructions (user's guide, table "Emulated instructions"): name -> (core mnemonic, how)
#   ("src", n): core #n, dst      "dd": core dst, dst     "pc": mov dst, PC     "pop": mov @SP+, dst
EMULATED1 = {"adc": ("addc", ("src", 0)), "dadc": ("dadd", ("src", 0)), "dec": ("sub", ("src", 1)),
             "decd": ("sub", ("src", 2)), "inc": ("add", ("src", 1)), "incd": ("add", ("src", 2)),
             "inv": ("xor", ("src", -1)), "sbc": ("subc", ("src", 0)), "tst": ("cmp", ("src", 0)),
             "clr": ("mov", ("src", 0)), "rla": ("add", "dd"), "rlc": ("addc", "dd"), "br": ("mov", "pc"),
             "pop": ("mov", "pop")}
# no-operand emulated instructions: name -> (core, #n, destination register)
EMULATED0 = {"clrc": ("bic", 1, 2), "clrn": ("bic", 4, 2), "clrz": ("bic", 2, 2), "dint": ("bic", 8, 2),
             "eint": ("bis", 8, 2), "setc": ("bis", 1, 2), "setn": ("bis", 4, 2), "setz": ("bis", 2, 2),
             "nop": ("mov", 0, 3), "ret": None}


def sext(v, n):
    v &= (1 << n) - 1
    return v - (1 << n) if v >> (n - 1) else v


def src_has_ext(reg, As):
    return (As == 1 and reg != 3) or (As == 3 and reg == 0)


def imm_of(bw, v):
    return v & (0xff if bw else M16)


def src_operand(bw, reg, As, ext, ea):
    """reading of (register, As, extension word at address ea) with the constant generators applied"""
    if reg == 3:
        return ("imm", imm_of(bw, [0, 1, 2, M16][As]))
    if reg == 2 and As == 2:
        return ("imm", imm_of(bw, 4))
    if reg == 2 and As == 3:
        return ("imm", imm_of(bw, 8))
    if As == 0:
        return ("reg", reg)
    if As == 1:
        if reg == 0:
            return ("sym", (ea + ext) & M16)       # symbolic: the operand is at (address of X) + X
        if reg == 2:
            return ("abs", ext)                    # absolute: SR reads as 0
        return ("idx", reg, ext)
    if As == 2:
        return ("ind", reg)
    if reg == 0:
        return ("imm", imm_of(bw, ext))
    return ("inc", reg)


def dst_operand(reg, ext, ea):
    if reg == 0:
        return ("sym", (ea + ext) & M16)
    if reg == 2:
        return ("abs", ext)
    return ("idx", reg, ext)


def arch_decode(addr, ws):
    """(instr, words used) or None for the instruction at address addr.
    instr: ("two", op, bw, src, dst) | ("one", op, bw, src) | ("reti",) | ("jump", cond, target)"""
    if not ws:
        return None
    w = ws[0]
    if (w & 0xe000) == 0x2000:
        return (("jump", COND_NAME[(w >> 10) & 7], (addr + 2 + 2 * sext(w & 0x3ff, 10)) & M16), 1)
    if (w & 0xfc00) == 0x1000:
        if w == 0x1300:
            return (("reti",), 1)
        o = (w >> 7) & 7
        if o >= 6:
            return None
        name = [k for k, v in OP1.items() if v == o][0]
        bw, As, reg = (w >> 6) & 1, (w >> 4) & 3, w & 15
        if bw and name in OP1_WORD_ONLY:
            return None
        if src_has_ext(reg, As):
            if len(ws) < 2:
                return None
            return (("one", name, bw, src_operand(bw, reg, As, ws[1], addr + 2)), 2)
        return (("one", name, bw, src_operand(bw, reg, As, 0, 0)), 1)
    if (w >> 12) < 4:
        return None
    name = [k for k, v in OP2.items() if v == w >> 12][0]
    sreg, Ad, bw, As, dreg = (w >> 8) & 15, (w >> 7) & 1, (w >> 6) & 1, (w >> 4) & 3, w & 15
    n = 1
    e1 = 0
    if src_has_ext(sreg, As):
        if len(ws) < n + 1:
            return None
        e1 = ws[n]
        n += 1
    src = src_operand(bw, sreg, As, e1, addr + 2)
    if Ad:
        if len(ws) < n + 1:
            return None
        dst = dst_operand(dreg, ws[n], addr + 2 * n)
        n += 1
    else:
        dst = ("reg", dreg)
    return (("two", name, bw, src, dst), n)


CG_WORD = {0: (3, 0), 1: (3, 1), 2: (3, 2), M16: (3, 3), 4: (2, 2), 8: (2, 3)}
CG_BYTE = {0: (3, 0), 1: (3, 1), 2: (3, 2), 0xff: (3, 3), 4: (2, 2), 8: (2, 3)}


def enc_src(bw, s, ea):
    """canonical (reg, As, ext words, don't-care masks): the constant generator is used whenever it can be"""
    k = s[0]
    if k == "reg":
        return s[1], 0, [], []
    if k == "idx":
        return s[1], 1, [s[2]], [M16]
    if k == "sym":
        return 0, 1, [(s[1] - ea) & M16], [M16]
    if k == "abs":
        return 2, 1, [s[1]], [M16]
    if k == "ind":
        return s[1], 2, [], []
    if k == "inc":
        return s[1], 3, [], []
    v = s[1]
    cg = (CG_BYTE if bw else CG_WORD).get(v)
    if cg:
        return cg[0], cg[1], [], []
    return 0, 3, [v], [0xff if bw else M16]


def arch_encode(addr, i):
    """canonical encoding at address addr: (words, masks).  masks: bits of each word that are determined (the high
    byte of a byte immediate's extension word is not)"""
    if i[0] == "jump":
        return [0x2000 | COND_NAME.index(i[1]) << 10 | (((i[2] - addr - 2) & M16) >> 1) & 0x3ff], [M16]
    if i[0] == "reti":
        return [0x1300], [M16]
    if i[0] == "one":
        _, name, bw, s = i
        reg, As, ext, mk = enc_src(bw, s, addr + 2)
        return [0x1000 | OP1[name] << 7 | bw << 6 | As << 4 | reg] + ext, [M16] + mk
    _, name, bw, s, d = i
    reg, As, ext, mk = enc_src(bw, s, addr + 2)
    if d[0] == "reg":
        return [OP2[name] << 12 | reg << 8 | bw << 6 | As << 4 | d[1]] + ext, [M16] + mk
    dr, _, de, _ = enc_src(0, d, addr + 2 + 2 * len(ext))
    return [OP2[name] << 12 | reg << 8 | 1 << 7 | bw << 6 | As << 4 | dr] + ext + de, [M16] + mk + [M16]


def src_words(bw, s):
    return len(enc_src(bw, s, 0)[2])


# field ranges: union of the signed and the unsigned reading the architecture gives the field
def fits16(v): return -32768 <= v <= 65535
def fits8(v): return -128 <= v <= 255
def fits_jump(d): return d % 2 == 0 and -1024 <= d <= 1022
FIELD_WIDTH = {"imm16": 16, "imm8": 8, "idx": 16, "abs": 16, "sym": 16, "joff": 11}
FITS = {"imm16": fits16, "imm8": fits8, "idx": fits16, "abs": fits16, "sym": fits16, "joff": fits_jump}


def narrow32(v):
    if -(1 << 31) <= v <= M32:
        return sext(v, 32)
    return None


# =============================================================================================
# statement generator (type directed, boundary biased)
# =============================================================================================
class Case(object):
    __slots__ = ("text", "addr", "opts", "intent", "alt", "fit", "form", "group", "value", "mn", "note")

    def __init__(self, text, addr, opts="-", intent=None, alt=None, fit=None, form=None, group=None, value=None,
                 mn=None, note=""):
        self.text, self.addr, self.opts, self.intent, self.alt, self.fit = text, addr, opts, intent, alt, fit
        self.form, self.group, self.value, self.note = form, group, value, note
        self.mn = mn or re.split(r"[ .]", text)[0].lower()

    def to_dict(self):
        return {k: getattr(self, k) for k in self.__slots__}

    @staticmethod
    def from_dict(d):
        c = Case(d["text"], d["addr"])
        for k in Case.__slots__:
            setattr(c, k, d.get(k))

        def tup(x):
            return tuple(tup(y) for y in x) if isinstance(x, (list, tuple)) else x
        c.intent, c.alt = tup(c.intent) if c.intent else None, tup(c.alt) if c.alt else None
        return c

    def line(self):
        return "asm1 %s %x %s %s" % (CPU, self.addr, self.opts, nvlib.hexs(self.text))

    def eff(self):
        return self.addr + (self.addr & 1)


ADDRS = [0x1000, 0x1000, 0x1000, 0xf800, 0x0200, 0, 0xfffc, 0xfffe, 0x1001, 0xffff, 0x7ffe, 0x8000, 0x10000, 0xfbfe]
REGNAMES = {0: ["pc", "PC", "r0"], 1: ["sp", "SP", "r1"], 2: ["sr", "SR", "r2"], 3: ["cg", "CG", "r3"]}
B16 = [-32769, -32768, -32767, -129, -128, -1, 0, 1, 2, 3, 4, 5, 7, 8, 9, 127, 128, 255, 256, 32767, 32768, 65534, 65535,
       65536, 65537, 0xfffe, 0x7fffffff, -0x80000000, 0xffffffff, 0xffff8000, 0xffff7fff, 0x80000000, 0x10000 + 5]
B8 = [-129, -128, -127, -2, -1, 0, 1, 2, 3, 4, 5, 8, 9, 127, 128, 254, 255, 256, 257, 0xffff, 65536, -32768, 0x7fffffff,
      -0x80000000, 0xffffffff, 0xffffff80, 0xffffff7f]
BJ = [-1030, -1028, -1026, -1025, -1024, -1023, -1022, -4, -2, -1, 0, 1, 2, 3, 4, 510, 512, 1018, 1020, 1021, 1022, 1023,
      1024, 1025, 1026, 1028, 2046, 2048, -2048, 0x7ffe, -0x8000, 0xfffe, 0x10000]
N64 = [(1 << 32) + 2, (1 << 32) + 0xffff, -(1 << 32) + 1, (1 << 40) + 5, (1 << 63) - 1]


def reg_spell(rng, n):
    if n < 4 and rng.random() < 0.7:
        return rng.choice(REGNAMES[n])
    return ("r%d" if rng.random() < 0.85 else "R%d") % n


def pick_reg(rng, allow=None):
    r = rng.choice([0, 1, 2, 3, 4, 5, 9, 10, 15, rng.randrange(16), rng.randrange(4, 16), rng.randrange(4, 16)])
    if allow is not None and r not in allow:
        return rng.choice(sorted(allow))
    return r


def spell(rng, v):
    """a spelling whose 64-bit value is v"""
    r = rng.random()
    if v < 0:
        return "-%d" % (-v) if r < 0.5 else "-0x%x" % (-v)
    return "%d" % v if r < 0.4 else "0x%x" % v if r < 0.8 else "0x%04x" % v


SRC_MODES = ("reg", "idx", "sym", "abs", "ind", "inc", "imm")
DST_MODES = ("reg", "idx", "sym", "abs", "ind")


class Opnd(object):
    """one operand choice: text, reading by the manual (or None), numeric field (kind, value)"""
    def __init__(self, text, mode, sem, field=None, value=None, reg=None):
        self.text, self.mode, self.sem, self.field, self.value, self.reg = text, mode, sem, field, value, reg


def gen_src(rng, mode, bw, value=None, reg=None):
    """sem is a function ext_addr -> Arch source operand (or None when the manual gives the syntax no meaning)"""
    if mode == "reg":
        n = pick_reg(rng) if reg is None else reg
        return Opnd(reg_spell(rng, n), mode, (lambda ea, n=n: ("imm", 0) if n == 3 else ("reg", n)), reg=n)
    if mode == "idx":
        n = pick_reg(rng) if reg is None else reg
        v = rng.choice(B16[:24]) if value is None else value
        ok = n != 3 and narrow32(v) is not None and fits16(narrow32(v))
        return Opnd("%s(%s)" % (spell(rng, v), reg_spell(rng, n)), mode,
                    (lambda ea, n=n, v=v, ok=ok: (None if n == 0 else ("abs", v & M16) if n == 2 else ("idx", n, v & M16)) if ok else None),
                    "idx", v, n)
    if mode == "sym":
        v = rng.choice([0, 2, 0x200, 0x1000, 0x1234, 0xfffe, 0xffff, 0x8000, rng.randrange(0x10000)]) if value is None else value
        ok = narrow32(v) is not None and 0 <= v <= M16
        return Opnd(spell(rng, v), mode, (lambda ea, v=v, ok=ok: ("sym", v & M16) if ok else None), "sym", v)
    if mode == "abs":
        v = rng.choice([0, 2, 0x200, 0x1000, 0x1234, 0xfffe, 0xffff, 0x8000, rng.randrange(0x10000)]) if value is None else value
        ok = narrow32(v) is not None and 0 <= v <= M16
        return Opnd("&" + spell(rng, v), mode, (lambda ea, v=v, ok=ok: ("abs", v & M16) if ok else None), "abs", v)
    if mode == "ind":
        n = pick_reg(rng) if reg is None else reg
        return Opnd("@" + reg_spell(rng, n), mode, (lambda ea, n=n: None if n in (2, 3) else ("ind", n)), reg=n)
    if mode == "inc":
        n = pick_reg(rng) if reg is None else reg
        return Opnd("@%s+" % reg_spell(rng, n), mode, (lambda ea, n=n: None if n in (0, 2, 3) else ("inc", n)), reg=n)
    v = rng.choice(B8[:19] if bw else B16[:24]) if value is None else value
    n32 = narrow32(v)
    ok = n32 is not None and (fits8(n32) if bw else fits16(n32))
    return Opnd("#" + spell(rng, v), mode, (lambda ea, v=v, ok=ok, bw=bw: ("imm", imm_of(bw, v & M16)) if ok else None),
                "imm8" if bw else "imm16", v)


def as_dst(s):
    """Arch destination of a source-style reading; `@Rn` as a destination is naken_asm's spelling of 0(Rn)"""
    if s is None:
        return None
    if s[0] == "reg":
        return ("reg", s[1])
    if s[0] == "imm" and s[1] == 0:
        return ("reg", 3)          # register R3 written as a destination
    if s[0] in ("idx", "sym", "abs"):
        return s
    if s[0] == "ind":
        return dst_of_index(s[1], 0)
    return None


def dst_of_index(n, v):
    """X(Rn) as a destination: X(PC) with an explicit X is not a form of the manual, X(SR) is absolute"""
    return None if n == 0 else ("abs", v & M16) if n == 2 else ("idx", n, v & M16)


def gen_dst(rng, mode, value=None, reg=None):
    o = gen_src(rng, mode, 0, value, reg)
    sem = o.sem
    if mode == "reg":
        n = o.reg
        o.sem = lambda ea, n=n: ("reg", n)
    elif mode == "idx":
        n, v = o.reg, o.value
        ok = narrow32(v) is not None and fits16(narrow32(v))
        o.sem = lambda ea, n=n, v=v, ok=ok: dst_of_index(n, v) if ok else None      # x(R3) is a destination like any other
    elif mode == "ind":
        n = o.reg
        o.sem = lambda ea, n=n: dst_of_index(n, 0)
    else:
        o.sem = lambda ea, sem=sem: as_dst(sem(ea))
    return o


def suffix(rng, bw, word_default=True):
    if bw:
        return rng.choice([".b", ".B"])
    return rng.choice(["", ".w", ".W"]) if word_default else ""


def two_intent(name, bw, so, do, eff, opt=False):
    """(intent, alt): reading of `name src, dst` at the effective address; alt = the -optimize reading"""
    s = so.sem(eff + 2)
    if s is None:
        return None, None
    d = do.sem(eff + 2 + 2 * src_words(bw, s))
    if d is None:
        return None, None
    intent = ("two", name, bw, s, d)
    alt = None
    if opt and s[0] == "idx" and s[2] == 0 and s[1] > 3 and so.mode == "idx":
        # -optimize: 0(Rn) as the first operand is assembled as @Rn (the destination then moves up one word)
        s2 = ("ind", s[1])
        d2 = do.sem(eff + 2)
        alt = ("two", name, bw, s2, d2)
    return intent, alt


def gen_cases(ctx, what="all"):
    """-> list of Case.  what: all | boundary (only the numeric-field groups)"""
    rng = ctx.rng
    cases = []
    gid = [0]

    def add_two(name, bw, so, do, addr, opts="-", **kw):
        eff = addr + (addr & 1)
        intent, alt = two_intent(name, bw, so, do, eff, "o" in opts)
        sp = name if rng.random() < 0.9 else name.upper()
        cases.append(Case("%s%s %s, %s" % (sp, suffix(rng, bw), so.text, do.text), addr, opts, intent, alt, mn=name, **kw))

    def add_one(name, bw, so, addr, opts="-", **kw):
        eff = addr + (addr & 1)
        s = so.sem(eff + 2)
        intent = ("one", name, bw, s) if s is not None else None
        alt = None
        if "o" in opts and s is not None and s[0] == "idx" and s[2] == 0 and s[1] > 3 and so.mode == "idx":
            alt = ("one", name, bw, ("ind", s[1]))
        if name in OP1_WORD_ONLY and bw:
            intent, alt, suf = None, None, rng.choice([".b", ".B"])       # no byte form: must be rejected
        elif name == "call":
            suf = ""
        elif name in OP1_WORD_ONLY:
            suf = rng.choice(["", "", ".w"])
        else:
            suf = suffix(rng, bw)
        cases.append(Case("%s%s %s" % (name, suf, so.text), addr, opts, intent, alt, mn=name, **kw))

    def emu_intent(name, bw, o, eff, opt):
        core, how = EMULATED1[name]
        if how == "pc":
            s = o.sem(eff + 2)
            if s is None:
                return None, None
            alt = None
            if opt and s[0] == "idx" and s[2] == 0 and s[1] > 3 and o.mode == "idx":
                alt = ("two", core, bw, ("ind", s[1]), ("reg", 0))
            return ("two", core, bw, s, ("reg", 0)), alt
        if how == "pop":
            d = as_dst_op(o, eff + 2)
            return (("two", core, bw, ("inc", 1), d) if d else None), None
        if how == "dd":
            s = o.sem(eff + 2)
            if s is None:
                return None, None
            d = as_dst_op(o, eff + 2 + 2 * src_words(bw, s))
            if d is None:
                return None, None
            alt = None
            if opt and s[0] == "idx" and s[2] == 0 and s[1] > 3 and o.mode == "idx":
                alt = ("two", core, bw, ("ind", s[1]), dst_of_index(s[1], 0))
            return ("two", core, bw, s, d), alt
        n = how[1]
        s = ("imm", imm_of(bw, n & M16))
        d = as_dst_op(o, eff + 2)
        return (("two", core, bw, s, d) if d else None), None

    def as_dst_op(o, ea):
        if o.mode == "reg":
            return ("reg", o.reg)
        if o.mode == "ind":
            return dst_of_index(o.reg, 0)
        if o.mode == "idx":
            v = narrow32(o.value)
            return dst_of_index(o.reg, o.value) if v is not None and fits16(v) else None
        if o.mode in ("sym", "abs"):
            return as_dst(o.sem(ea))
        return None

    # ---- numeric-field groups: same statement, only the value varies (C06) -----------------------------
    def value_group(build, kind, values, addr=None, opts="-"):
        gid[0] += 1
        a = rng.choice(ADDRS) if addr is None else addr
        before = len(cases)
        for v in values:
            build(v, a, opts)
            c = cases[-1]
            n32 = narrow32(v)
            c.group, c.value, c.form = gid[0], v, c.mn + ":" + kind
            if n32 is None:
                c.fit, c.note, c.intent, c.alt = False, "narrow64", None, None
            else:
                c.fit = FITS[kind](n32)
                c.value = n32
                if not c.fit:
                    c.intent = c.alt = None
        return cases[before:]

    reps = ctx.scale(1, 4)
    nrand = ctx.scale(2, 12)

    def rnd16():
        return [rng.randrange(-32768, 65536) for _ in range(nrand)] + [rng.choice([-32769 - rng.randrange(70000), 65536 + rng.randrange(70000)]) for _ in range(nrand)]

    def rnd8():
        return [rng.randrange(-128, 256) for _ in range(nrand)] + [rng.choice([-129 - rng.randrange(600), 256 + rng.randrange(600)]) for _ in range(nrand)]

    for _ in range(reps):
        for name in OP2:
            do = gen_dst(rng, rng.choice(DST_MODES))
            value_group(lambda v, a, o, do=do, name=name: add_two(name, 0, gen_src(rng, "imm", 0, v), do, a, o), "imm16",
                        B16 + rnd16() + N64[:2])
            do = gen_dst(rng, rng.choice(DST_MODES))
            value_group(lambda v, a, o, do=do, name=name: add_two(name, 1, gen_src(rng, "imm", 1, v), do, a, o), "imm8",
                        B8 + rnd8() + N64[:1])
            n = pick_reg(rng, set(range(16)) - {3})
            do = gen_dst(rng, "reg")
            value_group(lambda v, a, o, do=do, name=name, n=n: add_two(name, rng.random() < 0.3, gen_src(rng, "idx", 0, v, n), do, a, o),
                        "idx", B16 + rnd16() + N64[1:3])
            so = gen_src(rng, rng.choice(("reg", "imm", "ind", "idx")), 0)
            n = pick_reg(rng)
            value_group(lambda v, a, o, so=so, name=name, n=n: add_two(name, 0, so, gen_dst(rng, "idx", v, n), a, o), "idx",
                        B16 + rnd16()[:4])
            value_group(lambda v, a, o, name=name: add_two(name, 0, gen_src(rng, "abs", 0, v), gen_dst(rng, "reg"), a, o), "abs",
                        B16 + rnd16()[:4] + N64[:1])
            value_group(lambda v, a, o, name=name: add_two(name, 0, gen_src(rng, "reg", 0), gen_dst(rng, "sym", v), a, o), "sym",
                        B16[:26] + rnd16()[:4])
        for name in OP1:
            bw = 0 if name in OP1_WORD_ONLY else rng.random() < 0.4
            value_group(lambda v, a, o, name=name, bw=bw: add_one(name, bw, gen_src(rng, "imm", bw, v), a, o),
                        "imm8" if bw else "imm16", (B8 + rnd8()) if bw else (B16 + rnd16()))
            n = pick_reg(rng, set(range(16)) - {3})
            value_group(lambda v, a, o, name=name, n=n: add_one(name, 0, gen_src(rng, "idx", 0, v, n), a, o), "idx", B16 + rnd16()[:4])
        for name in JUMPS:
            gid[0] += 1
            a = rng.choice(ADDRS)
            eff = a + (a & 1)
            for d in BJ + [rng.randrange(-512, 511) * 2 for _ in range(nrand)] + [rng.randrange(-1024, 1023) | 1 for _ in range(nrand)]:
                t = eff + 2 + d
                if t < -(1 << 31):
                    continue
                fit = fits_jump(d)
                # also when the distance does not fit: if such a jump is accepted it must still reach its target
                intent = ("jump", COND_NAME[JUMPS[name]], t & M16) if (fit or (d % 2 == 0 and abs(d) < 0x8000)) else None
                cases.append(Case("%s %s" % (name, spell(rng, t)), a, "-", intent, None, fit, name + ":joff", gid[0], d, name))
            cases.append(Case("%s 0x%x" % (name, (eff + 6) + (1 << 32)), a, "-", None, None, False, name + ":joff", gid[0],
                              (1 << 32) + 4, name, "narrow64"))
        for name in EMULATED1:
            core, how = EMULATED1[name]
            if how == "pc":
                def b(v, a, o, name=name):
                    so = gen_src(rng, "imm", 0, v)
                    intent, alt = emu_intent(name, 0, so, a + (a & 1), False)
                    cases.append(Case("%s %s" % (name, so.text), a, o, intent, alt, mn=name))
                value_group(b, "imm16", B16)
            else:
                n = pick_reg(rng)
                def b(v, a, o, name=name, n=n):
                    do = gen_dst(rng, "idx", v, n)
                    bw = rng.random() < 0.3
                    intent, alt = emu_intent(name, bw, do, a + (a & 1), False)
                    cases.append(Case("%s%s %s" % (name, suffix(rng, bw), do.text), a, o, intent, alt, mn=name))
                value_group(b, "idx", B16)
    if what == "boundary":
        return cases

    # ---- every mnemonic x every addressing-mode pair x .b/.w x register choices --------------------------
    per = ctx.scale(1, 4)
    for name in OP2:
        for sm in SRC_MODES:
            for dm in DST_MODES + ("inc", "imm"):
                for bw in (0, 1):
                    for _ in range(per):
                        so = gen_src(rng, sm, bw)
                        do = gen_dst(rng, dm) if dm in DST_MODES else gen_src(rng, dm, bw)
                        if dm not in DST_MODES:
                            do.sem = lambda ea: None
                        opts = "o" if rng.random() < 0.3 else "-"
                        add_two(name, bw, so, do, rng.choice(ADDRS), opts, form="%s:%s,%s" % (name, sm, dm))
    for name in OP1:
        for sm in SRC_MODES:
            for bw in (0, 1):
                for _ in range(per * 2):
                    so = gen_src(rng, sm, bw)
                    add_one(name, bw, so, rng.choice(ADDRS), "o" if rng.random() < 0.3 else "-", form="%s:%s" % (name, sm))
    for name in EMULATED1:
        for dm in SRC_MODES:
            for bw in (0, 1):
                for _ in range(per * 2):
                    o = gen_src(rng, dm, bw) if EMULATED1[name][1] in ("pc", "dd") else (gen_dst(rng, dm) if dm in DST_MODES else gen_src(rng, dm, bw))
                    a = rng.choice(ADDRS)
                    opts = "o" if rng.random() < 0.3 else "-"
                    if dm in ("inc", "imm") and EMULATED1[name][1] not in ("pc",):
                        intent, alt = None, None
                    else:
                        intent, alt = emu_intent(name, bw, o, a + (a & 1), "o" in opts)
                    cases.append(Case("%s%s %s" % (name, suffix(rng, bw), o.text), a, opts, intent, alt, mn=name, form="%s:%s" % (name, dm)))
    # sbb src, dst  is another name of subc (user's guide, SUBC: "SBB")
    for _ in range(ctx.scale(12, 60)):
        bw = rng.random() < 0.4
        so, do = gen_src(rng, rng.choice(SRC_MODES), bw), gen_dst(rng, rng.choice(DST_MODES))
        a = rng.choice(ADDRS)
        intent, alt = two_intent("subc", bw, so, do, a + (a & 1), False)
        cases.append(Case("sbb%s %s, %s" % (suffix(rng, bw), so.text, do.text), a, "-", intent, alt, mn="sbb", form="sbb"))
    # -optimize on the forms it concerns: 0(Rn) in every operand position, n = 0..15
    for n in range(16):
        for name, kind in (("mov", "two-src"), ("add", "two-dst"), ("push", "one"), ("inc", "emu"), ("rla", "emu"), ("br", "emu"),
                           ("cmp", "two-both")):
            for opts in ("o", "-"):
                a = rng.choice(ADDRS[:5])
                z = gen_src(rng, "idx", 0, rng.choice([0, 0, 0, 2]), n)
                zd = gen_dst(rng, "idx", z.value, n)
                if kind == "two-src":
                    add_two(name, 0, z, gen_dst(rng, rng.choice(DST_MODES)), a, opts, form="opt:" + kind)
                elif kind == "two-dst":
                    add_two(name, 0, gen_src(rng, rng.choice(("reg", "imm", "ind")), 0), zd, a, opts, form="opt:" + kind)
                elif kind == "two-both":
                    add_two(name, 0, z, zd, a, opts, form="opt:" + kind)
                elif kind == "one":
                    add_one(name, 0, z, a, opts, form="opt:" + kind)
                else:
                    o = z if EMULATED1[name][1] in ("pc", "dd") else zd
                    intent, alt = emu_intent(name, 0, o, a + (a & 1), opts == "o")
                    cases.append(Case("%s %s" % (name, o.text), a, opts, intent, alt, mn=name, form="opt:emu:" + name))
    # instructions without operands
    for a in ADDRS:
        for name, e in EMULATED0.items():
            if e is None:
                intent = ("two", "mov", 0, ("inc", 1), ("reg", 0))
            else:
                intent = ("two", e[0], 0, ("imm", e[1]), ("reg", e[2]))
            cases.append(Case(name if rng.random() < 0.8 else name.upper(), a, "-", intent, mn=name, form="emu0"))
        cases.append(Case("reti", a, "-", ("reti",), mn="reti", form="reti"))
    # size suffixes the core does not have / operand counts / registers that do not exist (must be rejected)
    for t in ("mov.a r5, r6", "swpb.b r5", "sxt.b r5", "call.b r5", "call.w r5", "jmp.w 0x1000", "jmp.b 0x1000", "mov.x r5, r6",
              "mov.bw r5, r6"):
        cases.append(Case(t, 0x1000, "-", None, None, False, "size", None, None, None, "size"))
    for bad in ("r16", "r17", "r99", "r100", "r-1", "r1x", "x5", "r", "r05", "pcc", "cgg", "a5"):
        cases.append(Case("mov %s, r5" % bad, 0x1000, "-", None, None, False, "mov:reg", None, None, "mov", "badreg"))
        cases.append(Case("mov r5, 2(%s)" % bad, 0x1000, "-", None, None, False, "mov:reg", None, None, "mov", "badreg"))
        cases.append(Case("push @%s" % bad, 0x1000, "-", None, None, False, "push:reg", None, None, "push", "badreg"))
    for t in ("mov r5", "mov", "mov r5, r6, r7", "mov r5 r6", "add #1", "push", "push r5, r6", "call", "jmp", "jmp 0x1000, 0x1002",
              "jmp r5", "jmp #0x1000", "jmp @r5", "jmp &0x1000", "jmp 2(r5)", "inc", "inc r5, r6", "ret r5", "nop 1", "clrc r5",
              "sbb r5", "mov #1, #2", "mov r5, @r6+", "mov r5, #4", "rla #5", "rla @r5+", "pop #5", "pop @r5+", "inc #1",
              "mov 4(r5, r6", "mov @, r5", "mov #, r5", "mov &, r5", "mov r5,, r6", "mov 4(5), r6", "mov 5(r3), r6", "mov 1(cg), r6",
              "push 2(r3)", "reti r5", "reti #1", "reti 0x1000", "reti r5, r6"):
        cases.append(Case(t, 0x1000, "-", None, None, False, "syntax", None, None, None, "syntax"))
    return cases


def fragment_ok(text):
    """statements inside the fragment the Lean operand parser models"""
    return re.fullmatch(r"[A-Za-z0-9_.,()#@&+\- :]*", text) is not None


# =============================================================================================
# word generators for the decoder side
# =============================================================================================
EXTS = [(0, 0), (0x1234, 0x5678), (0xffff, 0xffff), (0x8000, 0x7fff), (0x0001, 0x0002), (0x00ff, 0xff00), (0xfffe, 0x0004),
        (0x0008, 0xffff), (0x0080, 0x8000)]
DADDRS = [0x1000, 0x1000, 0xf800, 0, 0xfffc, 0xfffe, 0x10000, 0x12344, 0xf0000, 0xffffe, 0x8000, 0x1001]


def le16(h):
    return "%02x%02x" % (h & 255, h >> 8 & 255)


def words_hex(ws):
    return "".join(le16(w) for w in ws)


def gen_first_words(ctx, share=None):
    """(addr, [w0, w1, w2, w3]): every first word (or the share of them this seed takes) x sampled following words"""
    rng = ctx.rng
    out = []
    for w in range(1 << 16):
        if share is not None and w % share[0] != share[1]:
            continue
        e = rng.choice(EXTS) if rng.random() < 0.7 else (rng.getrandbits(16), rng.getrandbits(16))
        e3 = rng.choice([0, 0xffff, rng.getrandbits(16)])
        if (w & 0xf830) == 0x1800:
            # extension word: the opcode is the second word; take structured opcodes
            op = rng.choice([rng.getrandbits(16), 0x4000 | rng.getrandbits(12), 0x1000 | rng.getrandbits(10), 0x1300,
                             rng.getrandbits(12), 0x2000 | rng.getrandbits(13), 0x1800 | rng.getrandbits(11)])
            out.append((rng.choice(DADDRS), [w, op, e[0], e[1]]))
        else:
            out.append((rng.choice(DADDRS), [w, e[0], e[1], e3]))
    return out


def gen_struct_words(ctx, n):
    """structured extras: core instructions with boundary extension words, alias-comment opcodes, prefixes"""
    rng = ctx.rng
    out = []
    specials = [0x4303, 0x4130, 0x4135, 0x4175, 0x41b5, 0x41f5, 0xc312, 0xc222, 0xc322, 0xc232, 0xd312, 0xd222, 0xd322, 0xd232,
                0x1300, 0x0110, 0x5503, 0x4300, 0x43c3, 0x4383, 0x1340, 0x1350, 0x1380, 0x1390, 0x13b0, 0x13a0, 0x0000, 0xffff,
                0x1800, 0x1840, 0x18c0, 0x1900, 0x1f4f, 0x1a00, 0x1c80, 0x1801, 0x188f, 0x194f]
    for w in specials:
        for e in EXTS[:4]:
            out.append((rng.choice(DADDRS), [w, e[0], e[1], rng.getrandbits(16)]))
    for w in (0x1800, 0x1840, 0x18c5, 0x1905, 0x1a40, 0x1c00, 0x184f):
        for op in (0x1300, 0x4303, 0x4130, 0x4515, 0x4090, 0x1204, 0x1215, 0x3c00, 0x0110, 0x1340, 0x0080, 0x1400, 0xffff, 0x1800):
            out.append((rng.choice(DADDRS), [w, op, rng.choice(EXTS)[0], rng.choice(EXTS)[1]]))
    bvals = [0, 1, 2, 4, 8, 0xff, 0xffff, 0x7fff, 0x8000, 0x00fe, 0x100, 3, 5, 0xfffe]
    for _ in range(n):
        k = rng.random()
        if k < 0.6:
            w = rng.randrange(4, 16) << 12 | rng.getrandbits(12)
        elif k < 0.85:
            w = 0x1000 | rng.getrandbits(10)
        else:
            w = 0x2000 | rng.getrandbits(13)
        out.append((rng.choice(DADDRS), [w, rng.choice(bvals), rng.choice(bvals), rng.getrandbits(16)]))
    return out


def gen_walks(ctx, n):
    rng = ctx.rng
    out = []
    for _ in range(n):
        ws = []
        for _ in range(rng.randrange(1, 10)):
            r = rng.random()
            if r < 0.5:
                ws.append(rng.choice([rng.randrange(4, 16) << 12 | rng.getrandbits(12), 0x1000 | rng.getrandbits(10),
                                      0x2000 | rng.getrandbits(13)]))
            elif r < 0.65:
                ws.append(0x1800 | (rng.getrandbits(11) & 0x7cf))
            elif r < 0.8:
                ws.append(rng.getrandbits(12))
            else:
                ws.append(rng.getrandbits(16))
        buf = bytes.fromhex(words_hex(ws))
        if rng.random() < 0.2:
            buf += bytes([rng.getrandbits(8)])
        start = rng.choice([0, 0x1000, 0x1000, 0x1002, 0x1001, 0xffd0, 0xffda, 0xffdc, 0xffde, 0xffe0, 0xffe1, 0xfff8, 0xfffe,
                            0x10000, 0xfffc, 0x7ffffe00, 0x2003, 0x7ffffff8, 0x80000000, 0xfffe0000])
        end = start + rng.choice([0, 1, 2, 3, len(buf) - 1, len(buf) - 1, max(0, len(buf) - 2), rng.randrange(len(buf)),
                                  len(buf) + 3, len(buf) + 8])
        out.append((start, end, buf + bytes(8) if rng.random() < 0.5 else buf))
    return out


# =============================================================================================
# helpers
# =============================================================================================
def _killed(a):
    """the harness process was killed from outside (SIGTERM/SIGKILL, e.g. machine load / another job's cleanup): not an
    answer of the code under test"""
    return a.startswith("DIED rc=-15") or a.startswith("DIED rc=-9") or a == "MISSING"


def run_impl(ctx, lines):
    """ctx.impl with one retry of the lines whose process was killed from outside"""
    res = ctx.impl(lines)
    bad = [i for i, a in enumerate(res) if _killed(a)]
    if bad and len(bad) < max(50, len(lines) // 2):
        again = ctx.impl([lines[i] for i in bad])
        for i, a in zip(bad, again):
            res[i] = a
    return res


def run_both(ctx, lines):
    h, d = ctx.both(lines)
    bad = [i for i, a in enumerate(h) if _killed(a)]
    if bad and len(bad) < max(50, len(lines) // 2):
        again = ctx.impl([lines[i] for i in bad])
        for i, a in zip(bad, again):
            h[i] = a
    return h, d



def parse_dis(ans):
    if ans.startswith("DIED") or ans == "MISSING" or ans == "bad-op":
        return None
    p = ans.split(" ")
    if p[0] == "nonul":
        return ("nonul", int(p[1]))
    return (int(p[0]), nvlib.unhex(p[1]).decode("latin-1"))


def norm_text(t, bw=None):
    """mnemonic + operands with numerals normalised (the numeric normalisation of C07): a numeral is its value
    modulo the 16-bit field (8-bit for an immediate of a byte instruction: #0xff and #-1 are one value)"""
    if "  --  " in t:
        t = t.split("  --  ", 1)[1]       # "eint  --  bis.w #8, SR": the instruction follows the emulated name
    m = re.match(r"\s*([A-Za-z]+)(\.[bBwW])?", t)
    byte = bool(m and m.group(2) and m.group(2).lower() == ".b")
    toks = re.findall(r"[A-Za-z_][A-Za-z0-9_]*|#?-?0x[0-9a-fA-F]+|#?-?\d+|[^\s]", t)
    out = []
    for x in toks:
        imm = x.startswith("#")
        y = x[1:] if imm else x
        if re.fullmatch(r"-?0x[0-9a-fA-F]+", y) or re.fullmatch(r"-?\d+", y):
            v = int(y, 0)
            out.append(("#" if imm else "") + str(v & (0xff if (imm and byte) else M16)))
        else:
            out.append(x.lower() if re.fullmatch(r"[A-Za-z_][A-Za-z0-9_]*", x) else x)
    return out


def crash_sig(prop, c_text, ans):
    return "%s:crash:%s" % (prop, c_text)


def merge_counts(res, key, n):
    res[key] = res.get(key, 0) + n


def compare(corr, lines, impl, model, stream):
    hist = {}
    unm = 0
    for l, a, b in zip(lines, impl, model):
        k = a.split(" ")[0]
        if l.startswith("walk "):
            k = "%d lines" % (a.count(",") + 1) if k not in ("-", "DIED", "MISSING", "bad-op") else k
        hist[k] = hist.get(k, 0) + 1
        if b == "unmodelled":
            unm += 1
            continue
        if a != b:
            corr["disagreements"].append({"line": l, "impl": a, "model": b})
    corr["cases"] += len(lines)
    corr["streams"][stream] = {"lines": len(lines), "impl_answer_kinds": hist, "outside_model_fragment": unm}
    corr["distinct_nontrivial"] = corr.get("distinct_nontrivial", 0) + len(set(lines))
    corr.setdefault("samples", [])
    step = max(1, len(lines) // 3)
    corr["samples"] += [{"line": lines[i], "impl": impl[i], "model": model[i]} for i in range(0, len(lines), step)][:3]


def corpus_lines(prop):
    cp = os.path.join(nvlib.VERIF, "corpus", prop, "msp430_lines.txt")
    if os.path.exists(cp):
        return [l.strip() for l in open(cp) if l.strip() and not l.startswith("#")]
    return []


def split_emitted(c, a):
    """'ok <hex>' -> words at the effective address, or None when the layout is not pad + whole words"""
    if not a.startswith("ok ") or a.startswith("ok@"):
        return None
    b = bytes.fromhex(a[3:])
    if c.addr & 1:
        if not b or b[0] != 0:
            return None
        b = b[1:]
    if len(b) % 2 or not b:
        return None
    return [b[i] | b[i + 1] << 8 for i in range(0, len(b), 2)]


# =============================================================================================
# C01
# =============================================================================================
def c01_correspondence(ctx, corr):
    cases = [c for c in gen_cases(ctx) if fragment_ok(c.text)]
    ctx.notes["m4_c01_cases"] = cases
    lines = corpus_lines("C01") + [c.line() for c in cases]
    h, d = run_both(ctx, lines)
    ctx.notes["m4_c01_impl"] = h[len(lines) - len(cases):]
    compare(corr, lines, h, d, "msp430.asm1")
    corr["streams"]["msp430.asm1"]["with -optimize"] = sum(1 for c in cases if "o" in c.opts)
    corr["streams"]["msp430.asm1"]["odd load address"] = sum(1 for c in cases if c.addr & 1)
    dl = set()
    for c, a in zip(cases, ctx.notes["m4_c01_impl"]):
        ws = split_emitted(c, a)
        if ws:
            e = c.eff()
            dl.add("dis %s %x %s" % (CPU, e, words_hex(ws)))
            dl.add("walk %s %x %x %s" % (CPU, e, e + 2 * len(ws) - 1, words_hex(ws)))
            dl.add("rt %s %x %s %s" % (CPU, e, c.opts, words_hex(ws)))
    dl = sorted(dl)
    rt = [l for l in dl if l.startswith("rt ")]
    dw = [l for l in dl if not l.startswith("rt ")]
    h2, d2 = run_both(ctx, dw)
    compare(corr, dw, h2, d2, "msp430.dis+walk(emitted)")
    ctx.notes["m4_c01_rt"] = rt


def rt_expected(ctx, items):
    """real pipeline for rt lines: dis -> text -> asm1 at the same address/options"""
    dis = run_impl(ctx, ["dis %s %x %s" % (CPU, a, words_hex(ws)) for a, o, ws in items])
    al, idx = [], []
    for (a, o, ws), r in zip(items, dis):
        p = parse_dis(r)
        if p is None or p[0] == "nonul":
            idx.append(None)
            continue
        idx.append(len(al))
        al.append("asm1 %s %x %s %s" % (CPU, a, o, nvlib.hexs(p[1])))
    res = run_impl(ctx, al)
    return [None if i is None else res[i] for i in idx], dis


def check_c01(ctx, cases, stats, impl=None):
    fails = []
    ans = impl if impl is not None else run_impl(ctx, [c.line() for c in cases])
    acc = []
    for c, a in zip(cases, ans):
        merge_counts(stats, "asm1", 1)
        where = "%s @%x%s" % (c.text, c.addr, " -optimize" if "o" in c.opts else "")
        if a.startswith("DIED") or a in ("MISSING", "bad-op"):
            fails.append({"sig": crash_sig("C01", c.text, a), "input": where, "expected": "bytes or an error",
                          "observed": a, "what": "assembler crashed / sanitizer report", "case": c.to_dict()})
            continue
        if a == "err":
            merge_counts(stats, "rejected", 1)
            continue
        merge_counts(stats, "accepted", 1)
        ws = split_emitted(c, a)
        if ws is None:
            fails.append({"sig": "C01:layout:%s" % c.mn, "input": where, "expected": "[pad 00 at an odd address +] whole words at the address",
                          "observed": a, "what": "emitted bytes are not one run of 16-bit words at the statement's (even) address",
                          "case": c.to_dict()})
            continue
        if c.intent is not None:
            merge_counts(stats, "arch_checked", 1)
            got = arch_decode(c.eff() & M16, ws)
            want = [(c.intent, len(arch_encode(c.eff() & M16, c.intent)[0]))]
            if c.alt is not None:
                want.append((c.alt, len(arch_encode(c.eff() & M16, c.alt)[0])))
            if got not in want or got[1] != len(ws):
                fails.append({"sig": "C01:arch:%s" % (c.form or c.mn), "input": where, "expected": "%r" % (want,),
                              "observed": "%s -> %r" % (words_hex(ws), got),
                              "what": "the architecture's decoder does not read the emitted words back as the instruction meant",
                              "case": c.to_dict()})
            else:
                merge_counts(stats, "ref_encoder_checked", 1)
                rw, rm = arch_encode(c.eff() & M16, got[0])
                if len(rw) != len(ws) or any((x ^ y) & m for x, y, m in zip(rw, ws, rm)):
                    fails.append({"sig": "C01:canonical:%s" % (c.form or c.mn), "input": where, "expected": words_hex(rw),
                                  "observed": words_hex(ws),
                                  "what": "emitted words differ from the reference encoding (constant generator used whenever possible)",
                                  "case": c.to_dict()})
        acc.append((c, ws))
    lines = []
    for c, ws in acc:
        e = c.eff()
        lines.append("dis %s %x %s" % (CPU, e, words_hex(ws)))
        lines.append("walk %s %x %x %s" % (CPU, e, e + 2 * len(ws) - 1, words_hex(ws)))
    res = run_impl(ctx, lines)
    re_lines, re_idx = [], []
    for n, (c, ws) in enumerate(acc):
        d, wk = parse_dis(res[2 * n]), res[2 * n + 1]
        e = c.eff()
        where = "%s @%x -> %s" % (c.text, c.addr, words_hex(ws))
        if d is None or d[0] == "nonul":
            fails.append({"sig": "C01:dis-crash:%s" % c.mn, "input": where, "expected": "text", "observed": res[2 * n],
                          "what": "disassembler died on emitted bytes", "case": c.to_dict()})
            continue
        src_form = (c.form or c.mn)
        if d[0] != 2 * len(ws):
            fails.append({"sig": "C01:length:%s" % length_sig(c), "input": where, "expected": str(2 * len(ws)), "observed": str(d[0]),
                          "what": "disassembler consumed another number of bytes than were emitted", "case": c.to_dict()})
        merge_counts(stats, "walks", 1)
        in_vectors = 0xffe0 <= e <= 0xffff or 0xffe0 <= e + 2 * len(ws) - 1 <= 0xffff
        want_walk = ",".join("%x%s" % (e + 2 * k, "+" if k else "") for k in range(len(ws)))
        if not in_vectors and wk != want_walk and d[0] == 2 * len(ws):
            fails.append({"sig": "C01:walk:%s" % c.mn, "input": where, "expected": want_walk, "observed": wk,
                          "what": "walking the disassembler over the emitted bytes did not consume exactly them",
                          "case": c.to_dict()})
        re_lines.append("asm1 %s %x %s %s" % (CPU, e, c.opts, nvlib.hexs(d[1])))
        re_idx.append((c, ws, d[1]))
    res2 = run_impl(ctx, re_lines)
    for (c, ws, txt), a in zip(re_idx, res2):
        if a.startswith("DIED") or a in ("MISSING", "bad-op"):
            fails.append({"sig": crash_sig("C01", txt, a), "input": "%s @%x" % (txt, c.eff()), "expected": "bytes or an error",
                          "observed": a, "what": "assembler crashed on disassembly text", "case": c.to_dict()})
        elif a == "err":
            merge_counts(stats, "text_rejected", 1)
        else:
            merge_counts(stats, "text_reassembled", 1)
            if a != "ok " + words_hex(ws):
                fails.append({"sig": "C01:fixpoint:%s" % ("at-pc-plus" if length_sig(c) == "at-pc-plus" else "%s:%s" % (c.mn, txt.split(" ")[0])),
                              "input": "%s @%x%s -> %s -> '%s'" % (c.text, c.addr, " -optimize" if "o" in c.opts else "", words_hex(ws), txt),
                              "expected": "ok " + words_hex(ws), "observed": a,
                              "what": "assembling the disassembly of the emitted bytes gives other bytes", "case": c.to_dict()})
    return fails


def length_sig(c):
    if re.search(r"@\s*(pc|r0)\s*\+", c.text, re.I):
        return "at-pc-plus"
    return c.form or c.mn


def c01_oracle(ctx, orc):
    cases, impl = ctx.notes.get("m4_c01_cases"), ctx.notes.get("m4_c01_impl")
    if cases is None:
        cases, impl = gen_cases(ctx), None
    stats = orc["stats"].setdefault("msp430", {})
    fails = check_c01(ctx, cases, stats, impl)
    # correspondence of the structured re-assembly (model toStmt;encode vs real dis;asm1) on the emitted words
    rt = ctx.notes.get("m4_c01_rt")
    if rt:
        items = []
        for l in rt:
            p = l.split(" ")
            items.append((int(p[2], 16), p[3], [int(p[4][i + 2:i + 4] + p[4][i:i + 2], 16) for i in range(0, len(p[4]), 4)]))
        want, _ = rt_expected(ctx, items)
        got = ctx.model(rt)
        bad = [(l, w, g) for l, w, g in zip(rt, want, got) if w is not None and w != g]
        stats["rt(emitted) lines"] = len(rt)
        for l, w, g in bad[:5]:
            fails.append({"sig": "C01:rt-model:%s" % l, "input": l, "expected": w, "observed": g,
                          "what": "model re-assembly of the decoder's reading differs from the real dis;asm1 pipeline",
                          "case": None})
    for f in fails:
        f["replay"] = {"cpu": "msp430", "prop": "C01", "case": f.pop("case")}
    orc["failures"] += fails
    orc["cases"] += stats.get("asm1", 0) + 2 * stats.get("accepted", 0) + stats.get("text_rejected", 0) + stats.get("text_reassembled", 0)
    orc["distinct_nontrivial"] = orc.get("distinct_nontrivial", 0) + len(set((c.text, c.addr, c.opts) for c in cases))
    orc.setdefault("samples", [])
    orc["samples"] += [{"stmt": c.text, "addr": "%x" % c.addr, "opts": c.opts, "intent": c.intent} for c in cases[:: max(1, len(cases) // 3)]][:3]


# =============================================================================================
# C06
# =============================================================================================
def c06_correspondence(ctx, corr):
    cases = [c for c in gen_cases(ctx, "boundary") if fragment_ok(c.text)]
    lines = corpus_lines("C06") + [c.line() for c in cases]
    h, d = run_both(ctx, lines)
    ctx.notes["m4_c06_cases"] = cases
    ctx.notes["m4_c06_impl"] = h[len(lines) - len(cases):]
    compare(corr, lines, h, d, "msp430.asm1(boundary)")
    corr["streams"]["msp430.asm1(boundary)"]["forms"] = len(set(c.form for c in cases))


def check_c06(ctx, cases, stats, impl=None):
    fails = []
    ans = impl if impl is not None else run_impl(ctx, [c.line() for c in cases])
    groups = {}
    for c, a in zip(cases, ans):
        merge_counts(stats, "asm1", 1)
        where = "%s @%x" % (c.text, c.addr)
        if a.startswith("DIED") or a in ("MISSING", "bad-op"):
            fails.append({"sig": crash_sig("C06", c.text, a), "input": where, "expected": "bytes or an error", "observed": a,
                          "what": "assembler crashed", "case": c.to_dict()})
            continue
        if a == "err":
            merge_counts(stats, "rejected", 1)
            if c.fit:
                merge_counts(stats, "fitting_value_rejected(allowed)", 1)
            continue
        merge_counts(stats, "accepted", 1)
        if c.fit is False:
            kind = c.note if c.note in ("narrow64", "badreg", "syntax", "size") else "unfit"
            sig = "C06:%s:%s" % (kind, c.form)
            if kind == "syntax":
                sig = "C06:syntax:%s" % c.text
            fails.append({"sig": sig, "input": where, "expected": "err (value %s does not fit)" % (c.value,) if kind in ("unfit", "narrow64") else "err",
                          "observed": a, "what": {"narrow64": "a value that is not a 32-bit quantity was accepted as its low 32 bits",
                                                  "unfit": "a value outside the field's range was accepted (wrapped/masked into the field)",
                                                  "badreg": "a register that does not exist was accepted",
                                                  "size": "a size suffix the instruction does not have was accepted",
                                                  "syntax": "a malformed statement was accepted"}[kind], "case": c.to_dict()})
            continue
        ws = split_emitted(c, a)
        if c.group is not None and c.fit:
            groups.setdefault(c.group, []).append((c, a))
        if c.fit and c.intent is not None and ws is not None:
            got = arch_decode(c.eff() & M16, ws)
            if got is None or got[0] not in (c.intent, c.alt):
                fails.append({"sig": "C06:field:%s" % c.form, "input": where, "expected": "%r" % (c.intent,),
                              "observed": "%s -> %r" % (words_hex(ws), got), "what": "the operand value is not the value encoded in the field",
                              "case": c.to_dict()})
    for g, items in groups.items():
        seen = {}
        for c, a in items:
            wd = FIELD_WIDTH[c.form.split(":")[1]]
            key = c.value % (1 << wd)
            merge_counts(stats, "injectivity_pairs", len(seen))
            for k2, (c2, a2) in seen.items():
                if k2 != key and a2 == a:
                    fails.append({"sig": "C06:collision:%s" % c.form, "input": "%s | %s @%x" % (c2.text, c.text, c.addr),
                                  "expected": "different bytes", "observed": a, "what": "two different field values share an encoding",
                                  "case": c.to_dict()})
            seen.setdefault(key, (c, a))
    return fails


def c06_oracle(ctx, orc):
    cases, impl = ctx.notes.get("m4_c06_cases"), ctx.notes.get("m4_c06_impl")
    if cases is None:
        cases, impl = gen_cases(ctx, "boundary"), None
    extra = [c for c in gen_cases(ctx) if c.note in ("badreg", "syntax", "size")]
    stats = orc["stats"].setdefault("msp430", {})
    fails = check_c06(ctx, cases, stats, impl) + check_c06(ctx, extra, stats)
    for f in fails:
        f["replay"] = {"cpu": "msp430", "prop": "C06", "case": f.pop("case")}
    orc["failures"] += fails
    orc["cases"] += len(cases) + len(extra)
    forms = {}
    for c in cases:
        forms.setdefault(c.form.split(":")[1], [0, 0])[0 if c.fit else 1] += 1
    stats["field kinds(fit,unfit)"] = {k: tuple(v) for k, v in sorted(forms.items())}
    orc["distinct_nontrivial"] = orc.get("distinct_nontrivial", 0) + len(set((c.text, c.addr) for c in cases))
    orc.setdefault("samples", [])
    orc["samples"] += [{"stmt": c.text, "addr": "%x" % c.addr, "fits": c.fit} for c in cases[:: max(1, len(cases) // 3)]][:3]


# =============================================================================================
# C07
# =============================================================================================
def c07_items(ctx):
    return gen_first_words(ctx, None) + gen_struct_words(ctx, ctx.scale(3000, 30000))


def c07_correspondence(ctx, corr):
    items = c07_items(ctx)
    ctx.notes["m4_c07_items"] = items
    lines = corpus_lines("C07") + ["dis %s %x %s" % (CPU, a, words_hex(ws)) for a, ws in items]
    h, d = run_both(ctx, lines)
    ctx.notes["m4_c07_dis"] = h[len(lines) - len(items):]
    compare(corr, lines, h, d, "msp430.dis(all 65536 first words + structured)")
    # the assembler model on every disassembly text the real decoder produced (inside the parser fragment)
    tl = set()
    for (a, ws), r in zip(items, ctx.notes["m4_c07_dis"]):
        p = parse_dis(r)
        if p and p[0] != "nonul" and fragment_ok(p[1]) and a % 2 == 0:
            tl.add("asm1 %s %x - %s" % (CPU, a, nvlib.hexs(p[1])))
    tl = sorted(tl)
    h2, d2 = run_both(ctx, tl)
    ctx.notes["m4_c07_re"] = dict(zip(tl, h2))
    compare(corr, tl, h2, d2, "msp430.asm1(disassembly text)")
    # the decoder's structured reading (Disasm.toStmt, what the C07 theorems are about) re-assembled by the model
    # against the real pipeline  dis -> text -> asm1, with and without -optimize
    rl, ri = [], []
    ol = []
    for (a, ws), r in zip(items, ctx.notes["m4_c07_dis"]):
        p = parse_dis(r)
        if not p or p[0] == "nonul" or a % 2:
            continue
        want = ctx.notes["m4_c07_re"].get("asm1 %s %x - %s" % (CPU, a, nvlib.hexs(p[1])))
        if want is None:
            continue
        rl.append("rt %s %x - %s" % (CPU, a, words_hex(ws)))
        ri.append(want)
        if "0(" in p[1]:
            ol.append((a, "o", ws))
    want_o, _ = rt_expected(ctx, ol)
    for (a, o, ws), w in zip(ol, want_o):
        if w is not None:
            rl.append("rt %s %x o %s" % (CPU, a, words_hex(ws)))
            ri.append(w)
    compare(corr, rl, ri, ctx.model(rl), "msp430.rt(toStmt;encode vs dis;asm1)")


def check_c07(ctx, items, stats, dis=None, re_cache=None, opts="-"):
    fails = []
    if dis is None:
        dis = run_impl(ctx, ["dis %s %x %s" % (CPU, a, words_hex(ws)) for a, ws in items])
    todo = []
    for (a, ws), r in zip(items, dis):
        merge_counts(stats, "words", 1)
        p = parse_dis(r)
        if p is None or p[0] == "nonul":
            fails.append({"sig": "C07:dis-crash:%04x" % ws[0], "input": "%s @%x" % (words_hex(ws), a), "expected": "text", "observed": r,
                          "what": "disassembler died", "item": [a, ws]})
            continue
        if p[1] == "???" or p[1].endswith(" ???"):
            merge_counts(stats, "not_an_instruction", 1)
            continue
        if a % 2:
            continue
        todo.append((a, ws, p[1]))
    lines = ["asm1 %s %x %s %s" % (CPU, a, opts, nvlib.hexs(t)) for a, ws, t in todo]
    if re_cache is not None and all(l in re_cache for l in lines):
        res = [re_cache[l] for l in lines]
    else:
        uniq = sorted(set(lines))
        got = dict(zip(uniq, run_impl(ctx, uniq)))
        res = [got[l] for l in lines]
    again = []
    for (a, ws, t), r in zip(todo, res):
        if r.startswith("DIED") or r in ("MISSING", "bad-op"):
            fails.append({"sig": crash_sig("C07", t, r), "input": "%s @%x -> '%s'" % (words_hex(ws), a, t), "expected": "bytes or an error",
                          "observed": r, "what": "assembler crashed on disassembly text", "item": [a, ws]})
        elif r == "err":
            merge_counts(stats, "text_rejected", 1)
        elif r.startswith("ok "):
            merge_counts(stats, "text_accepted", 1)
            again.append((a, ws, t, r[3:]))
        else:
            merge_counts(stats, "text_accepted_other_layout", 1)
    res3 = run_impl(ctx, ["dis %s %x %s" % (CPU, a, b) for a, ws, t, b in again])
    for (a, ws, t, b), r in zip(again, res3):
        p = parse_dis(r)
        if b == words_hex(ws)[:len(b)]:
            merge_counts(stats, "same_bytes", 1)
        ok = p is not None and p[0] != "nonul" and norm_text(p[1]) == norm_text(t)
        if not ok and "o" in opts and p is not None and p[0] != "nonul":
            # -optimize: 0(Rn) as the first operand becomes @Rn (n > 3): the same operand, stated by the option
            t2 = re.sub(r"^(\S+ )0\((r[4-9]|r1[0-5])\)", r"\1@\2", t)
            ok = norm_text(p[1]) == norm_text(t2)
            if ok:
                merge_counts(stats, "optimized_0(Rn)_to_@Rn", 1)
        if not ok:
            fails.append({"sig": "C07:refix:%s" % t.split(" ")[0], "input": "%s @%x -> '%s' -> %s" % (words_hex(ws), a, t, b),
                          "expected": t, "observed": r if p is None else p[1],
                          "what": "decode -> encode -> decode gives another instruction", "item": [a, ws]})
    return fails


def c07_oracle(ctx, orc):
    items, dis = ctx.notes.get("m4_c07_items"), ctx.notes.get("m4_c07_dis")
    if items is None:
        items, dis = c07_items(ctx), None
    stats = orc["stats"].setdefault("msp430", {})
    fails = check_c07(ctx, items, stats, dis, ctx.notes.get("m4_c07_re"))
    stats_o = orc["stats"].setdefault("msp430 -optimize", {})
    sub = [(a, ws) for (a, ws), r in zip(items, dis or [""] * len(items)) if dis is None or "302829" in r or "3028" in r]
    fails += check_c07(ctx, sub[: ctx.scale(4000, 40000)], stats_o, None, None, "o")
    for f in fails:
        f["replay"] = {"cpu": "msp430", "prop": "C07", "item": f.pop("item")}
    orc["failures"] += fails
    orc["cases"] += len(items) + stats.get("text_accepted", 0) * 2 + stats.get("text_rejected", 0) + stats_o.get("words", 0)
    orc["distinct_nontrivial"] = orc.get("distinct_nontrivial", 0) + len(set(ws[0] for a, ws in items))
    orc.setdefault("samples", [])
    orc["samples"] += [{"words": words_hex(ws), "addr": "%x" % a} for a, ws in items[:: max(1, len(items) // 3)]][:3]


# =============================================================================================
# C08
# =============================================================================================
def c08_dis_items(ctx):
    """every first word in both tiers (the decoder must be total on each of them: a length 0 for one undefined word
    is exactly what C08 is about)"""
    rng = ctx.rng
    out = [(a, words_hex(ws)) for a, ws in gen_first_words(ctx, None) + gen_struct_words(ctx, ctx.scale(1500, 15000))]
    for _ in range(ctx.scale(1500, 15000)):
        out.append((rng.choice(DADDRS + [0xffffffff, 0xfffffffe, 0xfffffffc, 0xffff, 0xfffd]),
                    "".join("%02x" % rng.getrandbits(8) for _ in range(rng.randrange(1, 9)))))
    return out


def c08_correspondence(ctx, corr):
    items = c08_dis_items(ctx)
    walks = gen_walks(ctx, ctx.scale(800, 8000))
    ctx.notes["m4_c08_items"], ctx.notes["m4_c08_walks"] = items, walks
    lines = corpus_lines("C08") + ["dis %s %x %s" % (CPU, a, b) for a, b in items]
    h, d = run_both(ctx, lines)
    ctx.notes["m4_c08_dis"] = h[len(lines) - len(items):]
    compare(corr, lines, h, d, "msp430.dis(all patterns)")
    wl = ["walk %s %x %x %s" % (CPU, s, e, b.hex()) for s, e, b in walks]
    h2, d2 = run_both(ctx, wl)
    ctx.notes["m4_c08_walk_impl"] = h2
    compare(corr, wl, h2, d2, "msp430.walk")


def check_c08_dis(ctx, items, stats, dis=None):
    rng = ctx.rng
    fails = []
    if dis is None:
        dis = run_impl(ctx, ["dis %s %x %s" % (CPU, a, b) for a, b in items])
    loc_lines, loc_idx = [], []
    for (a, b), r in zip(items, dis):
        merge_counts(stats, "dis", 1)
        p = parse_dis(r)
        where = "%s @%x" % (b, a)
        if p is None:
            fails.append({"sig": "C08:dis-crash:%s" % b[:8], "input": where, "expected": "text+length", "observed": r,
                          "what": "disassembler died", "item": [a, b]})
            continue
        if p[0] == "nonul":
            fails.append({"sig": "C08:text-overflow:%s" % b[:8], "input": where, "expected": "NUL inside the 128-byte buffer",
                          "observed": r, "what": "text not NUL-terminated inside the caller's buffer", "item": [a, b]})
            continue
        n, t = p
        if n not in (2, 4, 6, 8):
            fails.append({"sig": "C08:length:%s" % b[:8], "input": where, "expected": "2, 4, 6 or 8", "observed": str(n),
                          "what": "length outside 1 unit .. longest instruction", "item": [a, b]})
            continue
        merge_counts(stats, "len%d" % n, 1)
        stats["longest_text"] = max(stats.get("longest_text", 0), len(t))
        first = (b + "0000000000000000")[: 2 * n]
        tails = ("", "ffffffffffff", "".join("%02x" % rng.getrandbits(8) for _ in range(6)))
        if ctx.quick() and stats["dis"] % 3:
            tails = tails[stats["dis"] % 3:][:1]          # quick tier: one other tail for two thirds of the items
        for tail in tails:
            if first + tail != b:
                loc_lines.append("dis %s %x %s" % (CPU, a, first + tail))
                loc_idx.append((a, b, r))
    res = run_impl(ctx, loc_lines)
    for (a, b, r), l, r2 in zip(loc_idx, loc_lines, res):
        merge_counts(stats, "locality_checks", 1)
        if r2 != r:
            fails.append({"sig": "C08:locality:%s" % b[:8], "input": "%s @%x vs %s" % (b, a, l), "expected": r, "observed": r2,
                          "what": "text/length depend on bytes after the instruction", "item": [a, b]})
    return fails


def check_c08_walk(ctx, walks, stats, impl=None):
    fails = []
    if impl is None:
        impl = run_impl(ctx, ["walk %s %x %x %s" % (CPU, s, e, b.hex()) for s, e, b in walks])
    q = []
    parsed = []
    for (s, e, b), r in zip(walks, impl):
        merge_counts(stats, "walks", 1)
        where = "%x..%x %s" % (s, e, b.hex())
        if r.startswith("DIED") or r in ("MISSING", "bad-op", "-"):
            fails.append({"sig": "C08:walk-died:%x-%x" % (s, e), "input": where, "expected": "address column", "observed": r,
                          "what": "range disassembly died, did not terminate in time, or printed nothing", "walk": [s, e, b.hex()]})
            parsed.append(None)
            continue
        ls = [(int(x.rstrip("+"), 16), x.endswith("+")) for x in r.split(",")]
        parsed.append(ls)
        for a, cont in ls:
            if not cont:
                off = a - s
                q.append("dis %s %x %s" % (CPU, a, (b[off:off + 8] if 0 <= off < len(b) else b"").hex() or "00"))
    lens = []
    for r in run_impl(ctx, q):
        p = parse_dis(r)
        lens.append(p[0] if p and p[0] != "nonul" else None)
    k = 0
    for (s, e, b), ls in zip(walks, parsed):
        if ls is None:
            continue
        where = "%x..%x %s" % (s, e, b.hex())
        bad = None
        pos = s            # next address that must be printed
        last_end = None
        i = 0
        merge_counts(stats, "walk_lines", len(ls))
        while i < len(ls) and bad is None:
            a, cont = ls[i]
            if cont:
                bad = "continuation line %x without an instruction line" % a
                break
            n = lens[k]
            k += 1
            if 0xffe0 <= a <= 0xffff:
                n = 2          # interrupt vectors: one word per line
            if a != pos:
                bad = "address %x printed where %x is due" % (a, pos)
                break
            if n is None or n < 2 or n % 2:
                bad = "length %s at %x" % (n, a)
                break
            for j in range(1, n // 2):
                i += 1
                if i >= len(ls) or ls[i] != (a + 2 * j, True):
                    bad = "word %x of the %d-byte instruction at %x is not listed" % (a + 2 * j, n, a)
                    break
            pos = a + n
            i += 1
        # heads not consumed by the loop (after a break) still own a dis answer each
        while i < len(ls):
            if not ls[i][1]:
                k += 1
            i += 1
        if bad is None and pos <= e:
            bad = "the walk stopped at %x before the end of the range %x" % (pos, e)
        if bad is None and len([1 for a, c in ls if not c]) > e - s + 1:
            bad = "more lines than units in the range"
        if bad:
            fails.append({"sig": "C08:tiling:%x-%x" % (s, e), "input": where, "expected": "a tiling of the range",
                          "observed": ",".join("%x%s" % (a, "+" if c else "") for a, c in ls), "what": bad, "walk": [s, e, b.hex()]})
    return fails


def c08_oracle(ctx, orc):
    items, dis = ctx.notes.get("m4_c08_items"), ctx.notes.get("m4_c08_dis")
    walks, wimpl = ctx.notes.get("m4_c08_walks"), ctx.notes.get("m4_c08_walk_impl")
    if items is None:
        items, dis, walks, wimpl = c08_dis_items(ctx), None, gen_walks(ctx, ctx.scale(800, 8000)), None
    stats = orc["stats"].setdefault("msp430", {})
    fails = check_c08_dis(ctx, items, stats, dis) + check_c08_walk(ctx, walks, stats, wimpl)
    for f in fails:
        f["replay"] = {"cpu": "msp430", "prop": "C08", "item": f.pop("item", None), "walk": f.pop("walk", None)}
    orc["failures"] += fails
    orc["cases"] += stats.get("dis", 0) + stats.get("locality_checks", 0) + stats.get("walks", 0) + stats.get("walk_lines", 0)
    orc["distinct_nontrivial"] = orc.get("distinct_nontrivial", 0) + len(set(items)) + len(walks)
    orc.setdefault("samples", [])
    orc["samples"] += [{"walk": "%x..%x" % (s, e), "bytes": b.hex()} for s, e, b in walks[:2]]


# =============================================================================================
# replay of one recorded failure (re-runs the property oracle on exactly that input)
# =============================================================================================
def replay(ctx, r):
    stats = {}
    if r["prop"] == "C01":
        if not r.get("case"):
            return []
        return check_c01(ctx, [Case.from_dict(r["case"])], stats)
    if r["prop"] == "C06":
        return check_c06(ctx, [Case.from_dict(r["case"])], stats)
    if r["prop"] == "C07":
        a, ws = r["item"]
        return check_c07(ctx, [(a, list(ws))], stats) + check_c07(ctx, [(a, list(ws))], stats, None, None, "o")
    if r["prop"] == "C08":
        out = []
        if r.get("item"):
            out += check_c08_dis(ctx, [tuple(r["item"])], stats)
        if r.get("walk"):
            s, e, b = r["walk"]
            out += check_c08_walk(ctx, [(s, e, bytes.fromhex(b))], stats)
        return out
    return []
