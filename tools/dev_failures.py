#!/usr/bin/env python3
"""development helper: run a property's oracle (and correspondence) and list all failure signatures"""
import sys, os, importlib, collections, json
sys.path.insert(0, os.path.dirname(os.path.abspath(__file__)))
import nvlib, check
prop = sys.argv[1]; tier = sys.argv[2] if len(sys.argv) > 2 else "quick"
mod = importlib.import_module("props." + prop)
ctx = check.Ctx(prop, tier, nvlib.seed_from_env())
ctx.repo = nvlib.build_repo(); ctx.harness = nvlib.build_tool("nv_harness", ["nv_harness.cpp"], ctx.repo)
ctx.driver = nvlib.driver_path()
corr = {"cases": 0, "disagreements": [], "streams": {}}
if hasattr(mod, "correspondence"): mod.correspondence(ctx, corr)
print("correspondence cases", corr["cases"], "disagreements", len(corr["disagreements"]))
for d in corr["disagreements"][:10]: print("  ", json.dumps(d)[:400])
orc = {"cases": 0, "failures": [], "stats": {}}
mod.oracle(ctx, orc)
c = collections.Counter(f["sig"] for f in orc["failures"])
print("oracle cases", orc["cases"], "failures", len(orc["failures"]))
first = {}
for f in orc["failures"]: first.setdefault(f["sig"], f)
for s, n in sorted(c.items()):
    f = first[s]
    print("%4d %s | %s | %s" % (n, s[:110], str(f.get("observed"))[:90], str(f.get("what"))[:120]))
    if "--src" in sys.argv: print(f.get("input"))
import shutil; shutil.rmtree(ctx.tmp, ignore_errors=True)
