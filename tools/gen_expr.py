"""Grammar-directed generator and independent reference evaluator for constant expressions (C04).

The reference (`ref_eval`) is a plain precedence-climbing parser over the token strings with
Python big integers reduced to 64-bit two's complement; it is written from the statement of
C04, not from the code.
"""
M64 = (1 << 64) - 1

LEVELS = [["*", "/", "%"], ["+", "-"], ["<<", ">>"], ["&"], ["^"], ["|"]]
OPS = [o for l in LEVELS for o in l]
LEVEL_OF = {o: i + 1 for i, l in enumerate(LEVELS) for o in l}

BOUNDARY = [0, 1, 2, 3, 5, 7, 8, 15, 16, 31, 32, 63, 64, 100, 255, 256, 0x7fff, 0x8000, 0xffff, 0x10000,
            0x7fffffff, 0x80000000, 0xffffffff, 0x100000000, 0x7fffffffffffffff, 0x8000000000000000,
            0xffffffffffffffff, 0xfffffffffffffffe, 0x123456789abcdef0]


def s64(v):
    v &= M64
    return v - (1 << 64) if v >> 63 else v


def apply(op, a, b):
    """a, b unsigned 64; returns unsigned 64 or None (no value) or 'unspec' (C-undefined shift count)"""
    sa, sb = s64(a), s64(b)
    if op == "*": return (sa * sb) & M64
    if op == "+": return (sa + sb) & M64
    if op == "-": return (sa - sb) & M64
    if op == "&": return a & b
    if op == "^": return a ^ b
    if op == "|": return a | b
    if op == "/":
        if sb == 0: return None
        q = abs(sa) // abs(sb)
        if (sa < 0) != (sb < 0): q = -q
        return q & M64
    if op == "%":
        if sb == 0: return None
        r = abs(sa) % abs(sb)
        if sa < 0: r = -r
        return r & M64
    if op in ("<<", ">>"):
        if not (0 <= sb <= 63): return "unspec"
        if op == "<<": return (a << sb) & M64
        return (sa >> sb) & M64
    raise ValueError(op)


# ---------------------------------------------------------------- literals

def spell(v, rng, no_postfix=False):
    """a spelling of the unsigned 64-bit value v in one of the documented notations"""
    k = rng.randrange(9)
    if k == 0 or (k == 1 and v < (1 << 63)):
        return str(v) if v < (1 << 63) or k == 0 else hex(v)
    if k == 2: return "0x%x" % v
    if k == 3: return "0x%X" % v
    if k == 4 and not no_postfix:
        h = "%xh" % v
        return h if h[0].isdigit() else "0" + h
    if k == 5: return "0b" + bin(v)[2:]
    if k == 6 and not no_postfix:
        return oct(v)[2:] + "q"
    if k == 7 and v != 0:
        return "0" + oct(v)[2:]
    if k == 8 and v != 0:
        b = bin(v)[2:]
        # underscore separators, e.g. 1111_1011b
        parts = [b[max(0, i - 4):i] for i in range(len(b), 0, -4)][::-1]
        return "_".join(parts) + "b"
    return "0x%x" % v


def lit_value(text):
    """reference value of a literal spelling per docs/literals.md (None = not one of the documented forms)"""
    t = text.replace("_", "")
    try:
        if t[:2] in ("0x", "0X"): return int(t[2:], 16) & M64
        if t[:2] == "0b": return int(t[2:], 2) & M64
        if t[-1] in "hH": return int(t[:-1], 16) & M64
        if t[-1] in "qQ": return int(t[:-1], 8) & M64
        if t[-1] in "bB" and set(t[:-1]) <= set("01"): return int(t[:-1], 2) & M64
        if len(t) > 1 and t[0] == "0": return int(t, 8) & M64
        return int(t, 10) & M64
    except ValueError:
        return None


# ---------------------------------------------------------------- trees

def gen_tree(rng, depth, vals=BOUNDARY):
    r = rng.random()
    if depth <= 0 or r < 0.25:
        return ("num", rng.choice(vals) if rng.random() < 0.7 else rng.getrandbits(rng.choice([4, 8, 16, 32, 64])))
    if r < 0.33: return ("neg", gen_tree(rng, depth - 1, vals))
    if r < 0.40: return ("not", gen_tree(rng, depth - 1, vals))
    if r < 0.47: return ("par", gen_tree(rng, depth - 1, vals))
    return ("bin", rng.choice(OPS), gen_tree(rng, depth - 1, vals), gen_tree(rng, depth - 1, vals))


def level(t):
    return LEVEL_OF[t[1]] if t[0] == "bin" else 0


def render(t, lit):
    k = t[0]
    if k == "num": return [lit(t[1])]
    if k == "neg": return ["-"] + render_operand(t[1], lit)
    if k == "not": return ["~"] + render_operand(t[1], lit)
    if k == "par": return ["("] + render(t[1], lit) + [")"]
    _, o, l, r = t
    lt = render(l, lit) if level(l) <= LEVEL_OF[o] else ["("] + render(l, lit) + [")"]
    rt = render(r, lit) if level(r) < LEVEL_OF[o] else ["("] + render(r, lit) + [")"]
    return lt + [o] + rt


def render_operand(t, lit):
    if t[0] == "bin": return ["("] + render(t, lit) + [")"]
    return render(t, lit)


def tree_eval(t):
    k = t[0]
    if k == "num": return t[1] & M64
    if k in ("neg", "not", "par"):
        v = tree_eval(t[1])
        if v is None or v == "unspec": return v
        return (-v) & M64 if k == "neg" else (~v) & M64 if k == "not" else v
    a, b = tree_eval(t[2]), tree_eval(t[3])
    if a == "unspec" or b == "unspec": return "unspec"
    if a is None or b is None: return None
    return apply(t[1], a, b)


def flat_tree(rng, ops, vals):
    """left-to-right token chain v0 o1 v1 ... with the given operators (parsed by precedence)"""
    toks = [rng.choice(vals)]
    for o in ops:
        toks += [o, rng.choice(vals)]
    return toks


# ---------------------------------------------------------------- reference parser (independent of trees)

class Malformed(Exception):
    pass


def ref_eval(tokens, value_of):
    """Parse the longest well-formed expression prefix of `tokens`.
    Returns (value|None|'unspec', consumed).  Raises Malformed if no well-formed prefix ends at a
    legitimate end (end of tokens, ',', ')', or '(' directly after an operand = instruction syntax)."""
    pos = [0]

    def peek():
        return tokens[pos[0]] if pos[0] < len(tokens) else None

    def operand():
        t = peek()
        if t is None: raise Malformed("operand expected at end")
        if t == "-" or t == "~":
            pos[0] += 1
            v = operand()
            if v is None or v == "unspec": return v
            return (-v) & M64 if t == "-" else (~v) & M64
        if t == "(":
            pos[0] += 1
            if peek() == "+": pos[0] += 1      # a (sub)expression may start with '+'
            v = expr(6)
            if peek() != ")": raise Malformed("missing )")
            pos[0] += 1
            return v
        v = value_of(t)
        if v is None: raise Malformed("not an operand: %r" % (t,))
        pos[0] += 1
        return v

    def expr(lv):
        if lv == 0: return operand()
        a = expr(lv - 1)
        while peek() in LEVELS[lv - 1]:
            o = peek(); pos[0] += 1
            b = expr(lv - 1)
            if a == "unspec" or b == "unspec": a = "unspec"
            elif a is None or b is None: a = None
            else: a = apply(o, a, b)
        return a

    # an expression may start with a unary plus (documented for Z80 "(ix+5)")
    if peek() == "+":
        pos[0] += 1
    v = expr(6)
    return v, pos[0]


def is_end(tokens, consumed):
    if consumed >= len(tokens): return True
    return tokens[consumed] in (",", ")", "(", "]", "[", ".")
