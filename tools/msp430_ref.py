"""Reference semantics of one MSP430 (16-bit core) instruction, written from the family user's
guides (SLAU049 / SLAU144 chapter 3; transcription notes DESIGN.md A.3) -- NOT from the simulator.

arch_step(regs, mem) -> ("undefined", reason) | ("ok", regs', mem')
  regs: list of 16 ints (16 bit), mem: dict addr(0..0xffff) -> byte (absent = 0)

A state is `undefined` when the guide does not say what happens (list in UNDEFINED); the oracle
compares only defined states.  R3 is kept as a storage cell that no instruction can read (every
read of R3 yields the constant selected by As), so writing it is unobservable.
"""

M16 = 0xffff

UNDEFINED = {
    "odd-pc": "the PC is word aligned by construction (bit 0 reads as 0)",
    "not-an-instruction": "opcode words 0x0000-0x0fff, 0x1380-0x1fff are not instructions of the 16-bit core; RETI is 0x1300 only",
    "byte-form": "SWPB, SXT, CALL (and RETI) have no byte form",
    "odd-word-access": "word access at an odd address (operand, stack or extension word)",
    "cg-destination": "R3 with Ad=1 is not a destination addressing mode",
    "rmw-constant": "single-operand read-modify-write of an immediate / generated constant has no destination",
    "flags-and-sr-dest": "destination SR in register mode of an instruction that also sets the status bits",
    "push-byte": "PUSH.B: the guide does not define the high byte of the stack word",
    "dadd-non-bcd": "DADD on operands with a digit above 9",
}


class Undefined(Exception):
    pass


def sext(v, bits):
    v &= (1 << bits) - 1
    return v - (1 << bits) if v & (1 << (bits - 1)) else v


class Cpu:
    def __init__(self, regs, mem):
        self.r = list(regs)
        self.m = dict(mem)

    def rd8(self, a):
        return self.m.get(a & M16, 0)

    def rd16(self, a):
        a &= M16
        if a & 1:
            raise Undefined("odd-word-access")
        return self.rd8(a) | (self.rd8(a + 1) << 8)

    def rd(self, a, bw):
        return self.rd8(a) if bw else self.rd16(a)

    def wr8(self, a, v):
        self.m[a & M16] = v & 0xff

    def wr16(self, a, v):
        a &= M16
        if a & 1:
            raise Undefined("odd-word-access")
        self.wr8(a, v)
        self.wr8(a + 1, v >> 8)

    def wr(self, a, v, bw):
        if bw:
            self.wr8(a, v)
        else:
            self.wr16(a, v)

    def fetch(self):
        w = self.rd16(self.r[0])
        self.r[0] = (self.r[0] + 2) & M16
        return w

    # source operand: returns (value, kind, ea)   kind in const/reg/mem/imm
    def source(self, reg, As, bw):
        mask = 0xff if bw else M16
        if reg == 3:
            return [0, 1, 2, M16][As] & mask, "const" if As else "reg", None
        if reg == 2 and As >= 2:
            return [4, 8][As - 2], "const", None
        if As == 0:
            return self.r[reg] & mask, "reg", None
        if As == 1:
            base = 0 if reg == 2 else self.r[reg]      # for PC: address of the extension word
            x = self.fetch()
            ea = (base + x) & M16
            return self.rd(ea, bw), "mem", ea
        if As == 2:
            ea = self.r[reg]
            return self.rd(ea, bw), "mem", ea
        # As == 3
        if reg == 0:
            v = self.fetch()
            return v & mask, "imm", None
        ea = self.r[reg]
        v = self.rd(ea, bw)
        self.r[reg] = (self.r[reg] + (1 if (bw and reg != 1) else 2)) & M16
        return v, "mem", ea

    def flags(self, c=None, z=None, n=None, v=None):
        sr = self.r[2]
        for bit, val in ((0, c), (1, z), (2, n), (8, v)):
            if val is not None:
                sr = (sr & ~(1 << bit)) | ((1 if val else 0) << bit)
        self.r[2] = sr & M16


def bcd_add(a, b, c, digits):
    out = 0
    for i in range(digits):
        da, db = (a >> (4 * i)) & 15, (b >> (4 * i)) & 15
        if da > 9 or db > 9:
            raise Undefined("dadd-non-bcd")
        d = da + db + c
        c = 1 if d > 9 else 0
        if c:
            d -= 10
        out |= d << (4 * i)
    return out, c


def arch_step(regs, mem):
    cpu = Cpu(regs, mem)
    try:
        _step(cpu)
    except Undefined as e:
        return ("undefined", str(e))
    return ("ok", cpu.r, cpu.m)


def _step(cpu):
    if cpu.r[0] & 1:
        raise Undefined("odd-pc")
    w = cpu.fetch()
    if (w & 0xe000) == 0x2000:
        cond = (w >> 10) & 7
        off = sext(w & 0x3ff, 10)
        sr = cpu.r[2]
        c, z, n, v = sr & 1, (sr >> 1) & 1, (sr >> 2) & 1, (sr >> 8) & 1
        taken = [z == 0, z == 1, c == 0, c == 1, n == 1, (n ^ v) == 0, (n ^ v) == 1, True][cond]
        if taken:
            cpu.r[0] = (cpu.r[0] + 2 * off) & M16
        return
    if (w & 0xfc00) == 0x1000:
        op = (w >> 7) & 7
        bw = (w >> 6) & 1
        As = (w >> 4) & 3
        reg = w & 15
        if op == 7 or (op == 6 and w != 0x1300):
            raise Undefined("not-an-instruction")
        if op == 6:
            cpu.r[2] = cpu.rd16(cpu.r[1])
            cpu.r[1] = (cpu.r[1] + 2) & M16
            cpu.r[0] = cpu.rd16(cpu.r[1])
            cpu.r[1] = (cpu.r[1] + 2) & M16
            return
        if bw and op in (1, 3, 5):
            raise Undefined("byte-form")
        msb = 0x80 if bw else 0x8000
        mask = 0xff if bw else M16
        if op == 4:      # PUSH: "SP - 2 -> SP, src -> @SP" -- the source (SP, x(SP), @SP, @SP+ included) is
            #                  evaluated with the decremented SP
            if bw:
                raise Undefined("push-byte")
            cpu.r[1] = (cpu.r[1] - 2) & M16
            val, kind, ea = cpu.source(reg, As, bw)
            cpu.wr16(cpu.r[1], val)
            return
        if op == 5:      # CALL
            val, kind, ea = cpu.source(reg, As, 0)
            cpu.r[1] = (cpu.r[1] - 2) & M16
            cpu.wr16(cpu.r[1], cpu.r[0])
            cpu.r[0] = val
            return
        # RRC, SWPB, RRA, SXT : read-modify-write of the operand (the write goes to the address
        # the operand was read from; @Rn+ increments Rn afterwards, which commutes with the write)
        val, kind, ea = cpu.source(reg, As, bw)
        if kind in ("const", "imm"):
            raise Undefined("rmw-constant")
        c_in = cpu.r[2] & 1
        if op == 0:
            res = (val >> 1) | (msb if c_in else 0)
            fl = dict(c=val & 1, z=res == 0, n=res & msb, v=0)
        elif op == 2:
            res = (val >> 1) | (val & msb)
            fl = dict(c=val & 1, z=res == 0, n=res & msb, v=0)
        elif op == 1:
            res = ((val >> 8) | (val << 8)) & M16
            fl = None
        else:
            res = (val & 0xff) | (0xff00 if val & 0x80 else 0)
            fl = dict(c=res != 0, z=res == 0, n=res & 0x8000, v=0)
        if kind == "reg":
            if fl and reg == 2:
                raise Undefined("flags-and-sr-dest")
            cpu.r[reg] = res & mask
        else:
            cpu.wr(ea, res, bw)
        if fl:
            cpu.flags(**fl)
        return
    op = w >> 12
    if op < 4:
        raise Undefined("not-an-instruction")
    sreg, Ad, bw, As, dreg = (w >> 8) & 15, (w >> 7) & 1, (w >> 6) & 1, (w >> 4) & 3, w & 15
    mask = 0xff if bw else M16
    msb = 0x80 if bw else 0x8000
    src, _, _ = cpu.source(sreg, As, bw)
    # destination
    if Ad == 0:
        dea = None
    else:
        if dreg == 3:
            raise Undefined("cg-destination")
        base = 0 if dreg == 2 else cpu.r[dreg]
        x = cpu.fetch()
        dea = (base + x) & M16
    sets_flags = op not in (4, 12, 13)
    writes = op not in (9, 11)
    if sets_flags and Ad == 0 and dreg == 2:
        raise Undefined("flags-and-sr-dest")
    if op == 4:
        dst = 0
    elif dea is None:
        dst = 0 if dreg == 3 else cpu.r[dreg] & mask
    else:
        dst = cpu.rd(dea, bw)
    c_in = cpu.r[2] & 1
    fl = None
    if op == 4:
        res = src
    elif op in (5, 6):
        full = dst + src + (c_in if op == 6 else 0)
        res = full & mask
        fl = dict(c=full > mask, z=res == 0, n=res & msb,
                  v=((dst & msb) == (src & msb)) and ((res & msb) != (dst & msb)))
    elif op in (7, 8, 9):
        nsrc = (~src) & mask
        full = dst + nsrc + (c_in if op == 7 else 1)
        res = full & mask
        # overflow of dst - src: operands of different sign and result sign differs from dst
        fl = dict(c=full > mask, z=res == 0, n=res & msb,
                  v=((dst & msb) != (src & msb)) and ((res & msb) != (dst & msb)))
    elif op == 10:
        res, c = bcd_add(src, dst, c_in, 2 if bw else 4)
        fl = dict(c=c, z=res == 0, n=res & msb)       # V undefined: left as it was
    elif op in (11, 15):
        res = src & dst
        fl = dict(c=res != 0, z=res == 0, n=res & msb, v=0)
    elif op == 12:
        res = dst & ~src & mask
    elif op == 13:
        res = dst | src
    else:
        res = src ^ dst
        fl = dict(c=res != 0, z=res == 0, n=res & msb, v=(src & msb) and (dst & msb))
    if writes:
        if dea is None:
            cpu.r[dreg] = res & mask
        else:
            cpu.wr(dea, res, bw)
    if fl:
        cpu.flags(**fl)


# ------------------------------------------------------------------------------------------------
# instruction length and cycle count from the guide's tables (used for the -run oracle)

def length(w):
    """bytes occupied by the instruction whose first word is w (16-bit core)"""
    def src_ext(reg, As):
        return (As == 1 and reg != 3) or (As == 3 and reg == 0)
    if (w & 0xe000) == 0x2000:
        return 2
    if (w & 0xfc00) == 0x1000:
        op = (w >> 7) & 7
        if op >= 6:
            return 2
        return 2 + (2 if src_ext(w & 15, (w >> 4) & 3) else 0)
    if (w >> 12) < 4:
        return 2
    n = 2
    if src_ext((w >> 8) & 15, (w >> 4) & 3):
        n += 2
    if (w >> 7) & 1:          # Ad = 1 always has an index word (x(R3) included, as the disassembler now decodes it)
        n += 2
    return n


def cycles(w):
    """cycle count of SLAU144 tables 3-14..3-16 (None where the tables have no row)"""
    if (w & 0xe000) == 0x2000:
        return 2
    def smode(reg, As):
        if reg == 3 or (reg == 2 and As >= 2):
            return "Rn"
        if As == 0:
            return "Rn"
        if As == 1:
            return "x"
        if As == 2:
            return "@"
        return "#" if reg == 0 else "@+"
    if (w & 0xfc00) == 0x1000:
        op = (w >> 7) & 7
        reg, As = w & 15, (w >> 4) & 3
        if op == 6:
            return 5
        if op == 7:
            return None
        m = smode(reg, As)
        if op == 5:
            return {"Rn": 4, "@": 4, "@+": 5, "#": 5, "x": 5}[m]
        if op == 4:
            return {"Rn": 3, "@": 4, "@+": 5, "#": 4, "x": 5}[m]
        return {"Rn": 1, "@": 3, "@+": 3, "#": None, "x": 4}[m]
    if (w >> 12) < 4:
        return None
    sreg, Ad, As, dreg = (w >> 8) & 15, (w >> 7) & 1, (w >> 4) & 3, w & 15
    m = smode(sreg, As)
    d = "x" if (Ad and dreg != 3) else ("PC" if dreg == 0 else "Rm")
    table = {"Rn": {"Rm": 1, "PC": 2, "x": 4}, "@": {"Rm": 2, "PC": 2, "x": 5},
             "@+": {"Rm": 2, "PC": 3, "x": 5}, "#": {"Rm": 2, "PC": 3, "x": 5},
             "x": {"Rm": 3, "PC": 3, "x": 6}}
    return table[m][d]
