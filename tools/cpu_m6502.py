"""MOS 6502 / 65C02 (CPU type `.6502`) part of the instruction-level properties C01, C06, C07, C08.

Exports, per property Cxx:  cxx_correspondence(ctx, corr), cxx_oracle(ctx, orc), CXX_THEOREMS,
plus LEAN_MODULES and replay(ctx, rec).  tools/props/C01.py ... C08.py iterate over CPU modules.

Independent reference ("Arch"): the instruction set of the 65C02 as the programming manuals give it (MOS MCS6500
programming manual, appendix "Summary of instruction set"; WDC W65C02S data sheet, opcode matrix and the 16 addressing
modes): 212 opcodes = (mnemonic, addressing mode), operand bytes low byte first, branch displacement relative to the
address of the NEXT instruction (address + 2; address + 3 for the three-byte BBR/BBS).  Nothing here is derived from
/repo.
"""
import os, re
import nvlib

CPU = "6502"
M16 = 0xffff
M32 = 0xffffffff

LEAN_MODULES = ["NakenVerif.M6502.Fixpoint"]
P = "NakenVerif.M6502."
C01_THEOREMS = [P + n for n in (
    "m6502_encode_sound", "m6502_encode_len", "m6502_walk_exact", "m6502_refix_bytes", "m6502_fixpoint_structured",
    "m6502_fixpoint_lowpage_counterexample", "Arch.matrix_length", "Arch.matrix_opcodes_nodup", "Arch.matrix_forms_nodup",
    "table_sizes", "table_matches_arch", "table_names_mnem", "table_names_arch", "table_names_index", "table_names_unique",
    "table_len_consistent", "table_forms_unique", "table_refind", "search_hit")]
C06_THEOREMS = [P + n for n in (
    "m6502_encode_rejects_unfit", "m6502_imm_range", "m6502_addr_range", "m6502_zp_only_range", "m6502_zp_form_only_range",
    "m6502_branch_range", "m6502_bbr_range", "m6502_encode_injective_mod_field", "m6502_encode_injective_imm8",
    "m6502_encode_injective_addr", "m6502_encode_injective_branch", "m6502_encode_exact_field", "table_matches_arch")]
C07_THEOREMS = [P + n for n in (
    "m6502_decode_encode_decode", "m6502_text_rejected_classes", "table_rt_rows", "table_matches_arch", "table_names_unique")]
C08_THEOREMS = [P + n for n in (
    "m6502_len_bounds", "m6502_decode_local", "m6502_text_fits", "m6502_walk_tiles", "m6502_walk_tiles_disasm",
    "table_len_consistent", "table_names_short")]

MODELLED = ("parse_instruction_6502 with get_num / get_address for statements with at most one operand group "
            "(#imm, zp/abs by value and by the pass-1 flag byte, ,x ,y, (ind) (ind,x) (ind),y, relative branches incl. "
            "the #offset form, bbr/bbs zp,target, the < > ! modifiers, the .b/.w suffix, the opcode search with its four "
            "fall-backs, every range check); disasm_6502 exact text and length for EVERY byte sequence; "
            "disasm_range_6502 address column")
NOT_MODELLED = ("a second operand group in one statement (the token loop of parse_instruction_6502 would run again: "
                "'lda (5),y 7' is accepted as 'lda 7'), symbols/operators inside operands (C04/C11) and therefore the "
                "pass-1 flag byte as produced by forward references (its effect on pass 2 is modelled: ctx.flag); the "
                "65816 (.65816 is another CPU module of /repo); the wrap-around of disasm_range_6502 at the top of the "
                "32-bit address space (the model walks over Nat)")

# =============================================================================================
# Arch: the 65C02 opcode matrix, reference decoder
# =============================================================================================
OPBYTES = {"imp": 0, "imm": 1, "zp": 1, "zpx": 1, "zpy": 1, "abs": 2, "absx": 2, "absy": 2, "ind": 2, "indx": 1, "indy": 1,
           "zpind": 1, "absindx": 2, "rel": 1, "zprel": 2}


def build_matrix():
    m = []
    alu = {"ora": 0x00, "and": 0x20, "eor": 0x40, "adc": 0x60, "sta": 0x80, "lda": 0xa0, "cmp": 0xc0, "sbc": 0xe0}
    alu_modes = [("indx", 0x01), ("zp", 0x05), ("imm", 0x09), ("abs", 0x0d), ("indy", 0x11), ("zpind", 0x12), ("zpx", 0x15),
                 ("absy", 0x19), ("absx", 0x1d)]
    for mn, base in alu.items():
        for md, off in alu_modes:
            if mn == "sta" and md == "imm":
                continue
            m.append((mn, md, base + off))
    for mn, base in {"asl": 0x00, "rol": 0x20, "lsr": 0x40, "ror": 0x60}.items():
        for md, off in [("zp", 0x06), ("imp", 0x0a), ("abs", 0x0e), ("zpx", 0x16), ("absx", 0x1e)]:
            m.append((mn, md, base + off))
    m += [("dec", "imp", 0x3a), ("dec", "zp", 0xc6), ("dec", "abs", 0xce), ("dec", "zpx", 0xd6), ("dec", "absx", 0xde),
          ("inc", "imp", 0x1a), ("inc", "zp", 0xe6), ("inc", "abs", 0xee), ("inc", "zpx", 0xf6), ("inc", "absx", 0xfe),
          ("stx", "zp", 0x86), ("stx", "abs", 0x8e), ("stx", "zpy", 0x96),
          ("ldx", "imm", 0xa2), ("ldx", "zp", 0xa6), ("ldx", "abs", 0xae), ("ldx", "zpy", 0xb6), ("ldx", "absy", 0xbe),
          ("sty", "zp", 0x84), ("sty", "abs", 0x8c), ("sty", "zpx", 0x94),
          ("ldy", "imm", 0xa0), ("ldy", "zp", 0xa4), ("ldy", "abs", 0xac), ("ldy", "zpx", 0xb4), ("ldy", "absx", 0xbc),
          ("cpy", "imm", 0xc0), ("cpy", "zp", 0xc4), ("cpy", "abs", 0xcc),
          ("cpx", "imm", 0xe0), ("cpx", "zp", 0xe4), ("cpx", "abs", 0xec),
          ("bit", "zp", 0x24), ("bit", "abs", 0x2c), ("bit", "zpx", 0x34), ("bit", "absx", 0x3c), ("bit", "imm", 0x89),
          ("stz", "zp", 0x64), ("stz", "zpx", 0x74), ("stz", "abs", 0x9c), ("stz", "absx", 0x9e),
          ("trb", "zp", 0x14), ("trb", "abs", 0x1c), ("tsb", "zp", 0x04), ("tsb", "abs", 0x0c),
          ("jmp", "abs", 0x4c), ("jmp", "ind", 0x6c), ("jmp", "absindx", 0x7c), ("jsr", "abs", 0x20)]
    for mn, c in [("bpl", 0x10), ("bmi", 0x30), ("bvc", 0x50), ("bvs", 0x70), ("bra", 0x80), ("bcc", 0x90), ("bcs", 0xb0),
                  ("bne", 0xd0), ("beq", 0xf0)]:
        m.append((mn, "rel", c))
    for mn, c in [("brk", 0x00), ("php", 0x08), ("clc", 0x18), ("plp", 0x28), ("sec", 0x38), ("rti", 0x40), ("pha", 0x48),
                  ("cli", 0x58), ("rts", 0x60), ("pla", 0x68), ("sei", 0x78), ("dey", 0x88), ("txa", 0x8a), ("tya", 0x98),
                  ("txs", 0x9a), ("tay", 0xa8), ("tax", 0xaa), ("clv", 0xb8), ("tsx", 0xba), ("iny", 0xc8), ("dex", 0xca),
                  ("cld", 0xd8), ("inx", 0xe8), ("nop", 0xea), ("sed", 0xf8), ("phy", 0x5a), ("ply", 0x7a), ("phx", 0xda),
                  ("plx", 0xfa), ("wai", 0xcb), ("stp", 0xdb)]:
        m.append((mn, "imp", c))
    for n in range(8):
        m.append(("rmb%d" % n, "zp", n << 4 | 0x07))
        m.append(("smb%d" % n, "zp", n << 4 | 0x87))
        m.append(("bbr%d" % n, "zprel", n << 4 | 0x0f))
        m.append(("bbs%d" % n, "zprel", n << 4 | 0x8f))
    return m


MATRIX = build_matrix()
BY_OPCODE = {c: (mn, md) for mn, md, c in MATRIX}
BY_FORM = {(mn, md): c for mn, md, c in MATRIX}
MNEMONICS = sorted(set(mn for mn, _, _ in MATRIX))
BRANCHES = [mn for mn, md, _ in MATRIX if md == "rel"]
assert len(MATRIX) == 212 and len(BY_OPCODE) == 212 and len(BY_FORM) == 212 and len(MNEMONICS) == 98


def sext(v, n):
    v &= (1 << n) - 1
    return v - (1 << n) if v >> (n - 1) else v


def arch_length(b0):
    return 1 + OPBYTES[BY_OPCODE[b0][1]] if b0 in BY_OPCODE else 1


def arch_decode(addr16, bs):
    """((mnemonic, mode, value, zp), bytes) or None.  value = operand (immediate, address) or the branch target."""
    if not bs or bs[0] not in BY_OPCODE:
        return None
    mn, md = BY_OPCODE[bs[0]]
    n = OPBYTES[md]
    if len(bs) < 1 + n:
        return None
    if n == 0:
        return ((mn, md, 0, 0), 1)
    if n == 1:
        if md == "rel":
            return ((mn, md, (addr16 + 2 + sext(bs[1], 8)) & M16, 0), 2)
        return ((mn, md, bs[1], 0), 2)
    if md == "zprel":
        return ((mn, md, (addr16 + 3 + sext(bs[2], 8)) & M16, bs[1]), 3)
    return ((mn, md, bs[1] | bs[2] << 8, 0), 3)


def narrow32(v):
    if -(1 << 31) <= v <= M32:
        return sext(v, 32)
    return None


def apply_mod(mod, v):
    """the assembler's own operators: < low byte, > high byte, ! low 16 bits"""
    return {"": v, "<": v & 0xff, ">": (v >> 8) & 0xff, "!": v & 0xffff}[mod]


SHAPES = ("none", "imm", "addr", "addrx", "addry", "addrrel", "ind", "indx", "indy")
SHAPE_MODES = {"addr": ("zp", "abs"), "addrx": ("zpx", "absx"), "addry": ("zpy", "absy"), "ind": ("zpind", "ind"),
               "indx": ("indx", "absindx"), "indy": ("indy", None)}


def readings(mn, shape, mod, v, addr, t=None):
    """every instruction of the architecture the statement can denote (at most two: the zero-page and the absolute
    form of an address that is below 0x100).  None: the modifier is not one the operand position has."""
    if shape == "none":
        if mn in BRANCHES:
            return []
        return [(mn, "imp", 0, 0)] if (mn, "imp") in BY_FORM else []
    if mod not in (("", "<", ">") if (shape == "imm" or mn in BRANCHES) else ("", "<", "!")):
        return None
    x = apply_mod(mod, v)
    if mn in BRANCHES:
        if shape == "ind":
            # the operand of a branch is an expression: "(v)" is v in parentheses
            if mod:
                return None
            shape = "addr"
        if shape == "addr":
            d = sext(x - (addr + 2), 32)
            return [(mn, "rel", x & M16, 0)] if -128 <= d <= 127 else []
        if shape == "imm":
            return [(mn, "rel", (addr + 2 + sext(x, 8)) & M16, 0)] if -128 <= x <= 255 else []
        return []
    if shape == "imm":
        return [(mn, "imm", x & 0xff, 0)] if -128 <= x <= 255 and (mn, "imm") in BY_FORM else []
    if shape == "addrrel":
        d = sext(t - (addr + 3), 32)
        if 0 <= x <= 0xff and -128 <= d <= 127 and (mn, "zprel") in BY_FORM:
            return [(mn, "zprel", t & M16, x)]
        return []
    short, long = SHAPE_MODES[shape]
    out = []
    if 0 <= x <= 0xff and (mn, short) in BY_FORM:
        out.append((mn, short, x, 0))
    if long and 0 <= x <= 0xffff and (mn, long) in BY_FORM:
        out.append((mn, long, x, 0))
    return out


# =============================================================================================
# statement generator (type directed, boundary biased)
# =============================================================================================
class Case(object):
    __slots__ = ("text", "addr", "mn", "shape", "mod", "suffix", "value", "target", "want", "fit", "form", "group", "note")

    def __init__(self, text, addr, mn=None, shape=None, mod="", suffix="", value=None, target=None, want=None, fit=None,
                 form=None, group=None, note=""):
        self.text, self.addr, self.mn, self.shape, self.mod, self.suffix = text, addr, mn, shape, mod, suffix
        self.value, self.target, self.want, self.fit, self.form, self.group, self.note = value, target, want, fit, form, group, note

    def to_dict(self):
        return {k: getattr(self, k) for k in self.__slots__}

    @staticmethod
    def from_dict(d):
        c = Case(d["text"], d["addr"])
        for k in Case.__slots__:
            setattr(c, k, d.get(k))
        if c.want is not None:
            c.want = [tuple(x) for x in c.want]
        return c

    def line(self):
        return "asm1 %s %x - %s" % (CPU, self.addr, nvlib.hexs(self.text))


ADDRS = [0x1000, 0x1000, 0x1000, 0, 0x80, 0xff80, 0xfffe, 0xffff, 0x10000, 0x12345, 0x7ffffff0, 0xfffffff0]
# address-like operands: both sides of 0xff/0x100 and 0xffff/0x10000, negatives, 32-bit spellings, 64-bit values
BADDR = [0, 1, 2, 0x7f, 0x80, 0xfe, 0xff, 0x100, 0x101, 0x1ff, 0x200, 0x1234, 0x7fff, 0x8000, 0xff00, 0xfffe, 0xffff,
         0x10000, 0x10001, 0x100ff, 0x12345, -1, -2, -128, -255, -256, -0x8000, 0x7fffffff, -0x80000000, 0xffffffff,
         0xffffff00, 0xffff0000, 0x80000000]
BIMM = [-129, -128, -127, -2, -1, 0, 1, 2, 0x7f, 0x80, 0xfe, 0xff, 0x100, 0x101, 0x1ff, 0xffff, 0x10000, -256, -0x8000,
        0x7fffffff, -0x80000000, 0xffffffff, 0xffffff80, 0xffffff7f, 0xffffff00]
BDIST = [-131, -130, -129, -128, -127, -126, -3, -2, -1, 0, 1, 2, 3, 125, 126, 127, 128, 129, 130, 131, 255, 256, -256,
         0x7fff, -0x8000, 0xffff, 0x10000]
N64 = [(1 << 32) + 2, (1 << 32) + 0xff, -(1 << 32) + 1, (1 << 40) + 5, (1 << 63) - 1, -(1 << 31) - 1, (1 << 32)]


def spell(rng, v):
    k = rng.randrange(4)
    a = abs(v)
    s = ("%d" % a) if k == 0 else ("0x%x" % a) if k == 1 else ("$%x" % a) if k == 2 else ("0x%04x" % a)
    return ("-" + s) if v < 0 else s


def render(rng, mn, suffix, shape, mod, v, t=None):
    n = mod + spell(rng, v) if shape != "none" else ""
    x = rng.choice(["x", "x", "X"])
    y = rng.choice(["y", "y", "Y"])
    sp = rng.choice(["", "", " "])
    ops = {"none": "", "imm": "#" + n, "addr": n, "addrx": "%s,%s%s" % (n, sp, x), "addry": "%s,%s%s" % (n, sp, y),
           "addrrel": "%s,%s%s" % (n, sp, spell(rng, t) if t is not None else ""), "ind": "(%s)" % n,
           "indx": "(%s,%s%s)" % (n, sp, x), "indy": "(%s),%s%s" % (n, sp, y)}[shape]
    name = mn.upper() if rng.random() < 0.05 else mn
    return name + suffix + ((" " + ops) if ops else "")


def make_case(rng, mn, shape, mod, suffix, v, addr, t=None, note="", group=None):
    text = render(rng, mn, suffix, shape, mod, v, t)
    v32 = narrow32(v) if shape != "none" else 0
    t32 = narrow32(t) if t is not None else None
    if v32 is None or (t is not None and t32 is None):
        return Case(text, addr, mn, shape, mod, suffix, v, t, [], False, "%s:%s" % (mn, shape), group, "narrow64")
    want = readings(mn, shape, mod, v32, addr, t32)
    fit = None if want is None else bool(want)
    return Case(text, addr, mn, shape, mod, suffix, v32, t32, want, fit, "%s:%s" % (mn, shape), group, note)


def gen_cases(ctx, what="all"):
    """what = 'all': every mnemonic x every operand shape x boundary values (+ modifiers, suffixes, addresses);
    'boundary': the C06 groups (one form, one address, all boundary values)"""
    rng = ctx.rng
    cases = []
    full = not ctx.quick()
    for mn in MNEMONICS:
        is_br = mn in BRANCHES
        for shape in SHAPES:
            if shape == "none":
                cases.append(make_case(rng, mn, shape, "", rng.choice(["", "", ".b", ".w"]), 0, rng.choice(ADDRS)))
                continue
            addr = rng.choice(ADDRS)
            group = (mn, shape, addr)
            if is_br and shape == "addr":
                vals = [addr + 2 + d for d in BDIST] + [0, 0xffff, -1]
            elif shape == "imm":
                vals = BIMM
            elif shape == "addrrel":
                vals = BADDR
            else:
                vals = BADDR
            has_form = (shape == "imm" and ((mn, "imm") in BY_FORM or is_br)) or (shape == "addr" and is_br) or \
                (shape == "addrrel" and (mn, "zprel") in BY_FORM) or \
                any(md and (mn, md) in BY_FORM for md in SHAPE_MODES.get(shape, ()))
            if not has_form:
                # the instruction has no such form at all: every value must be rejected; a few values suffice
                vals = rng.sample(vals, 3) + [5]
            if what == "all" and not full:
                # quick tier of the C01 stream: the boundaries that decide + a third of the rest (C06 runs all of them)
                key = [0, 0xff, 0x100, 0xffff, 0x10000, -1, -128, -129, 127, 128, addr + 2 - 128, addr + 2 + 127, addr + 2 - 129,
                       addr + 2 + 128]
                vals = [v for v in vals if v in key or rng.random() < 0.34]
            for v in vals:
                t = None
                if shape == "addrrel":
                    t = addr + 3 + rng.choice([0, -3, 5, 127, -128, 1])
                cases.append(make_case(rng, mn, shape, "", "", v, addr, t, group=group))
            if shape == "addrrel":
                for d in BDIST:
                    cases.append(make_case(rng, mn, shape, "", "", rng.choice([0, 5, 0x80, 0xff]), addr, addr + 3 + d,
                                           group=(mn, "addrrel-target", addr)))
            # modifiers and suffixes on a sample of values
            for _ in range(4 if full else 2):
                v = rng.choice(vals if vals else [0])
                mod = rng.choice(["<", "<", ">", "!"])
                t = addr + 3 + rng.choice([0, 5, -128, 127]) if shape == "addrrel" else None
                cases.append(make_case(rng, mn, shape, mod, "", v, addr, t, note="modifier"))
                suffix = rng.choice([".b", ".w", ".B", ".W"])
                cases.append(make_case(rng, mn, shape, "", suffix, v, addr, t, note="suffix"))
            if rng.random() < 0.5:
                cases.append(make_case(rng, mn, shape, "", "", rng.choice(N64), addr,
                                       addr + 3 if shape == "addrrel" else None))
    # the branch range at many addresses, both operand forms
    for mn in BRANCHES:
        for addr in ADDRS:
            for d in (rng.sample(BDIST, 8) if not full else BDIST):
                cases.append(make_case(rng, mn, "addr", "", "", addr + 2 + d, addr, group=(mn, "addr", addr)))
    for n in range(8):
        for mn in ("bbr%d" % n, "bbs%d" % n):
            addr = rng.choice(ADDRS)
            for d in (rng.sample(BDIST, 8) if not full else BDIST):
                cases.append(make_case(rng, mn, "addrrel", "", "", rng.choice([0, 0x12, 0xff]), addr, addr + 3 + d,
                                       group=(mn, "addrrel-target", addr)))
    if what == "boundary":
        cases = [c for c in cases if c.shape != "none" and c.note in ("", "narrow64")]
    else:
        # statements that must be rejected whatever the values are (an operand is missing / not a form of the syntax)
        for t in ("bne", "bra", "lda #", "rmb0", "smb7", "bbr0", "bbs3 5", "lda 5,x,y", "lda #5,x", "lda (5),x", "lda (5,y)",
                  "lda 5 6", "lda #5 6", "ldx 5,x,", "asl a", "nop 5", "nop #5", "rts (5)", "jsr", "jmp", "sta #5",
                  "jsr #5", "jmp #0x1000", "bne (5),y", "bne 0x1000,x", "bbr8 5, 0x1000", "rmb8 5", "lda.l 5", "lda.x 5"):
            cases.append(Case(t, 0x1000, t.split(" ")[0].split(".")[0], "syntax", "", "", None, None, [], False, "syntax", None,
                              "syntax"))
    return cases


def fragment_ok(text):
    """statements inside the fragment the Lean token-loop parser models"""
    return re.fullmatch(r"[A-Za-z0-9_.,()#<>!$\- ]*", text) is not None


# =============================================================================================
# byte generators for the decoder side
# =============================================================================================
DADDRS = [0x1000, 0x1000, 0, 0x10, 0x7e, 0xff80, 0xfffd, 0xfffe, 0xffff, 0x10000, 0x12345, 0xfffff, 0x7ffffff0, 0xffffff00,
          0xfffffffc, 0xfffffffd]
THIRD = [0x00, 0x01, 0x12, 0x7f, 0x80, 0xfe, 0xff]


def gen_two_bytes(ctx):
    """(addr, bytes): ALL 256 first bytes x ALL 256 second bytes x a sampled third byte and address"""
    rng = ctx.rng
    out = []
    for b0 in range(256):
        for b1 in range(256):
            b2 = rng.choice(THIRD) if rng.random() < 0.6 else rng.getrandbits(8)
            out.append((rng.choice(DADDRS), bytes([b0, b1, b2])))
    return out


def gen_struct_bytes(ctx, n):
    """three-byte instructions with boundary operands; branches around page and address-space edges"""
    rng = ctx.rng
    out = []
    three = [c for mn, md, c in MATRIX if OPBYTES[md] == 2]
    rel = [c for mn, md, c in MATRIX if md in ("rel", "zprel")]
    edge = [0, 1, 0x7f, 0x80, 0xfe, 0xff]
    for c in three:
        for lo in edge:
            for hi in edge:
                out.append((rng.choice(DADDRS), bytes([c, lo, hi])))
    for c in rel:
        for a in DADDRS:
            for off in (0, 1, 0x7e, 0x7f, 0x80, 0x81, 0xfd, 0xfe, 0xff):
                out.append((a, bytes([c, off, off]) if c & 0xf != 0xf else bytes([c, rng.choice(edge), off])))
    for _ in range(n):
        out.append((rng.choice(DADDRS), bytes([rng.choice(three + rel), rng.getrandbits(8), rng.getrandbits(8)])))
    return out


def gen_walks(ctx, n):
    rng = ctx.rng
    out = []
    for _ in range(n):
        buf = bytearray()
        for _ in range(rng.randrange(1, 12)):
            r = rng.random()
            if r < 0.55:
                mn, md, c = rng.choice(MATRIX)
                buf += bytes([c] + [rng.getrandbits(8) for _ in range(OPBYTES[md])])
            elif r < 0.75:
                buf.append(rng.choice([0x02, 0x03, 0x0b, 0x44, 0x5c, 0xdc, 0xfc, 0xeb, 0xf4]))      # undefined opcodes
            else:
                buf.append(rng.getrandbits(8))
        start = rng.choice([0, 0x1000, 0x1000, 0x1001, 0xfff0, 0xfffd, 0xffff, 0x10000, 0x12345, 0x7ffffff0, 0x80000000,
                            0xfffe0000])
        end = start + rng.choice([0, 0, 1, 2, len(buf) - 1, len(buf) - 1, max(0, len(buf) - 2), rng.randrange(len(buf)),
                                  len(buf) + 2, len(buf) + 5])
        out.append((start, end, bytes(buf) + (bytes(4) if rng.random() < 0.5 else b"")))
    return out


# =============================================================================================
# helpers
# =============================================================================================
def _killed(a):
    """the harness process was killed from outside (machine load / another job's cleanup): not an answer of the code"""
    return a.startswith("DIED rc=-15") or a.startswith("DIED rc=-9") or a == "MISSING"


def run_impl(ctx, lines):
    """ctx.impl with one retry of the lines whose process was killed from outside"""
    res = ctx.impl(lines)
    bad = [i for i, a in enumerate(res) if _killed(a)]
    if bad and len(bad) < max(50, len(lines) // 2):
        again = ctx.impl([lines[i] for i in bad])
        for i, a in zip(bad, again):
            res[i] = a
    return res


def run_both(ctx, lines):
    h, d = ctx.both(lines)
    bad = [i for i, a in enumerate(h) if _killed(a)]
    if bad and len(bad) < max(50, len(lines) // 2):
        again = ctx.impl([lines[i] for i in bad])
        for i, a in zip(bad, again):
            h[i] = a
    return h, d


def dead(a):
    return a.startswith("DIED") or a in ("MISSING", "bad-op")


def parse_dis(ans):
    if dead(ans):
        return None
    p = ans.split(" ")
    if p[0] == "nonul":
        return ("nonul", int(p[1]))
    return (int(p[0]), nvlib.unhex(p[1]).decode("latin-1") if len(p) > 1 else "")


def norm_text(t):
    """mnemonic + operand tokens with every numeral replaced by its value (the numeric normalisation of C07:
    0x0034 and 0x34 are one operand)"""
    toks = re.findall(r"[A-Za-z_][A-Za-z0-9_]*|-?0x[0-9a-fA-F]+|\$[0-9a-fA-F]+|-?\d+|[^\s]", t)
    out = []
    for x in toks:
        if re.fullmatch(r"-?0x[0-9a-fA-F]+", x) or re.fullmatch(r"-?\d+", x):
            out.append(str(int(x, 0)))
        elif x.startswith("$"):
            out.append(str(int(x[1:], 16)))
        else:
            out.append(x.lower())
    return out


def merge_counts(res, key, n):
    res[key] = res.get(key, 0) + n


def compare(corr, lines, impl, model, stream):
    hist = {}
    unm = 0
    for l, a, b in zip(lines, impl, model):
        k = a.split(" ")[0]
        if l.startswith("walk "):
            k = "%d lines" % (a.count(",") + 1) if k not in ("-", "DIED", "MISSING", "bad-op") else k
        elif l.startswith("dis "):
            k = "len " + k
        hist[k] = hist.get(k, 0) + 1
        if b == "unmodelled":
            unm += 1
            continue
        if a != b:
            corr["disagreements"].append({"line": l, "impl": a, "model": b})
    corr["cases"] += len(lines)
    corr["streams"][stream] = {"lines": len(lines), "impl_answer_kinds": hist, "outside_model_fragment": unm}
    corr["distinct_nontrivial"] = corr.get("distinct_nontrivial", 0) + len(set(lines))
    corr.setdefault("samples", [])
    step = max(1, len(lines) // 3)
    corr["samples"] += [{"line": lines[i], "impl": impl[i], "model": model[i]} for i in range(0, len(lines), step)][:3]


def corpus_lines(prop):
    cp = os.path.join(nvlib.VERIF, "corpus", prop, "m6502_lines.txt")
    if os.path.exists(cp):
        return [l.strip() for l in open(cp) if l.strip() and not l.startswith("#")]
    return []


def emitted(a):
    """'ok <hex>' -> bytes (one run at the statement's address), else None"""
    if not a.startswith("ok ") or a.startswith("ok@"):
        return None
    return bytes.fromhex(a[3:])


def walk_want(e, n):
    return ",".join("%x%s" % (e + k, "+" if k else "") for k in range(n))


def lowpage(bs):
    """the known text-level ambiguity: an ABSOLUTE (abs / abs,x / abs,y) operand below 0x100 of a mnemonic that also has
    the zero-page form prints like the zero-page form (finding m6502-absolute-low-page-text)"""
    if len(bs) != 3 or bs[2] != 0 or bs[0] not in BY_OPCODE:
        return False
    mn, md = BY_OPCODE[bs[0]]
    short = {"abs": "zp", "absx": "zpx", "absy": "zpy"}.get(md)
    return short is not None and (mn, short) in BY_FORM


# =============================================================================================
# C01
# =============================================================================================
def c01_correspondence(ctx, corr):
    cases = [c for c in gen_cases(ctx) if fragment_ok(c.text)]
    ctx.notes["m65_c01_cases"] = cases
    lines = corpus_lines("C01") + [c.line() for c in cases]
    h, d = run_both(ctx, lines)
    ctx.notes["m65_c01_impl"] = h[len(lines) - len(cases):]
    compare(corr, lines, h, d, "6502.asm1")
    st = corr["streams"]["6502.asm1"]
    st["mnemonics"] = len(set(c.mn for c in cases))
    st["operand shapes"] = {s: sum(1 for c in cases if c.shape == s) for s in SHAPES + ("syntax",)}
    st["with modifier / suffix"] = [sum(1 for c in cases if c.mod), sum(1 for c in cases if c.suffix)]
    dl = set()
    for c, a in zip(cases, ctx.notes["m65_c01_impl"]):
        bs = emitted(a)
        if bs:
            dl.add("dis %s %x %s" % (CPU, c.addr, bs.hex()))
            dl.add("walk %s %x %x %s" % (CPU, c.addr, c.addr + len(bs) - 1, bs.hex()))
            dl.add("rt %s %x - %s" % (CPU, c.addr, bs.hex()))
    dl = sorted(dl)
    rt = [l for l in dl if l.startswith("rt ")]
    dw = [l for l in dl if not l.startswith("rt ")]
    h2, d2 = run_both(ctx, dw)
    compare(corr, dw, h2, d2, "6502.dis+walk(emitted)")
    ctx.notes["m65_c01_rt"] = rt


def rt_expected(ctx, items):
    """real pipeline for rt lines: dis -> text -> asm1 at the same address"""
    dis = run_impl(ctx, ["dis %s %x %s" % (CPU, a, b.hex()) for a, b in items])
    al, idx = [], []
    for (a, b), r in zip(items, dis):
        p = parse_dis(r)
        if p is None or p[0] == "nonul":
            idx.append(None)
            continue
        idx.append(len(al))
        al.append("asm1 %s %x - %s" % (CPU, a, nvlib.hexs(p[1])))
    res = run_impl(ctx, al)
    return [None if i is None else res[i] for i in idx], dis


def check_c01(ctx, cases, stats, impl=None):
    fails = []
    ans = impl if impl is not None else run_impl(ctx, [c.line() for c in cases])
    acc = []
    for c, a in zip(cases, ans):
        merge_counts(stats, "asm1", 1)
        where = "%s @%x" % (c.text, c.addr)
        if dead(a):
            fails.append({"sig": "C01:crash:%s" % c.text, "input": where, "expected": "bytes or an error",
                          "observed": a, "what": "assembler crashed / sanitizer report", "case": c.to_dict()})
            continue
        if a == "err":
            merge_counts(stats, "rejected", 1)
            continue
        merge_counts(stats, "accepted", 1)
        bs = emitted(a)
        if not bs:
            fails.append({"sig": "C01:layout:%s" % c.mn, "input": where, "expected": "one run of bytes at the address",
                          "observed": a, "what": "emitted bytes are not one run at the statement's address", "case": c.to_dict()})
            continue
        if c.want is not None:
            merge_counts(stats, "arch_checked", 1)
            got = arch_decode(c.addr & M16, list(bs))
            if got is None or got[0] not in c.want or got[1] != len(bs):
                fails.append({"sig": "C01:arch:%s" % (c.form or c.mn), "input": where, "expected": "one of %r" % (c.want,),
                              "observed": "%s -> %r" % (bs.hex(), got),
                              "what": "the architecture's decoder does not read the emitted bytes back as the instruction meant",
                              "case": c.to_dict()})
            elif len(c.want) == 2:
                merge_counts(stats, "zp_form_chosen" if got[0] == c.want[0] else "abs_form_chosen(value<0x100)", 1)
        acc.append((c, bs))
    lines = []
    for c, bs in acc:
        lines.append("dis %s %x %s" % (CPU, c.addr, bs.hex()))
        lines.append("walk %s %x %x %s" % (CPU, c.addr, c.addr + len(bs) - 1, bs.hex()))
    res = run_impl(ctx, lines)
    re_lines, re_idx = [], []
    for n, (c, bs) in enumerate(acc):
        d, wk = parse_dis(res[2 * n]), res[2 * n + 1]
        where = "%s @%x -> %s" % (c.text, c.addr, bs.hex())
        if d is None or d[0] == "nonul":
            fails.append({"sig": "C01:dis-crash:%s" % c.mn, "input": where, "expected": "text", "observed": res[2 * n],
                          "what": "disassembler died on emitted bytes", "case": c.to_dict()})
            continue
        if d[0] != len(bs):
            fails.append({"sig": "C01:length:%s" % (c.form or c.mn), "input": where, "expected": str(len(bs)), "observed": str(d[0]),
                          "what": "disassembler consumed another number of bytes than were emitted", "case": c.to_dict()})
        merge_counts(stats, "walks", 1)
        if wk != walk_want(c.addr, len(bs)) and d[0] == len(bs) and c.addr + len(bs) < (1 << 32):
            fails.append({"sig": "C01:walk:%s" % c.mn, "input": where, "expected": walk_want(c.addr, len(bs)), "observed": wk,
                          "what": "walking the disassembler over the emitted bytes did not consume exactly them",
                          "case": c.to_dict()})
        re_lines.append("asm1 %s %x - %s" % (CPU, c.addr, nvlib.hexs(d[1])))
        re_idx.append((c, bs, d[1]))
    res2 = run_impl(ctx, re_lines)
    for (c, bs, txt), a in zip(re_idx, res2):
        if dead(a):
            fails.append({"sig": "C01:crash:%s" % txt, "input": "%s @%x" % (txt, c.addr), "expected": "bytes or an error",
                          "observed": a, "what": "assembler crashed on disassembly text", "case": c.to_dict()})
        elif a == "err":
            merge_counts(stats, "text_rejected", 1)
        else:
            merge_counts(stats, "text_reassembled", 1)
            if a != "ok " + bs.hex():
                cls = "lowpage:%s" % BY_OPCODE[bs[0]][1] if lowpage(bs) else "%s:%s" % (c.mn, c.shape)
                fails.append({"sig": "C01:fixpoint:%s" % cls,
                              "input": "%s @%x -> %s -> '%s'" % (c.text, c.addr, bs.hex(), txt),
                              "expected": "ok " + bs.hex(), "observed": a,
                              "what": "assembling the disassembly of the emitted bytes gives other bytes", "case": c.to_dict()})
    return fails


def c01_oracle(ctx, orc):
    cases, impl = ctx.notes.get("m65_c01_cases"), ctx.notes.get("m65_c01_impl")
    if cases is None:
        cases, impl = gen_cases(ctx), None
    stats = orc["stats"].setdefault("6502", {})
    fails = check_c01(ctx, cases, stats, impl)
    # correspondence of the structured re-assembly (model toStmt;encode vs real dis;asm1) on the emitted bytes
    rt = ctx.notes.get("m65_c01_rt")
    if rt:
        items = [(int(l.split(" ")[2], 16), bytes.fromhex(l.split(" ")[4])) for l in rt]
        want, _ = rt_expected(ctx, items)
        got = ctx.model(rt)
        bad = [(l, w, g) for l, w, g in zip(rt, want, got) if w is not None and w != g]
        stats["rt(emitted) lines"] = len(rt)
        for l, w, g in bad[:5]:
            fails.append({"sig": "C01:rt-model:%s" % l, "input": l, "expected": w, "observed": g,
                          "what": "model re-assembly of the decoder's reading differs from the real dis;asm1 pipeline",
                          "case": None})
    for f in fails:
        f["replay"] = {"cpu": "m6502", "prop": "C01", "case": f.pop("case")}
    orc["failures"] += fails
    orc["cases"] += stats.get("asm1", 0) + 2 * stats.get("accepted", 0) + stats.get("text_rejected", 0) + stats.get("text_reassembled", 0)
    orc["distinct_nontrivial"] = orc.get("distinct_nontrivial", 0) + len(set((c.text, c.addr) for c in cases))
    orc.setdefault("samples", [])
    orc["samples"] += [{"stmt": c.text, "addr": "%x" % c.addr, "readings": c.want} for c in cases[:: max(1, len(cases) // 3)]][:3]


# =============================================================================================
# C06
# =============================================================================================
def c06_correspondence(ctx, corr):
    cases = [c for c in gen_cases(ctx, "boundary") if fragment_ok(c.text)]
    lines = corpus_lines("C06") + [c.line() for c in cases]
    h, d = run_both(ctx, lines)
    ctx.notes["m65_c06_cases"] = cases
    ctx.notes["m65_c06_impl"] = h[len(lines) - len(cases):]
    compare(corr, lines, h, d, "6502.asm1(boundary)")
    corr["streams"]["6502.asm1(boundary)"]["forms"] = len(set(c.form for c in cases))


def field_value(c, bs):
    """the operand as the emitted mode's field holds it"""
    return bytes(bs[1:]).hex()


def check_c06(ctx, cases, stats, impl=None):
    fails = []
    ans = impl if impl is not None else run_impl(ctx, [c.line() for c in cases])
    groups = {}
    for c, a in zip(cases, ans):
        merge_counts(stats, "asm1", 1)
        where = "%s @%x" % (c.text, c.addr)
        if dead(a):
            fails.append({"sig": "C06:crash:%s" % c.text, "input": where, "expected": "bytes or an error", "observed": a,
                          "what": "assembler crashed", "case": c.to_dict()})
            continue
        if a == "err":
            merge_counts(stats, "rejected", 1)
            if c.fit:
                merge_counts(stats, "fitting_value_rejected(allowed)", 1)
            continue
        merge_counts(stats, "accepted", 1)
        if c.fit is False:
            kind = c.note if c.note in ("narrow64", "syntax") else "unfit"
            sig = "C06:%s:%s" % (kind, c.form)
            if kind == "syntax":
                sig = "C06:syntax:%s" % c.text
            fails.append({"sig": sig, "input": where,
                          "expected": "err (value %s does not fit any form of the instruction)" % (c.value,) if kind != "syntax" else "err",
                          "observed": a,
                          "what": {"narrow64": "a value that is not a 32-bit quantity was accepted as its low 32 bits",
                                   "unfit": "a value outside the field's range was accepted (wrapped/masked into the field), or a form the instruction does not have",
                                   "syntax": "a statement without its operand / with a malformed operand was accepted"}[kind],
                          "case": c.to_dict()})
            continue
        bs = emitted(a)
        if bs is None or c.want is None:
            continue
        got = arch_decode(c.addr & M16, list(bs))
        if got is None or got[0] not in c.want:
            fails.append({"sig": "C06:field:%s" % c.form, "input": where, "expected": "one of %r" % (c.want,),
                          "observed": "%s -> %r" % (bs.hex(), got), "what": "the operand value is not the value encoded in the field",
                          "case": c.to_dict()})
            continue
        if c.group is not None and not c.mod:
            groups.setdefault(tuple(c.group), []).append((c, a, got[0]))
    for g, items in groups.items():
        seen = {}
        for c, a, ins in items:
            # the operand as the field holds it: an immediate / displacement modulo 2^8, an address exactly
            key = (c.value & 0xff) if c.shape == "imm" else (c.value, c.target)
            merge_counts(stats, "injectivity_pairs", len(seen))
            for k2, (c2, a2) in seen.items():
                if k2 != key and a2 == a:
                    fails.append({"sig": "C06:collision:%s" % c.form, "input": "%s | %s @%x" % (c2.text, c.text, c.addr),
                                  "expected": "different bytes", "observed": a, "what": "two different field values share an encoding",
                                  "case": c.to_dict()})
            seen.setdefault(key, (c, a))
    return fails


def c06_oracle(ctx, orc):
    cases, impl = ctx.notes.get("m65_c06_cases"), ctx.notes.get("m65_c06_impl")
    if cases is None:
        cases, impl = gen_cases(ctx, "boundary"), None
    extra = [c for c in gen_cases(ctx) if c.note == "syntax"]
    stats = orc["stats"].setdefault("6502", {})
    fails = check_c06(ctx, cases, stats, impl) + check_c06(ctx, extra, stats)
    for f in fails:
        f["replay"] = {"cpu": "m6502", "prop": "C06", "case": f.pop("case")}
    orc["failures"] += fails
    orc["cases"] += len(cases) + len(extra)
    forms = {}
    for c in cases:
        forms.setdefault(c.shape, [0, 0, 0])[0 if c.fit else (1 if c.fit is False else 2)] += 1
    stats["operand shapes(fit,unfit,n/a)"] = {k: tuple(v) for k, v in sorted(forms.items())}
    orc["distinct_nontrivial"] = orc.get("distinct_nontrivial", 0) + len(set((c.text, c.addr) for c in cases))
    orc.setdefault("samples", [])
    orc["samples"] += [{"stmt": c.text, "addr": "%x" % c.addr, "fits": c.fit} for c in cases[:: max(1, len(cases) // 3)]][:3]


# =============================================================================================
# C07
# =============================================================================================
def c07_items(ctx):
    return gen_two_bytes(ctx) + gen_struct_bytes(ctx, ctx.scale(2000, 20000))


def c07_correspondence(ctx, corr):
    items = c07_items(ctx)
    ctx.notes["m65_c07_items"] = items
    lines = corpus_lines("C07") + ["dis %s %x %s" % (CPU, a, b.hex()) for a, b in items]
    h, d = run_both(ctx, lines)
    ctx.notes["m65_c07_dis"] = h[len(lines) - len(items):]
    compare(corr, lines, h, d, "6502.dis(all 65536 two-byte prefixes + structured)")
    # the assembler model on every disassembly text the real decoder produced
    tl, other = set(), set()
    for (a, b), r in zip(items, ctx.notes["m65_c07_dis"]):
        p = parse_dis(r)
        if p and p[0] != "nonul":
            (tl if fragment_ok(p[1]) else other).add("asm1 %s %x - %s" % (CPU, a, nvlib.hexs(p[1])))
    tl, other = sorted(tl), sorted(other)
    h2, d2 = run_both(ctx, tl)
    ctx.notes["m65_c07_re"] = dict(zip(tl, h2))
    ctx.notes["m65_c07_re"].update(zip(other, run_impl(ctx, other)))      # branch texts: "(offset=..)" is outside the parser fragment
    compare(corr, tl, h2, d2, "6502.asm1(disassembly text)")
    # the decoder's structured reading (Disasm.toStmt, what the C07 theorem is about) re-assembled by the model against
    # the real pipeline  dis -> text -> asm1
    rl, ri = [], []
    for (a, b), r in zip(items, ctx.notes["m65_c07_dis"]):
        p = parse_dis(r)
        if not p or p[0] == "nonul":
            continue
        rl.append("rt %s %x - %s" % (CPU, a, b.hex()))
        ri.append(ctx.notes["m65_c07_re"]["asm1 %s %x - %s" % (CPU, a, nvlib.hexs(p[1]))])
    compare(corr, rl, ri, ctx.model(rl), "6502.rt(toStmt;encode vs dis;asm1)")


def check_c07(ctx, items, stats, dis=None, re_cache=None):
    fails = []
    if dis is None:
        dis = run_impl(ctx, ["dis %s %x %s" % (CPU, a, b.hex()) for a, b in items])
    todo = []
    for (a, b), r in zip(items, dis):
        merge_counts(stats, "byte strings", 1)
        p = parse_dis(r)
        if p is None or p[0] == "nonul":
            fails.append({"sig": "C07:dis-crash:%02x" % b[0], "input": "%s @%x" % (b.hex(), a), "expected": "text", "observed": r,
                          "what": "disassembler died", "item": [a, b.hex()]})
            continue
        if p[1].startswith("???"):
            merge_counts(stats, "not_an_instruction", 1)
            continue
        todo.append((a, b, p[1]))
    lines = ["asm1 %s %x - %s" % (CPU, a, nvlib.hexs(t)) for a, b, t in todo]
    if re_cache is not None and all(l in re_cache for l in lines):
        res = [re_cache[l] for l in lines]
    else:
        uniq = sorted(set(lines))
        got = dict(zip(uniq, run_impl(ctx, uniq)))
        res = [got[l] for l in lines]
    again = []
    for (a, b, t), r in zip(todo, res):
        if dead(r):
            fails.append({"sig": "C07:crash:%s" % t, "input": "%s @%x -> '%s'" % (b.hex(), a, t), "expected": "bytes or an error",
                          "observed": r, "what": "assembler crashed on disassembly text", "item": [a, b.hex()]})
        elif r == "err":
            merge_counts(stats, "text_rejected", 1)
        elif r.startswith("ok "):
            merge_counts(stats, "text_accepted", 1)
            again.append((a, b, t, r[3:]))
        else:
            merge_counts(stats, "text_accepted_other_layout", 1)
    uniq = sorted(set((a, e) for a, b, t, e in again))
    got = dict(zip(uniq, run_impl(ctx, ["dis %s %x %s" % (CPU, a, e) for a, e in uniq])))
    for a, b, t, e in again:
        r = got[(a, e)]
        p = parse_dis(r)
        if e == b.hex()[:len(e)]:
            merge_counts(stats, "same_bytes", 1)
        elif lowpage(b):
            merge_counts(stats, "absolute below 0x100 re-assembled as zero page (same text)", 1)
        ok = p is not None and p[0] != "nonul" and norm_text(p[1]) == norm_text(t)
        if not ok:
            fails.append({"sig": "C07:refix:%s" % t.split(" ")[0], "input": "%s @%x -> '%s' -> %s" % (b.hex(), a, t, e),
                          "expected": t, "observed": r if p is None else p[1],
                          "what": "decode -> encode -> decode gives another instruction", "item": [a, b.hex()]})
    return fails


def c07_oracle(ctx, orc):
    items, dis = ctx.notes.get("m65_c07_items"), ctx.notes.get("m65_c07_dis")
    if items is None:
        items, dis = c07_items(ctx), None
    stats = orc["stats"].setdefault("6502", {})
    fails = check_c07(ctx, items, stats, dis, ctx.notes.get("m65_c07_re"))
    for f in fails:
        f["replay"] = {"cpu": "m6502", "prop": "C07", "item": f.pop("item")}
    orc["failures"] += fails
    orc["cases"] += len(items) + stats.get("text_accepted", 0) * 2 + stats.get("text_rejected", 0)
    orc["distinct_nontrivial"] = orc.get("distinct_nontrivial", 0) + len(set(b[:2] for a, b in items))
    orc.setdefault("samples", [])
    orc["samples"] += [{"bytes": b.hex(), "addr": "%x" % a} for a, b in items[:: max(1, len(items) // 3)]][:3]


# =============================================================================================
# C08
# =============================================================================================
def c08_dis_items(ctx):
    """every (first, second) byte pair in both tiers: the decoder must be total on each of them (a length 0 for one
    undefined opcode is exactly what C08 is about), + structured three-byte forms, + short strings at the edges of
    the address space"""
    rng = ctx.rng
    out = gen_two_bytes(ctx) + gen_struct_bytes(ctx, ctx.scale(1000, 10000))
    for _ in range(ctx.scale(1000, 10000)):
        out.append((rng.choice(DADDRS + [0xffffffff, 0xfffffffe]),
                    bytes(rng.getrandbits(8) for _ in range(rng.randrange(1, 5)))))
    return out


def c08_correspondence(ctx, corr):
    items = c08_dis_items(ctx)
    walks = gen_walks(ctx, ctx.scale(800, 8000))
    ctx.notes["m65_c08_items"], ctx.notes["m65_c08_walks"] = items, walks
    lines = corpus_lines("C08") + ["dis %s %x %s" % (CPU, a, b.hex()) for a, b in items]
    h, d = run_both(ctx, lines)
    ctx.notes["m65_c08_dis"] = h[len(lines) - len(items):]
    compare(corr, lines, h, d, "6502.dis(all patterns)")
    wl = ["walk %s %x %x %s" % (CPU, s, e, b.hex()) for s, e, b in walks]
    h2, d2 = run_both(ctx, wl)
    ctx.notes["m65_c08_walk_impl"] = h2
    compare(corr, wl, h2, d2, "6502.walk")


def check_c08_dis(ctx, items, stats, dis=None):
    rng = ctx.rng
    fails = []
    if dis is None:
        dis = run_impl(ctx, ["dis %s %x %s" % (CPU, a, b.hex()) for a, b in items])
    loc_lines, loc_idx = [], []
    for (a, b), r in zip(items, dis):
        merge_counts(stats, "dis", 1)
        p = parse_dis(r)
        where = "%s @%x" % (b.hex(), a)
        if p is None:
            fails.append({"sig": "C08:dis-crash:%s" % b.hex()[:4], "input": where, "expected": "text+length", "observed": r,
                          "what": "disassembler died", "item": [a, b.hex()]})
            continue
        if p[0] == "nonul":
            fails.append({"sig": "C08:text-overflow:%s" % b.hex()[:4], "input": where, "expected": "NUL inside the 128-byte buffer",
                          "observed": r, "what": "text not NUL-terminated inside the caller's buffer", "item": [a, b.hex()]})
            continue
        n, t = p
        if n not in (1, 2, 3):
            fails.append({"sig": "C08:length:%02x" % b[0], "input": where, "expected": "1, 2 or 3", "observed": str(n),
                          "what": "length outside 1 unit .. longest instruction", "item": [a, b.hex()]})
            continue
        if n != arch_length(b[0]):
            fails.append({"sig": "C08:arch-length:%02x" % b[0], "input": where, "expected": str(arch_length(b[0])), "observed": str(n),
                          "what": "length differs from the architecture's instruction length", "item": [a, b.hex()]})
        merge_counts(stats, "len%d" % n, 1)
        stats["longest_text"] = max(stats.get("longest_text", 0), len(t))
        first = (b + bytes(3))[:n]
        tails = (b"", b"\xff\xff\xff", bytes(rng.getrandbits(8) for _ in range(3)))
        if ctx.quick() and stats["dis"] % 3:
            tails = tails[stats["dis"] % 3:][:1]          # quick tier: one other tail for two thirds of the items
        for tail in tails:
            if first + tail != b:
                loc_lines.append("dis %s %x %s" % (CPU, a, (first + tail).hex()))
                loc_idx.append((a, b, r))
    res = run_impl(ctx, loc_lines)
    for (a, b, r), l, r2 in zip(loc_idx, loc_lines, res):
        merge_counts(stats, "locality_checks", 1)
        if r2 != r:
            fails.append({"sig": "C08:locality:%s" % b.hex()[:4], "input": "%s @%x vs %s" % (b.hex(), a, l), "expected": r, "observed": r2,
                          "what": "text/length depend on bytes after the instruction", "item": [a, b.hex()]})
    return fails


def check_c08_walk(ctx, walks, stats, impl=None):
    fails = []
    if impl is None:
        impl = run_impl(ctx, ["walk %s %x %x %s" % (CPU, s, e, b.hex()) for s, e, b in walks])
    q = []
    parsed = []
    for (s, e, b), r in zip(walks, impl):
        merge_counts(stats, "walks", 1)
        where = "%x..%x %s" % (s, e, b.hex())
        if dead(r) or r == "-":
            fails.append({"sig": "C08:walk-died:%x-%x" % (s, e), "input": where, "expected": "address column", "observed": r,
                          "what": "range disassembly died, did not terminate in time, or printed nothing", "walk": [s, e, b.hex()]})
            parsed.append(None)
            continue
        ls = [(int(x.rstrip("+"), 16), x.endswith("+")) for x in r.split(",")]
        parsed.append(ls)
        for a, cont in ls:
            if not cont:
                off = a - s
                q.append("dis %s %x %s" % (CPU, a, (b[off:off + 3] if 0 <= off < len(b) else b"").hex() or "00"))
    lens = []
    for r in run_impl(ctx, q):
        p = parse_dis(r)
        lens.append(p[0] if p and p[0] != "nonul" else None)
    k = 0
    for (s, e, b), ls in zip(walks, parsed):
        if ls is None:
            continue
        where = "%x..%x %s" % (s, e, b.hex())
        bad = None
        pos = s            # next address that must be printed
        i = 0
        merge_counts(stats, "walk_lines", len(ls))
        heads = sum(1 for a, c in ls if not c)          # every instruction line owns one dis answer
        lens_w, hi = lens[k:k + heads], 0
        k += heads
        while i < len(ls) and bad is None:
            a, cont = ls[i]
            if cont:
                bad = "continuation line %x without an instruction line" % a
                break
            n = lens_w[hi]
            hi += 1
            if a != pos:
                bad = "address %x printed where %x is due" % (a, pos)
                break
            if n is None or n < 1 or n > 3:
                bad = "length %s at %x" % (n, a)
                break
            for j in range(1, n):
                i += 1
                if i >= len(ls) or ls[i] != (a + j, True):
                    bad = "byte %x of the %d-byte instruction at %x is not listed" % (a + j, n, a)
                    break
            pos = a + n
            i += 1
        if bad is None and pos <= e:
            bad = "the walk stopped at %x before the end of the range %x" % (pos, e)
        if bad is None and len([1 for a, c in ls if not c]) > e - s + 1:
            bad = "more lines than units in the range"
        if bad:
            fails.append({"sig": "C08:tiling:%x-%x" % (s, e), "input": where, "expected": "a tiling of the range",
                          "observed": ",".join("%x%s" % (a, "+" if c else "") for a, c in ls), "what": bad, "walk": [s, e, b.hex()]})
    return fails


def c08_oracle(ctx, orc):
    items, dis = ctx.notes.get("m65_c08_items"), ctx.notes.get("m65_c08_dis")
    walks, wimpl = ctx.notes.get("m65_c08_walks"), ctx.notes.get("m65_c08_walk_impl")
    if items is None:
        items, dis, walks, wimpl = c08_dis_items(ctx), None, gen_walks(ctx, ctx.scale(800, 8000)), None
    stats = orc["stats"].setdefault("6502", {})
    fails = check_c08_dis(ctx, items, stats, dis) + check_c08_walk(ctx, walks, stats, wimpl)
    for f in fails:
        f["replay"] = {"cpu": "m6502", "prop": "C08", "item": f.pop("item", None), "walk": f.pop("walk", None)}
    orc["failures"] += fails
    orc["cases"] += stats.get("dis", 0) + stats.get("locality_checks", 0) + stats.get("walks", 0) + stats.get("walk_lines", 0)
    orc["distinct_nontrivial"] = orc.get("distinct_nontrivial", 0) + len(set(items)) + len(walks)
    orc.setdefault("samples", [])
    orc["samples"] += [{"walk": "%x..%x" % (s, e), "bytes": b.hex()} for s, e, b in walks[:2]]


# =============================================================================================
# replay of one recorded failure (re-runs the property oracle on exactly that input)
# =============================================================================================
def replay(ctx, r):
    stats = {}
    if r["prop"] == "C01":
        if not r.get("case"):
            return []
        return check_c01(ctx, [Case.from_dict(r["case"])], stats)
    if r["prop"] == "C06":
        return check_c06(ctx, [Case.from_dict(r["case"])], stats)
    if r["prop"] == "C07":
        a, b = r["item"]
        return check_c07(ctx, [(a, bytes.fromhex(b))], stats)
    if r["prop"] == "C08":
        out = []
        if r.get("item"):
            a, b = r["item"]
            out += check_c08_dis(ctx, [(a, bytes.fromhex(b))], stats)
        if r.get("walk"):
            s, e, b = r["walk"]
            out += check_c08_walk(ctx, [(s, e, bytes.fromhex(b))], stats)
        return out
    return []
