"""C20 — linked object code is placed once, its calls bound to the final addresses."""
import os, struct, subprocess, shutil
import nvlib, gen_obj as G

ID = "C20"
LEAN_MODULES = ["NakenVerif.Props.C20"]
P = "NakenVerif.Link.C20."
THEOREMS = [P + n for n in [
    "link_places_reachable_once", "unreferenced_not_included", "link_address_recorded", "link_regions_consecutive",
    "link_bytes_preserved",
    "link_bytes_are_relocated", "jal_bound_to_final", "r_mips_26", "unresolved_is_error",
    "program_reference_unresolved_is_error", "unsupported_object_is_error", "verify_accepts_only_elf32_le",
    "found_function_is_text_symbol", "call_name_is_relocation_symbol",
    "link_terminates", "readers_never_read_outside", "j_relocation_ignored_counterexample",
    "section_symbol_call_counterexample"]]
RULE = ("link cases = generated ELF32 relocatable objects / ar archives (1..4 objects, 1..8 functions, call graphs: "
        "random, chain, cycle, self call, diamond, star, mutual recursion, repeated calls; functions at offset 0 and "
        "not, sizes not multiple of 4, duplicate names across objects, unreferenced functions, undefined callees; "
        "archives with symbol index / long names / odd member sizes / non-object members) x generated MIPS sources "
        "(five MIPS CPUs of both byte orders, .org from 0 to 0xbfc00000 incl. 64 KiB and 256 MiB boundaries, 0..4 "
        "calls and data references, undefined references, labels clashing with object symbols, ends not word "
        "aligned) + structured corruptions (every ELF header / section / symbol / relocation field at boundary "
        "values, truncation at structure boundaries, byte flips, ar size fields) + edge cases.  Non-trivial = at "
        "least one function is placed or the link is refused; distinct = distinct protocol lines.")
MODELLED = ("imports_obj.cpp (verify, find_code_from_symbol, find_name_from_offset and the three table walks), the live "
            "part of imports_ar.cpp (signature, member walk, find_code_from_symbol), Linker.cpp (add_file type/verify, "
            "needed-symbol list, search/get_code_from_symbol), the pass-1 discovery of tokens_get, AsmContext::link in "
            "both passes with Symbols::append/lookup at global scope, link_function_mips, add_bin32's byte order")
NOT_MODELLED = ("the assembly of the source itself (its tokens, labels, end address and references enter the model as the "
                "program view computed by the generator and are cross-checked against the real assembler on every case); "
                "the listing file's [import] section; the non-MIPS link functions beyond 'they refuse'; dead code of "
                "imports_ar.cpp (imports_ar_read, lookup-table functions, imports_ar_find_name_from_offset)")
ASSUMPTIONS = ["the scopes of the source are closed when link() runs (imported symbols are global)",
               "symbol names contain no NUL byte (they are C strings in the implementation)",
               "call relocation = a relocation the reader resolves at the offset of a jal word; relocations on other "
               "words (R_MIPS_26 on j, HI16/LO16) are outside the implementation's view: known finding j-relocation-ignored"]
TRUSTED_BASE = ["tools/gen_obj.py: ELF32/ar writer (from the gABI / System V ar format) and the Python reference linker "
                "of the oracle (independent of the Lean model)"]

MASK26 = 0x03ffffff


# ---------------------------------------------------------------------------------------------------
# cases
# ---------------------------------------------------------------------------------------------------

def w32(big, *ws):
    return b"".join(struct.pack(">I" if big else "<I", x & 0xffffffff) for x in ws)


def edge_cases(ctx):
    """hand-made cases: -> list of Case"""
    rng = ctx.rng
    out = []
    J = G.JAL

    def simple_obj(big=False, fname="a.o", names=("f", "g"), graph=None, **kw):
        o = G.make_obj(rng, big, list(names), [], graph=graph or {names[0]: [names[1]], names[1]: []}, **kw)
        return o

    def case(kind, prog, objs_files, expect, why=""):
        files = [(fn, o.elf() if isinstance(o, G.ObjDesc) else o) for fn, o in objs_files]
        descs = [[o] if isinstance(o, G.ObjDesc) else None for fn, o in objs_files]
        out.append(G.Case(kind, prog, files, descs if all(d is not None for d in descs) else None, expect, why))

    std = lambda cpu="mips32", tail=(), org=0x1000, called=("f",), labels=("main",): G.make_program(
        rng, cpu, [], list(called), tail=list(tail), org=org, labels=labels)
    # CPUs without a link function, no CPU directive
    for cpu in ["msp430", "riscv", "6502", "arm", None]:
        p = G.Program(cpu, [("org", 0x1000), ("label", "main"), ("word", "f")])
        case("edge:cpu", p, [("a.o", simple_obj())], "error", "no link function for " + str(cpu))
    # nothing referenced: nothing linked, also for CPUs that cannot link
    for cpu in ["msp430", "mips32", None]:
        p = G.Program(cpu, [("org", 0x1000), ("label", "main"), ("db", 4)])
        case("edge:none", p, [("a.o", simple_obj())], "ok")
    # every MIPS CPU
    for cpu, big in G.MIPS_CPUS.items():
        case("edge:mips-cpus", std(cpu), [("a.o", simple_obj(big))], "ok")
    # byte order switched by directive
    for d, big in (("big_endian", True), ("little_endian", False)):
        p = std("mips32"); p.directive_endian = d
        case("edge:endian-directive", p, [("a.o", simple_obj(big))], "ok")
    # region boundaries of the 26-bit field, 64 KiB pages, wrap of the address space
    for org in [0, 0xfff8, 0xfffc, 0x0ffffff8, 0x0ffffffc, 0x10000000, 0x7ffffff8, 0x80000000, 0xffff0000, 0xfffffff0,
                0xfffffff8]:
        exp = "ok" if org < 0xffff0000 else "any"
        case("edge:org", std(org=org), [("a.o", simple_obj())], exp)
    # source ends at every residue mod 4
    for n in (1, 2, 3, 4, 5):
        case("edge:unaligned-end", std(tail=[("db", n)]), [("a.o", simple_obj())], "ok" if n == 4 else "any")
        case("edge:aligned-after-data", std(tail=[("db", n), ("align",)]), [("a.o", simple_obj())], "ok")
    # long names
    for ln, exp in ((200, "ok"), (254, "ok"), (255, "error"), (300, "error"), (511, "any")):
        nm = "L" * ln
        o = simple_obj(names=(nm, "g"))
        case("edge:long-name", std(called=(nm,)), [("a.o", o)], "any" if ln >= 255 else exp, "label of %d characters" % ln)
        out[-1].model = ln < 500          # a token of 511 characters is refused by the lexer
    # a callee with a name longer than a token can be (only reachable through a relocation)
    for ln in (600, 70000):
        nm = "c" * ln
        o = simple_obj(names=("f", nm))
        case("edge:long-callee", std(), [("a.o", o)], "error", "callee label of %d characters" % ln)
    # function names that are also mnemonics / directives of the source: pulled in by the token (observation)
    for nm in ("nop", "jal", "org"):
        o = simple_obj(names=(nm, "g"))
        case("edge:mnemonic-name", std(called=()), [("a.o", o)], "any")
        out[-1].model = False             # pass 2 of the source then reads the mnemonic as a number
    # the program defines what an object defines
    case("edge:clash", std(labels=("main", "g")), [("a.o", simple_obj())], "any")
    case("edge:clash-unreferenced", std(called=(), labels=("main", "g")), [("a.o", simple_obj())], "any")
    # file names
    o = simple_obj()
    for fn in ("a.O", "a.obj", "lib.A", "noext", "a.o.txt"):
        case("edge:file-name", std(), [(fn, o)], "any")
    case("edge:file-name", std(), [("x.y.o", o)], "ok")
    # the same object twice, and .o + .a holding the same object
    case("edge:same-twice", std(), [("a.o", o), ("b.o", o)], "ok")
    ar, _ = G.write_ar([("a.o", o.elf())], index_syms={0: ["f", "g"]})
    out.append(G.Case("edge:same-twice", std(), [("a.o", o.elf()), ("lib.a", ar)], [[o], [o]], "ok"))
    # archives: empty, index only, members that are not objects
    empty, _ = G.write_ar([], symindex=False)
    out.append(G.Case("edge:archive", std(called=()), [("lib.a", empty)], [[]], "ok"))
    out.append(G.Case("edge:archive", std(), [("lib.a", empty)], [[]], "error", "unresolved f"))
    junk, _ = G.write_ar([("t.txt", b"hello\n"), ("u.o", b"\x7fELF"), ("v.o", b"\x7fEL")], symindex=True, index_syms={})
    out.append(G.Case("edge:archive", std(), [("lib.a", junk)], [[]], "error", "unresolved f"))
    # a relocatable emitted by naken_asm itself carries st_size 0: its symbols cannot be imported (observation)
    # relocation kinds the linker does not look at
    bigw = False
    text = w32(bigw, 0x3c040000, 0x24840000, J, 0, 0x03e00008, 0)          # lui/addiu with HI16/LO16, jal g
    od = G.ObjDesc([G.Fn("f", 0, 16, [0x3c040000, 0x24840000, J, 0], {8: "g"}), G.Fn("g", 16, 8, [0x03e00008, 0], {})],
                   text, [G.Sym("f", 0, 16), G.Sym("g", 16, 8), G.Sym("tab", 0, 0, G.STB_GLOBAL, G.STT_NOTYPE, "UND")],
                   [(0, 3, G.R_MIPS_HI16), (4, 3, G.R_MIPS_LO16), (8, 2, G.R_MIPS_26)])
    case("edge:other-relocs", std(), [("a.o", od)], "ok")
    # symbols of other sections must not be taken from .text
    od2 = G.ObjDesc([G.Fn("g", 0, 8, [0x03e00008, 0], {})], w32(False, 0x03e00008, 0),
                    [G.Sym("g", 0, 8), G.Sym("f", 0, 8, G.STB_GLOBAL, G.STT_OBJECT, ".data")], [],
                    {"data": b"DATADATA"})
    case("edge:data-symbol", std(), [("a.o", od2)], "error", "f is a data object")
    od3 = G.ObjDesc([], w32(False, 0x03e00008, 0), [G.Sym("f", 0, 8)], [], {"text_name": ".text.f"})
    case("edge:no-dot-text", std(), [("a.o", od3)], "error", "f lives in .text.f")
    # jal without relocation: refused
    od4 = G.ObjDesc([], w32(False, J | 0x100, 0), [G.Sym("f", 0, 8)], [])
    case("edge:jal-without-reloc", std(), [("a.o", od4)], "any")
    # many functions: the needed-symbol list grows past its first 64 KiB
    if not ctx.quick():
        n = 5200
        names = ["fn%04d" % i for i in range(n)]
        graph = {names[i]: [names[i + 1]] for i in range(n - 1)}
        graph[names[-1]] = [names[0]]
        o = G.make_obj(rng, False, names, [], graph=graph)
        case("edge:many", std(called=(names[0],)), [("a.o", o)], "ok")
    return out


def finding_cases():
    """the inputs of the known findings"""
    ex = G.example_objects()
    p = G.Program("mips32", [("org", 0x1000), ("label", "main"), ("jal", "f"), ("nop",)])
    w = lambda *ws: b"".join(struct.pack("<I", x) for x in ws)
    dj = G.ObjDesc([G.Fn("f", 0, 8, [0x08000000, 0], {0: "g"}), G.Fn("g", 8, 8, [0x03e00008, 0], {})], None, None, None)
    ds = G.ObjDesc([G.Fn("f", 0, 8, [0x0c000002, 0], {0: "s"}), G.Fn("s", 8, 8, [0x03e00008, 0], {})], None, None, None)
    return [G.Case("finding:j-reloc", p, [("a.o", ex["exJ"])], [[dj]], "ok"),
            G.Case("finding:section-symbol", p, [("a.o", ex["exSec"])], [[ds]], "ok")]


def witness_cases():
    """the inputs on which the defects repaired by proposed_fixes/C20-*.patch were shown (replayed on every run)"""
    import random
    rng = random.Random(20)
    w = lambda *ws: b"".join(struct.pack("<I", x & 0xffffffff) for x in ws)
    J = G.JAL
    p = G.Program("mips32", [("org", 0x1000), ("label", "main"), ("jal", "f"), ("nop",)])
    text = w(J, 0, 0x03e00008, 0x24020007)
    good = G.Obj(text=text, syms=[G.Sym("f", 0, 8), G.Sym("g", 8, 8)], rels=[(0, 2, G.R_MIPS_26)])
    elf = G.write_elf(good)[0]
    fd = lambda size=8: [[G.ObjDesc([G.Fn("f", 0, size, [J, 0], {0: "g"}), G.Fn("g", 8, 8, [0x03e00008, 0x24020007], {})], None, None, None)]]
    out = []
    add = lambda n, prog, files, descs, expect, why: out.append(G.Case("fixed:%d" % n, prog, files, descs, expect, why))
    # 1 truncated object (section header table cut off)
    for cut in (60, 100, 200, len(elf) - 41, len(elf) - 1):
        add(1, p, [("a.o", elf[:cut])], None, "error", "truncated at %d" % cut)
    # 2 symbol name offset outside .strtab / 3 relocation symbol index >= 2^23
    b = bytearray(elf); so = elf.find(b"\0f\0g\0")
    o2 = G.Obj(text=text, syms=[G.Sym("f", 0, 8), G.Sym("g", 8, 8)], rels=[(0, 0x800000, G.R_MIPS_26)])
    add(3, p, [("a.o", G.write_elf(o2)[0])], None, "any", "r_info = 0x80000004")
    # 4 function outside the file
    for val, size in ((0x100000, 8), (0, 0x100000), (0xfffffff8, 8), (8, 0xfffffffc)):
        o4 = G.Obj(text=text, syms=[G.Sym("f", val, size), G.Sym("g", 8, 8)], rels=[(0, 2, G.R_MIPS_26)])
        add(4, p, [("a.o", G.write_elf(o4)[0])], None, "error", "f at %#x size %#x" % (val, size))
    # 5 symbol of another section
    o5 = G.Obj(text=w(0x03e00008, 0), syms=[G.Sym("g", 0, 8), G.Sym("f", 0, 8, G.STB_GLOBAL, G.STT_OBJECT, ".data")], data=b"DATADATA")
    add(5, p, [("a.o", G.write_elf(o5)[0])], [[G.ObjDesc([G.Fn("g", 0, 8, [0x03e00008, 0], {})], None, None, None)]], "error", "f is in .data")
    # 6 size not a multiple of 4: the bytes behind the function are not linked
    o6 = G.Obj(text=w(0x24020001, 0xa5a5a5a5, 0x03e00008, 0), syms=[G.Sym("f", 0, 6), G.Sym("g", 8, 8)], rels=[])
    add(6, p, [("a.o", G.write_elf(o6)[0])], [[G.ObjDesc([G.Fn("f", 0, 6, [0x24020001, 0xa5a5a5a5], {}), G.Fn("g", 8, 8, [0x03e00008, 0], {})], None, None, None)]], "ok", "size 6")
    # 7 no CPU directive
    add(7, G.Program(None, [("org", 0x1000), ("label", "main"), ("word", "f")]), [("a.o", elf)], fd(), "error", "no CPU directive")
    # 8 more than 64 KiB of symbol name
    o8 = G.make_obj(rng, False, ["f", "c" * 70000], [], graph={"f": ["c" * 70000], "c" * 70000: []})
    add(8, p, [("a.o", o8.elf())], None, "error", "callee name of 70000 characters")
    # 9 file name without a dot
    add(9, p, [("noext", elf)], None, "any", "file name without extension")
    # 10 archive size fields
    ar = G.write_ar([("a.o", elf)], index_syms={0: ["f", "g"]})[0]
    pos = ar.find(b"a.o/")
    for fld in (b"-60", b"9999999999", b"12x", b"437"):
        bad = ar[:pos + 48] + fld.ljust(10) + ar[pos + 58:]
        add(10, p, [("lib.a", bad)], None, "error" if fld != b"437" else "any", "member size field %r" % fld)
    add(10, p, [("lib.a", ar[:pos + 30])], None, "error", "header cut off")
    # 11 source ends at an address that is not a multiple of 4
    pe = G.Program("mips32", [("org", 0x1000), ("label", "main"), ("jal", "f"), ("nop",), ("db", 1)])
    add(11, pe, [("a.o", elf)], fd(), "any", "ends at 0x1009")
    return out


def gen_cases(ctx):
    rng = ctx.rng
    cases = []
    for _ in range(ctx.scale(800, 4000)):
        cases.append(G.gen_graph_case(rng, "graph"))
    for _ in range(ctx.scale(600, 3000)):
        cases.append(G.gen_graph_case(rng, "archive", archive=True))
    for _ in range(ctx.scale(1200, 8000)):
        cases.append(G.gen_corrupt_case(rng))
    cases += edge_cases(ctx)
    cases += witness_cases()
    cases += finding_cases()
    return cases


# ---------------------------------------------------------------------------------------------------
# answers
# ---------------------------------------------------------------------------------------------------

def strip_img(ans):
    i = ans.find(" img=")
    return ans if i < 0 else ans[:i]


def parse(ans):
    d = {"raw": ans, "died": not ans.startswith("st=")}
    if d["died"]:
        return d
    for kv in ans.split(" "):
        k, _, v = kv.partition("=")
        d[k] = v
    d["st"] = int(d["st"])
    if d["st"] != 0:
        return d
    unh = lambda h: "" if h == "00" else bytes.fromhex(h).decode("latin-1")
    d["list_names"] = [] if d["list"] == "-" else [unh(x) for x in d["list"].split(",")]
    syms = []
    if d["syms"] != "-":
        for e in d["syms"].split(","):
            n, _, a = e.partition(":")
            a, _, scope = a.partition("@")
            syms.append((unh(n), int(a, 16)))
    d["sym_list"] = syms
    img = {}
    if d.get("img", "-") != "-":
        for seg in d["img"].split(";"):
            a, _, hx = seg.partition(":")
            a = int(a, 16)
            for i in range(0, len(hx), 2):
                img[a + i // 2] = int(hx[i:i + 2], 16)
    d["image"] = img
    return d


# ---------------------------------------------------------------------------------------------------
# the property, judged on one answer of the real code (independent of the Lean model)
# ---------------------------------------------------------------------------------------------------

def expected_bytes(fn, big, addr_of):
    """bytes a placed function must have; None when a callee has no address"""
    b = bytearray(fn.code(big))
    for off, tgt in fn.calls.items():
        if tgt not in addr_of:
            return None
        word = struct.unpack_from(">I" if big else "<I", b, off)[0]
        word = (word & 0xfc000000) | ((addr_of[tgt] >> 2) & MASK26)
        struct.pack_into(">I" if big else "<I", b, off, word)
    return bytes(b)


def judge(case, ans):
    """-> list of (sig, expected, what).  Only what the property text demands is flagged."""
    tag = case.kind + ":" + (case.why or "-")
    inp = case.line()[:60]
    if ans.startswith("DIED") or ans in ("MISSING", "bad-op") or ans.startswith("fault"):
        return [("C20:crash:" + case.kind, "status 0 or 1", "the real code died: " + ans[:300])]
    d = parse(ans)
    if d["died"]:
        return [("C20:protocol:" + case.kind, "st=...", ans[:200])]
    if d["st"] != 0:
        if case.expect == "ok":
            return [("C20:rejected:%s:%s" % (case.kind, d.get("stage")), "linked image",
                     "a resolvable link was refused at stage %s" % d.get("stage"))]
        return []
    if case.expect == "error":
        return [("C20:accepted:" + tag, "an error (%s)" % case.why, "status 0")]
    if case.descs is None:
        return []
    out = []
    prog = case.prog
    big = prog.big()
    labels, end, refs, cells = prog.layout()
    syms = {}
    for n, a in d["sym_list"]:
        if n in syms:
            out.append(("C20:symbol-twice:" + case.kind, "one symbol per name", "symbol %s recorded twice" % n))
        syms.setdefault(n, a)
    image = d["image"]
    # candidates: every function of every object given
    cands = {}
    for objs in case.descs:
        for o in objs:
            for f in o.fns:
                cands.setdefault(f.name, []).append(f)
    placed = [(n, a) for n, a in d["sym_list"] if n not in labels]
    chosen = {}
    # the room a placed function has: up to the next placed function / the end of the appended memory
    app_end = None
    if d.get("app", "-") not in ("-", None) and ":" in d["app"]:
        a0, _, hx = d["app"].partition(":")
        app_end = int(a0, 16) + (0 if hx == "-" else len(hx) // 2)
    starts = sorted(a for _, a in placed)
    room = {}
    for n, a in placed:
        later = [x for x in starts if x > a]
        room[n] = (later[0] if later else (app_end if app_end is not None and app_end > a else None))
        room[n] = None if room[n] is None else room[n] - a
    for n, a in placed:
        if n not in cands:
            out.append(("C20:unknown-symbol:" + case.kind, "only functions of the imports", "symbol %s is no function of any import" % n[:40]))
            continue
        if a % 4:
            out.append(("C20:unaligned:" + case.kind, "a multiple of 4", "%s placed at %#x: no jal can reach it" % (n[:40], a)))
        hit = None
        for f in sorted(cands[n], key=lambda f: -f.size):      # duplicates: the definition that fills the room
            exp = expected_bytes(f, big, syms)
            if exp is None:
                continue
            if len(cands[n]) > 1 and room.get(n) is not None and ((f.size + 3) & ~3) != room[n]:
                continue
            got = bytes(image.get((a + i) & 0xffffffff, 0) for i in range(len(exp)))
            present = all(((a + i) & 0xffffffff) in image for i in range(len(exp)))
            if present and got == exp:
                hit = f
                break
        if hit is None:
            f = cands[n][0]
            exp = expected_bytes(f, big, syms)
            got = bytes(image.get((a + i) & 0xffffffff, 0) for i in range(f.size))
            cls = "finding" if case.kind.startswith("finding:") else case.kind
            out.append(("C20:bytes:%s:%s" % (cls, case.kind.split(":")[-1] if cls == "finding" else "-"),
                        exp.hex() if exp else "callee without address",
                        "function %s at %#x has bytes %s" % (n[:40], a, got.hex())))
        else:
            chosen[n] = hit
            # bytes after a size that is not a multiple of 4 must not be the object's following bytes
            pad = (-hit.size) % 4
            if pad:
                tail = bytes(image.get((a + hit.size + i) & 0xffffffff, 0) for i in range(pad))
                if any(tail):
                    out.append(("C20:foreign-bytes:" + case.kind, "nothing of the object after the function's end",
                                "%s (size %d) is followed by %s" % (n[:40], hit.size, tail.hex())))
    # closure: the placed set is exactly what the program references, transitively
    roots = [n for _, _, n in refs if n not in labels]
    need, todo = [], list(roots)
    while todo:
        n = todo.pop(0)
        if n in need:
            continue
        need.append(n)
        if n in chosen:
            todo += list(chosen[n].calls.values())
    placed_names = [n for n, _ in placed]
    for n in need:
        if n not in placed_names:
            out.append(("C20:not-placed:" + case.kind, "function %s placed" % n[:40], "referenced but absent (status 0)"))
    for n in placed_names:
        if n not in need and n in cands:
            # a token of the source that is not an operand (a label being defined, a mnemonic) also counts as a
            # reference for the implementation: not flagged when the name occurs in the source text at all
            if n not in G.tokens_of(prog.source()):
                out.append(("C20:unreferenced-included:" + case.kind, "absent", "function %s is not referenced" % n[:40]))
    # placed once, regions disjoint, nothing else appended
    regions = sorted((a, a + ((chosen[n].size + 3) & ~3)) for n, a in placed if n in chosen)
    for (a0, e0), (a1, e1) in zip(regions, regions[1:]):
        if a1 < e0:
            out.append(("C20:overlap:" + case.kind, "disjoint regions", "%#x..%#x and %#x..%#x" % (a0, e0, a1, e1)))
    if len(chosen) == len(placed) and not out:
        covered = set()
        for a0, e0 in regions:
            covered.update(x & 0xffffffff for x in range(a0, e0))
        extra = [a for a in image if a not in covered and a not in cells]
        if extra:
            out.append(("C20:extra-bytes:" + case.kind, "program + placed functions only",
                        "%d more bytes in the image, first at %#x" % (len(extra), min(extra))))
    # the program's own calls
    for a, kind, n in refs:
        if n in syms and all(((a + i) & 0xffffffff) in image for i in range(4)):
            word = struct.unpack(">I" if big else "<I", bytes(image[(a + i) & 0xffffffff] for i in range(4)))[0]
            if kind == "word":
                ok = word == syms[n]
            else:
                ok = (word & MASK26) == ((syms[n] >> 2) & MASK26) and (word >> 26) == (3 if kind == "jal" else 2)
            if not ok:
                out.append(("C20:program-call:" + case.kind, "%s bound to %#x" % (n[:40], syms[n]), "word %08x at %#x" % (word, a)))
    return out


# ---------------------------------------------------------------------------------------------------
# correspondence
# ---------------------------------------------------------------------------------------------------

def run_retry(exe, lines, env):
    """run_lines; a line whose process died (or was killed from outside: other jobs share the machine) is run again
    alone, so that only a death that repeats is reported"""
    ans = nvlib.run_lines(exe, lines, env=env, timeout=600)
    again = [i for i, a in enumerate(ans) if a.startswith("DIED") or a == "MISSING"]
    if again and len(again) <= 200:
        redo = nvlib.run_lines(exe, [lines[i] for i in again], env=env, timeout=600, shards=min(8, len(again)))
        for i, a in zip(again, redo):
            ans[i] = a
    return ans


def correspondence(ctx, corr):
    cases = gen_cases(ctx)
    lines = [c.line() for c in cases]
    cp = os.path.join(nvlib.VERIF, "corpus", ID, "lines.txt")
    corpus = []
    if os.path.exists(cp):
        corpus = [l.strip() for l in open(cp) if l.strip() and not l.startswith("#")]
    all_lines = corpus + lines
    h = run_retry(ctx.harness, all_lines, None)
    m = run_retry(ctx.driver, all_lines, dict(os.environ))
    ctx.notes["cases"], ctx.notes["impl"] = cases, h[len(corpus):]
    corr["cases"] += len(all_lines)
    kinds, stages = {}, {}
    for i, (l, a, b) in enumerate(zip(all_lines, h, m)):
        k = cases[i - len(corpus)].kind.split(":")[0] if i >= len(corpus) else "corpus"
        kinds[k] = kinds.get(k, 0) + 1
        key = "ok" if a.startswith("st=0") else (a.split(" ")[1] if a.startswith("st=1") else a.split(" ")[0])
        stages[key] = stages.get(key, 0) + 1
        if i >= len(corpus) and not cases[i - len(corpus)].model:
            continue          # the source itself does not assemble: outside the link model (judged by the oracle only)
        if strip_img(a) != b:
            corr["disagreements"].append({"line": l[:20000], "impl": strip_img(a)[:3000], "model": b[:3000],
                                          "case": cases[i - len(corpus)].kind + ":" + cases[i - len(corpus)].why if i >= len(corpus) else "corpus"})
    placed = sum(1 for a in h if a.startswith("st=0") and " list=-" not in a)
    corr["streams"]["link"] = {"lines": len(all_lines), "by_stream": kinds, "impl_outcomes": stages,
                               "links_placing_functions": placed}
    corr["distinct_nontrivial"] = len(set(l for l, a in zip(all_lines, h) if a.startswith("st=1") or " list=-" not in a))
    step = max(1, len(all_lines) // 5)
    corr["samples"] = [{"case": cases[i - len(corpus)].kind if i >= len(corpus) else "corpus", "impl": strip_img(h[i])[:300],
                        "model": m[i][:300]} for i in range(0, len(all_lines), step)][:5]


# ---------------------------------------------------------------------------------------------------
# oracle
# ---------------------------------------------------------------------------------------------------

def run_exe(exe, d, case, order="src-first", otype="bin"):
    shutil.rmtree(d, ignore_errors=True)
    os.makedirs(d)
    open(os.path.join(d, "p.asm"), "wb").write(case.prog.source().encode("latin-1"))
    names = []
    for fn, data in case.files:
        open(os.path.join(d, fn), "wb").write(data)
        names.append(fn)
    outp = os.path.join(d, "p.out")
    open(outp, "wb").write(b"STALE")
    args = ["p.asm"] + names if order == "src-first" else names + ["p.asm"]
    try:
        r = subprocess.run([exe, "-l", "-type", otype, "-o", "p.out"] + args, stdout=subprocess.PIPE,
                           stderr=subprocess.PIPE, env=nvlib.SAN_ENV, timeout=60, cwd=d)
        rc, so, se = r.returncode, r.stdout.decode("latin-1"), r.stderr.decode("latin-1")
    except subprocess.TimeoutExpired:
        rc, so, se = -999, "", "timeout"
    data = open(outp, "rb").read() if os.path.exists(outp) else None
    lst = open(os.path.join(d, "p.lst"), "rb").read().decode("latin-1") if os.path.exists(os.path.join(d, "p.lst")) else ""
    shutil.rmtree(d, ignore_errors=True)
    return rc, so, se, data, lst


def oracle(ctx, orc, focus=None):
    if "cases" in ctx.notes:
        cases, impl = ctx.notes["cases"], ctx.notes["impl"]
    else:
        cases = gen_cases(ctx)
        impl = run_retry(ctx.harness, [c.line() for c in cases], None)
    stats = {"judged": 0, "ok": 0, "refused": 0, "expected_error": 0, "expected_ok": 0, "process_runs": 0}
    for c, ans in zip(cases, impl):
        orc["cases"] += 1
        stats["judged"] += 1
        stats["ok" if ans.startswith("st=0") else "refused"] += 1
        if c.expect != "any":
            stats["expected_error" if c.expect == "error" else "expected_ok"] += 1
        for sig, exp, what in judge(c, ans):
            orc["failures"].append({"sig": sig, "input": c.kind + " " + c.why + " " + c.prog.source()[:200].replace("\n", "\\n"),
                                    "expected": exp, "observed": strip_img(ans)[:400], "what": what,
                                    "replay_line": c.line()[:200000]})
    # process level: main() of the real naken_asm gives the same verdict and the same image as the in-process run
    exe = ctx.repo["naken_asm"]
    tmp = ctx.tmpdir()
    sample = [i for i, c in enumerate(cases) if c.kind in ("graph", "archive")][:ctx.scale(80, 300)]
    sample += [i for i, c in enumerate(cases) if c.kind == "corrupt"][:ctx.scale(80, 300)]
    # (not at the top of the address space: the listing's "data sections" loop does not end when the image reaches
    #  0xffffffff, with or without imports: outside this property)
    sample += [i for i, c in enumerate(cases) if c.kind.startswith("edge") and "many" not in c.kind and "long-callee" not in c.kind
               and not any(s[0] == "org" and s[1] >= 0xffff0000 for s in c.prog.stmts)]
    from concurrent.futures import ThreadPoolExecutor
    with ThreadPoolExecutor(min(8, nvlib.NPROC)) as ex:
        runs = list(ex.map(lambda t: run_exe(exe, os.path.join(tmp, "x%d" % t[0]), cases[t[1]],
                                             "src-first" if t[0] % 2 == 0 else "src-last"), enumerate(sample)))
    for n, i in enumerate(sample):
        c, ans = cases[i], impl[i]
        rc, so, se, data, lst = runs[n]
        orc["cases"] += 1
        stats["process_runs"] += 1
        sig = None
        if rc not in (0, 1):
            sig, what = "C20:process-crash:" + c.kind, "exit %d %s" % (rc, se[-300:])
        elif ans.startswith("st=") and (rc == 0) != ans.startswith("st=0"):
            if not (ans.startswith("st=1 stage=notimport")):
                sig, what = "C20:process-status:" + c.kind, "exit %d but in-process %s" % (rc, strip_img(ans)[:80])
        elif rc == 1 and data is not None and data != b"STALE":
            # (a stale file that main() never touched, because it stopped at the arguments, is C12's business)
            sig, what = "C20:process-output-written:" + c.kind, "exit 1 and an output file was written (%d bytes)" % len(data)
        elif rc == 0 and ans.startswith("st=0"):
            d = parse(ans)
            img = d["image"]
            if img:
                lo, hi = min(img), max(img)
                if hi - lo < (1 << 22):
                    want = bytes(img.get(a, 0) for a in range(lo, hi + 1))
                    if data != want:
                        sig, what = "C20:process-image:" + c.kind, "output file differs from the in-process image"
            for nme, a in d["sym_list"]:
                if len(nme) < 30 and ("%s %08x" % (nme, a)) not in " ".join(lst.split()):
                    sig, what = "C20:process-symbol:" + c.kind, "%s=%x not in the listing's symbol table" % (nme, a)
        if sig:
            orc["failures"].append({"sig": sig, "input": c.kind + " " + c.prog.source()[:200].replace("\n", "\\n"),
                                    "expected": "same verdict as the in-process run", "observed": what, "what": what,
                                    "replay_line": c.line()[:200000]})
    orc["stats"] = stats
    orc["distinct_nontrivial"] = len(set(c.line() for c, a in zip(cases, impl) if a.startswith("st=1") or " list=-" not in a))
    orc["samples"] = [{"case": cases[i].kind, "impl": strip_img(impl[i])[:300]} for i in range(0, len(cases), max(1, len(cases) // 4))][:4]


def replay(ctx, rec):
    f = rec.get("failure") or {}
    line = f.get("replay_line")
    if not line:
        return {"fails": False, "note": "no replay line recorded"}
    ans = ctx.impl([line])[0]
    mod = ctx.model([line])[0]
    return {"fails": strip_img(ans) != mod or ans.startswith("DIED"), "impl": strip_img(ans)[:1000], "model": mod[:1000],
            "note": "the record's signature says which clause of the property failed"}
